"""C08 — the Gaussian particle filter propagates beliefs and importance weights correctly.

Tie: harness/h_gpf.cpp runs the real GPFPrediction / GPFCorrection (wrapping the real KF / UKF / SUKF
steps) over a multi-step history; the Lean driver (`gpfrun`) runs the model `gpfRun` on the same
history.  The model's parameters are instantiated with what was observed on this very input:
  gp / gc : the beliefs returned by the wrapped Gaussian step run directly in C++ on the same beliefs;
  z       : the normal draws, from a twin generator advanced in lock-step;
  sq      : a witness square-root factor S (S Sᵀ = P' checked here) built from a Cholesky factor of P'
            and the rotation taking z to S₀⁻¹(x − μ'); such a rotation exists iff the Mahalanobis
            identity (x−μ')ᵀ P'⁻¹ (x−μ') = zᵀz holds, otherwise the model's position differs;
  lik / trans : the same scripted (or shipped) models, evaluated by the model on its own positions.
Oracles on the implementation (independent of the model): beliefs bit-for-bit equal to the wrapped
step's output, positions and weights untouched by prediction, Mahalanobis identity in exact rational
arithmetic, log-weight formula with an independently computed proposal density, identity on an
invalid likelihood (bit-for-bit), closed-form transition density of WhiteNoiseAcceleration, closed-form
GaussianLikelihood.
"""
import math
from fractions import Fraction

import vlib
from vlib import hexd, frac, unhex

EPS = 2.0 ** -52
DBL_MIN = 2.0 ** -1022
LOG2PI = math.log(2.0 * math.pi)
PRED_NAMES = ["KF", "UKF", "UKF-generic-StateModel"]
CORR_NAMES = ["KF", "UKF", "SUKF", "UKF-generic-MeasurementModel", "UKF-generic-online-weights"]


# ----------------------------------------------------------------------------- generation

def _spd(g, n, cond_hi, lo=-1.0, hi=0.5):
    r = g.r
    return g.spd(n, cond=10 ** r.uniform(0, cond_hi), scale=10 ** r.uniform(lo, hi))


def gen_case(g, tier, idx, base=None):
    r = g.r
    style = r.choice(["plain", "plain", "wna", "wna", "gausslik", "gausslik", "samebelief", "tiny", "zeros", "illcond",
                      "neardup", "neardup", "scale", "scale", "many", "singular", "xcond", "xcond",
                      "circular", "circular", "circular"])
    big_n = 4
    n = r.randint(1, big_n)
    k = r.randint(1, 8)
    if style == "wna":
        n = r.choice([2, 4] if tier == "quick" else [2, 4, 4, 6])
    if style == "tiny":
        n, k = r.choice([(1, 1), (1, 2), (2, 1)])
    if style == "samebelief":
        n = r.randint(1, 4)
        k = r.randint(n + 1, 8)
    if style == "many":         # batches of 16 and more (vectorised loops), and one beyond
        n = r.randint(1, 3)
        k = r.choice([16, 17, 31, 32, 33, 40])
    if style == "neardup":
        k = r.randint(2, 8)
    if style == "singular":
        n = r.randint(2, 4)
    if style == "xcond":
        n = r.randint(2, 3)
    # layout of the particle sets: ParticleSet(k, n - circ, circ), the last `circ` state rows are angles
    # (non-quaternion).  Style "circular" puts the beliefs where it matters (angular means within a few
    # standard deviations of +-pi, angles outside (-pi, pi], wide angular spreads); the other styles
    # get a circular layout now and then, as an orthogonal dimension.
    circ = 0
    wide = False
    if style == "circular":
        lin, circ = r.choice([(1, 1), (1, 1), (0, 1), (2, 1), (1, 2), (0, 2), (3, 1), (2, 2), (0, 3)])
        n = lin + circ
    elif style in ("plain", "gausslik", "samebelief", "tiny", "zeros", "neardup", "many", "wna") and r.random() < 0.2:
        circ = r.randint(1, n)
    m = r.randint(1, 3)
    pred_kind = r.choice([0, 1, 2])          # KF, UKF over an additive model, UKF over a generic StateModel
    corr_kind = r.choice([0, 1, 2, 3, 4])    # KF, UKF additive, SUKF, UKF generic MeasurementModel (4: online weights)
    alpha, beta, kappa = r.choice([(1.0, 2.0, 0.0), (1.0, 2.0, 1.0), (0.75, 2.0, 0.0), (1.0, 0.0, 0.5)])
    sub = r.choice([d for d in (1, 2, 3) if m % d == 0])
    seed = r.randint(0, 2 ** 32 - 1) if r.random() < 0.75 else r.choice([0, 1, 1, 2 ** 32 - 1])
    if base is not None:
        # a further segment of the same history: same objects, hence same dimensions and configuration;
        # another number of particles
        style = "gausslik" if base["shipped_lik"] else "plain"
        n, m, pred_kind, corr_kind, sub, seed = base["n"], base["m"], base["pred_kind"], base["corr_kind"], base["sub"], base["seed"]
        circ = base.get("circ", 0)
        if base["style"] == "circular":
            style = "circular"
        alpha, beta, kappa = base["alpha"], base["beta"], base["kappa"]
        k = base.get("force_k") or r.choice([x for x in (1, 2, 3, 5, 8, 12) if x != base["k"]])
    F = g.mat(n, n, -1.0, 1.0)
    if r.random() < 0.3:
        F = [[(1.0 if i == j else (0.5 if j == i + 1 else 0.0)) for j in range(n)] for i in range(n)]
    Q = _spd(g, n, 2)
    H = g.mat(m, n, -1.5, 1.5)
    def new_R():
        if sub == m or corr_kind != 2:
            return _spd(g, m, 2)
        Rb = [[0.0] * m for _ in range(m)]      # serial UKF with sub-blocks: block-diagonal noise
        for b0 in range(0, m, sub):
            B = _spd(g, sub, 1)
            for i in range(sub):
                for j in range(sub):
                    Rb[b0 + i][b0 + j] = B[i][j]
        return Rb

    def new_F():
        if style == "circular" and r.random() < 0.5:
            # angles carried over (nearly) unchanged: the predicted angular means stay near +-pi
            return [[(1.0 if i == j else (r.choice([0.0, 0.0, 0.125, -0.25]) if j < i else 0.0)) for j in range(n)] for i in range(n)]
        if r.random() < 0.3:
            return [[(1.0 if i == j else (0.5 if j == i + 1 else 0.0)) for j in range(n)] for i in range(n)]
        return g.mat(n, n, -1.0, 1.0)

    def new_trans():
        return {"A": g.mat(n, n, -1.0, 1.0), "b": g.vec(n, -1, 1),
                "c": (0.0 if (style == "zeros" and r.random() < 0.5) else r.uniform(0.05, 3.0))}
    R = new_R()
    exo = (r.random() < 0.4 and pred_kind != 2) if base is None else base["exo"]
    vary = r.random() < 0.75          # models change from step to step (same sizes)
    cond_hi = 5.5 if style == "illcond" else 2.5
    if style == "samebelief":
        mu = g.vec(n, -2, 2)
        P = _spd(g, n, cond_hi)
        means = [list(mu) for _ in range(k)]
        covs = [[list(row) for row in P] for _ in range(k)]
    else:
        means = [g.vec(n, -2, 2) for _ in range(k)]
        covs = [_spd(g, n, cond_hi) for _ in range(k)]
    if style == "xcond":
        # positive definite but extremely anisotropic beliefs (variance ratios 1e8 .. 1e11, e.g. position
        # variance 1e4 next to heading variance 1e-6): every direction, however weak, must still be sampled
        covs = []
        for i in range(k):
            if r.random() < 0.5:
                covs.append(g.spd(n, cond=10 ** r.uniform(8, 10.5 if n == 2 else 9.5), scale=10 ** r.uniform(-1, 4)))
            else:
                d = [10 ** r.uniform(2, 4)] + [10 ** r.uniform(-7, -5) for _ in range(n - 1)]
                r.shuffle(d)
                U = g.orth(n) if r.random() < 0.5 else [[float(a == b) for b in range(n)] for a in range(n)]
                A = [[sum(U[c][a] * d[c] * U[c][b] for c in range(n)) for b in range(n)] for a in range(n)]
                for a in range(n):
                    for b in range(a):
                        A[a][b] = A[b][a]
                covs.append(A)
    if style == "singular":
        # exactly representable, exactly singular PSD covariances B B^T (rank < n), per particle
        covs = []
        for i in range(k):
            rk = r.randint(1, n - 1)
            B = [[r.randint(-4, 4) / 2.0 for _ in range(rk)] for _ in range(n)]
            covs.append([[sum(B[a][c] * B[b][c] for c in range(rk)) for b in range(n)] for a in range(n)])
        means = [[g.dyadic(-2, 2, 3) for _ in range(n)] for _ in range(k)]
    if style == "circular":
        F = new_F()
        # "wide": angular standard deviations of 1.4 .. 3 rad, so that draws land more than pi away from their
        # own mean (where a wrapped difference x - mu' differs from the plain one); the wrapped correction is
        # then skipped in half of the corrections so that the drawn-from covariance stays that wide
        wide = r.random() < 0.3
        means, covs = circular_beliefs(g, n, k, circ, wide)
    states = [[means[i][j] + r.uniform(-1, 1) for j in range(n)] for i in range(k)]
    if style == "circular":
        # previous positions: angles anywhere, also (far) outside (-pi, pi]
        for i in range(k):
            for j in range(n - circ, n):
                if r.random() < 0.4:
                    states[i][j] += 2 * math.pi * r.choice([-2, -1, 1, 2])
    if style == "neardup":
        # consecutive particles equal, or equal up to a tiny relative perturbation (along one direction)
        for i in range(1, k):
            if r.random() < 0.7:
                mode = r.choice(["equal", "tiny-belief", "tiny-state", "weak-direction"])
                means[i] = list(means[i - 1]); covs[i] = [list(row) for row in covs[i - 1]]; states[i] = list(states[i - 1])
                d = r.choice([1e-13, 1e-10, 1e-7])
                if mode == "tiny-belief":
                    means[i] = [v * (1 + d) for v in means[i]]
                    covs[i] = [[v * (1 + d) for v in row] for row in covs[i]]
                elif mode == "tiny-state":
                    states[i] = [v * (1 + d) for v in states[i]]
                elif mode == "weak-direction":
                    j = r.randrange(n)
                    covs[i][j][j] *= (1 + d); means[i][j] += d
    weights = [r.uniform(-6.0, 0.0) for _ in range(k)]
    if style == "zeros":
        weights[0] = 0.0
    # transition density
    if style == "wna" or (style == "circular" and n in (2, 4) and r.random() < 0.3):
        trans = {"kind": 1, "T": r.choice([0.5, 1.0, 2.0]), "q": r.choice([4.0, 10.0, 30.0])}
    else:
        trans = {"kind": 0}
    if base is not None:
        trans = dict(base["trans"])
    cur_tr = new_trans()
    # history
    nsteps = r.randint(3, 6) if style != "tiny" else r.randint(1, 4)
    pat = r.choice(["alt-P", "alt-C", "random"])
    kinds = []
    for s in range(nsteps):
        if style == "samebelief" and s == 0:
            kinds.append("C")
        elif pat == "alt-P":
            kinds.append("PC"[s % 2])
        elif pat == "alt-C":
            kinds.append("CP"[s % 2])
        else:
            kinds.append(r.choice("PCC"))
    if "C" not in kinds:
        kinds[-1] = "C"
    shipped_lik = (style == "gausslik") or (style == "circular" and r.random() < 0.3)
    if base is not None:
        shipped_lik = base["shipped_lik"]
    lik_scale = r.choice([1.0, 1.0, 0.5, 3.0]) if base is None else base["lik_scale"]
    steps = []
    for s, kd in enumerate(kinds):
        skip = (r.random() < (0.6 if (style == "xcond" and kd == "C") else (0.5 if (style == "circular" and wide and kd == "C") else 0.12))) and not (style == "samebelief" and s == 0)
        st = {"kind": kd, "skip": skip}
        if kd == "P":
            if vary and r.random() < 0.7:
                F, Q = new_F(), _spd(g, n, 2)
            st["F"], st["Q"] = F, Q
            st["hand"] = r.choice([1, 2]) if (s > 0 and "P" in kinds[:s] and r.random() < 0.2) else 0
            if exo:
                st["exo_skip"] = r.random() < 0.3
                st["G"] = g.mat(n, n, -0.5, 0.5) if r.random() < 0.7 else [[0.0] * n for _ in range(n)]
                st["g"] = g.vec(n, -1.5, 1.5)
        if kd == "C":
            if vary and r.random() < 0.7:
                H, R = g.mat(m, n, -1.5, 1.5), new_R()
            if vary and r.random() < 0.7:
                cur_tr = new_trans()
            st["H"], st["R"] = H, R
            st["inplace"] = r.random() < 0.15
            if trans["kind"] == 0:
                st["trans"] = cur_tr
            xs = g.vec(n, -2, 2)
            if style == "circular":
                # a measurement compatible with the beliefs: the corrected angular means stay near +-pi
                xs = [v + r.uniform(-0.5, 0.5) for v in means[r.randrange(k)]]
            st["y"] = [sum(H[i][j] * xs[j] for j in range(n)) + r.uniform(-0.5, 0.5) for i in range(m)]
            st["valid"] = not (r.random() < 0.18) or (style == "samebelief" and s == 0)
            st["move"] = r.choice([1, 2]) if (s > 0 and "C" in kinds[:s] and r.random() < 0.2) else 0
            if shipped_lik:
                st["lik"] = {"kind": 2, "scale": lik_scale, "fail": 0}
                if r.random() < 0.2 and not (style == "samebelief" and s == 0):
                    # a call of the measurement model fails: the likelihood turns invalid from inside
                    st["lik"]["fail"] = r.randint(1, 4)
                    st["front_valid"], st["valid"] = True, False
            elif r.random() < 0.5:
                l = [r.uniform(0.01, 2.0) for _ in range(k)]
                if style == "zeros":
                    l[r.randrange(k)] = 0.0
                    if k > 1:
                        l[r.randrange(k)] = 1e-300
                st["lik"] = {"kind": 0, "l": l}
            else:
                st["lik"] = {"kind": 1, "c": [r.uniform(0.05, 3.0) for _ in range(k)], "a": g.vec(n, -2, 2)}
        steps.append(st)
    if style == "singular":
        # one correction whose wrapped step is skipped: the draw uses the singular covariance itself
        cs = [st for st in steps if st["kind"] == "C"][:1]
        cs[0].update(skip=True, valid=True, inplace=False, move=0)
        cs[0].pop("front_valid", None)
        if cs[0]["lik"]["kind"] == 2:
            cs[0]["lik"]["fail"] = 0
        steps = cs
    if style == "many":
        steps = steps[:3]
        if not any(st["kind"] == "C" and st["valid"] for st in steps):
            for st in steps:
                if st["kind"] == "C":
                    st["valid"] = True
                    st.pop("front_valid", None)
                    if st["lik"]["kind"] == 2:
                        st["lik"]["fail"] = 0
    meta = dict(style=style, n=n, k=k, m=m, seed=seed, pred_kind=pred_kind, corr_kind=corr_kind,
                alpha=alpha, beta=beta, kappa=kappa, sub=sub, exo=exo, circ=circ, trans=trans, shipped_lik=shipped_lik, lik_scale=lik_scale,
                states=states, means=means, covs=covs, weights=weights, steps=steps)
    if style == "scale":
        rescale(meta, 10.0 ** r.choice([-9, -6, -3, 3, 6, 9]) * r.uniform(1.0, 3.0))
    if base is not None:
        return None, meta
    if style in ("plain", "gausslik", "neardup", "zeros", "circular") and r.random() < 0.4:
        # the same objects go on with particle sets of other sizes (non-monotone: k, k', sometimes k again)
        segs = [gen_case(g, tier, idx, base=meta)[1]]
        if r.random() < 0.5:
            segs.append(gen_case(g, tier, idx, base=(dict(meta, force_k=meta["k"]) if r.random() < 0.5 else meta))[1])
        meta["segments"] = segs
    return harness_line(meta), meta


def circular_beliefs(g, n, k, circ, wide=False):
    """beliefs of a (n - circ linear, circ circular) particle set whose angular part sits where the circle
    closes: angular means within a few standard deviations of +-pi (either side of the cut, also beyond
    it, i.e. outside (-pi, pi]), now and then whole turns away, angular standard deviations 0.05 .. 2.5"""
    r = g.r
    means, covs = [], []
    side = r.choice([1.0, -1.0])
    for i in range(k):
        P = g.spd(n, cond=10 ** r.uniform(0, 2.5), scale=10 ** r.uniform(-1.5, 0.8))
        if wide:
            P = g.spd(n, cond=10 ** r.uniform(0, 0.5), scale=10 ** r.uniform(0.3, 0.95))
        mu = g.vec(n, -2, 2)
        for j in range(n - circ, n):
            sd = math.sqrt(P[j][j])
            sgn = side if r.random() < 0.8 else -side
            mu[j] = sgn * math.pi + r.uniform(-2.5, 2.5) * sd * r.random()
            if r.random() < 0.15:
                mu[j] += 2 * math.pi * r.choice([-2, -1, 1, 3])
            if r.random() < 0.05:
                mu[j] = sgn * math.pi          # exactly the double nearest to +-pi
        means.append(mu); covs.append(P)
    return means, covs


def rescale(M, sc):
    """the same problem in other units: lengths times sc (covariances sc^2); everything the property
    constrains is scale-free, so nothing in the code may depend on absolute magnitudes"""
    M["scale"] = sc
    M["states"] = [[v * sc for v in x] for x in M["states"]]
    M["means"] = [[v * sc for v in x] for x in M["means"]]
    M["covs"] = [[[v * sc * sc for v in row] for row in P] for P in M["covs"]]
    if M["trans"]["kind"] == 1:
        M["trans"]["q"] *= sc * sc
    for st in M["steps"]:
        if st["kind"] == "P":
            st["Q"] = [[v * sc * sc for v in row] for row in st["Q"]]
            if "g" in st:
                st["g"] = [v * sc for v in st["g"]]
        else:
            st["R"] = [[v * sc * sc for v in row] for row in st["R"]]
            st["y"] = [v * sc for v in st["y"]]
            if "trans" in st:
                st["trans"] = dict(st["trans"], b=[v * sc for v in st["trans"]["b"]])
            if st["lik"]["kind"] == 1:
                st["lik"] = dict(st["lik"], a=[v * sc for v in st["lik"]["a"]])


def _set_tokens(n, k, states, means, covs, weights):
    t = [hexd(states[i][j]) for i in range(k) for j in range(n)]
    t += [hexd(means[i][j]) for i in range(k) for j in range(n)]
    t += [hexd(covs[i][r_][c]) for i in range(k) for c in range(n) for r_ in range(n)]
    t += [hexd(w) for w in weights]
    return t


def harness_line(M):
    n, k, m = M["n"], M["k"], M["m"]
    t = ["gpfh", str(n), str(k), str(m), str(M["seed"]), str(M["pred_kind"]), str(M["corr_kind"]),
         hexd(M["alpha"]), hexd(M["beta"]), hexd(M["kappa"]), str(M["sub"])]
    tr = M["trans"]
    t += ["1" if M["exo"] else "0", str(int(M.get("circ", 0)))]
    t += ["0"] if tr["kind"] == 0 else ["1", hexd(tr["T"]), hexd(tr["q"])]
    t += _seg_tokens(M, M)
    for S2 in M.get("segments", []):
        t += ["R", str(S2["k"])] + _seg_tokens(M, S2)
    return " ".join(t)


def _seg_tokens(M, S2):
    """tokens of one segment (particle set + steps); M carries the configuration shared by all segments"""
    n, k, m = M["n"], S2["k"], M["m"]
    tr = M["trans"]
    t = _set_tokens(n, k, S2["states"], S2["means"], S2["covs"], S2["weights"])
    t.append(str(len(S2["steps"])))
    for st in S2["steps"]:
        t += [st["kind"], "1" if st["skip"] else "0"]
        if st["kind"] == "P":
            t += [str(int(st.get("hand", 0)))]
            t += vlib.fmt_mat_cm(st["F"]) + vlib.fmt_mat_cm(st["Q"])
            if M["exo"]:
                t += ["1" if st["exo_skip"] else "0"] + vlib.fmt_mat_cm(st["G"]) + [hexd(v) for v in st["g"]]
        if st["kind"] == "C":
            t += [str(int(st.get("move", 0))), "1" if st.get("inplace") else "0"]
            t += vlib.fmt_mat_cm(st["H"]) + vlib.fmt_mat_cm(st["R"])
            if tr["kind"] == 0:
                t += vlib.fmt_mat_cm(st["trans"]["A"]) + [hexd(v) for v in st["trans"]["b"]] + [hexd(st["trans"]["c"])]
            t += [hexd(v) for v in st["y"]] + ["1" if st.get("front_valid", st["valid"]) else "0"]
            lk = st["lik"]
            if lk["kind"] == 0:
                t += ["0"] + [hexd(v) for v in lk["l"]]
            elif lk["kind"] == 1:
                t += ["1"] + [hexd(v) for v in lk["c"]] + [hexd(v) for v in lk["a"]]
            else:
                t += ["2", hexd(lk["scale"]), str(int(lk.get("fail", 0)))]
    return t


# ----------------------------------------------------------------------------- parsing

class PSetHex:
    """a particle set as hex tokens (column-major), with float / Fraction views"""

    def __init__(self, toks, n, k):
        self.n, self.k = n, k
        p = 0
        self.states = toks[p:p + n * k]; p += n * k
        self.means = toks[p:p + n * k]; p += n * k
        self.covs = toks[p:p + n * n * k]; p += n * n * k
        self.weights = toks[p:p + k]; p += k
        self.size = p

    def tokens(self):
        return self.states + self.means + self.covs + self.weights

    def state(self, i, conv=unhex):
        return [conv(x) for x in self.states[i * self.n:(i + 1) * self.n]]

    def mean(self, i, conv=unhex):
        return [conv(x) for x in self.means[i * self.n:(i + 1) * self.n]]

    def cov(self, i, conv=unhex):
        n = self.n
        return vlib.mat_from_cm(self.covs[i * n * n:(i + 1) * n * n], n, n, conv)

    def weight(self, i, conv=unhex):
        return conv(self.weights[i])


def set_size(n, k):
    return 2 * n * k + n * n * k + k


def segments_of(M):
    """[(segment description with the shared configuration filled in)] — the first segment is M itself"""
    out = [M]
    for S2 in M.get("segments", []):
        out.append(dict(M, k=S2["k"], states=S2["states"], means=S2["means"], covs=S2["covs"], weights=S2["weights"],
                        steps=S2["steps"], style=M["style"], segments=[]))
    return out


def parse_harness(M, out):
    """-> one dict per segment: dict(wnaF, wnaQ, steps=[dict(set, dmeans, dcovs, same, zraw, calls, valid, l, t, gvalid, gl)])"""
    n = M["n"]
    t = out.split()
    if not t or t[0] != "ok":
        return None
    p = 1
    results = []
    try:
        wna = {}
        if M["trans"]["kind"] == 1:
            wna["wnaF"] = vlib.mat_from_cm(t[p:p + n * n], n, n, unhex); p += n * n
            wna["wnaQ"] = vlib.mat_from_cm(t[p:p + n * n], n, n, unhex); p += n * n
        for si, S2 in enumerate(segments_of(M)):
            k = S2["k"]
            if si > 0:
                if t[p] != "R":
                    return None
                p += 1
            res = dict(wna, steps=[])
            for st in S2["steps"]:
                d = {}
                d["set"] = PSetHex(t[p:p + set_size(n, k)], n, k); p += set_size(n, k)
                if len(d["set"].tokens()) != set_size(n, k):
                    return None
                d["dmeans"] = t[p:p + n * k]; p += n * k
                d["dcovs"] = t[p:p + n * n * k]; p += n * n * k
                d["same"] = t[p]; p += 1
                if st["kind"] == "C":
                    d["zraw"] = t[p:p + n * k]; p += n * k
                    d["calls"] = int(t[p]); p += 1
                    d["decoy_calls"] = int(t[p]); p += 1
                    if t[p] == "lik":
                        d["valid"] = True; p += 1
                        cnt = int(t[p]); p += 1
                        d["l"] = t[p:p + cnt]; p += cnt
                        cnt = int(t[p]); p += 1
                        d["t"] = t[p:p + cnt]; p += cnt
                    elif t[p] == "nolik":
                        d["valid"] = False; p += 1
                    else:
                        return None
                    d["gvalid"] = (t[p] == "glik"); p += 1
                    cnt = int(t[p]); p += 1
                    d["gl"] = t[p:p + cnt]; p += cnt
                res["steps"].append(d)
            results.append(res)
    except (IndexError, ValueError):
        return None
    if p != len(t):
        return None
    return results


# ----------------------------------------------------------------------------- numeric helpers

fh = vlib.frac_of_hex


def fr(x):
    return Fraction(x)


def det_frac(A):
    n = len(A)
    Mx = [[Fraction(x) for x in row] for row in A]
    d = Fraction(1)
    for c in range(n):
        p = next((r for r in range(c, n) if Mx[r][c] != 0), None)
        if p is None:
            return Fraction(0)
        if p != c:
            Mx[c], Mx[p] = Mx[p], Mx[c]
            d = -d
        d *= Mx[c][c]
        for r in range(c + 1, n):
            f = Mx[r][c] / Mx[c][c]
            if f:
                Mx[r] = [a - f * b for a, b in zip(Mx[r], Mx[c])]
    return d


def log_frac(q):
    """log of a positive Fraction of any magnitude"""
    n, d = q.numerator, q.denominator
    sn, sd = max(0, n.bit_length() - 900), max(0, d.bit_length() - 900)
    return math.log(n >> sn) + sn * math.log(2) - math.log(d >> sd) - sd * math.log(2)


def _int_det(A):
    n = len(A)
    if n == 0:
        return 1
    if n == 1:
        return A[0][0]
    if n == 2:
        return A[0][0] * A[1][1] - A[0][1] * A[1][0]
    tot = 0
    for j in range(n):
        if A[0][j] == 0:
            continue
        minor = [row[:j] + row[j + 1:] for row in A[1:]]
        tot += (-1 if j % 2 else 1) * A[0][j] * _int_det(minor)
    return tot


def _scaled_ints(vals):
    """doubles / dyadic Fractions -> (integers, e) with value = integer / 2^e"""
    rs = [Fraction(v) for v in vals]
    e = max([r.denominator.bit_length() - 1 for r in rs] + [0])
    return [r.numerator << (e - (r.denominator.bit_length() - 1)) for r in rs], e


def gauss_logpdf_exact(d, P):
    """log N(d; 0, P) with exact quadratic form and determinant (integer adjugate, no gcds);
    returns (logpdf, quad, cond, Pinv) or None"""
    n = len(d)
    flat, e = _scaled_ints([P[i][j] for i in range(n) for j in range(n)])
    A = [flat[i * n:(i + 1) * n] for i in range(n)]
    detA = _int_det(A)
    if detA <= 0:
        return None
    adj = [[0] * n for _ in range(n)]
    for i in range(n):
        for j in range(n):
            minor = [row[:j] + row[j + 1:] for r_, row in enumerate(A) if r_ != i]
            adj[j][i] = (-1 if (i + j) % 2 else 1) * _int_det(minor)
    dv, ed = _scaled_ints(d)
    num = sum(dv[i] * adj[i][j] * dv[j] for i in range(n) for j in range(n))
    # P = A / 2^e, P^-1 = adj * 2^e / detA, d = dv / 2^ed
    quad = Fraction(num << e, detA << (2 * ed)) if n > 0 else Fraction(0)
    det = Fraction(detA, 1 << (e * n))
    Pinv = [[(adj[i][j] / detA) * (2.0 ** e) if e < 1000 else float(Fraction(adj[i][j] << e, detA)) for j in range(n)] for i in range(n)]
    cond = max(1.0, vlib.fnorm(P) * n * vlib.fnorm(Pinv) * n)
    return -0.5 * (n * LOG2PI + log_frac(det) + float(quad)), quad, cond, Pinv


def nullspace_frac(A):
    """basis of the kernel of a square matrix of doubles, exact (rational row reduction)"""
    n = len(A)
    Mx = [[Fraction(x) for x in row] for row in A]
    piv, rrow = [], 0
    for c in range(n):
        p = next((r_ for r_ in range(rrow, n) if Mx[r_][c] != 0), None)
        if p is None:
            continue
        Mx[rrow], Mx[p] = Mx[p], Mx[rrow]
        pv = Mx[rrow][c]
        Mx[rrow] = [x / pv for x in Mx[rrow]]
        for r_ in range(n):
            if r_ != rrow and Mx[r_][c] != 0:
                f = Mx[r_][c]
                Mx[r_] = [a - f * b for a, b in zip(Mx[r_], Mx[rrow])]
        piv.append(c); rrow += 1
    basis = []
    for fc in [c for c in range(n) if c not in piv]:
        w = [Fraction(0)] * n
        w[fc] = Fraction(1)
        for r_, c in enumerate(piv):
            w[c] = -Mx[r_][fc]
        basis.append(w)
    return basis


def safe_exp(x):
    return math.exp(x) if x > -745.0 else 0.0


def cholesky(P):
    n = len(P)
    L = [[0.0] * n for _ in range(n)]
    for j in range(n):
        s = P[j][j] - sum(L[j][p] ** 2 for p in range(j))
        if not (s > 0.0):
            return None
        L[j][j] = math.sqrt(s)
        for i in range(j + 1, n):
            L[i][j] = (P[i][j] - sum(L[i][p] * L[j][p] for p in range(j))) / L[j][j]
    return L


def witness_sqrt(P, v, z):
    """S (floats) with S Sᵀ ≈ P (Cholesky factor times a reflection) and S z ≈ v·(|z|/|S₀⁻¹v|).
    Returns (S, relative contract error) or None when P is not numerically PD."""
    n = len(P)
    v = [float(a) for a in v]
    z = [float(a) for a in z]
    Ps = [[0.5 * (P[i][j] + P[j][i]) for j in range(n)] for i in range(n)]
    L = cholesky(Ps)
    if L is None:
        return None
    u = [0.0] * n
    for i in range(n):
        u[i] = (v[i] - sum(L[i][p] * u[p] for p in range(i))) / L[i][i]
    nu2 = math.fsum(a * a for a in u)
    nz2 = math.fsum(a * a for a in z)
    O = [[float(i == j) for j in range(n)] for i in range(n)]
    if nu2 > 0 and nz2 > 0:
        # orthogonal O with O z = u' := u |z|/|u|: the reflection about z - u', or minus the reflection
        # about z + u' -- whichever direction is the longer one (never shorter than |z| sqrt 2)
        ratio = math.sqrt(nz2 / nu2)
        wm = [a - b * ratio for a, b in zip(z, u)]
        wp = [a + b * ratio for a, b in zip(z, u)]
        nm, np_ = math.fsum(a * a for a in wm), math.fsum(a * a for a in wp)
        if np_ >= nm:
            O = [[-(float(i == j) - 2 * wp[i] * wp[j] / np_) for j in range(n)] for i in range(n)]
        else:
            O = [[float(i == j) - 2 * wm[i] * wm[j] / nm for j in range(n)] for i in range(n)]
    S = [[math.fsum(L[i][p] * O[p][j] for p in range(n)) for j in range(n)] for i in range(n)]
    nP = max(vlib.fnorm(P), 1e-300)
    err = max(abs(math.fsum(S[i][p] * S[j][p] for p in range(n)) - P[i][j]) for i in range(n) for j in range(n)) / nP
    return S, err


def ldlt_perm_involutive(P):
    """emulate the pivoting of Eigen's LDLT (largest remaining diagonal) in floats; is the permutation an involution?"""
    n = len(P)
    A = [list(row) for row in P]
    perm = list(range(n))
    for c in range(n):
        p = max(range(c, n), key=lambda i: abs(A[i][i]))
        if p != c:
            A[c], A[p] = A[p], A[c]
            for row in A:
                row[c], row[p] = row[p], row[c]
            perm[c], perm[p] = perm[p], perm[c]
        d = A[c][c]
        if d == 0.0:
            break
        for i in range(c + 1, n):
            f = A[i][c] / d
            for j in range(c + 1, n):
                A[i][j] -= f * A[c][j]
    return all(perm[perm[i]] == i for i in range(n)), perm != list(range(n))


def wna_FQ(n, T, q):
    F2 = [[1.0, T], [0.0, 1.0]]
    Q2 = [[q * (1.0 / 3.0 * T ** 3.0), q * (0.5 * T ** 2.0)], [q * (0.5 * T ** 2.0), q * T]]
    F = [[0.0] * n for _ in range(n)]
    Q = [[0.0] * n for _ in range(n)]
    for b in range(n // 2):
        for i in range(2):
            for j in range(2):
                F[2 * b + i][2 * b + j] = F2[i][j]
                Q[2 * b + i][2 * b + j] = Q2[i][j]
    return F, Q


# ----------------------------------------------------------------------------- driver line

def driver_line(M, H_, wit, zarr):
    """wit[s][i] = witness S of particle i at correction step s; zarr[s] = the draws arranged per particle"""
    n, k, m = M["n"], M["k"], M["m"]
    t = ["gpfrun", str(n), str(k), str(m), hexd(DBL_MIN)]
    t += _set_tokens(n, k, M["states"], M["means"], M["covs"], M["weights"])
    t.append(str(len(M["steps"])))
    for s, (st, hs) in enumerate(zip(M["steps"], H_["steps"])):
        t += [st["kind"], "1" if st["skip"] else "0"] + hs["dmeans"] + hs["dcovs"]
        if st["kind"] == "C":
            t.append(str(int(st.get("move", 0))))
            for i in range(k):
                t += vlib.fmt_mat_cm(wit[s][i])
            t += zarr[s]
            t.append("1" if st.get("front_valid", st["valid"]) else "0")
            lk = st["lik"]
            if lk["kind"] == 0:
                t += ["0"] + [hexd(v) for v in lk["l"]]
            elif lk["kind"] == 1:
                t += ["1"] + [hexd(v) for v in lk["c"]] + [hexd(v) for v in lk["a"]]
            else:
                fl = int(lk.get("fail", 0))
                t += ["2", hexd(lk["scale"])] + ["0" if fl == j else "1" for j in (1, 2, 3, 4)] + vlib.fmt_mat_cm(st["H"]) + vlib.fmt_mat_cm(st["R"]) + [hexd(v) for v in st["y"]]
            tr = M["trans"]
            if tr["kind"] == 0:
                t += ["0"] + vlib.fmt_mat_cm(st["trans"]["A"]) + [hexd(v) for v in st["trans"]["b"]] + [hexd(st["trans"]["c"])]
            elif H_.get("wna_closed_form"):   # the model builds F and Q itself from (T, q~)
                t += ["1", hexd(tr["T"]), hexd(tr["q"])]
            else:   # the shipped model's own F and Q differ from the closed form (property C16, not decided here)
                t += ["2"] + vlib.fmt_mat_cm(H_["wnaF"]) + vlib.fmt_mat_cm(H_["wnaQ"])
    return " ".join(t)


def parse_driver(M, out):
    n, k = M["n"], M["k"]
    t = out.split()
    if not t or t[0] != "ok":
        return None
    sz = set_size(n, k)
    if len(t) != 1 + sz * len(M["steps"]):
        return None
    sets = []
    for s in range(len(M["steps"])):
        c = t[1 + s * sz:1 + (s + 1) * sz]
        sets.append([frac(x) for x in c])
    return sets


# ----------------------------------------------------------------------------- the oracles

class Acc:
    def __init__(self):
        self.prop, self.corr = [], []
        self.stats = {}
        self.hist = {}

    def mx(self, key, v):
        self.stats[key] = max(self.stats.get(key, 0.0), float(v))

    def hit(self, key, c=1):
        self.hist[key] = self.hist.get(key, 0) + c


UNDERFLOW_LOG = -700.0     # below this the true density is (sub)denormal: exp() may return 0 or a clamped tiny value


def arrange(zraw, n, k, order):
    """the n*k draws of a step, per particle"""
    if order == "particle-major":
        return [zraw[i * n:(i + 1) * n] for i in range(k)]
    return [[zraw[j * k + i] for j in range(n)] for i in range(k)]      # row-major fill of an n×k matrix


def analyse(M, Hh, acc):
    """Evaluate the property's predicates on the implementation's output; build the witness factors.
    Returns (wit, tols, zarr): per correction step the witness factors, the tolerances for the model
    comparison, and the draws arranged per particle (hex, column-major n×k)."""
    n, k, m = M["n"], M["k"], M["m"]
    circ = int(M.get("circ", 0))
    prop = acc.prop

    def outside(v):
        return not (-math.pi < float(v) <= math.pi)
    prev = PSetHex(_set_tokens(n, k, M["states"], M["means"], M["covs"], M["weights"]), n, k)
    wit, tols, zarr = {}, {}, {}
    tr = M["trans"]
    if tr["kind"] == 1:
        F, Q = Hh["wnaF"], Hh["wnaQ"]
        Fc, Qc = wna_FQ(n, tr["T"], tr["q"])
        dF = max(abs(F[i][j] - Fc[i][j]) for i in range(n) for j in range(n))
        dQ = max(abs(Q[i][j] - Qc[i][j]) / max(abs(Qc[i][j]), 1e-300) for i in range(n) for j in range(n))
        Hh["wna_closed_form"] = not (dF > 0 or dQ > 8 * EPS)
        if not Hh["wna_closed_form"]:
            acc.hit("note:wna-F-or-Q-not-closed-form (property C16, not decided here)")
        Ff = [[Fraction(x) for x in row] for row in F]
    for s, (st, hs) in enumerate(zip(M["steps"], Hh["steps"])):
        cur = hs["set"]
        tag = "step %d (%s%s)" % (s, st["kind"], ",skip" if st["skip"] else "")
        acc.hit("step:" + st["kind"])
        if st["skip"]:
            acc.hit("wrapped-skip:" + st["kind"])
        if hs["same"] != "in-same":
            acc.hit("note:input-set-modified")
        invalid = (st["kind"] == "C" and not st["valid"])
        # ---- clause: beliefs exactly as the wrapped Gaussian step would produce them
        if not invalid:
            if cur.means != hs["dmeans"] or cur.covs != hs["dcovs"]:
                bad = [i for i in range(k) if cur.means[i * n:(i + 1) * n] != hs["dmeans"][i * n:(i + 1) * n]
                       or cur.covs[i * n * n:(i + 1) * n * n] != hs["dcovs"][i * n * n:(i + 1) * n * n]]
                prop.append(("belief-not-wrapped-step", "%s: beliefs of particles %s differ from the wrapped %s step run directly on the same beliefs"
                             % (tag, bad, "prediction" if st["kind"] == "P" else "correction")))
        if M["style"] == "singular" and st["kind"] == "C":
            # singular P': there is no proposal density (the code's weights are not decided); the position
            # clause that remains is the support: x - mu' is orthogonal to the kernel of P' (gpf_sample_support)
            for i in range(k):
                P = cur.cov(i); mu = cur.mean(i, fh)
                if any(not math.isfinite(unhex(a)) for a in cur.states[i * n:(i + 1) * n]):
                    prop.append(("singular-covariance-nan-position", "%s: non-finite position for a singular positive semi-definite covariance (particle %d): "
                                 "the square root of a rounding-negative LDLT pivot" % (tag, i)))
                    continue
                x = cur.state(i, fh)
                v = [a - b for a, b in zip(x, mu)]
                vmax = max([abs(float(a)) for a in v] + [1e-300])
                for wv in nullspace_frac(P):
                    dotp = abs(float(sum(a * b for a, b in zip(v, wv))))
                    wmax = max(abs(float(a)) for a in wv)
                    # a factor built from square roots of pivots that are zero only up to rounding (eps |P'|)
                    # reaches sqrt(eps |P'|) along the kernel: the tolerance is of that order
                    tol_s = 64 * n * math.sqrt(EPS * max(vlib.fnorm(P), 1e-300)) * wmax * n + 256 * n * EPS * max(abs(float(a)) for a in mu) * wmax
                    acc.mx("support_err_over_tol", dotp / tol_s)
                    acc.hit("singular-covariance:kernel-direction-checked")
                    if dotp > tol_s:
                        prop.append(("support", "%s: particle %d: x - mu' has a component %.3g along the kernel of the singular covariance (tol %.3g): "
                                     "the position left mu' + range(P')" % (tag, i, dotp, tol_s)))
                if not math.isfinite(cur.weight(i)):
                    acc.hit("note:non-finite-log-weight-for-singular-covariance (no proposal density; not decided)")
            if cur.means != hs["dmeans"] or cur.covs != hs["dcovs"]:
                prop.append(("belief-not-wrapped-step", "%s: beliefs differ from the wrapped correction run directly" % tag))
            return None, None, None
        if any(not math.isfinite(unhex(a)) for a in hs["dmeans"] + hs["dcovs"]):
            acc.hit("note:wrapped-step-returned-non-finite-beliefs (case not decided further)")
            return None, None, None
        if st["kind"] == "C" and not invalid and circ:
            # Wrapped sigma points (angular spreads of the order of pi and more) can make the wrapped
            # unscented correction return an indefinite "covariance" P - K Py K^T: then there is no Gaussian
            # to draw from and no proposal density (log of a negative determinant) -- not decided
            # (the belief clause, above, still is).
            def _pd(P):
                Ps = [[0.5 * (P[a_][b_] + P[b_][a_]) for b_ in range(n)] for a_ in range(n)]
                return gauss_logpdf_exact([0.0] * n, P) is not None and cholesky(Ps) is not None
            if not all(_pd(vlib.mat_from_cm(hs["dcovs"][i * n * n:(i + 1) * n * n], n, n, unhex)) for i in range(k)):
                acc.hit("note:corrected-covariance-not-PD (case not decided)")
                acc.hit("circular-layout:wrapped-correction-returned-indefinite-covariance:%s" % CORR_NAMES[M["corr_kind"]])
                return None, None, None
        if any(not math.isfinite(unhex(a)) for a in cur.states + cur.weights):
            prop.append(("non-finite-output", "%s: non-finite particle position or log-weight although the beliefs are finite" % tag))
            return None, None, None
        if st["kind"] == "P":
            acc.hit("pred-wrapped:%s" % PRED_NAMES[M["pred_kind"]])
            if circ:
                acc.hit("circular-layout:prediction:%s" % PRED_NAMES[M["pred_kind"]])
                if any(outside(prev.state(i)[j]) for i in range(k) for j in range(n - circ, n)):
                    acc.hit("circular-layout:prediction-with-position-angle-outside(-pi,pi]")
                if any(outside(cur.mean(i)[j]) for i in range(k) for j in range(n - circ, n)):
                    acc.hit("circular-layout:predicted-angular-mean-outside(-pi,pi]")
            if st.get("hand"):
                acc.hit("prediction-object-%s-mid-history" % ("move-constructed" if int(st["hand"]) == 1 else "move-assigned"))
            if M["exo"]:
                acc.hit("prediction-with-exogenous-model:" + ("skipped" if (st["exo_skip"] or st["skip"]) else "active"))
            # ---- clause: prediction leaves positions and weights untouched
            if cur.states != prev.states:
                prop.append(("predict-moved-state", "%s: prediction changed particle positions" % tag))
            if cur.weights != prev.weights:
                prop.append(("predict-changed-weight", "%s: prediction changed weights" % tag))
            prev = cur
            continue
        acc.hit("corr-wrapped:%s" % CORR_NAMES[M["corr_kind"]])
        if circ:
            acc.hit("circular-layout:correction:%s%s" % (CORR_NAMES[M["corr_kind"]], "" if st["valid"] else " (invalid likelihood)"))
            if n == circ:
                acc.hit("circular-layout:no-linear-component")
            if st["valid"]:
                for i in range(k):
                    for j in range(n - circ, n):
                        if outside(cur.state(i)[j]):
                            acc.hit("circular-layout:drawn-angle-outside(-pi,pi] (a wrapped draw would differ)")
                        if outside(cur.mean(i)[j]):
                            acc.hit("circular-layout:corrected-angular-mean-outside(-pi,pi]")
                        if abs(cur.state(i)[j] - cur.mean(i)[j]) > math.pi:
                            acc.hit("circular-layout:draw-more-than-pi-from-its-mean (a wrapped difference would differ)")
        Hf = [[Fraction(x) for x in row] for row in st["H"]]
        if tr["kind"] == 0:
            Af = [[Fraction(x) for x in row] for row in st["trans"]["A"]]
            bf = [Fraction(x) for x in st["trans"]["b"]]
        prevC = next((q for q in reversed(M["steps"][:s]) if q["kind"] == "C"), None)
        if prevC is not None:
            if prevC["R"] != st["R"] or prevC["H"] != st["H"]:
                acc.hit("measurement-model-changed-between-corrections" + (" (shipped GaussianLikelihood)" if st["lik"]["kind"] == 2 else ""))
            if tr["kind"] == 0 and prevC["trans"] != st["trans"]:
                acc.hit("transition-model-changed-between-corrections")
        if st.get("inplace"):
            acc.hit("correction-in-place (same object as input and output)")
        acc.hit("lik-kind:%d" % st["lik"]["kind"])
        acc.hit("trans-kind:%d" % tr["kind"])
        if st.get("move"):
            acc.hit("correction-object-%s-mid-history" % ("move-constructed" if int(st["move"]) == 1 else "move-assigned"))
        if hs.get("decoy_calls"):
            # hand-over: the moved-to object consulted the likelihood model it was configured with before
            # the assignment instead of the source's
            prop.append(("move-assign-keeps-old-likelihood-model", "%s: after move assignment the GPFCorrection evaluated the likelihood model of the "
                         "assigned-to object (%d calls), not the source's: it does not behave as the configured original" % (tag, hs["decoy_calls"])))
            return None, None, None
        if hs["calls"] != 1:
            acc.hit("note:likelihood-model-called-%d-times" % hs["calls"])
        if hs["gvalid"] != st["valid"] or (st["valid"] and hs.get("valid") and hs["gl"] != hs["l"]):
            acc.hit("note:getLikelihood-differs-from-what-the-likelihood-model-returned")
        if invalid:
            acc.hit("branch:invalid-likelihood")
            if st["lik"].get("fail"):
                acc.hit("GaussianLikelihood-early-return:%s-fails" % ["", "measure", "predictedMeasure", "innovation", "noiseCovariance"][st["lik"]["fail"]])
            # ---- an invalid likelihood leaves the predicted set as it is
            if cur.tokens() != prev.tokens():
                prop.append(("invalid-likelihood-not-identity", "%s: likelihood invalid but the returned set differs from the predicted set" % tag))
            wit[s] = [[[float(i == j) for j in range(n)] for i in range(n)] for _ in range(k)]
            tols[s] = None
            zarr[s] = [x for zi in arrange(hs["zraw"], n, k, "particle-major") for x in zi]
            prev = cur
            continue
        acc.hit("branch:valid-likelihood")
        if not hs.get("valid") or len(hs["l"]) != k or len(hs["t"]) != k:
            prop.append(("likelihood-not-evaluated", "%s: the likelihood model was not evaluated once on k positions (calls=%d)" % (tag, hs["calls"])))
            return None, None, None
        # per particle: exact quadratic form of the new position under the corrected belief
        per = []
        for i in range(k):
            mu = cur.mean(i, fh); P = cur.cov(i); x = cur.state(i, fh)
            v = [a - b for a, b in zip(x, mu)]
            g = gauss_logpdf_exact(v, P)
            if g is None or cholesky([[0.5 * (P[a][b] + P[b][a]) for b in range(n)] for a in range(n)]) is None:
                acc.hit("note:corrected-covariance-not-PD (case not decided)")
                return None, None, None
            # x and mu' are rounded doubles: v = x - mu' carries an absolute error eps*(|mu'|+|v|)
            vmax = max([abs(float(a)) for a in v] + [1e-300])
            canc = 1.0 + max([abs(float(a)) for a in mu] + [0.0]) / vmax
            # a corrected "covariance" that is not exactly symmetric (P - K Py K^T in floating point; relative
            # asymmetry up to 1e-11 for the extremely anisotropic beliefs) defines the Gaussian only up to that
            # asymmetry (LDLT reads one triangle, the exact quadratic form reads both): amplified by cond(P')
            asym = max([abs(P[a][b] - P[b][a]) for a in range(n) for b in range(a)] + [0.0]) / max(vlib.fnorm(P), 1e-300)
            acc.mx("max_relative_asymmetry_of_corrected_covariance", asym)
            per.append({"mu": mu, "P": P, "x": x, "v": v, "logq": g[0], "quad": g[1], "kP": g[2],
                        "tm": 256 * n * EPS * g[2] * canc + 2 * g[2] * asym})
            acc.mx("max_cond_P", g[2])
            if n >= 3:
                invol, nontriv = ldlt_perm_involutive(P)
                acc.hit("ldlt-perm:" + ("identity" if not nontriv else ("involution" if invol else "non-involution")))
        # ---- clause: positions drawn from the corrected Gaussian: x = mu' + S z, S S^T = P'
        #      <=> (x-mu')^T P'^-1 (x-mu') = z^T z.  The order in which the step consumes its n*k
        #      normals is not part of the property: particle-major (as coded) and row-major are accepted.
        chosen = None
        for order in ("particle-major", "row-major"):
            zs_hex = arrange(hs["zraw"], n, k, order)
            rels = []
            for i in range(k):
                z = [fh(a) for a in zs_hex[i]]
                z2 = sum(a * a for a in z)
                rels.append(abs(float(per[i]["quad"] - z2)) / max(float(z2), 1e-300))
            ok = all(rels[i] <= per[i]["tm"] for i in range(k))
            if chosen is None or ok:
                chosen = (order, zs_hex, rels)
            if ok:
                break
        order, zs_hex, rels = chosen
        acc.hit("draw-order:" + order)
        zarr[s] = [x for zi in zs_hex for x in zi]
        wit[s], tols[s] = [], []
        vs, zs = [], []
        for i in range(k):
            pi = per[i]
            mu, P, x, v, quad, kP, logq = pi["mu"], pi["P"], pi["x"], pi["v"], pi["quad"], pi["kP"], pi["logq"]
            z = [fh(a) for a in zs_hex[i]]
            vs.append(v); zs.append(z)
            z2 = sum(a * a for a in z)
            tm = pi["tm"]
            acc.mx("maha_err_over_tol", rels[i] / tm)
            if rels[i] > tm:
                prop.append(("mahalanobis", "%s: particle %d: (x-mu')^T P'^-1 (x-mu') = %.17g but z^T z = %.17g (rel err %.3g, tol %.3g): position is not mu' + S z with S S^T = P'"
                             % (tag, i, float(quad), float(z2), rels[i], tm)))
            ws = witness_sqrt(P, v, z)
            acc.mx("witness_contract_err_over_tol", ws[1] / (64 * n * EPS))
            wit[s].append(ws[0])
            # ---- the likelihood the model returned is the likelihood of the new position
            l = unhex(hs["l"][i]); lk = st["lik"]
            slack = 0.0           # extra tolerance on the log-weight where a density underflows
            if lk["kind"] == 0:
                if hs["l"][i] != hexd(lk["l"][i]):
                    prop.append(("likelihood-value", "%s: particle %d likelihood %r is not the scripted %r" % (tag, i, l, lk["l"][i])))
            elif lk["kind"] == 1:
                d2 = sum((a - fr(b)) ** 2 for a, b in zip(x, lk["a"]))
                want = float(fr(lk["c"][i]) / (1 + d2))
                sc = max([abs(float(a)) for a in x] + [abs(b) for b in lk["a"]] + [1.0])
                tl = 64 * n * EPS * (1 + sc)          # d/dx of c/(1+|x-a|^2) is at most the value itself
                if abs(l - want) > tl * abs(want):
                    prop.append(("likelihood-value", "%s: particle %d: likelihood %.17g is not the likelihood of the new position (%.17g)" % (tag, i, l, want)))
            else:
                nu = [fr(st["y"][a]) - sum(Hf[a][b] * x[b] for b in range(n)) for a in range(m)]
                gl = gauss_logpdf_exact(nu, st["R"])
                if gl[0] < UNDERFLOW_LOG:
                    # exp() returns at most DBL_MIN there, so log(l + eps) moves by at most log(1 + scale)
                    acc.hit("density-underflow:likelihood"); slack += math.log(1.0 + max(lk["scale"], 1.0)) + 0.01
                    if l > 1e-300 * max(lk["scale"], 1.0):
                        prop.append(("gaussian-likelihood", "%s: particle %d GaussianLikelihood %.17g where scale*N(y;Hx,R) underflows" % (tag, i, l)))
                else:
                    want = lk["scale"] * math.exp(gl[0])
                    sc = max([abs(float(a)) for a in x] + [1.0]) * max(vlib.fnorm(st["H"]), 1.0) * n + max(abs(a) for a in st["y"])
                    gradl = 2 * m * vlib.fnorm(gl[3]) * m * max([abs(float(a)) for a in nu] + [1e-300]) * 8 * n * EPS * sc
                    tl = 256 * m * EPS * gl[2] * (float(gl[1]) + 1) + gradl
                    acc.mx("gauss_lik_err_over_tol", abs(l - want) / (tl * abs(want)))
                    if abs(l - want) > tl * abs(want):
                        prop.append(("gaussian-likelihood", "%s: particle %d GaussianLikelihood %.17g, scale*N(y;Hx,R) = %.17g" % (tag, i, l, want)))
            # ---- transition density of (previous position, new position)
            tv = unhex(hs["t"][i]); xp = prev.state(i, fh)
            gradT = float(n)       # bound of |d log t / d x| (per unit of position error), for the model comparison
            if tr["kind"] == 0:
                d = [x[a] - sum(Af[a][b] * xp[b] for b in range(n)) - bf[a] for a in range(n)]
                want = float(fr(st["trans"]["c"]) / (1 + sum(a * a for a in d)))
                sc = max([abs(float(a)) for a in x] + [abs(float(a)) for a in xp] + [1.0]) * max(vlib.fnorm(st["trans"]["A"]), 1.0) * n + 1
                tt = 64 * n * EPS * (1 + sc)
                if abs(tv - want) > tt * abs(want):
                    prop.append(("transition-value", "%s: particle %d transition density %.17g, t(prev_i, new_i) = %.17g" % (tag, i, tv, want)))
            else:
                d = [x[a] - sum(Ff[a][b] * xp[b] for b in range(n)) for a in range(n)]
                gt = gauss_logpdf_exact(d, Q)
                gradT = 2 * n * vlib.fnorm(gt[3]) * n * max([abs(float(a)) for a in d] + [1e-300])
                if gt[0] < UNDERFLOW_LOG:
                    acc.hit("density-underflow:transition"); slack += 0.7
                    if tv > 1e-300:
                        prop.append(("wna-transition-density", "%s: particle %d WhiteNoiseAcceleration::getTransitionProbability = %.17g where N(cur; F prev, Q) underflows" % (tag, i, tv)))
                else:
                    want = math.exp(gt[0])
                    sc = max([abs(float(a)) for a in x] + [abs(float(a)) for a in xp] + [1.0]) * (1 + tr["T"])
                    tt = 256 * n * EPS * gt[2] * (float(gt[1]) + 1) + gradT * 8 * n * EPS * sc
                    acc.mx("wna_t_err_over_tol", abs(tv - want) / (tt * abs(want)))
                    if abs(tv - want) > tt * abs(want):
                        prop.append(("wna-transition-density", "%s: particle %d WhiteNoiseAcceleration::getTransitionProbability = %.17g, N(cur; F prev, Q) = %.17g"
                                     % (tag, i, tv, want)))
            if l == 0.0:
                acc.hit("likelihood-exact-zero")
            if tv == 0.0:
                acc.hit("transition-exact-zero")
            # ---- clause: log-weight formula, as coded, with an independently computed proposal density
            oslack = 0.0
            if logq < UNDERFLOW_LOG:
                acc.hit("density-underflow:proposal"); oslack = 0.7
            q = safe_exp(logq)
            w0 = prev.weight(i)
            terms = [w0, math.log(l + DBL_MIN) if l + DBL_MIN > 0 else float("-inf"),
                     math.log(tv + DBL_MIN) if tv + DBL_MIN > 0 else float("-inf"),
                     math.log(q + DBL_MIN)]
            want = terms[0] + terms[1] + terms[2] - terms[3]
            got = cur.weight(i)
            tq = tm * (float(quad) + 1)
            tw = 64 * EPS * sum(abs(a) for a in terms) + tq + oslack
            acc.mx("weight_err_over_tol", abs(got - want) / tw if math.isfinite(want) else 0.0)
            if not (abs(got - want) <= tw):
                prop.append(("weight-formula", "%s: particle %d log-weight %.17g, w+log(l+eps)+log(t+eps)-log(q+eps) = %.17g (w=%.6g l=%.6g t=%.6g q=%.6g; tol %.3g)"
                             % (tag, i, got, want, w0, l, tv, q, tw)))
            # tolerances for the model comparison (the model evaluates l, t, q at its own position)
            vmax = max([abs(float(a)) for a in v] + [1e-300])
            tolx = tm * vmax
            tols[s].append({"x": tolx, "w": 2 * tw + tq * math.sqrt(kP) + (gradT + n) * tolx + slack})
        # ---- same belief for all particles: recover the factor actually used (reported, not decided:
        #      the property does not promise one factor per covariance)
        if M["style"] == "samebelief" and s == 0 and k > n:
            Z = [[zs[j][i] for j in range(n)] for i in range(n)]
            V = [[vs[j][i] for j in range(n)] for i in range(n)]
            Zi = vlib.minv_frac(Z)
            if Zi is not None:
                condZ = max(1.0, vlib.fnorm(Z) * n * vlib.fnorm(Zi) * n)
                if condZ < 1e4:
                    Srec = vlib.mmul(V, Zi)
                    P0 = cur.cov(0)
                    SSt = vlib.mmul(Srec, vlib.mT(Srec))
                    nP = max(vlib.fnorm(P0), 1e-300)
                    e1 = max(abs(float(SSt[i][j]) - P0[i][j]) for i in range(n) for j in range(n)) / nP
                    t1 = 1024 * n * EPS * condZ * condZ * per[0]["kP"]
                    acc.hit("recovered-sqrt:checked")
                    acc.mx("recovered_sqrt_err_over_tol", e1 / t1)
                    if e1 > t1:
                        acc.hit("note:recovered-sqrt-contract-fails")
                    for j in range(n, k):
                        pred_v = vlib.mvec(Srec, zs[j])
                        e2 = max(abs(float(a - b)) for a, b in zip(pred_v, vs[j])) / max(max(abs(float(a)) for a in vs[j]), 1e-300)
                        if e2 > t1:
                            acc.hit("note:recovered-sqrt-not-shared-by-all-particles")
        prev = cur
    return wit, tols, zarr


def compare_model(M, Hh, model_sets, tols, acc):
    n, k = M["n"], M["k"]
    corr = acc.corr
    sz = set_size(n, k)
    prev_model = None
    carried = [{"x": 0.0, "w": 0.0} for _ in range(k)]      # tolerance of state/weight carried from earlier steps
    for s, (st, hs) in enumerate(zip(M["steps"], Hh["steps"])):
        ms = model_sets[s]
        cpp = [Fraction(unhex(x)) for x in hs["set"].tokens()]
        o_state, o_mean, o_cov, o_w = 0, n * k, 2 * n * k, 2 * n * k + n * n * k
        tag = "step %d (%s)" % (s, st["kind"])
        if ms[o_mean:o_w] != cpp[o_mean:o_w]:
            corr.append(("belief", "%s: model beliefs differ from the implementation's" % tag))
        fresh = st["kind"] == "C" and st["valid"]
        for i in range(k):
            if fresh:
                carried[i] = {"x": tols[s][i]["x"], "w": tols[s][i]["w"] + carried[i]["w"]}
            ex = max(abs(ms[o_state + i * n + j] - cpp[o_state + i * n + j]) for j in range(n))
            ew = abs(ms[o_w + i] - cpp[o_w + i])
            tx, tw = carried[i]["x"], carried[i]["w"]
            if fresh:
                acc.mx("model_state_err_over_tol", float(ex) / tx)
                acc.mx("model_weight_err_over_tol", float(ew) / tw)
            if ex > tx:
                corr.append(("state", "%s: particle %d position differs from the model by %.3g (tol %.3g)" % (tag, i, float(ex), tx)))
            if ew > tw:
                corr.append(("weight", "%s: particle %d log-weight differs from the model by %.3g (tol %.3g)" % (tag, i, float(ew), tw)))
        prev_model = ms


# ----------------------------------------------------------------------------- run

def run(ctx):
    ctx.proof_stage()
    if not ctx.quick():
        bad = vlib.leanchecker(["BFL.Model.GPF", "BFL.Proofs.GPF", "BFL.Props.C08"])
        ctx.coverage["leanchecker"] = "failed: %s" % bad if bad else "BFL.Model.GPF, BFL.Proofs.GPF, BFL.Props.C08 re-checked"
        if bad:
            ctx.violation("leanchecker", "leanchecker rejects compiled modules: %s" % bad, {"modules": bad}, no_input=True)
    binary = vlib.build_harness("h_gpf")
    g = ctx.gen("gpf")
    N = ctx.n(140, 2500)
    cases = []
    corpus = vlib.VERIF / "corpus" / "C08" / "cases.txt"
    import json
    if corpus.exists():
        for ln in corpus.read_text().split("\n"):
            if ln.strip():
                Mx = json.loads(ln)
                cases.append((harness_line(Mx), Mx))
    for i in range(N):
        cases.append(gen_case(g, ctx.tier, i))
    lines = [c[0] for c in cases]
    hout, logs = vlib.run_harness(binary, lines)
    acc = Acc()
    per_case = []
    dlines, didx = [], []
    for ci, ((line, M), h) in enumerate(zip(cases, hout)):
        a = Acc()
        a.stats, a.hist = acc.stats, acc.hist
        acc.hit("style:" + M["style"]); acc.hit("n:%d" % M["n"]); acc.hit("k:%d" % M["k"]); acc.hit("steps:%d" % len(M["steps"]))
        info = {"acc": a, "Hh": None, "tols": None}
        if h.startswith("crash") or not h.startswith("ok"):
            a.prop.append(("impl-crash", "implementation failed on a valid history: %s" % h[:120]))
        else:
            Hhs = parse_harness(M, h)
            if Hhs is None:
                a.prop.append(("impl-output", "harness output malformed: %s" % h[:120]))
            else:
                info["segs"] = []
                for si, (S2, Hh) in enumerate(zip(segments_of(M), Hhs)):
                    if si > 0:
                        acc.hit("segment-with-another-particle-count (same objects)")
                    wit, tols, zarr = analyse(S2, Hh, a)
                    if wit is None:
                        break
                    info["segs"].append((S2, Hh, tols))
                    dlines.append(driver_line(S2, Hh, wit, zarr))
                    didx.append((ci, len(info["segs"]) - 1))
        per_case.append(info)
    dout = vlib.run_driver(dlines)
    for (ci, si), d in zip(didx, dout):
        info = per_case[ci]
        S2, Hh, tols = info["segs"][si]
        ms = parse_driver(S2, d)
        if ms is None:
            info["acc"].corr.append(("model-undefined", "model not defined on a valid history: %s" % d[:80]))
        else:
            compare_model(S2, Hh, ms, tols, info["acc"])
    # decision
    n_prop = n_corr = 0
    reported = set()
    first_corr = None
    for (line, M), h, info in zip(cases, hout, per_case):
        a = info["acc"]
        n_prop += len(a.prop); n_corr += len(a.corr)
        for key, what in a.prop:
            if key in reported:
                continue
            reported.add(key)
            ctx.violation(key, "GPF: " + what, {"harness": "h_gpf", "input_line": line, "observed": h[:3000], "case": M})
        if a.corr and first_corr is None:
            first_corr = (a.corr[0], line, h, M, len(a.corr))
    if n_corr and not n_prop:
        (key, what), line, h, M, cnt = first_corr
        ctx.violation("correspondence:" + key, "model gpfRun and implementation disagree (%d findings), no property predicate failed: %s" % (n_corr, what),
                      {"harness": "h_gpf", "correspondence": "gpfRun vs GPFPrediction/GPFCorrection", "input_line": line, "observed": h[:3000], "case": M}, no_input=True)
    nontrivial = len({l for (l, M) in cases if M["n"] * M["k"] > 1 and len(M["steps"]) >= 2})

    def describe(M):
        return {"style": M["style"], "n": M["n"], "k": M["k"], "m": M["m"], "seed": M["seed"],
                "wrapped_prediction": PRED_NAMES[M["pred_kind"]], "wrapped_correction": CORR_NAMES[M["corr_kind"]],
                "transition": "WhiteNoiseAcceleration" if M["trans"]["kind"] == 1 else "harness-defined",
                "events": ["%s%s%s%s" % (st["kind"], ",skip" if st["skip"] else "", ",invalid-likelihood" if st["kind"] == "C" and not st["valid"] else "",
                                         ",lik-kind-%d" % st["lik"]["kind"] if st["kind"] == "C" else "") for st in M["steps"]]}
    ctx.coverage.update({
        "evaluations": len(cases), "distinct_nontrivial": nontrivial,
        "rule": "random GPF histories: 3..6 prediction/correction events (1..4 for the tiny style), n in 1..4 (6 for WNA, thorough), k in 1..8, m in 1..3, "
                "wrapped KF/UKF prediction and KF/UKF/SUKF correction, scripted / position-dependent / shipped Gaussian likelihood, harness-defined / "
                "WhiteNoiseAcceleration transition density, distinct beliefs per particle, invalid likelihood at scripted steps, wrapped-step skip flags; "
                "particle sets with circular components ParticleSet(k, lin, circ) (style circular: angular means near +-pi, angles outside (-pi, pi], "
                "angular standard deviations up to 3 rad; 20% of the cases of the other styles); "
                "non-trivial = n*k > 1 and at least 2 events; distinct = distinct input lines",
        "samples": [{"case": describe(cases[0][1]), "harness_line": lines[0][:300]},
                    {"case": describe(cases[len(cases) // 2][1]), "harness_line": lines[len(cases) // 2][:300]},
                    {"case": describe(cases[-1][1]), "harness_line": lines[-1][:300]}],
        "histogram": dict(sorted(acc.hist.items())), "numeric": acc.stats,
        "traces_validated_against_impl": len(dlines),
        "model_vs_impl_disagreements": n_corr, "property_failures_on_impl": n_prop,
        "sanitizer_crashes": len(logs),
        "model_branches": {"gpfCorrect: likelihood invalid -> predicted set": acc.hist.get("branch:invalid-likelihood", 0),
                           "gpfCorrect: likelihood valid -> sample, weight": acc.hist.get("branch:valid-likelihood", 0),
                           "gaussDispatch: skip (prediction)": acc.hist.get("wrapped-skip:P", 0),
                           "gaussDispatch: skip (correction)": acc.hist.get("wrapped-skip:C", 0),
                           "gpfPredict": acc.hist.get("step:P", 0),
                           "gpfCorrect on a circular layout (ParticleSet(k, lin, circ)), valid likelihood":
                               sum(v for k_, v in acc.hist.items() if k_.startswith("circular-layout:correction:") and "invalid" not in k_),
                           "gpfSample: drawn angle outside (-pi, pi] kept as drawn (a reducing implementation would differ from the model)":
                               acc.hist.get("circular-layout:drawn-angle-outside(-pi,pi] (a wrapped draw would differ)", 0),
                           "gpfPredict on a circular layout with a position angle outside (-pi, pi]":
                               acc.hist.get("circular-layout:prediction-with-position-angle-outside(-pi,pi]", 0)},
    })
    ctx.assumptions += [
        "std::normal_distribution draws are i.i.d. standard normal (libstdc++ contract; trusted): with gpf_mahalanobis this gives the chi-square law of the squared Mahalanobis distances",
        "draws obtained from a twin mt19937_64/normal_distribution advanced in lock-step (mean.size() draws per particle, particle order)",
        "square-root factor: parameter with contract S S^T = P'; witness built per particle and its contract checked numerically; factor recovered from the draws in the same-belief cases",
        "inverse routine contract certified exactly on every call of the rational execution; exp/log evaluated in Float on exactly rounded arguments",
        "wrapped Gaussian steps enter the model as their observed value on the same beliefs (run directly in C++, compared bit-for-bit)",
    ]
