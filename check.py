#!/usr/bin/env python3
"""Entry point of every registered check:  python3 check.py <Cxx> [--tier quick|thorough] [--replay file]
cwd = /verif.  Honours VERIF_SEED and VERIF_TIER.  Exit 0: property held on everything explored
(KNOWN-FINDING lines allowed); exit 1: VIOLATION line(s) printed; exit 2: infrastructure failure
(the repository does not compile, tool missing) — reported as such, never as a pass."""
import argparse
import importlib
import os
import sys
import traceback

sys.path.insert(0, os.path.dirname(os.path.abspath(__file__)))
import vlib


def main():
    ap = argparse.ArgumentParser()
    ap.add_argument("prop")
    ap.add_argument("--tier", default=os.environ.get("VERIF_TIER", "quick"), choices=["quick", "thorough"])
    ap.add_argument("--replay", default=None)
    a = ap.parse_args()
    seed = int(os.environ.get("VERIF_SEED", "0") or 0)
    ctx = vlib.Ctx(a.prop, a.tier, seed, a.replay)
    mod = importlib.import_module("checks." + a.prop.lower())
    try:
        mod.run(ctx)
    except vlib.BuildError as e:
        # The repository (or the harness against it) does not build: nothing can be said
        # about the property.  This is reported as a violation with no failing input, because
        # the property is no longer shown to hold on this tree.
        print("# build failure: %s" % str(e)[-3000:])
        ctx.violation("build-failure", "build failure: " + str(e)[-800:], {"build_error": str(e)[-3000:]}, no_input=True)
    except Exception:
        traceback.print_exc()
        ctx.violation("check-crashed", "check crashed: " + traceback.format_exc()[-800:], {"traceback": traceback.format_exc()}, no_input=True)
    sys.exit(ctx.finish())


if __name__ == "__main__":
    main()
