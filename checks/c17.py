"""C17 — estimate extraction and its sliding window return the advertised statistic.

Stages: proof audit (BFL.Props.C17); tie of the Lean models `HistBuf` / `Extract` to the real
`HistoryBuffer` / `EstimatesExtraction` (harness h_extract, same case lines); property predicates
evaluated directly on the implementation's output, independently of the model's algorithm.

Alarm policy: an alarm is raised when a clause of the property fails on the implementation (with the
call sequence as replay), or when model and implementation disagree on an observable the property
determines.  Where the faithful model fixes more than the property promises (exact weights of the
weighted / exponential variants, which of several equal maxima `mode`/`map` pick, what a non-positive
window request does, return flags of setMethod/clear/setWindow) a disagreement is a note.
"""
import math
from fractions import Fraction

import vlib
from vlib import hexd, unhex

EPS = 2.0 ** -52
DBL_MIN = 2.2250738585072014e-308
PI = math.pi
METHODS = ["mean", "smean", "wmean", "emean", "mode", "smode", "wmode", "emode", "map", "smap", "wmap", "emap"]
FAMS = ["plain", "simple", "weighted", "exponential"]
KEY_ONECOL = "circular-one-column-unwrapped"


def clamp(w):
    return 2 if w < 2 else (30 if w >= 30 else w)


def ksum(xs):
    xs = list(xs)
    try:
        return math.fsum(xs)
    except (ValueError, OverflowError):
        return sum(xs)              # non-finite terms: inf or nan, never an exception


def fsin(a):
    return math.sin(a) if math.isfinite(a) else math.nan


def fcos(a):
    return math.cos(a) if math.isfinite(a) else math.nan


def wrap(a):
    return math.atan2(fsin(a), fcos(a))


def angdiff(a, b):
    d = abs(a - b)
    return min(d, abs(d - 2 * PI))


# ----------------------------------------------------------------------------- case lines

def ser_ee(lin, circ, calls):
    t = ["ee", str(lin), str(circ), str(len(calls))]
    for c in calls:
        op = c["op"]
        if op == "M":
            t += ["M", str(c["m"])]
        elif op == "W":
            t += ["W", str(c["n"])]
        elif op in ("C", "V", "K", "Q", "T"):
            t += [op]
        else:
            N = len(c["ps"])
            t += [op, str(N)] + ([str(len(c["pw"]))] if op == "Y" else [])
            t += [hexd(x) for p in c["ps"] for x in p] + [hexd(w) for w in c["ws"]]
            if op == "Y":
                K = len(c["pw"])
                t += [hexd(w) for w in c["pw"]] + [hexd(l) for l in c["lik"]]
                t += [hexd(c["tp"][i][j]) for j in range(K) for i in range(N)]
    return " ".join(t)


def parse_ee(line):
    t = line.split()
    lin, circ, n = int(t[1]), int(t[2]), int(t[3])
    d = lin + circ
    p = 4
    calls = []
    for _ in range(n):
        op = t[p]; p += 1
        if op == "M":
            calls.append({"op": "M", "m": int(t[p])}); p += 1
        elif op == "W":
            calls.append({"op": "W", "n": int(t[p])}); p += 1
        elif op in ("C", "V", "K", "Q", "T"):
            calls.append({"op": op})
        else:
            N = int(t[p]); p += 1
            K = 0
            if op == "Y":
                K = int(t[p]); p += 1
            ps = [[unhex(t[p + j * d + i]) for i in range(d)] for j in range(N)]; p += d * N
            ws = [unhex(x) for x in t[p:p + N]]; p += N
            c = {"op": op, "ps": ps, "ws": ws}
            if op == "Y":
                c["pw"] = [unhex(x) for x in t[p:p + K]]; p += K
                c["lik"] = [unhex(x) for x in t[p:p + N]]; p += N
                c["tp"] = [[unhex(t[p + j * N + i]) for j in range(K)] for i in range(N)]; p += N * K
            calls.append(c)
    return lin, circ, calls


# ----------------------------------------------------------------------------- property oracles

def fexp(w):
    return 0.0 if w == -math.inf else math.exp(w)


def combo_rows(lin, circ, cols, a):
    """rows of the weighted combination of the columns `cols` with (linear-domain) weights `a`:
    linear rows arithmetic, circular rows on the circle.  Returns [(expected, tol) or None (ill-conditioned)]."""
    out = []
    sa = ksum(abs(x) for x in a)
    for r in range(lin):
        terms = [c[r] * x for c, x in zip(cols, a)]
        scale = ksum(abs(x) for x in terms)
        # Eigen's vectorised exp clamps its argument: exp(-inf) is a denormal (5.6e-309), not 0 — an absolute error of
        # the order of DBL_MIN on every weight (observed on the clean tree: 1.25e10 * exp(-inf) = 6.9e-299)
        under = 4 * DBL_MIN * ksum(abs(c[r]) for c in cols)
        out.append((ksum(terms), 64 * EPS * scale * max(1, len(a)) ** 0.5 + under + 1e-300, 1.0))
    for r in range(lin, lin + circ):
        s = ksum(fsin(c[r]) * x for c, x in zip(cols, a))
        co = ksum(fcos(c[r]) * x for c, x in zip(cols, a))
        R = math.hypot(s, co)
        big = max([abs(c[r]) for c in cols] + [1.0])
        if not math.isfinite(R) or not math.isfinite(sa):
            out.append((math.nan, 0.0, 1.0))      # a non-finite stored estimate: nothing can match
        elif R <= 1e-6 * sa or sa == 0.0:
            out.append(None)
        else:
            # error of the resultant: rounding of sin/cos arguments grows with |angle|
            out.append((math.atan2(s, co), 64 * EPS * sa * big / R + 16 * EPS * PI, sa / R))
    return out


def map_products(c, eps=Fraction(DBL_MIN)):
    """exact rational value of (l_i + eps) * sum_j (t_ij + eps) * e^{w_j} for the doubles the code sees"""
    e = [Fraction(fexp(w)) for w in c["pw"]]
    out = []
    for i in range(len(c["ps"])):
        s = sum((Fraction(c["tp"][i][j]) + eps) * e[j] for j in range(len(e)))
        out.append((Fraction(c["lik"][i]) + eps) * s)
    return out


def same_col(v, p):
    return len(v) == len(p) and all(hexd(a) == hexd(b) for a, b in zip(v, p))


def check_base(stat, lin, circ, c, v):
    """property predicates of the base statistic `stat` on the vector `v` the implementation returned.
    Returns (problems [(key, what)], rows [(expected, tol)|None] or None, picked index or None)."""
    probs = []
    d = lin + circ
    if len(v) != d:
        return [("estimate-size", "estimate has %d rows, state has %d" % (len(v), d))], None, None
    if stat == 0:
        a = [fexp(w) for w in c["ws"]]
        rows = combo_rows(lin, circ, c["ps"], a)
        for r, ev in enumerate(rows):
            if ev is None:
                continue
            exp_, tol, _ = ev
            if r < lin:
                if not abs(v[r] - exp_) <= tol:
                    probs.append(("mean-linear-wrong", "mean: linear row %d is %r, weighted arithmetic mean is %r (tol %.2g)" % (r, v[r], exp_, tol)))
            else:
                if not (angdiff(v[r], exp_) <= tol and abs(v[r]) <= PI + tol):
                    if len(c["ps"]) == 1 and hexd(v[r]) == hexd(c["ps"][0][r]):
                        probs.append((KEY_ONECOL, "mean of a single particle returns its circular component %r unwrapped; the weighted circular mean (argument of the resultant) is %r" % (v[r], exp_)))
                    else:
                        probs.append(("mean-circular-wrong", "mean: circular row %d is %r, weighted circular mean is %r (tol %.2g)" % (r, v[r], exp_, tol)))
        return probs, rows, None
    if stat == 1:
        score = [Fraction(w) if w != -math.inf else None for w in c["ws"]]
    else:
        score = map_products(c)
    cand = [i for i, p in enumerate(c["ps"]) if same_col(v, p)]
    if not cand:
        return [("mode-not-a-particle" if stat == 1 else "map-not-a-particle", "%s returned a vector that is none of the particles" % ("mode" if stat == 1 else "map"))], None, None
    fin = [s for s in score if s is not None]
    best = max(fin)
    thr = best if stat == 1 else best * (1 - Fraction(1, 10 ** 10))
    good = [i for i in cand if score[i] is not None and score[i] >= thr]
    if stat == 2 and not good:
        # the property speaks of the un-guarded product; the 2.2e-308 guard only matters at exact zeros
        s0 = map_products(c, Fraction(0))
        good = [i for i in cand if s0[i] >= max(s0) * (1 - Fraction(1, 10 ** 10))]
    i = good[0] if good else cand[0]
    if not good:
        if stat == 1:
            probs.append(("mode-not-argmax", "mode returned particle %d (log-weight %r) but the largest log-weight is %r" % (i, c["ws"][i], float(best))))
        else:
            probs.append(("map-not-argmax", "map returned particle %d with likelihood x averaged transition %.6g; the maximum is %.6g" % (i, float(score[i]), float(best))))
    return probs, None, i


def advertised_weights(fam, k):
    if fam == 1:
        return [1.0 / k] * k
    raw = [float(k - i) for i in range(k)] if fam == 2 else [math.exp(-i / k) for i in range(k)]
    s = math.fsum(raw)
    return [x / s for x in raw]


# ----------------------------------------------------------------------------- evaluation of an `ee` case

def split_calls(out):
    return [c.split() for c in out.split(" | ")]


def eval_ee(line, hout, dout, wtab, stats, notes):
    """Returns problems [(kind, key, what)], kind in {prop, corr}."""
    lin, circ, calls = parse_ee(line)
    d = lin + circ
    if not hout or hout.startswith(("crash", "throw", "bad-")):
        return [("prop", "impl-crash", "implementation failed on a valid call sequence: %s" % hout[:80])]
    if dout.startswith("bad-"):
        return [("corr", "model-undefined", "driver rejected the case: %s" % dout[:40])]
    hc, dc = split_calls(hout), split_calls(dout)
    if len(hc) != len(calls) or len(dc) != len(calls):
        return [("corr", "output-shape", "outputs do not have one entry per call")]
    probs = []
    # the check's own record, per object: window, method, base estimates newest first, their per-row tolerances,
    # and whether the object is in the moved-from state (outside the property: differences there are notes)
    rec = [{"window": 5, "method": 7, "H": [], "Htol": [], "mf": False} for _ in range(2)]
    cur = 0
    tie = True                           # model still comparable on this sequence
    for idx, c in enumerate(calls):
        window, method, H, Htol = rec[cur]["window"], rec[cur]["method"], rec[cur]["H"], rec[cur]["Htol"]
        ht, dt = hc[idx], dc[idx]
        for t in dt:
            if t.startswith("t:"):
                stats["branches"][t[2:]] = stats["branches"].get(t[2:], 0) + 1
        dcore = [t for t in dt if not t.startswith(("t:", "v:", "s:"))]
        if "s:ok" in dt:
            stats["spec_calls_ok"] = stats.get("spec_calls_ok", 0) + 1
        elif tie:
            probs.append(("corr", "spec-vs-model", "call %d: the history buffers of the model differ from the specification HistSpec driven by poolBufOp" % idx))
        hcore = [t for t in ht if not t.startswith("b:")]
        base = [unhex(t[2:]) for t in ht if t.startswith("b:")]
        op = c["op"]
        flag, win, meth_seen = int(hcore[1]), int(hcore[2]), int(hcore[3])
        est = [unhex(x) for x in hcore[4:]]
        where = "call %d (%s)" % (idx, op)
        explained = None                 # reason why a model deviation here is not an alarm
        rows = None
        base_tol = None
        tie_factor = 1.0
        # ---- hand-over: the destination continues as the original, the source is moved-from
        if op in ("K", "Q", "T"):
            if op == "T":
                cur = 1 - cur
            else:
                rec[1 - cur] = {"window": window, "method": method, "H": list(H), "Htol": list(Htol), "mf": rec[cur]["mf"]}
                rec[cur] = {"window": 0, "method": 7, "H": [], "Htol": [], "mf": True}
            want_w, want_m = rec[cur]["window"], rec[cur]["method"]
            if (win, meth_seen) != (want_w, want_m):
                if rec[cur]["mf"]:
                    notes["moved-from-state"] = notes.get("moved-from-state", 0) + 1
                    rec[cur]["window"], rec[cur]["method"] = win, meth_seen
                else:
                    probs.append(("prop", "hand-over-loses-configuration", "%s: the object now current shows window %d, method %s; handed over were window %d, method %s" % (where, win, METHODS[meth_seen], want_w, METHODS[want_m])))
            if tie and (hcore[:4] != dcore[:4]) and not rec[cur]["mf"] and not [p for p in probs if p[2].startswith(where)]:
                probs.append(("corr", "model-vs-impl", "%s: implementation %s, model %s" % (where, hcore[:4], dcore[:4])))
                tie = False
            continue
        mf = rec[cur]["mf"]
        # ---- window clauses
        if mf and win == 0 and op != "W":
            pass                          # documented moved-from state
        elif not 2 <= win <= 30:
            probs.append(("prop", "window-out-of-range", "%s: window is %d, outside [2, 30]" % (where, win)))
        if op == "W":
            n = c["n"]
            if n >= 1:
                if win != clamp(n):
                    probs.append(("prop", "window-not-clamped", "%s: window request %d gave %d, clamp to [2, 30] is %d" % (where, n, win, clamp(n))))
            else:
                if win not in (window, 2):
                    probs.append(("prop", "window-not-clamped", "%s: non-positive window request %d gave %d (previous %d)" % (where, n, win, window)))
                explained = "nonpositive-window-request"
            if win < len(H):
                H = H[:win]
                Htol = Htol[:win]
        elif win != window:
            probs.append(("prop", "window-changed", "%s: window changed from %d to %d without a window request" % (where, window, win)))
        window = win
        if meth_seen != (c["m"] if op == "M" else method):
            probs.append(("prop", "method-changed", "%s: getInfo reports method %s in use, expected %s" % (where, METHODS[meth_seen], METHODS[c["m"] if op == "M" else method])))
        if op == "M":
            method = c["m"]
            explained = "return-flag"
        elif op == "C":
            H, Htol = [], []
            explained = "return-flag"
        elif op == "V":
            explained = "return-flag"
        elif op in ("X", "Y"):
            stat, fam = method // 4, method % 4
            mname = METHODS[method]
            stats["methods"][op + ":" + mname] = stats["methods"].get(op + ":" + mname, 0) + 1
            want = 0 if (op == "X" and stat == 2) else 1
            if flag != want:
                probs.append(("prop", "availability-flag", "%s with method %s: estimate_available is %d, expected %d" % (where, mname, flag, want)))
            if flag == 1:
                bvec = est if fam == 0 else base
                if fam != 0 and len(base) != d:
                    probs.append(("corr", "harness-base", "%s: base estimate missing" % where))
                    bvec = None
                brows = None
                if bvec is not None and (stat != 2 or op == "Y"):
                    bp, brows, picked = check_base(stat, lin, circ, c, bvec)
                    probs += [("prop", k, "%s, method %s: %s" % (where, mname, w)) for k, w in bp]
                    if fam == 0:
                        rows = brows
                        if stat != 0 and picked is not None:
                            explained = "tie-break-among-equal-maxima"
                if fam != 0 and bvec is not None:
                    H = ([list(bvec)] + H)[:window]
                    btol = [0.0] * d if stat != 0 else ([(ev[1] if ev is not None else None) for ev in brows] if brows is not None else [None] * d)
                    Htol = ([btol] + Htol)[:window]
                    k = len(H)
                    a = wtab.get((fam, window, k)) or advertised_weights(fam, k)
                    if len(est) != d:
                        probs.append(("prop", "estimate-size", "%s: estimate has %d rows" % (where, len(est))))
                    else:
                        rows = combo_rows(lin, circ, H, a)
                        # the model pushes its own base estimates: their tolerance enters the comparison with the model
                        base_tol = [None if any(t[r] is None for t in Htol) else ksum(x * t[r] for x, t in zip(a, Htol)) for r in range(d)]
                        for r, ev in enumerate(rows):
                            if ev is None:
                                stats["ill_conditioned_rows_skipped"] += 1
                                continue
                            exp_, tol, _ = ev
                            if r < lin:
                                if not abs(est[r] - exp_) <= tol:
                                    probs.append(("prop", "windowed-not-combination", "%s, method %s, window %d, %d stored: linear row %d is %r; the %s combination of the %d most recent base estimates is %r (tol %.2g)" % (where, mname, window, k, r, est[r], FAMS[fam], k, exp_, tol)))
                            else:
                                if not (angdiff(est[r], exp_) <= tol and abs(est[r]) <= PI + tol):
                                    if k == 1 and hexd(est[r]) == hexd(H[0][r]):
                                        probs.append(("prop", KEY_ONECOL, "%s, method %s: with a single stored estimate the windowed circular component is returned unwrapped (%r); averaged on the circle it is %r" % (where, mname, est[r], exp_)))
                                    else:
                                        probs.append(("prop", "windowed-circular-wrong", "%s, method %s, window %d, %d stored: circular row %d is %r; averaged on the circle with the %s weights it is %r (tol %.2g)" % (where, mname, window, k, r, est[r], FAMS[fam], exp_, tol)))
                        if fam in (2, 3):
                            # model and implementation normalise their log-weights independently: a rounding
                            # error eps*|lw| of a log-weight is a relative error of the weight itself
                            tie_factor = 4.0 * (1.0 + max(abs(math.log(x)) for x in a if x > 0.0)) if any(x > 0.0 for x in a) else 4.0
                            explained = "weights-of-weighted-or-exponential-variant"
                        elif stat != 0:
                            explained = "tie-break-among-equal-maxima"
        rec[cur]["window"], rec[cur]["method"], rec[cur]["H"], rec[cur]["Htol"] = window, method, H, Htol
        if mf and explained is None:
            explained = "moved-from-state"
        # ---- tie to the model
        if tie:
            stats["calls_compared_with_model"] += 1
            bad = None
            if hcore[0] != dcore[0] or len(hcore) != len(dcore):
                bad = "shape"
            elif hcore[1] != dcore[1]:
                bad = "flag"
            elif hcore[2] != dcore[2]:
                bad = "window"
            elif hcore[3] != dcore[3]:
                bad = "method"
            else:
                mest = [unhex(x) for x in dcore[4:]]
                for r, (x, y) in enumerate(zip(est, mest)):
                    if hexd(x) == hexd(y):
                        continue
                    ev = rows[r] if rows is not None and r < len(rows) else None
                    if rows is not None and ev is None:
                        continue            # ill-conditioned circular row
                    tol = (ev[1] if ev is not None else 0.0) * tie_factor
                    if base_tol is not None and ev is not None:
                        if base_tol[r] is None:
                            continue        # a stored base estimate was ill-conditioned
                        tol += base_tol[r] * ev[2]
                    dd = abs(x - y) if r < lin else angdiff(x, y)
                    if ev is not None:
                        if dd / tol > stats["max_model_err_over_tol"]:
                            stats["max_model_err_over_tol"] = dd / tol
                            stats["max_model_err_at"] = "%s row %d (lin %d circ %d) impl %r model %r oracle %r tol %.3g: %s" % (where, r, lin, circ, x, y, ev[0], tol, line[:60])
                    if not dd <= tol:
                        bad = "estimate row %d: implementation %r, model %r" % (r, x, y)
                        break
            if bad:
                here_fail = [p for p in probs if p[0] == "prop" and p[2].startswith(where)]
                if here_fail:
                    tie = False              # the property failure is reported with its input
                elif explained:
                    notes[explained] = notes.get(explained, 0) + 1
                    tie = False
                else:
                    probs.append(("corr", "model-vs-impl", "%s: %s" % (where, bad)))
                    tie = False
    return probs


# ----------------------------------------------------------------------------- weight probes

PROBE_DIM = 30


def probe_case(fam, window, extra=4):
    """window `window`, method <fam>mode, push the unit vectors e_0, e_1, … (as the mode of a two-particle
    set): the estimate after push j shows the weight of age i in row (j - i) mod 30."""
    calls = [{"op": "M", "m": 4 + fam}, {"op": "W", "n": window}]
    for j in range(window + extra):
        e = [0.0] * PROBE_DIM
        e[j % PROBE_DIM] = 1.0
        calls.append({"op": "X", "ps": [e, [0.0] * PROBE_DIM], "ws": [0.0, -1.0]})
    return ser_ee(PROBE_DIM, 0, calls)


def eval_probe(fam, window, hout, dout, wtab, stats):
    probs = []
    if not hout or hout.startswith(("crash", "throw", "bad-")):
        return [("prop", "impl-crash", "implementation failed on the weight probe: %s" % hout[:80])]
    hc, dc = split_calls(hout), split_calls(dout)
    j = -1
    name = FAMS[fam]
    for ht, dt in zip(hc, dc):
        if ht[0] != "X":
            continue
        j += 1
        est = [unhex(x) for x in ht[4:4 + PROBE_DIM]]
        mest = [unhex(x) for x in dt[4:4 + PROBE_DIM]]
        k = min(j + 1, window)
        where = "%s variant, window %d, %d stored" % (name, window, k)
        if int(ht[1]) != 1 or len(est) != PROBE_DIM:
            probs.append(("prop", "availability-flag", "%s: no estimate" % where)); break
        a = [est[(j - i) % PROBE_DIM] for i in range(k)]
        am = [mest[(j - i) % PROBE_DIM] for i in range(k)] if len(mest) == PROBE_DIM else None
        rest = [est[r] for r in range(PROBE_DIM) if r not in [(j - i) % PROBE_DIM for i in range(k)]]
        if any(x != 0.0 for x in rest):
            probs.append(("prop", "window-not-most-recent", "%s: the estimate depends on a base estimate that is not among the %d most recent" % (where, k)))
        if not all(x > 0.0 for x in a):
            probs.append(("prop", "weights-not-positive", "%s: weights %r are not all positive" % (where, a[:6])))
        elif not abs(ksum(a) - 1.0) <= 64 * k * EPS:
            probs.append(("prop", "weights-not-normalised", "%s: weights sum to %r" % (where, ksum(a))))
        elif any(a[i + 1] > a[i] * (1 + 8 * EPS) for i in range(k - 1)):
            probs.append(("prop", "weights-increase-with-age", "%s: weights %r increase with age" % (where, a[:6])))
        elif fam == 1 and any(abs(x - 1.0 / k) > 8 * EPS / k for x in a):
            probs.append(("prop", "simple-weights-unequal", "%s: weights %r are not all 1/%d" % (where, a[:6], k)))
        prev = wtab.get((fam, window, k))
        if prev is not None and any(abs(x - y) > 8 * EPS * abs(y) for x, y in zip(a, prev)):
            probs.append(("prop", "weights-not-stable", "%s: the weights differ between two calls with the same history length" % where))
        wtab[(fam, window, k)] = a
        if am is not None and all(y > 0 for y in am):
            stats["probe_weights_vs_model_max_rel"] = max(stats["probe_weights_vs_model_max_rel"],
                                                           max(abs(x - y) / y for x, y in zip(a, am)))
        stats["weight_vectors_probed"] += 1
    return probs


# ----------------------------------------------------------------------------- buffer-only cases

def el(i):
    return hexd(float(i))


def hb_line(ops, dim=1):
    t = ["hb", str(dim), str(len(ops))]
    for o in ops:
        t += list(o)
    return " ".join(t)


def hb_grid_case(w0, fill, w1):
    ops = [("S", str(w0))] + [("A", el(i + 1)) for i in range(fill)] + [("G",), ("S", str(w1)), ("G",),
           ("A", el(101)), ("A", el(102)), ("G",), ("C",), ("G",), ("A", el(103)), ("G",)]
    return hb_line(ops)


def eval_hb(line, hout, dout, stats, notes):
    """the check's own reading of the buffer clauses (a bounded newest-first list per object), compared with
    the implementation; then implementation vs model, token by token.  Two objects (slots): K / Q hand the
    current one over to the other slot (move construction / move assignment), QS is a self move-assignment,
    T switches.  What a moved-from object does is outside the property: differences there are notes."""
    if not hout or hout.startswith(("crash", "throw", "bad-")):
        return [("prop", "impl-crash", "HistoryBuffer failed on a valid operation sequence: %s" % hout[:80])]
    t = line.split()
    dim, n = int(t[1]), int(t[2])
    p = 3
    st = [{"window": 5, "H": [], "mf": False} for _ in range(2)]
    cur = 0
    probs = []
    hc = split_calls(hout)
    if len(hc) != n:
        return [("corr", "output-shape", "outputs do not have one entry per operation")]

    mf_dev = [False]

    def report(kind, what):
        if st[cur]["mf"]:
            notes["moved-from-state"] = notes.get("moved-from-state", 0) + 1
            mf_dev[0] = True
        else:
            probs.append(("prop", kind, what))

    for k in range(n):
        op = t[p]; p += 1
        ht = hc[k]
        where = "operation %d (%s)" % (k, op)
        o = st[cur]
        if op == "A":
            x = t[p:p + dim]; p += dim
            o["H"] = ([x] + o["H"])[:o["window"]]
        elif op in ("S", "D", "I"):
            if op == "S":
                w = int(t[p]); p += 1
            elif op == "D":
                w = o["window"] - 1 if o["window"] > 0 else 4294967295
            else:
                w = o["window"] + 1
            if w != o["window"]:
                o["window"] = clamp(w)
                if o["window"] >= 2 and not o["H"]:
                    o["mf"] = o["mf"] and dim != 0   # a moved-from buffer of a 0-dimensional state is fully usable again
            o["H"] = o["H"][:o["window"]]
        elif op == "C":
            o["H"] = []
        elif op == "T":
            cur = 1 - cur
        elif op in ("K", "Q"):
            st[1 - cur] = {"window": o["window"], "H": list(o["H"]), "mf": o["mf"]}
            st[cur] = {"window": 0, "H": [], "mf": True}
        o = st[cur]
        if op == "G":
            cols = int(ht[1])
            got = [ht[2 + j * dim:2 + (j + 1) * dim] for j in range(cols)]
            if got != o["H"]:
                kind = "cleared-not-empty" if not o["H"] else ("history-too-long" if cols > len(o["H"]) else "history-not-most-recent")
                report(kind, "%s: buffer holds %d elements %s; the %d most recent are %s" % (
                    where, cols, [unhex(g[0]) for g in got if g][:8], len(o["H"]), [unhex(g[0]) for g in o["H"] if g][:8]))
                o["H"] = got
            if len(got) > o["window"]:
                report("history-exceeds-window", "%s: %d elements stored with window %d" % (where, len(got), o["window"]))
            if len(o["H"]) == o["window"]:
                stats["hb_full_reads"] += 1
        else:
            win = int(ht[2])
            if win != o["window"]:
                if not 2 <= win <= 30:
                    report("window-out-of-range", "%s: window is %d, outside [2, 30]" % (where, win))
                elif op in ("K", "Q", "QS", "T"):
                    report("hand-over-loses-configuration", "%s: window is %d after the hand-over, expected %d" % (where, win, o["window"]))
                else:
                    report("window-not-clamped", "%s: window is %d, expected %d" % (where, win, o["window"]))
                o["window"] = win
                o["H"] = o["H"][:win]
    def mask(out):      # return flags are not part of the property
        return [c if c[0] == "G" else [c[0], c[2]] for c in split_calls(out)]
    if not probs and mask(hout) != mask(dout) and not mf_dev[0]:
        probs.append(("corr", "model-vs-impl", "HistoryBuffer and HistBuf disagree: %s / %s" % (hout[:200], dout[:200])))
    return probs


# ----------------------------------------------------------------------------- generators

def gen_particles(g, lin, circ, N):
    r = g.r
    style = r.choice(["dyadic", "full", "full"])
    scale = r.choice([1.0] * 6 + [1e-10, 1e-5, 1e5, 1e10])      # magnitude of the linear components
    centre = r.uniform(-PI, PI)
    wild = r.random() < 0.25
    antipodal = r.random() < 0.08                                # small resultants (1e-5 .. 1e-2 of the total weight)
    neardup = N >= 2 and r.random() < 0.12                       # consecutive particles equal up to a tiny perturbation
    ps, seen = [], set()
    tries = 0
    while len(ps) < N:
        tries += 1
        if neardup and ps and r.random() < 0.6 and tries < 200:
            q = ps[-1]
            p = [x * (1 + r.choice([0.0, 1e-13, -1e-12, 1e-9])) + r.choice([0.0, 1e-300]) for x in q]
        else:
            p = [scale * (g.dyadic(-4, 4, 4) if style == "dyadic" else g.full(-4, 4)) for _ in range(lin)]
            for _ in range(circ):
                u = r.random()
                if wild and u < 0.35:
                    a = r.choice([7.0, -7.0, 100.0, -40.5, 3.5, -3.5, 2 * PI, 4.0])
                elif u < 0.05:
                    a = r.choice([PI, -PI])
                elif antipodal:
                    a = wrap(centre + (PI if len(ps) % 2 else 0.0) + r.uniform(-1, 1) * 10.0 ** r.uniform(-5, -2))
                else:
                    a = wrap(centre + r.uniform(-1.2, 1.2))
                p.append(a)
        key = tuple(hexd(x) for x in p)
        if key in seen:
            continue
        seen.add(key)
        ps.append(p)
    return ps


def gen_logweights(g, N, ties=True):
    r = g.r
    style = r.choice(["uniform", "random", "random", "spread", "onehot", "zero", "plateau"])
    if style == "uniform":
        w = [1.0] * N
    elif style == "plateau":
        # class q: first, second and last weight equal, a different (larger or smaller) one strictly between
        w = [1.0] * N
        if N >= 4:
            w[r.randrange(2, N - 1)] = r.choice([3.0, 0.25, 1.0 + 2.0 ** -40])
    elif style == "spread":
        w = [10.0 ** r.uniform(-300, 0) for _ in range(N)]
    elif style == "onehot":
        w = [1e-12] * N
        w[r.randrange(N)] = 1.0
    else:
        w = [r.uniform(0.05, 1.0) for _ in range(N)]
    s = math.fsum(w)
    lw = [math.log(x / s) for x in w]
    if ties and N >= 2 and r.random() < 0.35:
        i, j = r.sample(range(N), 2)
        m = max(lw)
        lw[i] = m
        lw[j] = m                      # exact tie for the maximum (first index wins in the code)
    if N >= 8 and r.random() < 0.5:
        j = lw.index(max(lw))            # the maximum in the last position (beyond any 4/8/16-wide batch)
        lw[j], lw[N - 1] = lw[N - 1], lw[j]
    if style == "zero" and N >= 2:
        lw[r.randrange(N)] = -math.inf  # a particle of weight zero
        if all(x == -math.inf for x in lw):
            lw[0] = 0.0
    return lw


def gen_extract(g, lin, circ, five):
    r = g.r
    u = r.random()
    N = 1 if u < 0.15 else (2 if u < 0.30 else (r.choice([8, 16, 17, 32, 33]) if u < 0.36 else r.randint(3, 6)))
    c = {"op": "Y" if five else "X", "ps": gen_particles(g, lin, circ, N), "ws": gen_logweights(g, N)}
    if five:
        K = N if r.random() < 0.6 else r.choice([1, 2, 3, 4, 5, 6, 16, 17])
        c["pw"] = gen_logweights(g, K, ties=False)
        c["lik"] = [0.0 if r.random() < 0.2 else (g.dyadic(0, 4, 3) if r.random() < 0.4 else 10.0 ** r.uniform(-12, 2)) for _ in range(N)]
        c["tp"] = [[0.0 if r.random() < 0.2 else (g.dyadic(0, 2, 3) if r.random() < 0.4 else r.uniform(0, 3)) for _ in range(K)] for _ in range(N)]
        if N >= 2 and r.random() < 0.3:
            i, j = r.sample(range(N), 2)   # exact tie of two scores
            c["lik"][j] = c["lik"][i]
            c["tp"][j] = list(c["tp"][i])
        if r.random() < 0.05:
            c["lik"] = [0.0] * N
        elif N >= 8 and r.random() < 0.5:
            c["lik"][N - 1] = 1e3        # the best score in the last position
            c["tp"][N - 1] = [1.0 + x for x in c["tp"][N - 1]]
    return c


def gen_sequence(g, maxlen):
    r = g.r
    while True:
        lin, circ = r.choice([0, 1, 2, 3, 3, 6, 16, 17]) if r.random() < 0.3 else r.randint(0, 3), r.randint(0, 3 if r.random() < 0.2 else 2)
        if lin + circ > 0:
            break
    n = r.randint(maxlen // 3, maxlen)
    sticky = r.random() < 0.5           # long runs under one windowed method fill the window
    # generator-side record per object: window, method, moved-from?
    ob = [{"w": 5, "m": 7, "mf": False}, {"w": 5, "m": 7, "mf": False}]
    cur = 0
    calls = []
    if sticky:
        ob[0]["m"] = r.choice([1, 2, 3, 5, 6, 7, 9, 10, 11])
        wn = r.choice([2, 3, 4, 7])
        ob[0]["w"] = wn
        calls += [{"op": "M", "m": ob[0]["m"]}, {"op": "W", "n": wn}]
    last_extract = None
    while len(calls) < n:
        o = ob[cur]
        u = r.random()
        if o["mf"]:
            # a moved-from object: un-windowed methods only (its history buffer is unusable until it is assigned into)
            if u < 0.3 or o["m"] % 4 != 0:
                o["m"] = r.choice([0, 4, 8])
                calls.append({"op": "M", "m": o["m"]})
            elif u < 0.4:
                calls.append({"op": "C"})
            elif u < 0.6:
                calls.append({"op": "T"}); cur = 1 - cur
            else:
                calls.append(gen_extract(g, lin, circ, r.random() < 0.5))
            continue
        if u < (0.06 if sticky else 0.15):
            o["m"] = r.randrange(12)
            calls.append({"op": "M", "m": o["m"]})
        elif u < (0.12 if sticky else 0.27):
            nn = r.choice([-3, 0, 1, 2, 3, 4, 5, 6, 10, 29, 30, 31, 40, o["w"], o["w"] - 1, o["w"] + 1, r.randint(1, 34)])
            calls.append({"op": "W", "n": nn})
            if r.random() < 0.3 and nn > 0:
                # there and back again: nets to nothing unless the content was cut
                calls.append({"op": "W", "n": o["w"]})
            elif nn > 0:
                o["w"] = clamp(nn)
        elif u < (0.14 if sticky else 0.32):
            calls.append({"op": "C"})
        elif u < (0.16 if sticky else 0.34):
            calls.append({"op": "V"})
        elif u < (0.19 if sticky else 0.38):
            op = r.choice(["K", "Q"])
            calls.append({"op": op})
            ob[1 - cur] = dict(o)
            ob[cur] = {"w": 0, "m": 7, "mf": True}
            if r.random() < 0.7:
                calls.append({"op": "T"}); cur = 1 - cur
        elif u < (0.21 if sticky else 0.40) and not ob[1 - cur]["mf"]:
            calls.append({"op": "T"}); cur = 1 - cur
        elif last_extract is not None and r.random() < 0.08:
            calls.append(dict(last_extract, op=r.choice(["X", "Y"]) if "pw" in last_extract else "X"))   # the same arguments again
        else:
            last_extract = gen_extract(g, lin, circ, r.random() < 0.5)
            calls.append(last_extract)
    return ser_ee(lin, circ, calls)


def method_matrix(g):
    """all twelve methods x both overloads, on three layouts"""
    out = []
    for lin, circ in ((2, 1), (1, 0), (0, 1)):
        for m in range(12):
            calls = [{"op": "M", "m": m}]
            for five in (False, True, True, False, True):
                calls.append(gen_extract(g, lin, circ, five))
            out.append(ser_ee(lin, circ, calls))
    return out


def witness_cases():
    """regression for the defect repaired by e5e0548 (theorem `mean_single_particle_wrapped`): one particle
    at angle 7 with weight 1, and the windowed form (first windowed call after construction / clear)"""
    one = {"op": "X", "ps": [[7.0]], "ws": [0.0]}
    two = {"op": "X", "ps": [[7.0], [0.5]], "ws": [0.0, -3.0]}
    return [ser_ee(0, 1, [{"op": "M", "m": 0}, one]),
            ser_ee(0, 1, [{"op": "M", "m": 5}, two, two, {"op": "C"}, two])]


def hb_random(g, n):
    r = g.r
    dim = 0 if r.random() < 0.15 else 1
    ops = []
    k = 0
    ob = [{"w": 5, "n": 0, "mf": False}, {"w": 5, "n": 0, "mf": False}]
    cur = 0

    def setw(o, w):
        if w != o["w"]:
            o["w"] = clamp(w)
        o["n"] = min(o["n"], o["w"])

    for _ in range(n):
        o = ob[cur]
        locked = o["mf"] and dim != 0     # a moved-from buffer of a non-empty state cannot be read back once it stores something
        u = r.random()
        if u < 0.50:
            if locked:
                continue                  # whether a moved-from buffer stores anything is unspecified
            k += 1
            ops.append(("A",) + ((el(k),) if dim else ()))
            o["n"] = min(o["n"] + 1, o["w"])
        elif u < 0.62:
            w = r.choice([0, 1, 2, 3, 5, 29, 30, 31, 40, 41, 64, 255, 256, 65536, 4294967295, 2147483648, r.randint(0, 40)])
            ops.append(("S", str(w))); setw(o, w)
        elif u < 0.69:
            ops.append(("D",)); setw(o, o["w"] - 1 if o["w"] > 0 else 4294967295)
        elif u < 0.76:
            ops.append(("I",)); setw(o, o["w"] + 1)
        elif u < 0.80:
            ops.append(("C",)); o["n"] = 0
        elif u < 0.85:
            ops.append(("T",)); cur = 1 - cur
        elif u < 0.90:
            if o["mf"]:
                continue
            ops.append((r.choice(["K", "Q"]),))
            ob[1 - cur] = dict(o)
            ob[cur] = {"w": 0, "n": 0, "mf": True}
        elif u < 0.92:
            ops.append(("QS",))
        else:
            if locked and o["n"] > 0:
                continue
            ops.append(("G",))
    for _ in range(2):
        o = ob[cur]
        if not (o["mf"] and dim != 0 and o["n"] > 0):
            ops.append(("G",))
        ops.append(("T",)); cur = 1 - cur
    return hb_line(ops, dim)


# ----------------------------------------------------------------------------- round 4: systematic classes

WINDOWED = [1, 2, 3, 5, 6, 7, 9, 10, 11]


def small_extract(g, lin, circ, five, value=None, N=None):
    """a cheap extract call (1..3 particles); `value`: the linear rows of every particle are value * (1 + j/8)
    (so that mean / mode / map all give an estimate of that magnitude)"""
    r = g.r
    N = N or r.choice([1, 2, 2, 3])
    ps = []
    for j in range(N):
        p = [(value * (1.0 + j / 8.0) if value is not None else g.dyadic(-4, 4, 4)) * (1.0 + i) for i in range(lin)]
        p += [wrap(r.uniform(-3.0, 3.0)) for _ in range(circ)]
        ps.append(p)
    c = {"op": "Y" if five else "X", "ps": ps, "ws": gen_logweights(g, N, ties=False)}
    if five:
        c["pw"] = gen_logweights(g, N, ties=False)
        c["lik"] = [r.uniform(0.1, 2.0) for _ in range(N)]
        c["tp"] = [[r.uniform(0.1, 2.0) for _ in range(N)] for _ in range(N)]
    return c


def grow_after_wrap_cases(g):
    """class of C17-r4-1: the window is ENLARGED after the storage has wrapped around, at every phase of the
    wrap (pushes = w0 + phase, phase over two full turns), to the next size / a few more / the maximum, through
    every path that enlarges (setMobileAverageWindowSize; setHistorySize; a chain of increaseHistorySize); every
    later push is read back until the enlarged window has been refilled completely."""
    out = []
    k = 0
    for w0 in (2, 3, 4, 5, 7):
        for phase in range(2 * w0):
            for w1 in sorted(set([w0 + 1, w0 + 3, 2 * w0 + 1, 30])):
                k += 1
                m = WINDOWED[k % len(WINDOWED)]
                lin, circ = [(1, 1), (2, 0), (0, 1), (1, 0)][k % 4]
                five = m >= 8
                calls = [{"op": "M", "m": m}, {"op": "W", "n": w0}]
                calls += [small_extract(g, lin, circ, five, value=float(j + 1)) for j in range(w0 + phase)]
                calls.append({"op": "W", "n": w1})
                if k % 5 == 0:
                    calls += [{"op": "W", "n": w0}, {"op": "W", "n": w1}]          # shrink back (cuts nothing more), enlarge again
                calls += [small_extract(g, lin, circ, five, value=float(100 + j)) for j in range(min(w1, 12) + 2)]
                out.append((ser_ee(lin, circ, calls), "ee", {"src": "grow-after-wrap"}))
    for w0 in range(2, 10):
        for phase in range(2 * w0):
            for w1 in sorted(set([w0 + 1, w0 + 3, 30])):
                k += 1
                ops = [("S", str(w0))] + [("A", el(j + 1)) for j in range(w0 + phase)] + [("G",)]
                if k % 2:
                    ops += [("S", str(w1)), ("G",)]
                else:
                    for _ in range(min(w1 - w0, 4)):
                        ops += [("I",), ("G",)]
                for j in range(min(w1, 12) + 2):
                    ops += [("A", el(100 + j)), ("G",)]
                out.append((hb_line(ops), "hb", {"src": "grow-after-wrap"}))
    return out


def outlier_cases(g):
    """class of C17-r4-2: one base estimate of magnitude 1e12 .. 1e17 (either sign) at every position of the
    fill-up / of the full window, then ordinary estimates for more than two windows; every windowed family and
    statistic.  Once the outlier has left the window the estimate must again be the combination of the stored
    ordinary estimates within a tolerance relative to THEIR size (a running sum keeps the rounding residue)."""
    out = []
    k = 0
    for w in (2, 3, 5, 8, 30):
        positions = range(w + 2) if w < 30 else (0, 1, 15, 29, 30, 31)
        for p in positions:
            for mag in (1e12, -1e15, 1e17):
                k += 1
                m = WINDOWED[k % len(WINDOWED)]
                lin, circ = [(1, 0), (2, 1), (1, 1)][k % 3]
                five = m >= 8
                calls = [{"op": "M", "m": m}, {"op": "W", "n": w}]
                for j in range(p + 2 * w + 3):
                    calls.append(small_extract(g, lin, circ, five, value=(mag if j == p else 1.0 + (j % 7) / 4.0)))
                out.append((ser_ee(lin, circ, calls), "ee", {"src": "outlier"}))
    return out


def long_history_cases(g):
    """histories longer than any fixed internal capacity (>= 31, >= 65, >= 257 estimates without a clear), the
    window changed on the way; buffer read back after every push"""
    out = []
    for n, w, m, marks in ((70, None, 1, {}), (300, 30, 6, {}), (300, 7, 3, {100: 2, 180: 30, 260: 29}), (140, 29, 9, {33: 30, 66: 3, 99: 30})):
        lin, circ = (1, 1) if m != 9 else (1, 0)
        calls = [{"op": "M", "m": m}] + ([{"op": "W", "n": w}] if w else [])
        for j in range(n):
            if j in marks:
                calls.append({"op": "W", "n": marks[j]})
            calls.append(small_extract(g, lin, circ, m >= 8, value=float(j + 1), N=1 if j % 3 else 2))
        out.append((ser_ee(lin, circ, calls), "ee", {"src": "long-history"}))
    for w, n in ((30, 300), (5, 70), (16, 300), (2, 260)):
        ops = [("S", str(w))]
        for j in range(n):
            ops += [("A", el(j + 1))] + ([("G",)] if (j < 70 or j % 16 in (0, 1) or j >= n - 3) else [])
        ops += [("I",), ("G",), ("D",), ("D",), ("G",)]
        out.append((hb_line(ops), "hb", {"src": "long-history"}))
    return out


LONG_N = [63, 64, 65, 127, 128, 129, 255, 256, 257, 511, 512, 513, 1024, 1025]


def long_set_cases(g, quick):
    """class of C19-r4-1 (chunked accumulation): particle counts at multiples of 64 / 128 / 256 and their
    neighbours, up to 1025, for mean (linear and circular rows), mode and map, plain and windowed; the angles
    drift along the index so that leaving out any chunk moves the mean; the maximal weight / score sits in the
    last position, at a chunk boundary, or in the first position."""
    r = g.r
    out = []
    for idx, N in enumerate(LONG_N):
        lin, circ = [(1, 1), (0, 2), (2, 1)][idx % 3]
        centre = r.uniform(-PI, PI)
        ps = [[g.full(-4, 4) + 3.0 * j / N for _ in range(lin)] + [wrap(centre + 1.6 * j / N - 0.8 + r.uniform(-0.1, 0.1)) for _ in range(circ)] for j in range(N)]
        raw = [r.uniform(0.2, 1.0) for _ in range(N)]
        s = math.fsum(raw)
        lw = [math.log(x / s) for x in raw]
        calls = [{"op": "M", "m": 0}, {"op": "X", "ps": ps, "ws": lw}]
        for pos in (N - 1, (N - 1) // 256 * 256, 0):
            lw2 = list(lw)
            lw2[pos] = max(lw) + 0.5
            calls += [{"op": "M", "m": 4}, {"op": "X", "ps": ps, "ws": lw2}]
        calls += [{"op": "M", "m": r.choice([1, 2, 3])}, {"op": "X", "ps": ps, "ws": lw}, {"op": "X", "ps": list(reversed(ps)), "ws": list(reversed(lw))}]
        out.append((ser_ee(lin, circ, calls), "ee", {"src": "long-set"}))
    for N, K in ((255, 3), (256, 1), (257, 2), (512, 3), (64, 64), (65, 65)) + (() if quick else ((256, 256), (1024, 4))):
        ps = [[g.full(-4, 4)] for _ in range(N)]
        lw = [math.log(1.0 / N)] * N
        pw = gen_logweights(g, K, ties=False)
        lik = [r.uniform(0.1, 1.0) for _ in range(N)]
        tp = [[r.uniform(0.1, 1.0) for _ in range(K)] for _ in range(N)]
        calls = [{"op": "M", "m": 8}]
        for pos in (N - 1, (N - 1) // 64 * 64, N // 2):
            l2 = list(lik)
            l2[pos] = 5.0
            calls.append({"op": "Y", "ps": ps, "ws": lw, "pw": pw, "lik": l2, "tp": tp})
        calls += [{"op": "M", "m": 9}, calls[-1], calls[1]]
        out.append((ser_ee(1, 0, calls), "ee", {"src": "long-set"}))
    return out


def mixed_scale_cases(g):
    """class o: consecutive base estimates that are equal relative to their norm (1e-12 of the dominant row)
    and differ only in a row 1e-13 .. 1e-20 times smaller; every row is judged at its own scale."""
    r = g.r
    out = []
    for k in range(12):
        m = WINDOWED[k % len(WINDOWED)]
        five = m >= 8
        big, small = r.choice([(1e4, 1e-9), (1e15, 1.0), (1e8, 1e-8), (1.0, 1e-18)])
        calls = [{"op": "M", "m": m}, {"op": "W", "n": r.choice([2, 3, 5])}]
        for j in range(9):
            N = r.choice([1, 2])
            ps = [[big * (1.0 + q / 8.0), small * (1.0 + j + q / 4.0)] for q in range(N)]
            c = {"op": "Y" if five else "X", "ps": ps, "ws": gen_logweights(g, N, ties=False)}
            if five:
                c["pw"] = gen_logweights(g, N, ties=False)
                c["lik"] = [r.uniform(0.1, 2.0) for _ in range(N)]
                c["tp"] = [[r.uniform(0.1, 2.0) for _ in range(N)] for _ in range(N)]
            calls.append(c)
        out.append((ser_ee(2, 0, calls), "ee", {"src": "mixed-scale"}))
    return out


def int_range_cases(g):
    """class r: the whole range of `int` for setMobileAverageWindowSize (the harness parses with strtol and passes
    an int), values congruent to a valid window modulo 2^8 / 2^16"""
    out = []
    reqs = [2147483647, -2147483648, -1, 256 + 5, 65536 + 7, 65536, 256, 32768, 2147483647 - 25, 1 << 30, 255, 257]
    for k, n in enumerate(reqs):
        m = WINDOWED[k % len(WINDOWED)]
        calls = [{"op": "M", "m": m}, {"op": "W", "n": 4}]
        calls += [small_extract(g, 1, 0, m >= 8, value=float(j + 1)) for j in range(6)]
        calls.append({"op": "W", "n": n})
        calls += [small_extract(g, 1, 0, m >= 8, value=float(j + 10)) for j in range(33)]
        out.append((ser_ee(1, 0, calls), "ee", {"src": "int-range"}))
    return out


# ----------------------------------------------------------------------------- plain (non-sanitizer) build

def build_plain():
    """the harness compiled -O2 -DNDEBUG without sanitizers, directly against the three anchored source files
    (address reuse, vectorised paths and assertion-free behaviour differ from the ASan build)"""
    import os
    src = vlib.REPO / "src" / "BayesFilters"
    files = [src / "src" / f for f in ("EstimatesExtraction.cpp", "HistoryBuffer.cpp", "directional_statistics.cpp")]
    hsrc = vlib.VERIF / "harness" / "h_extract.cpp"
    outdir = vlib.BUILD / "plain-c17"
    outdir.mkdir(parents=True, exist_ok=True)
    binary = outdir / "h_extract_plain"
    deps = files + [hsrc, vlib.VERIF / "harness" / "common.hpp"] + list((src / "include" / "BayesFilters").glob("*.h"))
    with vlib.locked("plain-c17"):
        stale = not binary.exists() or any(os.stat(str(d)).st_mtime > binary.stat().st_mtime for d in deps)
        if stale:
            cmd = ["g++", "-std=c++11", "-O2", "-DNDEBUG", "-DBFL_VERIF", "-I", str(src / "include"), "-I", vlib.EIGEN_INC,
                   "-I", str(vlib.VERIF / "harness"), str(hsrc)] + [str(f) for f in files] + ["-lpthread", "-o", str(binary)]
            rc, o, e = vlib.sh(cmd)
            if rc != 0:
                raise vlib.BuildError("plain harness failed to compile:\n%s" % e[-4000:])
    return binary


# ----------------------------------------------------------------------------- run

def run(ctx):
    ctx.proof_stage()
    binary = vlib.build_harness("h_extract")
    quick = ctx.quick()
    g = ctx.gen("ee")
    stats = {"branches": {}, "methods": {}, "ill_conditioned_rows_skipped": 0, "calls_compared_with_model": 0,
             "max_model_err_over_tol": 0.0, "probe_weights_vs_model_max_rel": 0.0, "weight_vectors_probed": 0,
             "hb_full_reads": 0}
    notes = {}
    cases = []                      # (line, kind, meta)
    corpus = vlib.VERIF / "corpus" / "C17" / "cases.txt"
    if corpus.exists():
        for ln in corpus.read_text().split("\n"):
            ln = ln.strip()
            if ln and not ln.startswith("#"):
                cases.append((ln, ln.split()[0], {"src": "corpus"}))
    for ln in witness_cases():
        cases.append((ln, "ee", {"src": "witness"}))
    # weight probes: every family x every window 2..30
    for fam in (1, 2, 3):
        for w in range(2, 31):
            cases.append((probe_case(fam, w), "probe", {"fam": fam, "window": w}))
    # buffer: exhaustive grid
    if quick:
        def w1s(w0, fill):
            return sorted(set(x for x in (0, 1, 2, 3, 15, 29, 30, 31, 40, fill - 1, fill, fill + 1, w0 - 1, w0, w0 + 1, clamp(w0) - 1) if 0 <= x <= 40))
    else:
        def w1s(w0, fill):
            return range(41)
    ngrid = 0
    for w0 in range(41):
        for fill in range(41):
            for w1 in w1s(w0, fill):
                cases.append((hb_grid_case(w0, fill, w1), "hb", {"src": "grid"}))
                ngrid += 1
    for w0 in (41, 64, 255, 256, 65536, 4294967295):        # beyond the grid bound
        for fill in (0, 1, 2, 29, 30, 31, 40):
            for w1 in (0, 2, 29, 30, 31, w0):
                cases.append((hb_grid_case(w0, fill, w1), "hb", {"src": "grid-beyond"}))
    cases.append((hb_line([("A", el(i + 1)) for i in range(7)] + [("G",)] + [("D",), ("G",)] * 6 + [("I",), ("A", el(50)), ("G",)] * 32), "hb", {"src": "dec-inc"}))
    cases.append(("hb 3 9 A %s A %s G S 2 A %s G S 1 C G" % (" ".join(el(i) for i in (1, 2, 3)), " ".join(el(i) for i in (4, 5, 6)), " ".join(el(i) for i in (7, 8, 9))), "hb", {"src": "dim3"}))
    gb = ctx.gen("hb")
    for _ in range(ctx.n(600, 8000)):
        cases.append((hb_random(gb, gb.r.randint(5, 80)), "hb", {"src": "random"}))
    # extraction: method matrix and random call sequences
    for ln in method_matrix(g):
        cases.append((ln, "ee", {"src": "matrix"}))
    nseq = ctx.n(500, 6000)
    for _ in range(nseq):
        cases.append((gen_sequence(g, 60), "ee", {"src": "random"}))
    # round 4: systematic classes (enlarged after wrap-around, magnitude outliers, long histories, long particle
    # sets at chunk boundaries, mixed-scale rows, the whole range of int)
    g4 = ctx.gen("r4")
    cases += grow_after_wrap_cases(g4) + outlier_cases(g4) + long_history_cases(g4) + long_set_cases(g4, quick)
    cases += mixed_scale_cases(g4) + int_range_cases(g4)

    if ctx.replay:
        import json
        ln = json.load(open(ctx.replay))["replay"]["input_line"]
        kind = "hb" if ln.startswith("hb") else "ee"
        # the weight probes stay: they provide the implementation's weight vectors the oracle uses
        cases = [c for c in cases if c[1] == "probe"] + [(ln, kind, {"src": "replay"})]
        ngrid = 0
    lines = [c[0] for c in cases]
    hout, logs = vlib.run_harness(binary, lines)
    dout = vlib.run_driver(lines)

    wtab = {}
    prop_bad, corr_bad = [], []
    def record(problems, line, h):
        for kind, key, what in problems:
            (prop_bad if kind == "prop" else corr_bad).append((key, what, line, h))
    def guarded(f, line, h):
        # an output the evaluation cannot digest (unexpected shape, non-numeric token) is a failure of the
        # implementation on that input, never a crash of the check and never a pass
        try:
            record(f(), line, h)
        except Exception as ex:
            record([("prop", "output-malformed", "the output of the implementation could not be evaluated (%s: %s)" % (type(ex).__name__, str(ex)[:200]))], line, h)
    def evaluate(outs, wt):
        # probes first: they give the implementation's own weight vectors
        for (line, kind, meta), h, d in zip(cases, outs, dout):
            if kind == "probe":
                guarded(lambda: eval_probe(meta["fam"], meta["window"], h, d, wt, stats), line, h)
        for (line, kind, meta), h, d in zip(cases, outs, dout):
            if kind == "hb":
                guarded(lambda: eval_hb(line, h, d, stats, notes), line, h)
            elif kind == "ee":
                guarded(lambda: eval_ee(line, h, d, wt, stats, notes), line, h)
    evaluate(hout, wtab)
    # the specification machine HistSpec (append-only log + counter; theorem buffer_refines_spec) on every buffer
    # case: it must show exactly what the deque model shows (which eval_hb compares with the implementation)
    hb_idx = [i for i, c in enumerate(cases) if c[1] == "hb"]
    sout = vlib.run_driver(["hbs" + lines[i][2:] for i in hb_idx])
    def hb_mask(out):
        return [c if c[0] == "G" else [c[0], c[2]] for c in split_calls(out)]
    stats["spec_cases_compared"] = 0
    for i, so in zip(hb_idx, sout):
        stats["spec_cases_compared"] += 1
        try:
            same = hb_mask(so) == hb_mask(dout[i])
        except Exception:
            same = False
        if not same:
            corr_bad.append(("spec-vs-model", "HistSpec and HistBuf disagree: %s / %s" % (so[:200], dout[i][:200]), lines[i], hout[i]))
    # the same cases through a plain -O2 -DNDEBUG build without sanitizers (a subset in the quick tier)
    plain = build_plain()
    sub = [i for i, c in enumerate(cases) if c[1] != "hb" or c[2].get("src") != "grid" or i % (7 if quick else 1) == 0]
    pout, plogs = vlib.run_harness(plain, [lines[i] for i in sub])
    full = list(hout)
    for i, o in zip(sub, pout):
        full[i] = o
    nb = (len(prop_bad), len(corr_bad))
    saved_cases = cases
    cases = [cases[i] for i in sub]
    dout_all, dout = dout, [dout[i] for i in sub]
    evaluate(pout, {})
    cases, dout = saved_cases, dout_all
    stats["plain_build_cases"] = len(sub)
    stats["plain_build_new_failures"] = (len(prop_bad) - nb[0]) + (len(corr_bad) - nb[1])
    logs = dict(logs)
    logs.update({("plain", k): v for k, v in plogs.items()})

    seen = set()
    for key, what, line, h in prop_bad:
        if key in seen:
            continue
        seen.add(key)
        ctx.violation(key, "C17: " + what, {"harness": "h_extract", "input_line": line[:2000000], "observed": h[:4000]})
    known_keys = set(k["key"] for k in ctx.known if k["property"] == ctx.prop)
    if corr_bad and not [p for p in prop_bad if p[0] not in known_keys]:
        key, what, line, h = corr_bad[0]
        ctx.violation("correspondence:" + key, "model and implementation disagree (%d cases) though no property predicate failed: %s" % (len(corr_bad), what),
                      {"harness": "h_extract", "correspondence": "BFL.Extract / BFL.HistBuf vs EstimatesExtraction / HistoryBuffer", "input_line": line[:2000000], "observed": h[:4000]}, no_input=True)
    if stats["probe_weights_vs_model_max_rel"] > 1e-13:
        ctx.notes.append("the implementation's window weights differ from the model's (max rel %.3g); the property only promises positive, normalised, non-increasing weights" % stats["probe_weights_vs_model_max_rel"])
    for k, v in sorted(notes.items()):
        ctx.notes.append("model deviation not covered by the property text (%s): %d sequences" % (k, v))

    kinds = {}
    for _, kind, meta in cases:
        kk = kind + ":" + meta.get("src", "probe")
        kinds[kk] = kinds.get(kk, 0) + 1
    ee_lines = [c[0] for c in cases if c[1] == "ee" and c[2].get("src") == "random"]
    nontrivial = len(set(l for l, k, m in cases if k != "ee" or len(l.split()) > 12))
    ctx.coverage.update({
        "evaluations": len(cases), "distinct_nontrivial": nontrivial,
        "rule": "buffer: for every initial window request 0..40 x fill level 0..40 x %s second window request: set, fill with distinct elements, read, resize, read, add two, read, clear, read, add, read (exhaustive), plus decrease/increase chains and random operation sequences incl. unsigned extremes; "
                "extraction: weight probes (unit vectors through the mode of a two-particle set) for the 3 windowed families x windows 2..30 x every fill level; all 12 methods x both overloads on 3 layouts; seeded random call sequences of length 20..60 mixing setMethod / setWindow (incl. <= 0, 1, 2, 30, 31, 40) / clear / move / extract(2 args) / extract(5 args) with 1..6 distinct particles, 0..3 linear and 0..2 circular rows, exact ties of the maximal weight / map score, zero likelihoods and transition entries, angles outside (-pi, pi]; "
                "round 4, enumerated in every run: window enlarged after the storage has wrapped around at every phase (w0 in 2..9, pushes w0..3*w0-1, to w0+1 / w0+3 / 2*w0+1 / 30, through setMobileAverageWindowSize, setHistorySize and increaseHistorySize chains, every later push read back until refilled); one base estimate of 1e12 / -1e15 / 1e17 at every position of windows 2, 3, 5, 8, 30 followed by more than two windows of ordinary estimates, all nine windowed methods; histories of 70 / 140 / 300 estimates without a clear; particle sets of 63..1025 columns (multiples of 64 / 128 / 256 and neighbours) for mean / mode / map with the maximum at the end, at a chunk boundary and at the start; rows of scale 1e15 next to rows of scale 1; window requests over the whole range of int; plateau weights (first = second = last, a different one between); "
                "non-trivial = more than a single call; distinct = distinct case lines" % ("16 boundary values of the" if quick else "each of 0..40 as"),
        "samples": [cases[0][0][:300], probe_case(2, 3)[:300], hb_grid_case(10, 4, 3), (ee_lines[0][:600] if ee_lines else "")],
        "exhaustive": True,
        "exhaustive_scope": "buffer grid (%d cases); weight vectors of all families/windows/fill levels (%d vectors); method x overload matrix" % (ngrid, stats["weight_vectors_probed"]),
        "case_kinds": kinds, "model_branches_hit": stats["branches"], "methods_x_overload_hit": stats["methods"],
        "traces_validated_against_impl": len(cases),
        "calls_compared_with_model": stats["calls_compared_with_model"],
        "model_vs_impl_disagreements": len(corr_bad), "property_failures_on_impl": len(prop_bad),
        "model_deviation_notes": notes,
        "plain_build": {"cases": stats.get("plain_build_cases"), "new_failures": stats.get("plain_build_new_failures")},
        "numeric": {k: stats.get(k) for k in ("max_model_err_over_tol", "max_model_err_at", "probe_weights_vs_model_max_rel", "ill_conditioned_rows_skipped", "weight_vectors_probed", "hb_full_reads", "spec_cases_compared", "spec_calls_ok")},
        "sanitizer_crashes": len(logs),
    })
    ctx.assumptions += [
        "floating point: implementation compared with the weighted sums recomputed in double precision (math.fsum) within 64*eps*sqrt(k)*sum|terms|; angles within 64*eps*sum(a)*max|angle|/R, rows with resultant R < 1e-6 skipped",
        "the windowed estimate is compared with the combination of the check's own record of base estimates (obtained from a second EstimatesExtraction instance with the un-windowed method on the same arguments) under the weight vector the implementation itself shows on unit-vector probes for the same (family, window, fill level)",
        "all windowed families share one history buffer and un-windowed calls do not enter it (as coded): 'calls' in the property is read as windowed extract calls that produced an estimate since the last clear",
    ]
