// Correspondence harness for C11: the real GaussianMixture, Gaussian and ParticleSet.
//
// One case per line:   shp <op> ; <op> ; ...
// A pool of slots holds live objects.  After every operation the public fields, the storage
// dimensions, the geometry of the per-component accessors and every entry of the object the
// operation wrote to are printed; after the last operation every live object is printed.
//
//   D  dst kind                       default constructor        kind: 0 GaussianMixture 1 Gaussian 2 ParticleSet
//   C2 dst kind k d                   (components, dim) / Gaussian(dim_linear)
//   C4 dst kind k l c q               (components, dim_linear, dim_circular, use_quaternion) / Gaussian(l, c, q)
//   CP dst src mode                   copy: mode 0 copy construction, 1 copy assignment when dst is live and of the same class
//   SL dst src                        GaussianMixture copy-constructed from the base of src
//   RS s k l c                        virtual resize(components, dim_linear, dim_circular)
//   R2 s k l                          virtual resize(components, dim_linear)   (default argument)
//   GR s l c                          Gaussian::resize(dim_linear, dim_circular)
//   G1 s l                            Gaussian::resize(dim_linear)   (default argument)
//   AU s qr qc <qr*qc hex, col-major> augmentWithNoise
//   AA s i                            s.augmentWithNoise(s.covariance(i))   (argument aliases own storage)
//   MV dst src mode                   move construction (0) / move assignment (1) dst = std::move(src); src is destroyed afterwards
//   BA dst src                        static_cast<GaussianMixture&>(dst) = static_cast<const GaussianMixture&>(src)
//   PE dst src                        dst += src
//   PL dst a b                        dst = a + b   (a new object constructed from the returned value)
//   PA dst a b                        dst = a + b   (assigned to the existing particle set in dst; dst may be a)
//   WM s mode i j v  WC s mode i j k v  WW s mode i v  WS s mode i j v
//                                     element writes; mode 0 element accessor, 1 through the block accessor,
//                                     2 Gaussian's own accessor (i must be 0)
//   FI s stamp                        recognisable value into every entry through mean(i), covariance(i), weight(i), state(i)
//
// Output: `ok <r> <dump> ; <r> <dump> ; ... ; END <dump> <dump> ...` — an operation that is not
// applicable (empty slot, wrong class) prints `skip`.  Component, row and column indices of the element
// accessors are parsed over the whole std::size_t range (strtoull) and handed to the library unchanged.  Entries are printed as
// `0` (+0.0), a decimal integer (non-zero integral value below 2^31) or 16 hex digits.
#include "common.hpp"
#include <BayesFilters/GaussianMixture.h>
#include <BayesFilters/Gaussian.h>
#include <BayesFilters/ParticleSet.h>
#include <cmath>
#include <memory>

using namespace bfl;
using namespace Eigen;
using vh::Toks; using vh::Out;

enum Kind { GM = 0, GA = 1, PS = 2 };

struct Obj {
    int kind = GM;
    std::unique_ptr<GaussianMixture> p;
    Gaussian& ga() { return static_cast<Gaussian&>(*p); }
    ParticleSet& ps() { return static_cast<ParticleSet&>(*p); }
};

static const int NSLOT = 4;

static std::string val(double d) {
    uint64_t b; std::memcpy(&b, &d, 8);
    if (b == 0) return "0";
    if (std::fabs(d) < 2147483648.0 && d == std::floor(d) && d != 0.0) return std::to_string((long long)d);
    return vh::hx(d);
}

static double stampval(long stamp, long storage, long comp, long idx) {
    return (double)(1 + idx + 1024 * (comp + 32 * (storage + 4 * stamp)));
}

// position of `ptr` inside the column-major matrix starting at `base` with `rows` rows
static void pos(Out& o, const double* ptr, const double* base, long rows) {
    if (rows <= 0 || ptr == nullptr || base == nullptr) { o.s("z").s("z"); return; }
    long off = ptr - base;
    o.n(off / rows).n(off % rows);
}

template <class B> static void geom(Out& o, const B& b, const double* base, long rows) {
    if (b.size() == 0) o.s("z").s("z"); else pos(o, b.data(), base, rows);
    o.n(b.rows()).n(b.cols());
}

static void dump(Out& o, int slot, Obj& ob) {
    GaussianMixture& g = *ob.p;
    const GaussianMixture& cg = g;
    o.s("O").n(slot).n(ob.kind).n(g.components).n(g.use_quaternion ? 1 : 0).n(g.dim_circular_component)
        .n(g.dim).n(g.dim_linear).n(g.dim_circular).n(g.dim_noise).n(g.dim_covariance);
    const Ref<const MatrixXd> M = cg.mean();
    const Ref<const MatrixXd> C = cg.covariance();
    const Ref<const VectorXd> W = cg.weight();
    long mr = M.rows(), mc = M.cols(), cr = C.rows(), cc = C.cols(), wr = W.size();
    long sr = 0, sc = 0;
    if (ob.kind == PS) { sr = ob.ps().state().rows(); sc = ob.ps().state().cols(); }
    o.s("M").n(mr).n(mc).s("C").n(cr).n(cc).s("W").n(wr).s("S").n(sr).n(sc);
    // accessor geometry (never asserts: ranges are tested first)
    o.s("A");
    // whole-storage accessors, non-const overloads (the const ones supplied M, C, W, S above)
    o.s("H");
    { Ref<MatrixXd> m = g.mean(); geom(o, m, M.data(), mr); }
    { Ref<MatrixXd> c = g.covariance(); geom(o, c, C.data(), cr); }
    { Ref<VectorXd> w = g.weight(); geom(o, w, W.data(), wr); }
    if (ob.kind == PS) { const ParticleSet& cp = ob.ps(); Ref<MatrixXd> st = ob.ps().state(); geom(o, st, cp.state().data(), sr); }
    long dc = g.dim_covariance;
    long kk = std::min<long>(g.components, 32);
    for (long i = 0; i < kk; ++i) {
        if (i < mc) { geom(o, g.mean(i), M.data(), mr); geom(o, cg.mean(i), M.data(), mr); } else o.s("oob");
        if (i < mc && mr > 0) { pos(o, &g.mean(i, mr - 1), M.data(), mr); pos(o, &cg.mean(i, mr - 1), M.data(), mr); } else o.s("-");
        if (dc * i + dc <= cc) { geom(o, g.covariance(i), C.data(), cr); geom(o, cg.covariance(i), C.data(), cr); } else o.s("oob");
        if (cr > 0 && dc > 0 && dc * i + dc <= cc) {
            pos(o, &g.covariance(i, 0, dc - 1), C.data(), cr); pos(o, &g.covariance(i, cr - 1, 0), C.data(), cr);
            pos(o, &cg.covariance(i, 0, dc - 1), C.data(), cr); pos(o, &cg.covariance(i, cr - 1, 0), C.data(), cr);
        } else o.s("-");
        if (i < wr) { o.n(&g.weight(i) - W.data()); o.n(&cg.weight(i) - W.data()); } else o.s("oob");
        if (ob.kind == PS) {
            ParticleSet& p = ob.ps(); const ParticleSet& cp = p;
            const Ref<const MatrixXd> S = cp.state();
            if (i < sc) { geom(o, p.state(i), S.data(), sr); geom(o, cp.state(i), S.data(), sr); } else o.s("oob");
            if (i < sc && sr > 0) { pos(o, &p.state(i, sr - 1), S.data(), sr); pos(o, &cp.state(i, sr - 1), S.data(), sr); } else o.s("-");
        }
    }
    if (ob.kind == GA) {
        Gaussian& a = ob.ga(); const Gaussian& ca = a;
        o.s("G");
        if (mc >= 1) { geom(o, a.mean(), M.data(), mr); geom(o, ca.mean(), M.data(), mr); } else o.s("oob");
        if (mc >= 1 && mr > 0) { pos(o, &a.mean(mr - 1), M.data(), mr); pos(o, &ca.mean(mr - 1), M.data(), mr); } else o.s("-");
        geom(o, a.covariance(), C.data(), cr); geom(o, ca.covariance(), C.data(), cr);
        if (cr > 0 && cc > 0) {
            pos(o, &a.covariance(0, cc - 1), C.data(), cr); pos(o, &a.covariance(cr - 1, 0), C.data(), cr);
            pos(o, &ca.covariance(0, cc - 1), C.data(), cr); pos(o, &ca.covariance(cr - 1, 0), C.data(), cr);
        } else o.s("-");
        if (wr >= 1) { o.n(&a.weight() - W.data()); o.n(&ca.weight() - W.data()); } else o.s("oob");
    }
    o.s("E");
    for (long j = 0; j < mc; ++j) for (long i = 0; i < mr; ++i) o.s(val(M(i, j)));
    o.s("/");
    for (long j = 0; j < cc; ++j) for (long i = 0; i < cr; ++i) o.s(val(C(i, j)));
    o.s("/");
    for (long i = 0; i < wr; ++i) o.s(val(W(i)));
    o.s("/");
    if (ob.kind == PS) { const ParticleSet& cp = ob.ps(); const Ref<const MatrixXd> S = cp.state(); for (long j = 0; j < sc; ++j) for (long i = 0; i < sr; ++i) o.s(val(S(i, j))); }
}

static GaussianMixture* clone(Obj& src) {
    if (src.kind == GM) return new GaussianMixture(*src.p);
    if (src.kind == GA) return new Gaussian(src.ga());
    return new ParticleSet(src.ps());
}

static std::string shp(Toks& t) {
    Obj pool[NSLOT];
    Out o; o.s("ok");
    auto slot = [&](long s) -> long { if (s < 0 || s >= NSLOT) throw vh::BadArgs("slot"); return s; };
    bool more = !t.empty();
    while (more) {
        std::string op = t.tok();
        long dst = -1; std::string ret = "-"; bool skip = false;
        if (op == "D" || op == "C2" || op == "C4") {
            dst = slot(t.nat()); long kind = t.nat();
            long k = 1, l = 1, c = 0; bool q = false;
            if (op == "C2") { k = t.nat(); l = t.nat(); }
            if (op == "C4") { k = t.nat(); l = t.nat(); c = t.nat(); q = t.flag(); }
            if (kind < 0 || kind > 2) throw vh::BadArgs("kind");
            if (k < 0) skip = true;      // 0 components are legal: empty storage
            else {
                GaussianMixture* n = nullptr;
                if (op == "D") n = kind == GM ? new GaussianMixture() : kind == GA ? (GaussianMixture*)new Gaussian() : (GaussianMixture*)new ParticleSet();
                else if (op == "C2") n = kind == GM ? new GaussianMixture(k, l) : kind == GA ? (GaussianMixture*)new Gaussian(l) : (GaussianMixture*)new ParticleSet(k, l);
                else n = kind == GM ? new GaussianMixture(k, l, c, q) : kind == GA ? (GaussianMixture*)new Gaussian(l, c, q) : (GaussianMixture*)new ParticleSet(k, l, c, q);
                pool[dst].p.reset(n); pool[dst].kind = (int)kind;
            }
        } else if (op == "CP") {
            dst = slot(t.nat()); long src = slot(t.nat()); long mode = t.nat();
            if (!pool[src].p) skip = true;
            else if (dst == src) { /* self assignment / copy of itself: nothing to do */
                if (mode == 1) { if (pool[src].kind == GM) *pool[dst].p = *pool[src].p; else if (pool[src].kind == GA) pool[dst].ga() = pool[src].ga(); else pool[dst].ps() = pool[src].ps(); }
            } else if (mode == 1 && pool[dst].p && pool[dst].kind == pool[src].kind) {
                if (pool[src].kind == GM) *pool[dst].p = *pool[src].p;
                else if (pool[src].kind == GA) pool[dst].ga() = pool[src].ga();
                else pool[dst].ps() = pool[src].ps();
            } else { pool[dst].p.reset(clone(pool[src])); pool[dst].kind = pool[src].kind; }
        } else if (op == "SL") {
            dst = slot(t.nat()); long src = slot(t.nat());
            if (!pool[src].p) skip = true;
            else { GaussianMixture* n = new GaussianMixture(*pool[src].p); pool[dst].p.reset(n); pool[dst].kind = GM; }
        } else if (op == "RS" || op == "R2") {
            // on a Gaussian this is the inherited virtual GaussianMixture::resize (through the base pointer)
            dst = slot(t.nat()); long k = t.nat(), l = t.nat(), c = (op == "RS") ? t.nat() : 0;
            if (!pool[dst].p || k < 0) skip = true;
            else if (op == "RS") pool[dst].p->resize(k, l, c);
            else pool[dst].p->resize(k, l);
        } else if (op == "GR" || op == "G1") {
            dst = slot(t.nat()); long l = t.nat(), c = (op == "GR") ? t.nat() : 0;
            if (!pool[dst].p || pool[dst].kind != GA) skip = true;
            else if (op == "GR") pool[dst].ga().resize(l, c);
            else pool[dst].ga().resize(l);
        } else if (op == "AU") {
            dst = slot(t.nat()); long qr = t.nat(), qc = t.nat();
            MatrixXd Q = t.mat(qr, qc);
            if (!pool[dst].p) skip = true;   // on 0 components: Eigen assertion (`components - 1` wraps)
            else ret = pool[dst].p->augmentWithNoise(Q) ? "t" : "f";
        } else if (op == "AA") {
            dst = slot(t.nat()); std::size_t i = t.unat();
            if (!pool[dst].p) skip = true;
            else ret = pool[dst].p->augmentWithNoise(pool[dst].p->covariance(i)) ? "t" : "f";
        } else if (op == "MV") {
            dst = slot(t.nat()); long src = slot(t.nat()); long mode = t.nat();
            if (!pool[src].p || dst == src) skip = true;
            else {
                Obj& sc = pool[src];
                if (mode == 1 && pool[dst].p && pool[dst].kind == sc.kind) {
                    if (sc.kind == GM) *pool[dst].p = std::move(*sc.p);
                    else if (sc.kind == GA) pool[dst].ga() = std::move(sc.ga());
                    else pool[dst].ps() = std::move(sc.ps());
                } else {
                    GaussianMixture* n = sc.kind == GM ? new GaussianMixture(std::move(*sc.p))
                        : sc.kind == GA ? (GaussianMixture*)new Gaussian(std::move(sc.ga())) : (GaussianMixture*)new ParticleSet(std::move(sc.ps()));
                    pool[dst].p.reset(n); pool[dst].kind = sc.kind;
                }
                pool[src].p.reset();
            }
        } else if (op == "BA") {
            dst = slot(t.nat()); long src = slot(t.nat());
            if (!pool[dst].p || !pool[src].p) skip = true;
            else { GaussianMixture& d = *pool[dst].p; const GaussianMixture& sref = *pool[src].p; d = sref; }
        } else if (op == "PE") {
            dst = slot(t.nat()); long src = slot(t.nat());
            if (!pool[dst].p || !pool[src].p || pool[dst].kind != PS || pool[src].kind != PS) skip = true;
            else pool[dst].ps() += pool[src].ps();
        } else if (op == "PL") {
            dst = slot(t.nat()); long a = slot(t.nat()), b = slot(t.nat());
            if (!pool[a].p || !pool[b].p || pool[a].kind != PS || pool[b].kind != PS) skip = true;
            else { ParticleSet* n = new ParticleSet(pool[a].ps() + pool[b].ps()); pool[dst].p.reset(n); pool[dst].kind = PS; }
        } else if (op == "PA") {
            // dst = a + b into an existing particle set: (move) assignment of the value operator+ returns
            dst = slot(t.nat()); long a = slot(t.nat()), b = slot(t.nat());
            if (!pool[a].p || !pool[b].p || pool[a].kind != PS || pool[b].kind != PS || !pool[dst].p || pool[dst].kind != PS) skip = true;
            else pool[dst].ps() = pool[a].ps() + pool[b].ps();
        } else if (op == "WM") {
            dst = slot(t.nat()); long mode = t.nat(); std::size_t i = t.unat(), j = t.unat(); double v = t.dbl();
            if (!pool[dst].p || (mode == 2 && (pool[dst].kind != GA || i != 0))) skip = true;
            else if (mode == 0) pool[dst].p->mean(i, j) = v;
            else if (mode == 1) pool[dst].p->mean(i)(j) = v;
            else pool[dst].ga().mean(j) = v;
        } else if (op == "WC") {
            dst = slot(t.nat()); long mode = t.nat(); std::size_t i = t.unat(), j = t.unat(), k = t.unat(); double v = t.dbl();
            if (!pool[dst].p || (mode == 2 && (pool[dst].kind != GA || i != 0))) skip = true;
            else if (mode == 0) pool[dst].p->covariance(i, j, k) = v;
            else if (mode == 1) pool[dst].p->covariance(i)(j, k) = v;
            else pool[dst].ga().covariance(j, k) = v;
        } else if (op == "WW") {
            dst = slot(t.nat()); long mode = t.nat(); std::size_t i = t.unat(); double v = t.dbl();
            if (!pool[dst].p || (mode == 2 && (pool[dst].kind != GA || i != 0))) skip = true;
            else if (mode == 0) pool[dst].p->weight(i) = v;
            else if (mode == 1) pool[dst].p->weight()(i) = v;
            else pool[dst].ga().weight() = v;
        } else if (op == "WS") {
            dst = slot(t.nat()); long mode = t.nat(); std::size_t i = t.unat(), j = t.unat(); double v = t.dbl();
            if (!pool[dst].p || pool[dst].kind != PS) skip = true;
            else if (mode == 0) pool[dst].ps().state(i, j) = v;
            else pool[dst].ps().state(i)(j, 0) = v;
        } else if (op == "FI") {
            dst = slot(t.nat()); long stamp = t.nat();
            if (!pool[dst].p) skip = true;
            else {
                GaussianMixture& g = *pool[dst].p;
                for (std::size_t i = 0; i < g.components; ++i) {
                    Ref<VectorXd> m = g.mean(i);
                    for (long r = 0; r < m.size(); ++r) m(r) = stampval(stamp, 0, i, r);
                    Ref<MatrixXd> c = g.covariance(i);
                    for (long k = 0; k < c.cols(); ++k) for (long r = 0; r < c.rows(); ++r) c(r, k) = stampval(stamp, 1, i, k * c.rows() + r);
                    g.weight(i) = stampval(stamp, 2, i, 0);
                    if (pool[dst].kind == PS) {
                        Ref<MatrixXd> s = pool[dst].ps().state(i);
                        for (long r = 0; r < s.rows(); ++r) s(r, 0) = stampval(stamp, 3, i, r);
                    }
                }
            }
        } else throw vh::BadArgs("op:" + op);
        if (skip) o.s("skip"); else { o.s(ret); dump(o, (int)dst, pool[dst]); }
        o.s(";");
        if (t.empty()) more = false;
        else { std::string sep = t.tok(); if (sep != ";") throw vh::BadArgs("sep"); more = !t.empty(); }
    }
    o.s("END");
    for (int s = 0; s < NSLOT; ++s) if (pool[s].p) dump(o, s, pool[s]);
    return o.str();
}

int main() {
    return vh::run([](const std::string& op, Toks& t, std::string& out) {
        if (op == "shp") { out = shp(t); return true; }
        return false;
    });
}
