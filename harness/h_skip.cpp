// Correspondence harness for C13: the real skip machinery, driven through the filter-level
// skip() of GaussianFilter / ParticleFilter subclasses (and through the steps / the state model).
//
//   skip <predKind> <exo> <corrKind> <seed> <n> <k> op op ...
//       predKind: kf ukfa ukfg draw gpfkf draw2 (DrawParticles(state model, exogenous model))      corrKind: kfc ukfc (Gaussian) | boot gpfc (particle)
//       op: L:<name>:<0|1>  (L = F filter, P prediction, C correction, M state model; ~ = empty name)
//           p  predict on the running belief      c  correct on the running belief
//           H  hand-over: prediction and correction objects are move-constructed into new ones, held by a new filter
//           A  attach a (new) exogenous model through prediction().getStateModel().add_exogenous_model
//           X:<name>:<0|1>  prediction().getStateModel().exogenous_model().skip(name, on)
//   -> init/<flags>/<P>/<C>  then per op  r<1|0|T|E>/<flags>/<P>/<C>  |  p/<P>  |  c/<C>
//
// flags: prediction().is_skipping(), state model is_skipping(), exogenous model is_skipping() or '-'.
// P / C: what predict / correct did on the current belief, found by comparing the output
// bit-for-bit with (a) the input (`id`), (b) the output of never-skipped twin objects built from
// the same data, with and without exogenous model (`fxexo`, `fx`), (c) for DrawParticles the
// hand-computed partial results (`exo`, `copy`, `untouched`); anything else is `other`, two
// references that coincide give the set-valued label `ambiguous=a=b` (uninformative observation).
#include "common.hpp"
#include <BayesFilters/GaussianFilter.h>
#include <BayesFilters/ParticleFilter.h>
#include <BayesFilters/KFPrediction.h>
#include <BayesFilters/UKFPrediction.h>
#include <BayesFilters/DrawParticles.h>
#include <BayesFilters/GPFPrediction.h>
#include <BayesFilters/KFCorrection.h>
#include <BayesFilters/UKFCorrection.h>
#include <BayesFilters/BootstrapCorrection.h>
#include <BayesFilters/GPFCorrection.h>
#include <BayesFilters/GaussianLikelihood.h>
#include <BayesFilters/LTIStateModel.h>
#include <BayesFilters/LTIMeasurementModel.h>
#include <BayesFilters/ExogenousModel.h>
#include <BayesFilters/ParticleSetInitialization.h>
#include <BayesFilters/Resampling.h>
#include <memory>
#include <cmath>

using namespace bfl;
using namespace Eigen;
using vh::Toks; using vh::Out;

// ---------------------------------------------------------------- deterministic data
struct Rng {
    uint64_t s;
    explicit Rng(uint64_t seed) : s(seed * 0x9E3779B97F4A7C15ull + 0x1234567ull) {}
    uint64_t next() { uint64_t z = (s += 0x9E3779B97F4A7C15ull); z = (z ^ (z >> 30)) * 0xBF58476D1CE4E5B9ull; z = (z ^ (z >> 27)) * 0x94D049BB133111EBull; return z ^ (z >> 31); }
    // dyadic value in [-r, r] with 6 fractional bits, never 0
    double dy(double r) { long q = 64; long span = (long)(r * q); long v = (long)(next() % (2 * span + 1)) - span; if (v == 0) v = 1; return (double)v / q; }
    double pos(double lo, double hi) { return lo + (hi - lo) * (double)(next() % 1000 + 1) / 1001.0; }
};

static long g_step = 0;   // index of the current predict call: the noise is a function of it

struct Data13 {
    long n, k;
    MatrixXd F, Q, G, H, R; VectorXd g, y;
    Data13(uint64_t seed, long n_, long k_) : n(n_), k(k_) {
        Rng r(seed);
        F = MatrixXd(n, n); for (long j = 0; j < n; ++j) for (long i = 0; i < n; ++i) F(i, j) = (i == j) ? r.pos(0.5, 0.9375) : r.dy(0.5);
        MatrixXd B(n, n); for (long j = 0; j < n; ++j) for (long i = 0; i < n; ++i) B(i, j) = r.dy(0.5);
        Q = B * B.transpose(); for (long i = 0; i < n; ++i) Q(i, i) += 0.25;
        G = MatrixXd(n, n); for (long j = 0; j < n; ++j) for (long i = 0; i < n; ++i) G(i, j) = r.dy(0.5);
        g = VectorXd(n); for (long i = 0; i < n; ++i) g(i) = r.dy(2.0);
        long m = n;   // measurement size = state size (all components observed through a random H)
        H = MatrixXd(m, n); for (long j = 0; j < n; ++j) for (long i = 0; i < m; ++i) H(i, j) = (i == j) ? r.pos(0.75, 1.5) : r.dy(0.75);
        MatrixXd C(m, m); for (long j = 0; j < m; ++j) for (long i = 0; i < m; ++i) C(i, j) = r.dy(0.5);
        R = C * C.transpose(); for (long i = 0; i < m; ++i) R(i, i) += 0.5;
        y = VectorXd(m); for (long i = 0; i < m; ++i) y(i) = r.dy(3.0);
    }
};

static MatrixXd noise_at(long step, long rows, long cols) {
    MatrixXd z(rows, cols);
    Rng r(0xABCDEFull + (uint64_t)step * 7919ull);
    for (long j = 0; j < cols; ++j) for (long i = 0; i < rows; ++i) z(i, j) = r.dy(1.0);
    return z;
}

// ---------------------------------------------------------------- harness models
struct HState : public LTIStateModel {
    HState(const MatrixXd& F, const MatrixXd& Q) : LTIStateModel(F, Q), n_(F.rows()) {}
    VectorDescription getStateDescription() override { return VectorDescription(n_); }
    MatrixXd getNoiseSample(const std::size_t num) override { return noise_at(g_step, n_, (long)num); }
    VectorXd getTransitionProbability(const Ref<const MatrixXd>& prev, const Ref<const MatrixXd>& cur) override {
        VectorXd p(prev.cols());
        for (long i = 0; i < prev.cols(); ++i) p(i) = 1.0 / (1.0 + (cur.col(i) - prev.col(i)).squaredNorm());
        return p;
    }
    long n_;
};

// Non-additive use of the same linear model: motion() takes augmented states [x; w] (generic UKF).
struct HGenState : public HState {
    HGenState(const MatrixXd& F, const MatrixXd& Q) : HState(F, Q) {}
    void motion(const Ref<const MatrixXd>& cur, Ref<MatrixXd> mot) override {
        if (cur.rows() == 2 * n_) { propagate(cur.topRows(n_), mot); mot += cur.bottomRows(n_); }
        else HState::motion(cur, mot);
    }
};

struct HExo : public ExogenousModel {
    HExo(const MatrixXd& G, const VectorXd& g) : G_(G), g_(g) {}
    void propagate(const Ref<const MatrixXd>& cur, Ref<MatrixXd> prop) override { prop = (G_ * cur).colwise() + g_; }
    bool setProperty(const std::string&) override { return false; }
    VectorDescription getStateDescription() const override { return VectorDescription(g_.size()); }
    MatrixXd G_; VectorXd g_;
};

struct HMeas : public LTIMeasurementModel {
    HMeas(const MatrixXd& H, const MatrixXd& R, const VectorXd& y) : LTIMeasurementModel(H, R), y_(y) {}
    bool freeze(const Data&) override { return true; }
    std::pair<bool, Data> measure(const Data&) const override { MatrixXd y = y_; return std::make_pair(true, Data(y)); }
    VectorDescription getInputDescription() const override { return VectorDescription(H_.cols(), 0, R_.rows()); }
    VectorDescription getMeasurementDescription() const override { return VectorDescription(H_.rows()); }
    VectorXd y_;
};

struct HInit : public ParticleSetInitialization { bool initialize(ParticleSet&) override { return true; } };

struct HGF : public GaussianFilter {
    HGF(std::unique_ptr<GaussianPrediction> p, std::unique_ptr<GaussianCorrection> c) : GaussianFilter(std::move(p), std::move(c)) {}
    bool initialization_step() override { return true; }
    void filtering_step() override {}
    bool run_condition() override { return false; }
    using GaussianFilter::prediction; using GaussianFilter::correction;
};

struct HPF : public ParticleFilter {
    HPF(std::unique_ptr<PFPrediction> p, std::unique_ptr<PFCorrection> c)
        : ParticleFilter(std::unique_ptr<ParticleSetInitialization>(new HInit()), std::move(p), std::move(c), std::unique_ptr<Resampling>(new Resampling(1))) {}
    bool initialization_step() override { return true; }
    void filtering_step() override {}
    bool run_condition() override { return false; }
    using ParticleFilter::prediction; using ParticleFilter::correction;
};

// ---------------------------------------------------------------- builders
template <class SM> static std::unique_ptr<SM> mkState(const Data13& d, bool exo) {
    std::unique_ptr<SM> sm(new SM(d.F, d.Q));
    if (exo) sm->add_exogenous_model(std::unique_ptr<ExogenousModel>(new HExo(d.G, d.g)));
    return sm;
}

static const double UA = 1.0, UB = 2.0, UK = 0.0;

static std::unique_ptr<GaussianPrediction> mkGPred(const std::string& kind, const Data13& d, bool exo) {
    if (kind == "kf") return std::unique_ptr<GaussianPrediction>(new KFPrediction(std::unique_ptr<LinearStateModel>(mkState<HState>(d, exo))));
    if (kind == "ukfa") return std::unique_ptr<GaussianPrediction>(new UKFPrediction(std::unique_ptr<AdditiveStateModel>(mkState<HState>(d, exo)), UA, UB, UK));
    if (kind == "ukfg") return std::unique_ptr<GaussianPrediction>(new UKFPrediction(std::unique_ptr<StateModel>(mkState<HGenState>(d, exo)), UA, UB, UK));
    throw vh::BadArgs("gpred");
}
static std::unique_ptr<PFPrediction> mkPPred(const std::string& kind, const Data13& d, bool exo) {
    if (kind == "draw") return std::unique_ptr<PFPrediction>(new DrawParticles(std::unique_ptr<StateModel>(mkState<HState>(d, exo))));
    if (kind == "gpfkf") return std::unique_ptr<PFPrediction>(new GPFPrediction(mkGPred("kf", d, exo)));
    // the two-argument constructor: the exogenous model is handed to the prediction, not to the state model
    if (kind == "draw2") {
        if (!exo) return std::unique_ptr<PFPrediction>(new DrawParticles(std::unique_ptr<StateModel>(mkState<HState>(d, false))));
        return std::unique_ptr<PFPrediction>(new DrawParticles(std::unique_ptr<StateModel>(mkState<HState>(d, false)), std::unique_ptr<ExogenousModel>(new HExo(d.G, d.g))));
    }
    throw vh::BadArgs("ppred");
}
static std::unique_ptr<GaussianCorrection> mkGCorr(const std::string& kind, const Data13& d) {
    if (kind == "kfc") return std::unique_ptr<GaussianCorrection>(new KFCorrection(std::unique_ptr<LinearMeasurementModel>(new HMeas(d.H, d.R, d.y))));
    if (kind == "ukfc") return std::unique_ptr<GaussianCorrection>(new UKFCorrection(std::unique_ptr<AdditiveMeasurementModel>(new HMeas(d.H, d.R, d.y)), UA, UB, UK));
    throw vh::BadArgs("gcorr");
}
static std::unique_ptr<PFCorrection> mkPCorr(const std::string& kind, const Data13& d, unsigned seed) {
    if (kind == "boot") return std::unique_ptr<PFCorrection>(new BootstrapCorrection(std::unique_ptr<MeasurementModel>(new HMeas(d.H, d.R, d.y)), std::unique_ptr<LikelihoodModel>(new GaussianLikelihood())));
    if (kind == "gpfc") return std::unique_ptr<PFCorrection>(new GPFCorrection(std::unique_ptr<LikelihoodModel>(new GaussianLikelihood()), mkGCorr("kfc", d), std::unique_ptr<StateModel>(mkState<HState>(d, false)), seed));
    throw vh::BadArgs("pcorr");
}

// ---------------------------------------------------------------- beliefs
static void fillGM(GaussianMixture& b, Rng& r) {
    long n = b.dim, k = b.components;
    for (long c = 0; c < k; ++c) {
        for (long i = 0; i < n; ++i) b.mean(c)(i) = r.dy(4.0);
        MatrixXd B(n, n); for (long j = 0; j < n; ++j) for (long i = 0; i < n; ++i) B(i, j) = r.dy(1.0);
        MatrixXd P = B * B.transpose(); for (long i = 0; i < n; ++i) P(i, i) += 0.5 + 0.125 * c;
        b.covariance(c) = P;
        b.weight(c) = -r.pos(0.1, 3.0);
    }
}
// Non-canonical content (round 4): "returns its input unchanged" is a bit-for-bit statement, so the input must
// contain what a rewrite such as 0.5 (P + P^T), x + 0.0, x * 1.0 or a flush-to-zero would alter -- covariances
// symmetric only up to one ulp (what F P F^T + Q leaves behind), negative zeros and denormals in every field.
// variant 0: canonical; 1: one-ulp asymmetries; 2: negative zeros / denormals; 3: both.
static void uncanonGM(GaussianMixture& b, int variant) {
    long n = b.dim, k = b.components;
    if (variant & 1)
        for (long c = 0; c < k; ++c) for (long i = 0; i < n; ++i) for (long j = i + 1; j < n; ++j)
            if ((i + j + c) % 2 == 0) b.covariance(c)(i, j) = std::nextafter(b.covariance(c)(i, j), 1e300);
            else b.covariance(c)(j, i) = std::nextafter(b.covariance(c)(j, i), -1e300);
    if (variant & 2) {
        b.mean(0)(0) = -0.0;
        if (n > 1) b.mean(k - 1)(n - 1) = 4.9406564584124654e-324 * 3;
        if (n > 2) b.mean(0)(1) = -2.2250738585072014e-308 / 4;
        if (k > 1) b.weight(k - 1) = -0.0;
        if (n > 1) { b.covariance(0)(0, n - 1) = -0.0; b.covariance(0)(n - 1, 0) = 0.0; }   // equal as numbers, not as bits
    }
}
static void fillPS(ParticleSet& b, Rng& r) {
    fillGM(b, r);
    for (long c = 0; c < (long)b.components; ++c) for (long i = 0; i < (long)b.dim; ++i) b.state(c, i) = r.dy(4.0);
}
static void uncanonPS(ParticleSet& b, int variant) {
    uncanonGM(b, variant);
    if (variant & 2) {
        // (never every entry of the set: F * 0 = 0 would make the references `fx` and `copy` coincide)
        if (b.components > 1 || b.dim > 1) b.state(0, 0) = -0.0;
        if (b.dim > 1 && b.components > 1) b.state(b.components - 1, b.dim - 1) = -4.9406564584124654e-324;
        if (b.components > 2) b.state(1, 0) = 2.2250738585072014e-308 / 8;
    }
}
static void poisonGM(GaussianMixture& b) { b.mean().setConstant(12345.0); b.covariance().setConstant(-54321.0); b.weight().setConstant(777.0); }
static void poisonPS(ParticleSet& b) { poisonGM(b); b.state().setConstant(999.0); }

static bool sameGM(const GaussianMixture& a, const GaussianMixture& b) {
    return a.components == b.components && a.dim == b.dim && a.dim_linear == b.dim_linear && a.dim_circular == b.dim_circular &&
           a.dim_noise == b.dim_noise && a.dim_covariance == b.dim_covariance && a.use_quaternion == b.use_quaternion &&
           vh::same_bits(a.mean(), b.mean()) && vh::same_bits(a.covariance(), b.covariance()) && vh::same_bits(a.weight(), b.weight());
}
static bool samePS(const ParticleSet& a, const ParticleSet& b) { return sameGM(a, b) && vh::same_bits(a.state(), b.state()); }

// A step that claims to be the identity must be so whatever the output container held before the call (a filter
// re-uses its buffers): besides poison, the output is pre-filled with partial copies of the input -- same mean but
// other covariances / weights, same covariances but other means, everything but the weights, (particle sets)
// same positions and weights but other Gaussians, and an exact copy with one weight / one covariance entry changed.
static const char* STALE_MODES[] = {"mean-equal", "cov-equal", "all-but-weights", "all-but-one-cov-entry", "state-weights-equal", "all-but-one-state-entry"};
static void prefillGM(GaussianMixture& out, const GaussianMixture& in, int mode) {
    out = in;
    if (mode == 0) { out.covariance().setConstant(-54321.0); out.weight().setConstant(777.0); }
    else if (mode == 1) { out.mean().setConstant(12345.0); out.weight().setConstant(777.0); }
    else if (mode == 2) { out.weight().setConstant(777.0); }
    else if (mode == 3) { out.covariance()(out.covariance().rows() - 1, out.covariance().cols() - 1) += 0.5; }
}
static void prefillPS(ParticleSet& out, const ParticleSet& in, int mode) {
    out = in;
    if (mode <= 3) { prefillGM(out, in, mode); if (mode == 1) out.state().setConstant(999.0); }
    else if (mode == 4) { out.mean().setConstant(12345.0); out.covariance().setConstant(-54321.0); }
    else if (mode == 5) { out.state()(out.state().rows() - 1, out.state().cols() - 1) += 0.5; }
}

static std::string pick(const std::vector<std::pair<std::string, bool>>& hits) {
    std::string lab; int n = 0;
    for (auto& h : hits) if (h.second) { if (n == 0) lab = h.first; ++n; }
    if (n == 0) return "other";
    if (n > 1) { std::string a = "ambiguous"; for (auto& h : hits) if (h.second) a += "=" + h.first; return a; }
    return lab;
}

// ---------------------------------------------------------------- Gaussian filter under test
struct GaussCase {
    Data13 d; bool exo; std::string pk, ck; std::unique_ptr<HGF> fp;
    std::unique_ptr<GaussianPrediction> twin_fx, twin_fxexo; std::unique_ptr<GaussianCorrection> twin_c;
    GaussianMixture cur;
    GaussCase(const std::string& pk, bool exo_, const std::string& ck, uint64_t seed, long n, long k)
        : d(seed, n, k), exo(exo_), pk(pk), ck(ck), fp(new HGF(mkGPred(pk, d, exo_), mkGCorr(ck, d))),
          twin_fx(mkGPred(pk, d, false)), twin_fxexo(mkGPred(pk, d, true)), twin_c(mkGCorr(ck, d)), cur(k, n) {
        Rng r(seed ^ 0x55aa); fillGM(cur, r); uncanonGM(cur, (int)(seed % 4));
    }
    std::string flags() {
        StateModel& sm = fp->prediction().getStateModel();
        std::string s; s += fp->prediction().is_skipping() ? '1' : '0'; s += sm.is_skipping() ? '1' : '0';
        s += sm.have_exogenous_model() ? (sm.exogenous_model().is_skipping() ? '1' : '0') : '-';
        return s;
    }
    std::string predict(bool advance) {
        ++g_step;
        GaussianMixture in = cur, out(cur.components, cur.dim), r1(cur.components, cur.dim), r2(cur.components, cur.dim);
        poisonGM(out); poisonGM(r1); poisonGM(r2);
        fp->prediction().predict(cur, out);
        bool in_same = sameGM(in, cur);
        twin_fx->predict(in, r1); twin_fxexo->predict(in, r2);
        std::string lab = pick({{"id", sameGM(out, in)}, {"fx", sameGM(out, r1)}, {"fxexo", sameGM(out, r2)}});
        if (sameGM(out, in))
            for (int mode = 0; mode < 4; ++mode) {
                GaussianMixture o2(cur.components, cur.dim); prefillGM(o2, in, mode);
                fp->prediction().predict(cur, o2);
                if (!sameGM(o2, in)) { lab = std::string("stale-output:") + STALE_MODES[mode]; break; }
            }
        if (!in_same) lab += "+input-modified";
        if (advance) cur = out;
        return lab;
    }
    std::string correct(bool advance) {
        GaussianMixture in = cur, out(cur.components, cur.dim), r1(cur.components, cur.dim);
        poisonGM(out); poisonGM(r1);
        fp->correction().correct(cur, out);
        bool in_same = sameGM(in, cur);
        twin_c->correct(in, r1);
        std::string lab = pick({{"id", sameGM(out, in)}, {"full", sameGM(out, r1)}});
        if (sameGM(out, in))
            for (int mode = 0; mode < 4; ++mode) {
                GaussianMixture o2(cur.components, cur.dim); prefillGM(o2, in, mode);
                fp->correction().correct(cur, o2);
                if (!sameGM(o2, in)) { lab = std::string("stale-output:") + STALE_MODES[mode]; break; }
            }
        if (!in_same) lab += "+input-modified";
        if (advance) cur = out;
        return lab;
    }
    bool skipF(const std::string& nm, bool on) { return fp->skip(nm, on); }
    bool skipP(const std::string& nm, bool on) { return fp->prediction().skip(nm, on); }
    bool skipC(bool on) { return fp->correction().skip(on); }
    bool skipM(const std::string& nm, bool on) { return fp->prediction().getStateModel().skip(nm, on); }
    bool skipX(const std::string& nm, bool on) { return fp->prediction().getStateModel().exogenous_model().skip(nm, on); }
    // configuration changed after construction, through the object's own accessors
    void attach() { fp->prediction().getStateModel().add_exogenous_model(std::unique_ptr<ExogenousModel>(new HExo(d.G, d.g))); }
    // hand the steps over: move-construct new prediction / correction objects from the filter's and build a new filter
    void handover() {
        std::unique_ptr<GaussianPrediction> np; std::unique_ptr<GaussianCorrection> nc;
        if (pk == "kf") np.reset(new KFPrediction(std::move(dynamic_cast<KFPrediction&>(fp->prediction()))));
        else np.reset(new UKFPrediction(std::move(dynamic_cast<UKFPrediction&>(fp->prediction()))));
        if (ck == "kfc") nc.reset(new KFCorrection(std::move(dynamic_cast<KFCorrection&>(fp->correction()))));
        else nc.reset(new UKFCorrection(std::move(dynamic_cast<UKFCorrection&>(fp->correction()))));
        fp.reset(new HGF(std::move(np), std::move(nc)));
    }
};

// ---------------------------------------------------------------- particle filter under test
struct PartCase {
    Data13 d; bool exo; std::string pk, ck; std::unique_ptr<HPF> fp;
    std::unique_ptr<PFPrediction> twin_fx, twin_fxexo; std::unique_ptr<PFCorrection> twin_c;
    ParticleSet cur;
    PartCase(const std::string& pk_, bool exo_, const std::string& ck_, uint64_t seed, long n, long k)
        : d(seed, n, k), exo(exo_), pk(pk_), ck(ck_), fp(new HPF(mkPPred(pk_, d, exo_), mkPCorr(ck_, d, (unsigned)seed))),
          twin_fx(mkPPred(pk_ == "draw2" ? "draw" : pk_, d, false)), twin_fxexo(mkPPred(pk_ == "draw2" ? "draw" : pk_, d, true)), twin_c(mkPCorr(ck_, d, (unsigned)seed)), cur(k, n) {
        Rng r(seed ^ 0x55aa); fillPS(cur, r); uncanonPS(cur, (int)(seed % 4));
    }
    std::string flags() {
        StateModel& sm = fp->prediction().getStateModel();
        std::string s; s += fp->prediction().is_skipping() ? '1' : '0'; s += sm.is_skipping() ? '1' : '0';
        s += sm.have_exogenous_model() ? (sm.exogenous_model().is_skipping() ? '1' : '0') : '-';
        return s;
    }
    std::string predict(bool advance) {
        ++g_step;
        long k = cur.components, n = cur.dim;
        ParticleSet in = cur, out(k, n), r1(k, n), r2(k, n);
        poisonPS(out); poisonPS(r1); poisonPS(r2);
        fp->prediction().predict(cur, out);
        bool in_same = samePS(in, cur);
        twin_fx->predict(in, r1); twin_fxexo->predict(in, r2);
        std::vector<std::pair<std::string, bool>> hits = {{"id", samePS(out, in)}, {"fx", samePS(out, r1)}, {"fxexo", samePS(out, r2)}};
        if (pk == "draw" || pk == "draw2") {
            // partial results of LinearStateModel::propagate followed by AdditiveStateModel::motion's noise
            MatrixXd z = noise_at(g_step, n, k);
            ParticleSet e(k, n), c(k, n), u(k, n); poisonPS(e); poisonPS(c); poisonPS(u);
            HExo ex(d.G, d.g); MatrixXd base(n, k); ex.propagate(in.state(), base);
            e.state() = base; e.state() += z; e.weight() = in.weight();
            c.state() = in.state(); c.state() += z; c.weight() = in.weight();
            u.state() += z; u.weight() = in.weight();
            hits.push_back({"exo", samePS(out, e)}); hits.push_back({"copy", samePS(out, c)}); hits.push_back({"untouched", samePS(out, u)});
        }
        std::string lab = pick(hits);
        if (samePS(out, in))
            for (int mode = 0; mode < 6; ++mode) {
                ParticleSet o2(k, n); prefillPS(o2, in, mode);
                fp->prediction().predict(cur, o2);
                if (!samePS(o2, in)) { lab = std::string("stale-output:") + STALE_MODES[mode]; break; }
            }
        if (!in_same) lab += "+input-modified";
        if (advance) {
            if ((pk == "draw" || pk == "draw2") && lab != "id") { out.mean() = cur.mean(); out.covariance() = cur.covariance(); }   // fields DrawParticles does not write
            cur = out;
        }
        return lab;
    }
    std::string correct(bool advance) {
        long k = cur.components, n = cur.dim;
        ParticleSet in = cur, out(k, n), r1(k, n);
        poisonPS(out); poisonPS(r1);
        fp->correction().correct(cur, out);
        bool in_same = samePS(in, cur);
        std::string lab;
        if (samePS(out, in)) {
            lab = "id";
            // a skipped correction draws no random numbers: the extra calls keep the generators in step
            for (int mode = 0; mode < 6; ++mode) {
                ParticleSet o2(k, n); prefillPS(o2, in, mode);
                fp->correction().correct(cur, o2);
                if (!samePS(o2, in)) { lab = std::string("stale-output:") + STALE_MODES[mode]; break; }
            }
        }                                       // the twin is run only when the step under test ran, so that
        else {                                  // both random generators (GPFCorrection) have consumed the same draws
            twin_c->correct(in, r1);
            lab = samePS(out, r1) ? "full" : "other";
        }
        if (!in_same) lab += "+input-modified";
        if (advance) cur = out;
        return lab;
    }
    bool skipF(const std::string& nm, bool on) { return fp->skip(nm, on); }
    bool skipP(const std::string& nm, bool on) { return fp->prediction().skip(nm, on); }
    bool skipC(bool on) { return fp->correction().skip(on); }
    bool skipM(const std::string& nm, bool on) { return fp->prediction().getStateModel().skip(nm, on); }
    bool skipX(const std::string& nm, bool on) { return fp->prediction().getStateModel().exogenous_model().skip(nm, on); }
    // configuration changed after construction, through the object's own accessors
    void attach() { fp->prediction().getStateModel().add_exogenous_model(std::unique_ptr<ExogenousModel>(new HExo(d.G, d.g))); }
    void handover() {
        std::unique_ptr<PFPrediction> np; std::unique_ptr<PFCorrection> nc;
        if (pk == "gpfkf") np.reset(new GPFPrediction(std::move(dynamic_cast<GPFPrediction&>(fp->prediction()))));
        else np.reset(new DrawParticles(std::move(dynamic_cast<DrawParticles&>(fp->prediction()))));
        if (ck == "boot") nc.reset(new BootstrapCorrection(std::move(dynamic_cast<BootstrapCorrection&>(fp->correction()))));
        else nc.reset(new GPFCorrection(std::move(dynamic_cast<GPFCorrection&>(fp->correction()))));
        fp.reset(new HPF(std::move(np), std::move(nc)));
    }
};

template <class Case> static std::string runOps(Case& cs, Toks& t) {
    Out o;
    o.s("init/" + cs.flags() + "/" + cs.predict(false) + "/" + cs.correct(false));
    while (!t.empty()) {
        std::string op = t.tok();
        if (op == "p") { o.s("p/" + cs.predict(true)); continue; }
        if (op == "c") { o.s("c/" + cs.correct(true)); continue; }
        if (op == "H") { cs.handover(); o.s("h/" + cs.flags() + "/" + cs.predict(false) + "/" + cs.correct(false)); continue; }
        if (op == "A") { cs.attach(); o.s("a/" + cs.flags() + "/" + cs.predict(false) + "/" + cs.correct(false)); continue; }
        size_t a = op.find(':'), b = op.rfind(':');
        if (a != 1 || b == a || b + 2 != op.size()) throw vh::BadArgs("op:" + op);
        char lvl = op[0]; std::string nm = op.substr(a + 1, b - a - 1); if (nm == "~") nm = "";
        if (op[b + 1] != '0' && op[b + 1] != '1') throw vh::BadArgs("op:" + op);
        bool on = op[b + 1] == '1';
        std::string r;
        try {
            bool ret;
            if (lvl == 'F') ret = cs.skipF(nm, on);
            else if (lvl == 'P') ret = cs.skipP(nm, on);
            else if (lvl == 'C') ret = cs.skipC(on);
            else if (lvl == 'M') ret = cs.skipM(nm, on);
            else if (lvl == 'X') ret = cs.skipX(nm, on);
            else throw vh::BadArgs("lvl:" + op);
            r = ret ? "r1" : "r0";
        } catch (const vh::BadArgs&) { throw; }
        catch (const std::runtime_error&) { r = "rT"; }
        catch (const std::exception&) { r = "rE"; }
        o.s(r + "/" + cs.flags() + "/" + cs.predict(false) + "/" + cs.correct(false));
    }
    return o.str();
}

static std::string skip_case(Toks& t) {
    std::string pk = t.tok(); bool exo = t.flag(); std::string ck = t.tok();
    uint64_t seed = (uint64_t)t.nat(); long n = t.nat(), k = t.nat();
    if (n < 1 || n > 6 || k < 1 || k > 8) throw vh::BadArgs("size");
    g_step = 0;
    if (pk == "kf" || pk == "ukfa" || pk == "ukfg") { GaussCase c(pk, exo, ck, seed, n, k); return runOps(c, t); }
    if (pk == "draw" || pk == "gpfkf" || pk == "draw2") { PartCase c(pk, exo, ck, seed, n, k); return runOps(c, t); }
    throw vh::BadArgs("kind");
}

int main() {
    return vh::run([](const std::string& op, Toks& t, std::string& out) {
        if (op == "skip") { out = skip_case(t); return true; }
        return false;
    });
}
