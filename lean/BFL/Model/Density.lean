import BFL.Core.Mat
import BFL.Core.Det
import BFL.Core.Transc
import BFL.Core.Num
/-
Model of the Gaussian density utilities and of log-sum-exp (C15).

  utils::log_sum_exp                              include/BayesFilters/utils.h
  utils::multivariate_gaussian_log_density        include/BayesFilters/utils.h
  utils::multivariate_gaussian_log_density_UVR    include/BayesFilters/utils.h
  utils::multivariate_gaussian_density(_UVR)      include/BayesFilters/utils.h

Everything is polymorphic in the scalar.  The *algebraic* parts (quadratic forms, determinants)
are separate functions using only field operations, so that the driver runs them exactly over
`Rat`; only `logDensityFinal` / `Transc.exp` / `Transc.log` are transcendental.

The matrix inverse (`.inverse()` of Eigen) is a parameter `inv : (n : Nat) → Mat α n n → Mat α n n`;
theorems assume only that it returns an inverse of each matrix it is applied to.  The determinant
(`.determinant()`) is `Mat.detLU` (certified elimination with Laplace expansion as the fall-back;
`BFL.toM_detLU`: it is `Matrix.det`).
-/
namespace BFL

/-- the inverse routine: one function for every size -/
abbrev InvFn (α : Type) := (n : Nat) → Mat α n n → Mat α n n

section alg
variable {α : Type} [Add α] [Sub α] [Mul α] [Div α] [Neg α] [Zero α] [One α] [Inhabited α] [DecidableEq α]

/-- `diff = input.colwise() - mean` -/
def diffCols {d b : Nat} (x : Mat α d b) (m : Vec α d) : Mat α d b := Mat.of (fun i c => x i c - m i)

/-- the one-column batch holding column `c` of `x` (`input.col(c)` handed over as the whole input, as
    the Kalman-type corrections do: one call per mixture component) -/
def colOfBatch {d b : Nat} (x : Mat α d b) (c : Fin b) : Mat α d 1 := Mat.of (fun i _ => x i c)

/-- `v.transpose() * S.inverse() * v` -/
def quadForm {d : Nat} (inv : InvFn α) (S : Mat α d d) (v : Vec α d) : α :=
  Vec.dot ((inv d S).transpose.mulVec v) v

/-- The noise covariance `R` of the factorised form `S = U V + R`: block diagonal with `nb` square
    blocks of size `bs`, given either as one block shared by all positions (`R.cols() == block_size`)
    or as the `bs × (nb·bs)` row of the diagonal blocks.  For `nb = 1` the two encodings are the same
    matrix and the two branches of the code compute the same thing. -/
inductive RNoise (α : Type) (nb bs : Nat) where
  | shared (R : Mat α bs bs)
  | perBlock (R : Mat α bs (nb * bs))

/-- `R.block(0, block_size * i, block_size, block_size)` (the shared block for every `i`) -/
def RNoise.block {nb bs : Nat} : RNoise α nb bs → Fin nb → Mat α bs bs
  | .shared R, _ => R
  | .perBlock R, i => Mat.blkCols R i

/-- the `bs × (nb·bs)` row that repeats one block `nb` times (the per-block encoding of a shared block) -/
def repBlocks {nb bs : Nat} (R0 : Mat α bs bs) : Mat α bs (nb * bs) := Mat.of (fun a p => R0 a (bmod p))

/-- `inv_R`: the inverses of the diagonal blocks (one inversion, copied, when the block is shared) -/
def RNoise.invBlocks {nb bs : Nat} (inv : InvFn α) : RNoise α nb bs → Vec (Mat α bs bs) nb
  | .shared R => let X := Mat.eval (inv bs R); Vec.of (fun _ => X)
  | .perBlock R => Vec.eval (Vec.of (fun i => Mat.eval (inv bs (Mat.blkCols R i))))

/-- `det_R`: `pow(det R, num_blocks)` for the shared block, the running product of the block
    determinants otherwise -/
def RNoise.det {nb bs : Nat} : RNoise α nb bs → α
  | .shared R => natPow (Mat.detLU bs R) nb
  | .perBlock R => Fin.foldl nb (fun acc i => acc * Mat.detLU bs (Mat.eval (Mat.blkCols R i))) 1

/-- The full `nb·bs × nb·bs` block-diagonal matrix the encoding stands for. -/
def RNoise.full {nb bs : Nat} (R : RNoise α nb bs) : Mat α (nb * bs) (nb * bs) :=
  Mat.of (fun p q => if bdiv p = bdiv q then (R.block (bdiv p)) (bmod p) (bmod q) else 0)

/-- The assembled covariance `S = U V + R` the factorised form stands for. -/
def assembleS {k nb bs : Nat} (U : Mat α (nb * bs) k) (V : Mat α k (nb * bs)) (R : RNoise α nb bs) :
    Mat α (nb * bs) (nb * bs) :=
  Mat.add (Mat.mul U V) R.full

/-- `A_inv_R`: column block `i` is `A.middleCols(i) * inv_R_i`
    (`V_inv_R` for `A = V`, `diff_T_inv_R` for `A = diffᵀ`). -/
def mulInvR {r nb bs : Nat} (A : Mat α r (nb * bs)) (Ri : Vec (Mat α bs bs) nb) : Mat α r (nb * bs) :=
  Mat.eval (Mat.of (fun a p => fsum bs (fun l => A a (bidx (bdiv p) l) * (Ri (bdiv p)) l (bmod p))))

/-- The algebraic intermediate results of `multivariate_gaussian_log_density_UVR`. -/
structure UVRAlg (α : Type) (b : Nat) where
  /-- `det_S = det_R * det(I + V inv(R) U)` -/
  detS : α
  /-- `weighted_diffs` -/
  wd : Vec α b

/-- `I + V * inv(R) * U` -/
def uvrM {k nb bs : Nat} (inv : InvFn α) (U : Mat α (nb * bs) k) (V : Mat α k (nb * bs)) (R : RNoise α nb bs) : Mat α k k :=
  Mat.add Mat.one (Mat.mul (mulInvR V (R.invBlocks inv)) U)

/-- Quadratic forms and determinant of the Woodbury / determinant-lemma evaluation, line by line. -/
def uvrAlg {k nb bs b : Nat} (inv : InvFn α) (x : Mat α (nb * bs) b) (m : Vec α (nb * bs))
    (U : Mat α (nb * bs) k) (V : Mat α k (nb * bs)) (R : RNoise α nb bs) : UVRAlg α b :=
  let diff := Mat.eval (diffCols x m)
  let Ri := R.invBlocks inv
  let VinvR := mulInvR V Ri
  let diffTinvR := mulInvR diff.transpose Ri
  let M := Mat.eval (Mat.add Mat.one (Mat.mul VinvR U))
  let W := Mat.eval (Mat.sub Mat.one (Mat.mul (Mat.mul U (inv k M)) VinvR))
  { detS := R.det * Mat.detLU k M
    wd := Vec.eval (Vec.of (fun c => Vec.dot (Mat.row diffTinvR c) (W.mulVec (Mat.col diff c)))) }

end alg

section transc
variable {α : Type} [Add α] [Sub α] [Mul α] [Div α] [Neg α] [Zero α] [One α] [Inhabited α] [DecidableEq α] [Transc α]

/-- `- 0.5 * (d * log(2π) + log(det) + q)` -/
def logDensityFinal (d : Nat) (detS q : α) : α :=
  (-(1 / (1 + 1))) * (natTo d * Transc.log ((1 + 1) * Transc.pi) + Transc.log detS + q)

/-- `multivariate_gaussian_log_density`: one value per column of `x`. -/
def logDensity {d b : Nat} (inv : InvFn α) (x : Mat α d b) (m : Vec α d) (S : Mat α d d) : Vec α b :=
  let diff := Mat.eval (diffCols x m)
  Vec.of (fun c => logDensityFinal d (Mat.detLU d S) (quadForm inv S (Mat.col diff c)))

/-- `multivariate_gaussian_density = exp(log density)` -/
def density {d b : Nat} (inv : InvFn α) (x : Mat α d b) (m : Vec α d) (S : Mat α d d) : Vec α b :=
  let L := logDensity inv x m S          -- evaluated once for the batch, as in the code
  Vec.of (fun c => Transc.exp (L c))

/-- `multivariate_gaussian_log_density_UVR` -/
def logDensityUVR {k nb bs b : Nat} (inv : InvFn α) (x : Mat α (nb * bs) b) (m : Vec α (nb * bs))
    (U : Mat α (nb * bs) k) (V : Mat α k (nb * bs)) (R : RNoise α nb bs) : Vec α b :=
  let a := uvrAlg inv x m U V R
  Vec.of (fun c => logDensityFinal (nb * bs) a.detS (a.wd c))

/-- `multivariate_gaussian_density_UVR = exp(log density UVR)` -/
def densityUVR {k nb bs b : Nat} (inv : InvFn α) (x : Mat α (nb * bs) b) (m : Vec α (nb * bs))
    (U : Mat α (nb * bs) k) (V : Mat α k (nb * bs)) (R : RNoise α nb bs) : Vec α b :=
  let L := logDensityUVR inv x m U V R   -- evaluated once for the batch, as in the code
  Vec.of (fun c => Transc.exp (L c))

/-- one call of `multivariate_gaussian_log_density` per column of the batch (each a one-column batch) -/
def logDensityCols {d b : Nat} (inv : InvFn α) (x : Mat α d b) (m : Vec α d) (S : Mat α d d) : Vec α b :=
  Vec.of (fun c => logDensity inv (colOfBatch x c) m S 0)

/-- one call of `multivariate_gaussian_log_density_UVR` per column of the batch -/
def logDensityUVRCols {k nb bs b : Nat} (inv : InvFn α) (x : Mat α (nb * bs) b) (m : Vec α (nb * bs))
    (U : Mat α (nb * bs) k) (V : Mat α k (nb * bs)) (R : RNoise α nb bs) : Vec α b :=
  Vec.of (fun c => logDensityUVR inv (colOfBatch x c) m U V R 0)

end transc

section lse
variable {α : Type} [Add α] [Sub α] [Zero α] [LT α] [DecidableLT α] [Transc α]

/-- `data.maxCoeff()` of a non-empty vector: running maximum from the first entry -/
def vmax {n : Nat} (x : Vec α (n + 1)) : α :=
  Fin.foldl n (fun acc i => if acc < x i.succ then x i.succ else acc) (x 0)

/-- `log_sum_exp`: `max + log(Σ exp(xᵢ − max))` -/
def logSumExp {n : Nat} (x : Vec α (n + 1)) : α :=
  let mx := vmax x
  mx + Transc.log (fsum (n + 1) (fun i => Transc.exp (x i - mx)))

end lse

/-! ### Scalars extended by `−∞` (and an absorbing `nan`)

`log_sum_exp` is called on log-weights, which may be `−∞`.  `Ext α` adds to a scalar type the two
IEEE special values that can then arise: `−∞` and `nan` (which also stands for every value that is
not representable here, e.g. `+∞`; none occurs when at least one entry is finite).  The operations
follow IEEE-754: `−∞ + a = −∞`, `−∞ − a = −∞`, `a − (−∞) = nan (+∞)`, `−∞ − (−∞) = nan`,
`exp(−∞) = 0`, `log 0 = −∞`, `log(negative) = nan`, comparisons with `nan` false. -/
inductive Ext (α : Type) where
  | negInf
  | fin (a : α)
  | nan

namespace Ext
variable {α : Type}

instance [Add α] : Add (Ext α) :=
  ⟨fun x y => match x, y with
    | .fin a, .fin b => .fin (a + b)
    | .nan, _ => .nan
    | _, .nan => .nan
    | _, _ => .negInf⟩

instance [Sub α] : Sub (Ext α) :=
  ⟨fun x y => match x, y with
    | .fin a, .fin b => .fin (a - b)
    | .negInf, .fin _ => .negInf
    | _, _ => .nan⟩

instance [Zero α] : Zero (Ext α) := ⟨.fin 0⟩

instance [LT α] : LT (Ext α) :=
  ⟨fun x y => match x, y with
    | .fin a, .fin b => a < b
    | .negInf, .fin _ => True
    | _, _ => False⟩

instance [LT α] [DecidableLT α] : DecidableLT (Ext α) := fun x y =>
  match x, y with
  | .fin a, .fin b => inferInstanceAs (Decidable (a < b))
  | .negInf, .fin _ => isTrue trivial
  | .negInf, .negInf => isFalse (fun h => h)
  | .negInf, .nan => isFalse (fun h => h)
  | .fin _, .negInf => isFalse (fun h => h)
  | .fin _, .nan => isFalse (fun h => h)
  | .nan, _ => isFalse (fun h => h)

/-- lift a function on finite values; `−∞` and `nan` go to `nan` -/
def lift (f : α → α) : Ext α → Ext α
  | .fin a => .fin (f a)
  | _ => .nan

instance [Zero α] [LT α] [DecidableLT α] [Transc α] : Transc (Ext α) where
  exp := fun x => match x with
    | .negInf => .fin 0
    | .fin a => .fin (Transc.exp a)
    | .nan => .nan
  log := fun x => match x with
    | .fin a => if 0 < a then .fin (Transc.log a) else if a < 0 then .nan else .negInf
    | _ => .nan
  sqrt := lift Transc.sqrt
  sin := lift Transc.sin
  cos := lift Transc.cos
  acos := lift Transc.acos
  atan2 := fun y x => match y, x with
    | .fin a, .fin b => .fin (Transc.atan2 a b)
    | _, _ => .nan
  pi := .fin Transc.pi

end Ext

/-! ### Execution support: exact scalars with transcendental functions evaluated in `Float`

The driver runs the model over `Rat`: every field operation is exact, and `exp`, `log`, `sqrt`, … are
evaluated by converting the exact argument to the nearest double, applying the `Float` function and
converting the result back exactly.  So the only roundings in a run are those of the transcendental
calls themselves.  (Not an instance: drivers enable it locally.) -/

/-- nearest double (to within one unit in the last place) of a rational -/
def ratToFloat (q : Rat) : Float :=
  if q.num == 0 then 0.0 else
  let a := q.num.natAbs
  let b := q.den
  let s : Int := 64 + (b.log2 : Int) - (a.log2 : Int)
  let qn : Nat := if s ≥ 0 then (a <<< s.toNat) / b else a / (b <<< (-s).toNat)
  let r := (Float.ofNat qn).scaleB (-s)
  if q.num < 0 then -r else r

/-- exact value of a finite double; `0` for `±inf` / `nan` (callers guard against those) -/
def floatToRat (x : Float) : Rat := (ratOfBits x.toBits.toNat).getD 0

def viaFloat (f : Float → Float) (q : Rat) : Rat := floatToRat (f (ratToFloat q))

@[reducible] def transcRatViaFloat : Transc Rat where
  exp := viaFloat Float.exp
  log := viaFloat Float.log
  sqrt := viaFloat Float.sqrt
  sin := viaFloat Float.sin
  cos := viaFloat Float.cos
  acos := viaFloat Float.acos
  atan2 := fun y x => floatToRat (Float.atan2 (ratToFloat y) (ratToFloat x))
  pi := floatToRat 3.14159265358979323846

end BFL
