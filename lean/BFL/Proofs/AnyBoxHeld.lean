import BFL.Proofs.AnyBoxOps
/-
C20 helper lemmas, part 3: the value held by every container after each member function
(frame lemmas: which containers change and to what) — the basis of the value-semantics theorems.
-/
namespace BFL.AnyBox

theorem held_def (s : St) (o : Obj) : held s o = (content s o).bind s.heap := rfl

theorem held_of_content_none {s : St} {o : Obj} (h : content s o = none) : held s o = none := by
  simp [held_def, h]

theorem held_setContent (s : St) (o x : Obj) (c : Option Id) :
    held (setContent s o c) x = if x = o then c.bind s.heap else held s x := by
  simp only [held_def, content_setContent, heap_setContent]
  split <;> rfl

theorem held_swap (s : St) (a b x : Obj) :
    held (swap s a b) x = if x = b then held s a else if x = a then held s b else held s x := by
  simp only [held_def, content_swap, heap_swap]
  split
  · rfl
  · split <;> rfl

theorem held_alloc {s : St} (h : Own s) (o x : Obj) (v : Val) (e : Ev) :
    held (setContent (newHolder s v e) o (some s.next)) x = if x = o then some v else held s x := by
  simp only [held_def, content_setContent, content_newHolder, heap_setContent, heap_newHolder]
  by_cases hx : x = o
  · simp [hx]
  · simp only [hx, if_false]
    cases hc : content s x with
    | none => rfl
    | some i =>
      have hne : i ≠ s.next := by
        intro e; subst e
        exact h.live x _ hc (h.fresh _ (Nat.le_refl _))
      simp [upd_other _ _ hne]

theorem held_ctorValCopy {s : St} (h : Own s) (o x : Obj) (v : Val) :
    held (ctorValCopy s o v) x = if x = o then some v else held s x := held_alloc h o x v _

theorem held_ctorValMove {s : St} (h : Own s) (o x : Obj) (v : Val) :
    held (ctorValMove s o v) x = if x = o then some v else held s x := held_alloc h o x v _

theorem held_ctorFromVal {s : St} (h : Own s) (o x : Obj) (v : Val) (c : Cat) :
    held (ctorFromVal s o v c) x = if x = o then some v else held s x := by
  cases c <;> simp only [ctorFromVal, held_ctorValCopy h, held_ctorValMove h]

theorem held_ctorDefault (s : St) (o x : Obj) :
    held (ctorDefault s o) x = if x = o then none else held s x := by
  simp [ctorDefault, held_setContent]

/-- the copy constructor: a deep copy — the new object holds an equal value, nobody else changes -/
theorem held_ctorCopy {s : St} (h : Own s) (o src x : Obj) :
    held (ctorCopy s o src) x = if x = o then held s src else held s x := by
  unfold ctorCopy
  split
  · next hc => rw [held_setContent]; simp [held_def, hc]
  · next i hc =>
    split
    · next hh => rw [held_setContent]; simp [held_def, hc, hh]
    · next v hh => rw [held_alloc h]; simp [held_def, hc, hh]

/-- the move constructor: the pointer is stolen, the source is left empty -/
theorem held_ctorMove (s : St) (o src x : Obj) :
    held (ctorMove s o src) x = if x = src then none else if x = o then held s src else held s x := by
  simp only [ctorMove, held_setContent, heap_setContent]
  split
  · rfl
  · split <;> rfl

theorem held_dtor {s : St} (h : Own s) (o x : Obj) :
    held (dtor s o) x = if x = o then none else held s x := by
  simp only [held_def, content_dtor]
  by_cases hx : x = o
  · simp [hx]
  · simp only [hx, if_false]
    cases hc : content s x with
    | none => rfl
    | some i =>
      simp only [Option.bind_some, heap_dtor]
      have : content s o ≠ some i := fun e => hx (h.inj x o i hc e)
      simp [this]

theorem held_writeCell {s : St} (h : Own s) {a : Obj} {i : Id} (hc : content s a = some i) (v : Val) (x : Obj) :
    held (writeCell s i v) x = if x = a then some v else held s x := by
  simp only [held_def, content_writeCell]
  by_cases hx : x = a
  · subst hx; simp [hc, writeCell]
  · simp only [hx, if_false]
    cases hcx : content s x with
    | none => rfl
    | some j =>
      have : j ≠ i := fun e => hx (h.inj x a i (e ▸ hcx) hc)
      simp [writeCell, upd_other _ _ this]

@[simp] theorem held_logEv (s : St) (e : Ev) (x : Obj) : held (logEv s e) x = held s x := rfl

/-! ### Composite member functions on named containers -/

section composite
variable {s : St} (h : Own s) (ht : content s .tmp = none)
include h ht

theorem held_assignCopy (a b j : Nat) :
    held (assignCopy s (.named a) (.named b)) (.named j)
      = if j = a then held s (.named b) else held s (.named j) := by
  have h1 := own_ctorCopy (o := .tmp) (.named b) ht h
  have h2 := own_swap .tmp (.named a) h1
  simp only [assignCopy, held_dtor h2, held_swap, held_ctorCopy h, named_ne_tmp, if_false]
  by_cases hj : j = a
  · simp [hj]
  · have : Obj.named j ≠ Obj.named a := fun e => hj (by cases e; rfl)
    simp [hj, this]

theorem held_assignTemplateAny_copy (a b j : Nat) (c : Cat) (hc : c ≠ .rref) :
    held (assignTemplateAny s (.named a) (.named b) c) (.named j)
      = if j = a then held s (.named b) else held s (.named j) := by
  have : assignTemplateAny s (.named a) (.named b) c = assignCopy s (.named a) (.named b) := by
    cases c <;> simp_all [assignTemplateAny, assignCopy, ctorFromAny]
  rw [this]; exact held_assignCopy h ht a b j

theorem held_assignMove (a b j : Nat) :
    held (assignMove s (.named a) (.named b)) (.named j)
      = if a = b then held s (.named j)
        else if j = b then none else if j = a then held s (.named b) else held s (.named j) := by
  unfold assignMove
  by_cases hab : a = b
  · subst hab; simp
  · have hab' : Obj.named a ≠ Obj.named b := fun e => hab (by cases e; rfl)
    have h1 := own_swap (.named b) (.named a) h
    have h2 : Own (ctorDefault (swap s (.named b) (.named a)) .tmp) :=
      own_ctorDefault (by simp [tmp_ne_named, ht]) h1
    have h3 := own_swap .tmp (.named b) h2
    simp only [hab, hab', if_false, held_dtor h3, held_swap, held_ctorDefault, named_ne_tmp, if_true]
    by_cases hjb : j = b
    · subst hjb; simp
    · have hjb' : Obj.named j ≠ Obj.named b := fun e => hjb (by cases e; rfl)
      by_cases hja : j = a
      · subst hja; simp [hjb, hjb']
      · have hja' : Obj.named j ≠ Obj.named a := fun e => hja (by cases e; rfl)
        simp [hjb, hjb', hja, hja']

theorem held_assignFromVal (a j : Nat) (v : Val) (c : Cat) :
    held (assignFromVal s (.named a) v c) (.named j) = if j = a then some v else held s (.named j) := by
  have h1 := own_ctorFromVal (o := .tmp) v c ht h
  have h2 := own_swap .tmp (.named a) h1
  simp only [assignFromVal, held_dtor h2, held_swap, held_ctorFromVal h, named_ne_tmp, if_false]
  by_cases hj : j = a
  · simp [hj]
  · have : Obj.named j ≠ Obj.named a := fun e => hj (by cases e; rfl)
    simp [hj, this]

theorem held_reset (a j : Nat) :
    held (reset s (.named a)) (.named j) = if j = a then none else held s (.named j) := by
  have h1 := own_ctorDefault (o := .tmp) ht h
  have h2 := own_swap .tmp (.named a) h1
  simp only [reset, held_dtor h2, held_swap, held_ctorDefault, named_ne_tmp, if_false]
  by_cases hj : j = a
  · simp [hj]
  · have : Obj.named j ≠ Obj.named a := fun e => hj (by cases e; rfl)
    simp [hj, this]

end composite

/-- assignment from an `any` of any category but `any&&` behaves as a copy assignment -/
theorem held_assignFromAny_copy {s : St} (h : Own s) (ht : content s .tmp = none) (a b j : Nat) (c : Cat)
    (hc : c ≠ .rref) :
    held (assignFromAny s (.named a) (.named b) c) (.named j)
      = if j = a then held s (.named b) else held s (.named j) := by
  cases c with
  | rref => exact absurd rfl hc
  | clref => exact held_assignCopy h ht a b j
  | lref => exact held_assignTemplateAny_copy h ht a b j _ (by simp)
  | crref => exact held_assignTemplateAny_copy h ht a b j _ (by simp)

/-! ### casts, poke -/

theorem typeOf_eq_held_tag (s : St) (o : Obj) : typeOf s o = (held s o).map (·.tag) := by
  unfold typeOf held deref
  cases content s o with
  | none => rfl
  | some i => simp only [Option.bind_some]; cases s.heap i <;> rfl

theorem castPtr_some_iff {s : St} {o : Obj} {t : Tag} {i : Id} :
    castPtr s (some o) t = some i ↔ content s o = some i ∧ typeOf s o = some t := by
  simp only [castPtr]
  split <;> simp_all

theorem deref_castPtr (s : St) (o : Obj) (t : Tag) :
    deref s (castPtr s (some o) t) = if typeOf s o = some t then held s o else none := by
  simp only [castPtr]
  split <;> simp [held, deref]

theorem held_poke {s : St} (h : Own s) (o x : Obj) (v : Val) :
    held (poke s o v) x = if x = o ∧ typeOf s o = some v.tag then some v else held s x := by
  unfold poke
  split
  · next hn =>
    have : ¬ (typeOf s o = some v.tag) := by
      intro ht
      simp only [castPtr, ht, if_true] at hn
      rw [typeOf_eq_held_tag, held_def, hn] at ht
      simp at ht
    simp [this]
  · next i hi =>
    obtain ⟨hc, hty⟩ := castPtr_some_iff.1 hi
    have := held_writeCell h hc v x
    simp only [writeCell] at this
    rw [this]; simp [hty]

theorem held_castCopy (s : St) (o : Obj) (t : Tag) (x : Obj) : held (castCopy s o t).1 x = held s x := by
  unfold castCopy
  split
  · rfl
  · split <;> rfl

theorem castCopy_result (s : St) (o : Obj) (t : Tag) :
    (castCopy s o t).2 = if typeOf s o = some t then held s o else none := by
  have hd := deref_castPtr s o t
  unfold castCopy castRef
  split
  · next hn => rw [hn] at hd; simpa [deref] using hd
  · next i hi =>
    rw [hi] at hd
    simp only [deref, Option.bind_some] at hd
    split
    · next hh => rw [← hd, hh]
    · next v hh => rw [← hd, hh]

theorem castMoveOut_result (s : St) (o : Obj) (t : Tag) :
    (castMoveOut s o t).2 = if typeOf s o = some t then held s o else none := by
  have hd := deref_castPtr s o t
  unfold castMoveOut castRef
  split
  · next hn => rw [hn] at hd; simpa [deref] using hd
  · next i hi =>
    rw [hi] at hd
    simp only [deref, Option.bind_some] at hd
    split
    · next hh => rw [← hd, hh]
    · next v hh => rw [← hd, hh]

theorem held_castMoveOut {s : St} (h : Own s) (o x : Obj) (t : Tag) :
    held (castMoveOut s o t).1 x
      = if x = o ∧ typeOf s o = some t then (held s o).map movedFrom else held s x := by
  unfold castMoveOut castRef
  split
  · next hn =>
    have : ¬ (typeOf s o = some t) := by
      intro ht
      simp only [castPtr, ht, if_true] at hn
      rw [typeOf_eq_held_tag, held_def, hn] at ht
      simp at ht
    simp [this]
  · next i hi =>
    obtain ⟨hc, hty⟩ := castPtr_some_iff.1 hi
    split
    · next hh =>
      exfalso
      rw [typeOf_eq_held_tag, held_def, hc] at hty
      simp [hh] at hty
    · next v hh =>
      have := held_writeCell h hc (movedFrom v) x
      show held (logEv (writeCell s i (movedFrom v)) (.move v.tag)) x = _
      rw [held_logEv, this]
      by_cases hx : x = o
      · subst hx; simp [hty, held_def, hc, hh]
      · simp [hx]

theorem castValue_result (s : St) (o : Obj) (t : Tag) (f : VForm) :
    (castValue s o t f).2 = if typeOf s o = some t then held s o else none := by
  cases f <;> simp only [castValue, castCopy_result, castMoveOut_result]

theorem held_castValue {s : St} (h : Own s) (o x : Obj) (t : Tag) (f : VForm) :
    held (castValue s o t f).1 x
      = if f = .rvalMove ∧ x = o ∧ typeOf s o = some t then (held s o).map movedFrom else held s x := by
  cases f <;> simp only [castValue, held_castCopy, held_castMoveOut h] <;> simp

end BFL.AnyBox
