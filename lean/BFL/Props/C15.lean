import BFL.Model.Density
import BFL.Bridge.Mat
import BFL.Bridge.Det
import BFL.Bridge.Transc
import BFL.Proofs.Density
import BFL.Proofs.DensityModel
import BFL.Proofs.DensityLse
/-
C15 — Gaussian density utilities agree with their definition and with each other; log-sum-exp.

Theorems about the model in `BFL/Model/Density.lean` (`logDensity`, `density`, `logDensityUVR`,
`densityUVR`, `logSumExp`), over ℝ, for every dimension, batch size, factor shape
(`U : d × k`, `V : k × d`), number and size of noise blocks (`d = nb · bs`) and both encodings of the
block-diagonal `R` (`RNoise.shared`, `RNoise.perBlock`).

`inv` is the matrix-inverse routine (Eigen's `.inverse()` in the code, the certified Gauss–Jordan
routine in the exact execution).  Its only assumed behaviour is the contract `InvOK inv A` on each
matrix `A` it is applied to: it returns a right inverse.  `Mat.detLU` is the certified determinant
(`BFL.toM_detLU`: it is `Matrix.det`; `BFL.toM_det`: so is the Laplace expansion it falls back to).
-/
namespace BFL
open Matrix

variable {d b k nb bs n : Nat}

/-! ### Direct (log-)density -/

/-- The formula alone (it needs only the contract of the inverse routine on `S`). -/
theorem logDensity_formula (inv : InvFn ℝ) (x : Mat ℝ d b) (m : Vec ℝ d) (S : Mat ℝ d d)
    (hinv : InvOK inv S) (c : Fin b) :
    logDensity inv x m S c
      = -(1 / 2) * ((d : ℝ) * Real.log (2 * Real.pi) + Real.log (toM S).det
          + dcol x m c ⬝ᵥ ((toM S)⁻¹ *ᵥ dcol x m c)) := by
  simp only [logDensity, Vec.of_apply, logDensityFinal, quadForm_eq hinv, toV_col_diff, toM_detLU, natTo_eq,
    transc_log, transc_pi, one_add_one_eq_two]

/-- The log-density is `−½ (d log 2π + log det S + (x−m)ᵀ S⁻¹ (x−m))` for each column `x` of the batch;
    for positive-definite `S` the determinant is positive (the logarithm is defined) and `S` is
    invertible (the inverse is defined). -/
theorem logDensity_def (inv : InvFn ℝ) (x : Mat ℝ d b) (m : Vec ℝ d) (S : Mat ℝ d d)
    (hS : (toM S).PosDef) (hinv : InvOK inv S) (c : Fin b) :
    0 < (toM S).det ∧ IsUnit (toM S) ∧
    logDensity inv x m S c
      = -(1 / 2) * ((d : ℝ) * Real.log (2 * Real.pi) + Real.log (toM S).det
          + dcol x m c ⬝ᵥ ((toM S)⁻¹ *ᵥ dcol x m c)) :=
  ⟨hS.det_pos, hS.isUnit, logDensity_formula inv x m S hinv c⟩

/-- The (log-)density depends on the covariance only through its matrix value. -/
theorem density_congr (inv : InvFn ℝ) (x : Mat ℝ d b) (m : Vec ℝ d) (S S' : Mat ℝ d d)
    (h : toM S = toM S') (hinv : InvOK inv S) (hinv' : InvOK inv S') (c : Fin b) :
    logDensity inv x m S c = logDensity inv x m S' c ∧ density inv x m S c = density inv x m S' c := by
  have e : logDensity inv x m S c = logDensity inv x m S' c := by
    rw [logDensity_formula inv x m S hinv, logDensity_formula inv x m S' hinv', h]
  refine ⟨e, ?_⟩
  show Real.exp (logDensity inv x m S c) = Real.exp (logDensity inv x m S' c)
  rw [e]

/-- The density is the exponential of the log-density (hence positive). -/
theorem density_eq_exp (inv : InvFn ℝ) (x : Mat ℝ d b) (m : Vec ℝ d) (S : Mat ℝ d d) (c : Fin b) :
    density inv x m S c = Real.exp (logDensity inv x m S c) ∧ 0 < density inv x m S c := by
  have h : density inv x m S c = Real.exp (logDensity inv x m S c) := rfl
  exact ⟨h, h ▸ Real.exp_pos _⟩

/-- The same for the factorised variant. -/
theorem densityUVR_eq_exp (inv : InvFn ℝ) (x : Mat ℝ (nb * bs) b) (m : Vec ℝ (nb * bs))
    (U : Mat ℝ (nb * bs) k) (V : Mat ℝ k (nb * bs)) (R : RNoise ℝ nb bs) (c : Fin b) :
    densityUVR inv x m U V R c = Real.exp (logDensityUVR inv x m U V R c) ∧ 0 < densityUVR inv x m U V R c := by
  have h : densityUVR inv x m U V R c = Real.exp (logDensityUVR inv x m U V R c) := rfl
  exact ⟨h, h ▸ Real.exp_pos _⟩

/-! ### Factorised (`S = U V + R`) variants -/

/-- The encoding `R` stands for the block-diagonal matrix of its blocks, and the assembled
    covariance is `U V + R`. -/
theorem assembleS_eq (U : Mat ℝ (nb * bs) k) (V : Mat ℝ k (nb * bs)) (R : RNoise ℝ nb bs) :
    toM (assembleS U V R) = toM U * toM V + bdiag (fun i => toM (R.block i)) :=
  toM_assembleS U V R

/-- The algebraic core, over any field (so also for the exact rational execution): the determinant
    and the quadratic forms computed through the determinant lemma and the Woodbury identity are
    those of the assembled `S = U V + R`; the matrices the code inverts are invertible. -/
theorem uvr_alg_eq_direct {F : Type} [Field F] [Inhabited F] [DecidableEq F] (inv : InvFn F)
    (x : Mat F (nb * bs) b) (m : Vec F (nb * bs))
    (U : Mat F (nb * bs) k) (V : Mat F k (nb * bs)) (R : RNoise F nb bs)
    (hR : ∀ i, InvOK inv (R.block i)) (hM : InvOK inv (uvrM inv U V R)) (hS : InvOK inv (assembleS U V R)) :
    (uvrAlg inv x m U V R).detS = Mat.detLU (nb * bs) (assembleS U V R) ∧
    (∀ c, (uvrAlg inv x m U V R).wd c
        = quadForm inv (assembleS U V R) (Mat.col (Mat.eval (diffCols x m)) c)) ∧
    IsUnit (toM R.full) ∧ IsUnit (toM (uvrM inv U V R)) := by
  obtain ⟨h1, h2, h3, h4⟩ := uvrAlg_spec x m U V R hR hM
  refine ⟨by rw [h1, toM_detLU], fun c => ?_, h3, hM.isUnit⟩
  rw [h2 c, quadForm_eq hS, toV_col_diff]

/-- The factorised log-density and density equal the direct ones for the assembled `S = U V + R`,
    for every batch column, every `U : d × k`, `V : k × d`, every number and size of blocks and both
    encodings of `R`. -/
theorem uvr_eq_direct (inv : InvFn ℝ) (x : Mat ℝ (nb * bs) b) (m : Vec ℝ (nb * bs))
    (U : Mat ℝ (nb * bs) k) (V : Mat ℝ k (nb * bs)) (R : RNoise ℝ nb bs)
    (hR : ∀ i, InvOK inv (R.block i)) (hM : InvOK inv (uvrM inv U V R)) (hS : InvOK inv (assembleS U V R))
    (c : Fin b) :
    logDensityUVR inv x m U V R c = logDensity inv x m (assembleS U V R) c ∧
    densityUVR inv x m U V R c = density inv x m (assembleS U V R) c := by
  obtain ⟨h1, h2, -, -⟩ := uvr_alg_eq_direct inv x m U V R hR hM hS
  have h : logDensityUVR inv x m U V R c = logDensity inv x m (assembleS U V R) c := by
    simp only [logDensityUVR, logDensity, Vec.of_apply, h1, h2 c]
  refine ⟨h, ?_⟩
  rw [(densityUVR_eq_exp inv x m U V R c).1, (density_eq_exp inv x m (assembleS U V R) c).1, h]

/-- Definedness of the factorised evaluation when `U V + R` is positive definite: the determinant it
    forms, `det_R · det(I + V R⁻¹ U)`, equals `det S` and is positive (the logarithm is defined), and
    `R`, `I + V R⁻¹ U`, `S` are invertible (the inverses are defined). -/
theorem uvr_defined (inv : InvFn ℝ) (x : Mat ℝ (nb * bs) b) (m : Vec ℝ (nb * bs))
    (U : Mat ℝ (nb * bs) k) (V : Mat ℝ k (nb * bs)) (R : RNoise ℝ nb bs)
    (hR : ∀ i, InvOK inv (R.block i)) (hM : InvOK inv (uvrM inv U V R))
    (hPD : (toM (assembleS U V R)).PosDef) :
    (uvrAlg inv x m U V R).detS = (toM (assembleS U V R)).det ∧ 0 < (uvrAlg inv x m U V R).detS ∧
    IsUnit (toM R.full) ∧ IsUnit (1 + toM V * (toM R.full)⁻¹ * toM U) ∧ IsUnit (toM (assembleS U V R)) := by
  obtain ⟨h1, -, h3, h4⟩ := uvrAlg_spec x m U V R hR hM
  exact ⟨h1, h1 ▸ hPD.det_pos, h3, h4, hPD.isUnit⟩

/-- With a correct inverse routine the hypotheses reduce to: the blocks of `R` are invertible and
    `U V + R` is positive definite.  That `I + V R⁻¹ U` is invertible is then a consequence. -/
theorem uvr_eq_direct_of_posDef (inv : InvFn ℝ) (hinv : InvCorrect inv)
    (x : Mat ℝ (nb * bs) b) (m : Vec ℝ (nb * bs))
    (U : Mat ℝ (nb * bs) k) (V : Mat ℝ k (nb * bs)) (R : RNoise ℝ nb bs)
    (hR : ∀ i, IsUnit (toM (R.block i))) (hPD : (toM (assembleS U V R)).PosDef) (c : Fin b) :
    logDensityUVR inv x m U V R c = logDensity inv x m (assembleS U V R) c ∧
    densityUVR inv x m U V R c = density inv x m (assembleS U V R) c ∧
    0 < (uvrAlg inv x m U V R).detS ∧ IsUnit (toM (uvrM inv U V R)) := by
  have hR' : ∀ i, InvOK inv (R.block i) := fun i => hinv _ _ (hR i)
  have hRf : IsUnit (toM R.full) := by
    rw [toM_full]; exact DensityProofs.bdiag_isUnit _ _ (invBlocks_spec R hR')
  have hMu : IsUnit (toM (uvrM inv U V R)) := by
    rw [toM_uvrM U V R hR']
    refine DensityProofs.uvr_M_isUnit _ _ _ hRf ?_
    have : toM (assembleS U V R) = toM U * toM V + toM R.full := by simp [assembleS]
    rw [← this]; exact hPD.isUnit
  have hM := hinv _ _ hMu
  obtain ⟨e1, e2⟩ := uvr_eq_direct inv x m U V R hR' hM (hinv _ _ hPD.isUnit) c
  exact ⟨e1, e2, (uvr_defined inv x m U V R hR' hM hPD).2.1, hMu⟩

/-- "given in full or as one shared block": the shared-block encoding and the per-block encoding
    that repeats the block give the same values. -/
theorem uvr_shared_eq_perBlock (inv : InvFn ℝ) (hinv : InvCorrect inv)
    (x : Mat ℝ (nb * bs) b) (m : Vec ℝ (nb * bs))
    (U : Mat ℝ (nb * bs) k) (V : Mat ℝ k (nb * bs)) (R0 : Mat ℝ bs bs)
    (hR : IsUnit (toM R0)) (hPD : (toM (assembleS U V (RNoise.shared R0 : RNoise ℝ nb bs))).PosDef) (c : Fin b) :
    logDensityUVR inv x m U V (RNoise.shared R0 : RNoise ℝ nb bs) c
      = logDensityUVR inv x m U V (RNoise.perBlock (repBlocks R0) : RNoise ℝ nb bs) c ∧
    densityUVR inv x m U V (RNoise.shared R0 : RNoise ℝ nb bs) c
      = densityUVR inv x m U V (RNoise.perBlock (repBlocks R0) : RNoise ℝ nb bs) c := by
  have hblk : ∀ i, (RNoise.perBlock (repBlocks R0) : RNoise ℝ nb bs).block i = R0 := by
    intro i; ext a c'
    simp [RNoise.block, Mat.blkCols, repBlocks, bmod_eq, bidx_modNat]
  have hA : toM (assembleS U V (RNoise.shared R0 : RNoise ℝ nb bs))
      = toM (assembleS U V (RNoise.perBlock (repBlocks R0) : RNoise ℝ nb bs)) := by
    rw [toM_assembleS, toM_assembleS]
    congr 2; funext i
    rw [hblk i]; rfl
  have hPD' : (toM (assembleS U V (RNoise.perBlock (repBlocks R0) : RNoise ℝ nb bs))).PosDef := hA ▸ hPD
  obtain ⟨a1, a2, -, -⟩ := uvr_eq_direct_of_posDef inv hinv x m U V (RNoise.shared R0 : RNoise ℝ nb bs)
    (fun i => by simpa [RNoise.block] using hR) hPD c
  obtain ⟨b1, b2, -, -⟩ := uvr_eq_direct_of_posDef inv hinv x m U V (RNoise.perBlock (repBlocks R0) : RNoise ℝ nb bs)
    (fun i => by rw [hblk i]; exact hR) hPD' c
  obtain ⟨c1, c2⟩ := density_congr inv x m _ _ hA (hinv _ _ hPD.isUnit) (hinv _ _ hPD'.isUnit) c
  exact ⟨by rw [a1, b1, c1], by rw [a2, b2, c2]⟩

/-- Non-vacuity: for every `U` (any shape) the hypotheses of `uvr_eq_direct_of_posDef` hold with
    `V = Uᵀ`, `R` the shared identity block and Mathlib's inverse as the routine. -/
theorem uvr_hypotheses_satisfiable (U : Mat ℝ (nb * bs) k) :
    InvCorrect mathlibInv ∧
    (∀ i, IsUnit (toM ((RNoise.shared (Mat.one : Mat ℝ bs bs) : RNoise ℝ nb bs).block i))) ∧
    (toM (assembleS U U.transpose (RNoise.shared (Mat.one : Mat ℝ bs bs) : RNoise ℝ nb bs))).PosDef := by
  refine ⟨fun n A h => mathlibInv_ok A h, fun i => by simp [RNoise.block], ?_⟩
  rw [toM_assembleS]
  have h1 : bdiag (fun i => toM ((RNoise.shared (Mat.one : Mat ℝ bs bs) : RNoise ℝ nb bs).block i)) = 1 := by
    simp [RNoise.block, bdiag_one]
  rw [h1, toM_transpose]
  have h2 : (toM U * (toM U)ᵀ).PosSemidef := by
    simpa using Matrix.posSemidef_self_mul_conjTranspose (toM U)
  exact Matrix.PosDef.posSemidef_add h2 Matrix.PosDef.one

/-! ### log-sum-exp -/

/-- `log_sum_exp` of a non-empty vector is `log Σ exp xᵢ`. -/
theorem lse_eq_log_sum_exp (x : Vec ℝ (n + 1)) :
    logSumExp x = Real.log (∑ i, Real.exp (x i)) := by
  rw [logSumExp_real]
  exact DensityProofs.shift_log_sum_exp (fun i => x i) (vmax x)

/-- It commutes with adding a constant to all entries. -/
theorem lse_shift (x : Vec ℝ (n + 1)) (c : ℝ) :
    logSumExp (Vec.of (fun i => x i + c)) = logSumExp x + c := by
  rw [lse_eq_log_sum_exp, lse_eq_log_sum_exp]
  exact DensityProofs.log_sum_exp_add_const (fun i => x i) c

/-- The real-arithmetic content of "no overflow, no underflow": every exponent the code forms is
    `≤ 0` (so every `exp` is in `(0, 1]`), one of them is exactly `0`, and the sum whose logarithm is
    taken lies in `[1, n]`. -/
theorem lse_args_bounded (x : Vec ℝ (n + 1)) :
    (∀ i, x i - vmax x ≤ 0) ∧ (∃ i, x i - vmax x = 0) ∧
    1 ≤ ∑ i, Real.exp (x i - vmax x) ∧ ∑ i, Real.exp (x i - vmax x) ≤ (n + 1 : ℕ) := by
  obtain ⟨hle, hatt⟩ := vmax_spec x
  obtain ⟨h1, h2, h3⟩ := DensityProofs.sum_exp_shift_bounds (fun i => x i) (vmax x) hle hatt
  obtain ⟨j, hj⟩ := hatt
  refine ⟨h1, ⟨j, by rw [← hj, sub_self]⟩, h2, ?_⟩
  simpa using h3

/-- Entries `−∞` (IEEE semantics, `Ext ℝ`): with at least one finite entry the result is the finite
    number `log Σ exp xᵢ` (`exp(−∞) = 0`); the shift is by a finite maximum, every shifted exponent is
    `−∞` or `≤ 0`, and the sum whose logarithm is taken is at least 1. -/
theorem lse_neg_inf (x : Vec (Ext ℝ) (n + 1)) (hx : ∀ i, x i ≠ Ext.nan) (hfin : ∃ i a, x i = Ext.fin a) :
    logSumExp x = Ext.fin (Real.log (∑ i, Ext.expR (x i))) ∧
    ∃ mx : ℝ, vmax x = Ext.fin mx ∧
      (∀ i, x i - vmax x = Ext.negInf ∨ ∃ e : ℝ, x i - vmax x = Ext.fin e ∧ e ≤ 0) ∧
      1 ≤ ∑ i, Ext.expR (x i - vmax x) := by
  obtain ⟨mx, hmx, hall, j, hj⟩ := Ext.vmax_finite x hx hfin
  -- every shifted exponential is a finite number
  have hterm : ∀ i, Transc.exp (x i - Ext.fin mx) = Ext.fin (Real.exp (-mx) * Ext.expR (x i)) := by
    intro i
    rcases hall i with h | ⟨b, hb, _⟩
    · rw [h, Ext.negInf_sub_fin, Ext.exp_negInf]; simp [Ext.expR]
    · rw [hb, Ext.fin_sub_fin, Ext.exp_fin]
      simp only [Ext.expR]
      rw [← Real.exp_add]; ring_nf
  have hpos : 0 < ∑ i, Ext.expR (x i) := by
    have hnn : ∀ i, 0 ≤ Ext.expR (x i) := by
      intro i
      cases h : x i with
      | negInf => simp [Ext.expR]
      | nan => simp [Ext.expR]
      | fin a => simp only [Ext.expR]; exact (Real.exp_pos a).le
    have hjpos : 0 < Ext.expR (x j) := by rw [hj]; simp only [Ext.expR]; exact Real.exp_pos _
    exact lt_of_lt_of_le hjpos (Finset.single_le_sum (fun i _ => hnn i) (Finset.mem_univ j))
  have hspos : 0 < ∑ i, Real.exp (-mx) * Ext.expR (x i) := by
    rw [← Finset.mul_sum]; exact mul_pos (Real.exp_pos _) hpos
  refine ⟨?_, mx, hmx, ?_, ?_⟩
  · unfold logSumExp
    simp only [hmx, hterm]
    rw [Ext.fsum_fin, Ext.log_fin_pos hspos, Ext.fin_add_fin, ← Finset.mul_sum,
      Real.log_mul (Real.exp_pos _).ne' hpos.ne', Real.log_exp]
    congr 1; ring
  · intro i
    rw [hmx]
    rcases hall i with h | ⟨b, hb, hle⟩
    · exact Or.inl (by rw [h, Ext.negInf_sub_fin])
    · exact Or.inr ⟨b - mx, by rw [hb, Ext.fin_sub_fin], by linarith⟩
  · rw [hmx]
    have hnn : ∀ i, 0 ≤ Ext.expR (x i - Ext.fin mx) := by
      intro i
      rcases hall i with h | ⟨b, hb, _⟩
      · rw [h, Ext.negInf_sub_fin]; simp [Ext.expR]
      · rw [hb, Ext.fin_sub_fin]; simp only [Ext.expR]; exact (Real.exp_pos _).le
    have h1 : Ext.expR (x j - Ext.fin mx) = 1 := by
      rw [hj, Ext.fin_sub_fin, sub_self]; simp [Ext.expR]
    calc (1 : ℝ) = Ext.expR (x j - Ext.fin mx) := h1.symm
      _ ≤ ∑ i, Ext.expR (x i - Ext.fin mx) :=
        Finset.single_le_sum (f := fun i => Ext.expR (x i - Ext.fin mx)) (fun i _ => hnn i) (Finset.mem_univ j)

/-- Outside the property's quantifier (documentation): when *every* entry is `−∞` the code forms
    `−∞ − (−∞) = nan` and returns `nan`, not `−∞`. -/
theorem lse_all_neg_inf_is_nan (x : Vec (Ext ℝ) (n + 1)) (h : ∀ i, x i = Ext.negInf) :
    logSumExp x = Ext.nan := by
  have hv : vmax x = Ext.negInf := by
    unfold vmax
    have : ∀ (k : Nat) (g : Fin k → Ext ℝ), (∀ i, g i = Ext.negInf) →
        Fin.foldl k (fun acc i => if acc < g i then g i else acc) Ext.negInf = Ext.negInf := by
      intro k
      induction k with
      | zero => intro g _; simp [Fin.foldl_zero]
      | succ k ih =>
        intro g hg
        rw [Fin.foldl_succ_last, ih (fun i => g i.castSucc) (fun i => hg _), hg]
        simp
    rw [h 0]
    exact this n (fun i => x i.succ) (fun i => h _)
  unfold logSumExp
  simp only [hv, h, Ext.negInf_sub_negInf, Ext.exp_nan]
  rw [Ext.fsum_nan, Ext.log_nan, Ext.add_nan]

/-! ### Non-vacuity -/

/-- a positive-definite covariance, a valid inverse routine: the hypotheses of `logDensity_def` are
    satisfiable (the identity covariance in any dimension) -/
example : (toM (Mat.one : Mat ℝ d d)).PosDef ∧ InvOK mathlibInv (Mat.one : Mat ℝ d d) := by
  have h : (toM (Mat.one : Mat ℝ d d)).PosDef := by rw [toM_one]; exact Matrix.PosDef.one
  exact ⟨h, mathlibInv_ok _ h.isUnit⟩

/-- a vector with a `−∞` entry and a finite entry satisfies the hypotheses of `lse_neg_inf` -/
example : ∃ x : Vec (Ext ℝ) 2, (∀ i, x i ≠ Ext.nan) ∧ ∃ i a, x i = Ext.fin a := by
  refine ⟨Vec.of (fun i => if i = 0 then Ext.negInf else Ext.fin 3), fun i => ?_, 1, 3, by simp⟩
  by_cases h : i = 0 <;> simp [h]

/-! ### Deepening round -/

/-- `max ≤ LSE x ≤ max + log n`: the result is within `log n` of the largest entry. -/
theorem lse_bounds (x : Vec ℝ (n + 1)) :
    vmax x ≤ logSumExp x ∧ logSumExp x ≤ vmax x + Real.log (n + 1 : ℕ) := by
  obtain ⟨-, -, h1, h2⟩ := lse_args_bounded x
  rw [logSumExp_real]
  have hpos : (0 : ℝ) < ∑ i, Real.exp (x i - vmax x) := lt_of_lt_of_le one_pos h1
  constructor
  · have := Real.log_nonneg h1
    linarith
  · have := Real.log_le_log hpos h2
    linarith

/-- Subtracting the log-sum-exp normalises: `Σ exp(xᵢ − LSE x) = 1` (how the particle filters normalise
    log-weights). -/
theorem lse_normalizes (x : Vec ℝ (n + 1)) : ∑ i, Real.exp (x i - logSumExp x) = 1 := by
  rw [lse_eq_log_sum_exp]
  have hpos : 0 < ∑ i, Real.exp (x i) := Finset.sum_pos (fun i _ => Real.exp_pos _) Finset.univ_nonempty
  simp_rw [Real.exp_sub, Real.exp_log hpos]
  rw [← Finset.sum_div, div_self hpos.ne']

/-! ### Round 4: the batch as a map over its columns; log-sum-exp as a symmetric function of all its entries -/

/-- Batch independence of the direct (log-)density: the value for a column depends on that column
    only — two batches (of any two sizes) that hold the same point in columns `c` and `c'` give the same
    value there.  (Appending, removing or permuting other columns, or splitting the batch into chunks,
    changes nothing.) -/
theorem logDensity_col_congr {b' : Nat} (inv : InvFn ℝ) (x : Mat ℝ d b) (x' : Mat ℝ d b') (m : Vec ℝ d) (S : Mat ℝ d d)
    (c : Fin b) (c' : Fin b') (h : ∀ i, x i c = x' i c') :
    logDensity inv x m S c = logDensity inv x' m S c' ∧ density inv x m S c = density inv x' m S c' := by
  have hcol : Mat.col (Mat.eval (diffCols x m)) c = Mat.col (Mat.eval (diffCols x' m)) c' := by
    ext i; simp [Mat.col, diffCols, h i]
  have e : logDensity inv x m S c = logDensity inv x' m S c' := by
    simp only [logDensity, Vec.of_apply, hcol]
  exact ⟨e, by simp only [density, Vec.of_apply, e]⟩

/-- The batch call is the map of the one-column call over the columns (`logDensityCols`: one call per column). -/
theorem logDensity_batch_map (inv : InvFn ℝ) (x : Mat ℝ d b) (m : Vec ℝ d) (S : Mat ℝ d d) :
    logDensity inv x m S = logDensityCols inv x m S := by
  ext c
  simp only [logDensityCols, Vec.of_apply]
  exact (logDensity_col_congr inv x (colOfBatch x c) m S c 0 (fun i => by simp [colOfBatch])).1

/-- Batch independence of the factorised (log-)density; the determinant it forms does not depend on
    the batch at all. -/
theorem uvr_col_congr {b' : Nat} (inv : InvFn ℝ) (x : Mat ℝ (nb * bs) b) (x' : Mat ℝ (nb * bs) b') (m : Vec ℝ (nb * bs))
    (U : Mat ℝ (nb * bs) k) (V : Mat ℝ k (nb * bs)) (R : RNoise ℝ nb bs)
    (c : Fin b) (c' : Fin b') (h : ∀ i, x i c = x' i c') :
    (uvrAlg inv x m U V R).detS = (uvrAlg inv x' m U V R).detS ∧
    logDensityUVR inv x m U V R c = logDensityUVR inv x' m U V R c' ∧
    densityUVR inv x m U V R c = densityUVR inv x' m U V R c' := by
  have hdet : (uvrAlg inv x m U V R).detS = (uvrAlg inv x' m U V R).detS := by
    simp only [uvrAlg]
  have hcol : Mat.col (Mat.eval (diffCols x m)) c = Mat.col (Mat.eval (diffCols x' m)) c' := by
    ext i; simp [Mat.col, diffCols, h i]
  have hrow : Mat.row (mulInvR (Mat.eval (diffCols x m)).transpose (R.invBlocks inv)) c
      = Mat.row (mulInvR (Mat.eval (diffCols x' m)).transpose (R.invBlocks inv)) c' := by
    ext p; simp [Mat.row, mulInvR, diffCols, h]
  have hwd : (uvrAlg inv x m U V R).wd c = (uvrAlg inv x' m U V R).wd c' := by
    simp only [uvrAlg, Vec.eval_eq, Vec.of_apply, hcol, hrow]
  have e : logDensityUVR inv x m U V R c = logDensityUVR inv x' m U V R c' := by
    simp only [logDensityUVR, Vec.of_apply, hdet, hwd]
  exact ⟨hdet, e, by simp only [densityUVR, Vec.of_apply, e]⟩

theorem uvr_batch_map (inv : InvFn ℝ) (x : Mat ℝ (nb * bs) b) (m : Vec ℝ (nb * bs))
    (U : Mat ℝ (nb * bs) k) (V : Mat ℝ k (nb * bs)) (R : RNoise ℝ nb bs) :
    logDensityUVR inv x m U V R = logDensityUVRCols inv x m U V R := by
  ext c
  simp only [logDensityUVRCols, Vec.of_apply]
  exact (uvr_col_congr inv x (colOfBatch x c) m U V R c 0 (fun i => by simp [colOfBatch])).2.1

/-- Only `S = U V + R` has to be positive definite, not the summand `R`: the two factors of the
    determinant the code forms, `det R` and `det(I + V R⁻¹ U)`, always have the same sign, and they may
    both be negative.  (The logarithm may be taken of their product only, never of the factors.) -/
theorem uvr_factor_signs (inv : InvFn ℝ) (x : Mat ℝ (nb * bs) b) (m : Vec ℝ (nb * bs))
    (U : Mat ℝ (nb * bs) k) (V : Mat ℝ k (nb * bs)) (R : RNoise ℝ nb bs)
    (hR : ∀ i, InvOK inv (R.block i)) (hM : InvOK inv (uvrM inv U V R))
    (hPD : (toM (assembleS U V R)).PosDef) :
    (uvrAlg inv x m U V R).detS = R.det * Mat.detLU k (uvrM inv U V R) ∧
    (R.det < 0 ↔ Mat.detLU k (uvrM inv U V R) < 0) ∧ (0 < R.det ↔ 0 < Mat.detLU k (uvrM inv U V R)) := by
  have hpos := (uvr_defined inv x m U V R hR hM hPD).2.1
  have hdef : (uvrAlg inv x m U V R).detS = R.det * Mat.detLU k (uvrM inv U V R) := by
    simp only [uvrAlg, Mat.eval_eq, uvrM]
  rw [hdef] at hpos
  refine ⟨hdef, ?_, ?_⟩
  · constructor
    · intro h; by_contra h'
      have := mul_nonpos_of_nonpos_of_nonneg h.le (not_lt.mp h'); linarith
    · intro h; by_contra h'
      have := mul_nonpos_of_nonneg_of_nonpos (not_lt.mp h') h.le; linarith
  · constructor
    · intro h; exact (pos_iff_pos_of_mul_pos hpos).mp h
    · intro h; exact (pos_iff_pos_of_mul_pos hpos).mpr h

/-- `exp(LSE x) = Σ exp xᵢ`: every entry contributes. -/
theorem lse_exp (x : Vec ℝ (n + 1)) : Real.exp (logSumExp x) = ∑ i, Real.exp (x i) := by
  rw [lse_eq_log_sum_exp]
  exact Real.exp_log (Finset.sum_pos (fun i _ => Real.exp_pos _) Finset.univ_nonempty)

/-- The result does not depend on the order of the entries (in particular not on where the maximum —
    or several equal maxima — stand). -/
theorem lse_perm (x : Vec ℝ (n + 1)) (σ : Equiv.Perm (Fin (n + 1))) :
    logSumExp (Vec.of (fun i => x (σ i))) = logSumExp x := by
  rw [lse_eq_log_sum_exp, lse_eq_log_sum_exp]
  simp only [Vec.of_apply]
  rw [Equiv.sum_comp σ (fun i => Real.exp (x i))]

/-- Chunked accumulation: for any split of the index set into a part `A` and the rest, the result is
    the logarithm of the two partial sums added. -/
theorem lse_split (x : Vec ℝ (n + 1)) (A : Finset (Fin (n + 1))) :
    logSumExp x = Real.log (∑ i ∈ A, Real.exp (x i) + ∑ i ∈ Aᶜ, Real.exp (x i)) := by
  rw [lse_eq_log_sum_exp, Finset.sum_add_sum_compl]

/-- No entry is negligible: leaving out any non-empty set of entries (however far below the maximum)
    gives a strictly smaller value, and the missing amount is exactly the logarithm of the ratio of the sums. -/
theorem lse_drop_lt (x : Vec ℝ (n + 1)) (A : Finset (Fin (n + 1))) (hA : A.Nonempty) (hAc : Aᶜ.Nonempty) :
    Real.log (∑ i ∈ A, Real.exp (x i)) < logSumExp x ∧
    logSumExp x - Real.log (∑ i ∈ A, Real.exp (x i))
      = Real.log (1 + (∑ i ∈ Aᶜ, Real.exp (x i)) / (∑ i ∈ A, Real.exp (x i))) := by
  have hpA : 0 < ∑ i ∈ A, Real.exp (x i) := Finset.sum_pos (fun i _ => Real.exp_pos _) hA
  have hpAc : 0 < ∑ i ∈ Aᶜ, Real.exp (x i) := Finset.sum_pos (fun i _ => Real.exp_pos _) hAc
  rw [lse_split x A]
  refine ⟨Real.log_lt_log hpA (by linarith), ?_⟩
  rw [← Real.log_div (by positivity) hpA.ne']
  congr 1
  field_simp

/-- Ties at the maximum: with `t` entries equal to the maximum the result is at least `max + log t`
    (each of them contributes `exp 0 = 1` to the shifted sum). -/
theorem lse_ties (x : Vec ℝ (n + 1)) :
    1 ≤ (Finset.univ.filter (fun i => x i = vmax x)).card ∧
    vmax x + Real.log ((Finset.univ.filter (fun i => x i = vmax x)).card : ℝ) ≤ logSumExp x := by
  rw [logSumExp_real]
  obtain ⟨-, j, hj⟩ := vmax_spec x
  have hjT : j ∈ Finset.univ.filter (fun i => x i = vmax x) := by simp [hj.symm]
  have hcard : 1 ≤ (Finset.univ.filter (fun i => x i = vmax x)).card := Finset.card_pos.mpr ⟨j, hjT⟩
  have hTpos : (0 : ℝ) < ((Finset.univ.filter (fun i => x i = vmax x)).card : ℝ) := by exact_mod_cast hcard
  have hsum : ((Finset.univ.filter (fun i => x i = vmax x)).card : ℝ) ≤ ∑ i, Real.exp (x i - vmax x) := by
    calc ((Finset.univ.filter (fun i => x i = vmax x)).card : ℝ)
        = ∑ i ∈ Finset.univ.filter (fun i => x i = vmax x), (1 : ℝ) := by simp
      _ = ∑ i ∈ Finset.univ.filter (fun i => x i = vmax x), Real.exp (x i - vmax x) := by
          refine Finset.sum_congr rfl (fun i hi => ?_)
          have : x i = vmax x := (Finset.mem_filter.mp hi).2
          rw [this, sub_self, Real.exp_zero]
      _ ≤ ∑ i, Real.exp (x i - vmax x) :=
          Finset.sum_le_sum_of_subset_of_nonneg (Finset.subset_univ _) (fun i _ _ => (Real.exp_pos _).le)
  have := Real.log_le_log hTpos hsum
  exact ⟨hcard, by linarith⟩

/-- All entries equal: `LSE = v + log n` exactly. -/
theorem lse_all_equal (x : Vec ℝ (n + 1)) (v : ℝ) (h : ∀ i, x i = v) :
    logSumExp x = v + Real.log (n + 1 : ℕ) := by
  rw [lse_eq_log_sum_exp]
  simp only [h, Finset.sum_const, Finset.card_univ, Fintype.card_fin, nsmul_eq_mul]
  rw [Real.log_mul (by positivity) (Real.exp_pos _).ne', Real.log_exp]
  ring

/-- Commutation with a constant shift also in the presence of `−∞` entries (IEEE semantics). -/
theorem lse_neg_inf_shift (x : Vec (Ext ℝ) (n + 1)) (hx : ∀ i, x i ≠ Ext.nan) (hfin : ∃ i a, x i = Ext.fin a) (c : ℝ) :
    logSumExp (Vec.of (fun i => x i + Ext.fin c)) = logSumExp x + Ext.fin c := by
  have hadd : ∀ i, (x i + Ext.fin c ≠ Ext.nan) ∧ Ext.expR (x i + Ext.fin c) = Ext.expR (x i) * Real.exp c := by
    intro i
    cases h : x i with
    | negInf =>
      have e : (Ext.negInf : Ext ℝ) + Ext.fin c = Ext.negInf := rfl
      exact ⟨by rw [e]; exact fun h' => (by cases h'), by rw [e]; simp [Ext.expR]⟩
    | nan => exact absurd h (hx i)
    | fin a => exact ⟨by rw [Ext.fin_add_fin]; exact fun h' => (by cases h'), by rw [Ext.fin_add_fin]; simp only [Ext.expR]; exact Real.exp_add a c⟩
  obtain ⟨j, a, hj⟩ := hfin
  have hx' : ∀ i, (Vec.of (fun i => x i + Ext.fin c)) i ≠ Ext.nan := fun i => by
    simp only [Vec.of_apply]; exact (hadd i).1
  have hfin' : ∃ i a, (Vec.of (fun i => x i + Ext.fin c)) i = Ext.fin a :=
    ⟨j, a + c, by simp only [Vec.of_apply]; rw [hj, Ext.fin_add_fin]⟩
  have hpos : 0 < ∑ i, Ext.expR (x i) := by
    have hnn : ∀ i, 0 ≤ Ext.expR (x i) := by
      intro i
      cases h : x i with
      | negInf => simp [Ext.expR]
      | nan => simp [Ext.expR]
      | fin a => simp only [Ext.expR]; exact (Real.exp_pos a).le
    have hjpos : 0 < Ext.expR (x j) := by rw [hj]; simp only [Ext.expR]; exact Real.exp_pos _
    exact lt_of_lt_of_le hjpos (Finset.single_le_sum (fun i _ => hnn i) (Finset.mem_univ j))
  obtain ⟨e1, -⟩ := lse_neg_inf _ hx' hfin'
  obtain ⟨e2, -⟩ := lse_neg_inf x hx ⟨j, a, hj⟩
  rw [e1, e2, Ext.fin_add_fin]
  congr 1
  simp only [Vec.of_apply, (hadd _).2]
  rw [← Finset.sum_mul, Real.log_mul hpos.ne' (Real.exp_pos _).ne', Real.log_exp]

/-- non-vacuity of `lse_drop_lt`: `[0, −16]` with the second entry left out — the value drops from
    `log(1 + e⁻¹⁶)` to `0` (a cut-off at 15 below the maximum changes the result) -/
example : ∃ (x : Vec ℝ 2) (A : Finset (Fin 2)), A.Nonempty ∧ Aᶜ.Nonempty ∧ Real.log (∑ i ∈ A, Real.exp (x i)) = 0 ∧ 0 < logSumExp x := by
  have hA : ({0} : Finset (Fin 2)).Nonempty := ⟨0, by simp⟩
  have hAc : ({0} : Finset (Fin 2))ᶜ.Nonempty := ⟨(1 : Fin 2), by simp⟩
  have h := (lse_drop_lt (Vec.of (fun i : Fin 2 => if i = 0 then (0 : ℝ) else -16)) {0} hA hAc).1
  have h0 : Real.log (∑ i ∈ ({0} : Finset (Fin 2)), Real.exp ((Vec.of (fun i : Fin 2 => if i = 0 then (0 : ℝ) else -16)) i)) = 0 := by simp
  exact ⟨_, _, hA, hAc, h0, by rw [h0] at h; exact h⟩

/-- With `−∞` entries too the result does not depend on the order of the entries. -/
theorem lse_neg_inf_perm {n : Nat} (x : Vec (Ext ℝ) (n + 1)) (hx : ∀ i, x i ≠ Ext.nan) (hfin : ∃ i a, x i = Ext.fin a)
    (σ : Equiv.Perm (Fin (n + 1))) :
    logSumExp (Vec.of (fun i => x (σ i))) = logSumExp x := by
  obtain ⟨j, a, hj⟩ := hfin
  have hx' : ∀ i, (Vec.of (fun i => x (σ i))) i ≠ Ext.nan := fun i => by simp only [Vec.of_apply]; exact hx _
  have hfin' : ∃ i a, (Vec.of (fun i => x (σ i))) i = Ext.fin a := ⟨σ.symm j, a, by simp [hj]⟩
  rw [(lse_neg_inf _ hx' hfin').1, (lse_neg_inf x hx ⟨j, a, hj⟩).1]
  simp only [Vec.of_apply]
  rw [Equiv.sum_comp σ (fun i => Ext.expR (x i))]

/-- entrywise reciprocal: the inverse routine for 1×1 matrices -/
noncomputable def recipInv : InvFn ℝ := fun _ A => Mat.of (fun i j => 1 / A i j)

/-- **Witness** for the negative branch of `uvr_factor_signs` (d = k = 1, one 1×1 block):
    `U = V = (2)`, `R = (−1)`: `S = U V + R = (3)` is positive definite although `R` is negative; the code
    forms `det R = −1`, `det(I + V R⁻¹ U) = −3` and their product `3 = det S > 0`.  Taking the logarithm of
    the factors separately is undefined here. -/
theorem uvr_negative_factors_witness :
    ∃ (inv : InvFn ℝ) (U : Mat ℝ (1 * 1) 1) (V : Mat ℝ 1 (1 * 1)) (R : RNoise ℝ 1 1),
      (∀ i, InvOK inv (R.block i)) ∧ InvOK inv (uvrM inv U V R) ∧ (toM (assembleS U V R)).PosDef ∧
      R.det = -1 ∧ Mat.detLU 1 (uvrM inv U V R) = -3 ∧
      ∀ (b : Nat) (x : Mat ℝ (1 * 1) b) (m : Vec ℝ (1 * 1)), (uvrAlg inv x m U V R).detS = 3 := by
  have : Subsingleton (Fin (1 * 1)) := ⟨fun a b => Fin.ext (by omega)⟩
  let i0 : Fin (1 * 1) := ⟨0, by norm_num⟩
  let U : Mat ℝ (1 * 1) 1 := Mat.of (fun _ _ => 2)
  let V : Mat ℝ 1 (1 * 1) := Mat.of (fun _ _ => 2)
  let R0 : Mat ℝ 1 1 := Mat.of (fun _ _ => -1)
  let R : RNoise ℝ 1 1 := .shared R0
  have hM : ∀ i j, (uvrM recipInv U V R) i j = -3 := by
    intro i j
    simp only [uvrM, Mat.add_apply, Mat.one_apply, Mat.mul_apply, mulInvR, Mat.eval_eq, Mat.of_apply, RNoise.invBlocks,
      Vec.of_apply, recipInv, fsum_eq_sum, Fintype.sum_subsingleton _ i0, U, V, R, R0,
      Subsingleton.elim i j, if_true]
    norm_num
  have hRdet : R.det = -1 := by
    rw [RNoise_det_eq]
    simp [RNoise.block, R, R0, toM]
  have hMdet : Mat.detLU 1 (uvrM recipInv U V R) = -3 := by
    rw [toM_detLU, Matrix.det_fin_one]; exact hM 0 0
  have hinv1 : ∀ (A : Mat ℝ 1 1), A 0 0 ≠ 0 → InvOK recipInv A := by
    intro A hA
    unfold InvOK
    ext i j
    have hi : i = 0 := Subsingleton.elim _ _
    have hj : j = 0 := Subsingleton.elim _ _
    subst hi; subst hj
    simp [Matrix.mul_apply, recipInv, toM, hA]
  refine ⟨recipInv, U, V, R, fun i => hinv1 _ (by simp [RNoise.block, R, R0]), hinv1 _ (by rw [hM]; norm_num), ?_, hRdet, hMdet, ?_⟩
  · refine Matrix.PosDef.of_dotProduct_mulVec_pos ?_ ?_
    · ext i j
      rw [Subsingleton.elim i j]
      simp [Matrix.conjTranspose_apply]
    · intro x hx
      have hx0 : x i0 ≠ 0 := by
        intro h; apply hx; funext i; rw [Subsingleton.elim i i0]; exact h
      have hS : toM (assembleS U V R) i0 i0 = 3 := by
        simp only [toM_apply, assembleS, Mat.add_apply, RNoise.full, RNoise.block, Mat.of_apply, U, V, R, R0]
        rw [Mat.mul_apply, fsum_eq_sum, Fin.sum_univ_one]
        simp only [Mat.of_apply]
        norm_num
      simp only [dotProduct, Matrix.mulVec, Fintype.sum_subsingleton _ i0, hS, Pi.star_apply, star_trivial]
      have : 0 < x i0 * x i0 := mul_self_pos.mpr hx0
      nlinarith
  · intro b x m
    simp only [uvrAlg, Mat.eval_eq]
    show R.det * Mat.detLU 1 (uvrM recipInv U V R) = 3
    rw [hRdet, hMdet]; norm_num

end BFL
