import BFL.Driver.Proto
import BFL.Model.Fault
import BFL.Model.FaultEntry
/-
Driver entries for C12 (beliefs instantiated symbolically: `Sym`).

  fault <class> <seed> <n> <m> <k> <sub> fz=<bits> me=<bits> pr=<bits> in=<bits> no=<bits> li=<bits>
     class: kf | ukfa | ukfg | ukfgo | sukf | glik | bootg | boots | gpf-<kf|ukfa|ukfg|sukf>-<g|s>
     optional trailing token reps=<r>: r successive calls on the same object (scripts consumed across calls),
     or ep=<e0>/<e1>/…: one call per epoch, the methods named in e_i unavailable during that whole call;
     alias=1: in-place calls correct(b, b)
     -> r0:<pred|full|partial|none|some>:<me1,pr0,…|-> r1:…
  fault sis-<bootg|boots> <seed> <n> <m> <k> <steps> fz=… …
     -> s0:<pred|corrected|normpred>:<calls> s1:…
-/
namespace BFL.DriverFault
open BFL BFL.Proto BFL.Fault

abbrev P := BFL.Proto.R
abbrev FR := BFL.Fault.R

def parseBits (pre : String) (t : String) : Option (List Bool) :=
  if t.startsWith (pre ++ "=") then
    let b := (t.drop (pre.length + 1)).toString
    if b == "-" then some []
    else if b.toList.all (fun c => c == '0' || c == '1') then some (b.toList.map (· == '1'))
    else none
  else none

def readScript : P Script := do
  let rd (pre : String) : P (List Bool) := do
    let t ← tok
    match parseBits pre t with
    | some l => pure l
    | none => failure
  let fz ← rd "fz"; let me ← rd "me"; let pr ← rd "pr"; let inn ← rd "in"; let no ← rd "no"; let li ← rd "li"
  pure { freeze := fz, measure := me, predicted := pr, innovation := inn, noise := no, lik := li }

def methodStr : Method → String
  | .freeze => "fz" | .measure => "me" | .predictedMeasure => "pr"
  | .innovation => "in" | .noiseCov => "no" | .likelihood => "li"

def logStr (l : List Entry) : String :=
  if l.isEmpty then "-" else ",".intercalate (l.map fun e => methodStr e.method ++ (if e.valid then "1" else "0"))

def symLabel : Sym → String
  | .pred => "pred"
  | .full .pred .poison => "full"
  | .full .pred .pred => "full"
  | .weighed .pred (.sampled (.full .pred .pred)) => "full"
  | .updated .pred => "full"
  | .weighed .pred (.sampled (.full .pred .poison)) => "full"
  | .weighed .pred (.sampled .pred) => "partial"
  | .normalised (.updated .pred) => "corrected"
  | .normalised .pred => "normpred"
  | _ => "other"

/-- the wrapped / stand-alone Gaussian corrections; `noiseCount` = k · (m / sub) for the serial one -/
def gaussOf (cls : String) (m k sub : Nat) : Option (Script → Sym → Sym → FR Sym) :=
  match cls with
  | "kf" => some (kfCorrect Sym.full)
  | "ukfa" => some (ukfCorrect .additive Sym.full)
  | "ukfg" => some (ukfCorrect .generic Sym.full)
  | "ukfgo" => some (ukfCorrect .genericOnline Sym.full)
  | "sukf" => some (sukfCorrect (m % sub == 0) (k * (m / sub)) Sym.full)
  | _ => none

def likOf (c : String) (site : Site) : Option (Script → FR (Option Unit)) :=
  match c with
  | "g" => some (gaussLik ())
  | "s" => some (scriptedLik () site)
  | _ => none

/-- the SIS loop (`sisRun`): each step's predicted set is the reference `Sym.pred` of that step's label -/
def sisSteps (lik : Script → FR (Option Unit)) (n i : Nat) (s : Script) : List String :=
  let run := sisRun (fun _ => Sym.pred)
    (correctEntry false (fun s p _ => bootCorrect lik (fun p _ => Sym.updated p) s p)) Sym.normalised id n true s Sym.pred
  run.zipIdx.map fun (st, j) => "s" ++ toString (i + j) ++ ":" ++ symLabel st.res.val ++ ":" ++ logStr st.res.log

/-- `reps` successive calls on the same object, the script being consumed across the calls -/
def repeatCalls (f : Script → String × String × Script) : Nat → Nat → Script → List String
  | 0, _, _ => []
  | fuel + 1, i, s =>
    let (lab, log, s') := f s
    ("r" ++ toString i ++ ":" ++ lab ++ ":" ++ log) :: repeatCalls f fuel (i + 1) s'

/-- An epoch `e` (`-` or a concatenation of method codes) as a script: the named methods answer
    "unavailable" at every call of that epoch (64 scripted answers; no class asks that often). -/
def epochScript (e : String) : Option Script :=
  let codes : List String := if e == "-" then [] else
    (List.range (e.length / 2)).map fun i => ((e.drop (2 * i)).take 2).toString
  if e != "-" && (e.length % 2 != 0 || e.length == 0) then none
  else if codes.all (fun c => ["fz", "me", "pr", "in", "no", "li"].contains c) then
    let un (c : String) : List Bool := if codes.contains c then List.replicate 64 false else []
    some { freeze := un "fz", measure := un "me", predicted := un "pr", innovation := un "in", noise := un "no", lik := un "li" }
  else none

def parseEpochs (t : String) : Option (List Script) :=
  ((t.drop 3).toString.splitOn "/").mapM epochScript

def epochCalls (f : Script → String × String × Script) : Nat → List Script → List String
  | _, [] => []
  | i, s :: ss =>
    let (lab, log, _) := f s
    ("r" ++ toString i ++ ":" ++ lab ++ ":" ++ log) :: epochCalls f (i + 1) ss

def faultLine : P String := do
  let cls ← tok
  let _ ← nat; let _ ← nat; let m ← nat; let k ← nat; let sub ← nat
  let s ← readScript
  let rest ← get
  let alias := rest.contains "alias=1"
  -- deco=1: models behind a forwarding decorator (`decorate_transparent`: same answers);
  -- move=1 / massign=1: the correction is handed over first (`PFCorrObj.moveConstruct` / `moveAssign`)
  let handed := rest.contains "move=1" || rest.contains "massign=1"
  -- pre=<mode>: the output container holds a partial copy of the predicted belief (the theorems hold for every `cin`)
  let rest := rest.filter (fun t => !["alias=1", "alias=0", "deco=1", "move=1", "massign=1", "degen=1"].contains t && !t.startsWith "pre=")
  let hand (lk : Script → FR (Option Unit)) (g : Script → Sym → Sym → FR Sym) : PFCorrObj Sym Unit :=
    let src : PFCorrObj Sym Unit := { lik := lk, gauss := g, models := s, validLikelihood := false, skip := false }
    let tgt : PFCorrObj Sym Unit := { lik := fun s => ⟨some (), s, []⟩, gauss := fun s p _ => ⟨p, s, []⟩, models := {}, validLikelihood := true, skip := true }
    if handed then PFCorrObj.moveAssign tgt (PFCorrObj.moveConstruct src) else src
  let (reps, epochs) ← match rest with
    | [] => pure (1, ([] : List Script))
    | [t] => (if t.startsWith "reps=" then
                match (t.drop 5).toString.toNat? with
                | some r => pure (r, [])
                | none => failure
              else if t.startsWith "ep=" then
                match parseEpochs t with
                | some es => pure (es.length, es)
                | none => failure
              else failure)
    | _ => failure
  -- in place: the output object is the predicted belief itself
  let cin : Sym := if alias then Sym.pred else Sym.poison
  set ([] : List String)
  if sub == 0 then failure
  let sym (f : Script → FR Sym) : Script → String × String × Script :=
    fun s => let r := f s; (symLabel r.val, logStr r.log, r.script)
  let go (f : Script → String × String × Script) : P String :=
    pure (join (if epochs.isEmpty then repeatCalls f reps 0 s else epochCalls f 0 epochs))
  match cls.splitOn "-" with
  | ["glik"] =>
    go (fun s => let r := gaussLik () s; ((if r.val.isSome then "some" else "none"), logStr r.log, r.script))
  | ["bootg"] =>
    let o := hand (gaussLik ()) (fun s p _ => ⟨p, s, []⟩)
    go (sym (fun s => ({ o with models := s }).bootCorrect (fun p _ => Sym.updated p) Sym.pred))
  | ["boots"] =>
    let o := hand (scriptedLik () .boot) (fun s p _ => ⟨p, s, []⟩)
    go (sym (fun s => ({ o with models := s }).bootCorrect (fun p _ => Sym.updated p) Sym.pred))
  | ["gpf", w, l] =>
    match gaussOf w m k sub, likOf l .gpf with
    | some g, some lk =>
      -- the wrapped correction is reached through its public `correct` (`gpfCorrectW false`)
      let o := hand lk (correctEntry false g)
      if alias then go (sym (fun s => gpfCorrectInPlace o.gauss Sym.sampled o.lik (fun p c _ => Sym.weighed p c) s Sym.pred))
      else go (sym (fun s => ({ o with models := s }).gpfCorrect Sym.sampled (fun p c _ => Sym.weighed p c) Sym.pred Sym.poison))
    | _, _ => failure
  | ["sis", b] =>
    match (if b == "bootg" then likOf "g" .boot else if b == "boots" then likOf "s" .boot else none) with
    | some lk =>
      if epochs.isEmpty then pure (join (sisSteps lk sub 0 s))
      else pure (join ((epochs.zipIdx).flatMap fun (es, i) => sisSteps lk 1 i es))
    | none => failure
  | [c] =>
    match gaussOf c m k sub with
    | some g =>
      -- through the public entry point `GaussianCorrection::correct` (not skipped)
      let g := correctEntry false g
      go (sym (fun s => if alias then gaussInPlace g s Sym.pred else g s Sym.pred cin))
    | none => failure
  | _ => failure

def handle (op : String) (args : List String) : Option String :=
  match op with
  | "fault" => some ((BFL.Proto.run faultLine args).getD "bad-args")
  | _ => none

end BFL.DriverFault
