import BFL.Model.Bounds
/-
C14 — helper lemmas for the shape-algebra theorems: the (nonlinear) block arithmetic that `omega`
cannot see, facts about `Layout`, and invariants of the small state machines.
-/
namespace BFL.Bounds
open W

/-- split a goal made of `∧`, `→`, `∀` down to linear-arithmetic leaves and close them with `omega` -/
macro "bounds_arith" : tactic => `(tactic| ((repeat' (first | intro _ | apply And.intro)) <;> omega))

/-- block `i` of `K` consecutive blocks of width `b` lies inside `b * K` columns -/
theorem mul_block_le (b i K : Nat) (h : i < K) : b * i + b ≤ b * K := by
  have := Nat.mul_le_mul_left b (Nat.succ_le_of_lt h)
  rw [Nat.mul_succ] at this
  exact this

theorem mul_block_le' (b i K : Nat) (h : i < K) : i * b + b ≤ b * K := by
  rw [Nat.mul_comm i b]; exact mul_block_le b i K h

/-- sub-vector `j` of `m / s` sub-vectors of size `s` lies inside `m` rows -/
theorem div_block_le (s j m : Nat) (h : j < m / s) : s * j + s ≤ m := by
  have hs : 0 < s := by
    rcases Nat.eq_zero_or_pos s with h0 | h0
    · subst h0; simp at h
    · exact h0
  have h1 : (j + 1) * s ≤ m := (Nat.le_div_iff_mul_le hs).mp h
  rw [Nat.add_mul, Nat.one_mul, Nat.mul_comm] at h1
  exact h1

theorem div_block_le' (s j m : Nat) (h : j < m / s) : j * s + s ≤ m := by
  rw [Nat.mul_comm j s]; exact div_block_le s j m h

/-- grid cell `(i, j)` of an `nx × ny` grid is one of the `nx * ny` columns -/
theorem grid_index_lt (nx ny i j : Nat) (hi : i < nx) (hj : j < ny) : i * ny + j < nx * ny := by
  have h1 : i * ny + ny ≤ nx * ny := by
    have := Nat.mul_le_mul_right ny (Nat.succ_le_of_lt hi)
    rw [Nat.succ_mul] at this
    exact this
  omega

/-! ### Layout facts (kept as atoms `L.dim`, `L.dcov` in the arithmetic) -/

theorem Layout.euler (L : Layout) (h : L.quat = false) :
    L.dim = L.dl + L.dc + L.dn ∧ L.dcov = L.dl + L.dc + L.dn := by
  simp [Layout.dim, Layout.dcov, Layout.cc, Layout.tc, h]

theorem Layout.quaternion (L : Layout) (h : L.quat = true) :
    L.dim = L.dl + L.dc * 4 + L.dn ∧ L.dcov = L.dl + L.dc * 3 + L.dn := by
  simp [Layout.dim, Layout.dcov, Layout.cc, Layout.tc, h]

theorem Layout.noiseless_dcov (L : Layout) : L.noiseless.dcov + L.dn = L.dcov := by
  cases L with
  | mk dl dc q dn => cases q <;> simp [Layout.noiseless, Layout.dcov, Layout.tc]

/-! ### SimulatedStateModel -/

theorem ssmBuffer_safe (s : SSM) (hT : s.target.c = s.T) : (ssmBuffer s).Safe := by
  unfold ssmBuffer ssmLog
  split
  · simp
  · simp; omega

theorem ssmBuffer_state (s : SSM) :
    (ssmBuffer s).val.1.target = s.target ∧ (ssmBuffer s).val.1.T = s.T ∧
    (ssmBuffer s).val.1.cur = (if s.cur < s.T then s.cur + 1 else s.cur) ∧
    (ssmBuffer s).val.2 = (if s.cur < s.T then some ⟨s.target.r, 1⟩ else none) := by
  unfold ssmBuffer ssmLog
  split
  · rename_i h; simp; omega
  · rename_i h; simp; omega

theorem ssmCalls_safe (n : Nat) : ∀ s : SSM, s.target.c = s.T → (ssmCalls s n).Safe := by
  induction n with
  | zero => intro s _; simp [ssmCalls]
  | succ n ih =>
    intro s hT
    have hb := ssmBuffer_state s
    simp only [ssmCalls, safe_bind, safe_pure, and_true]
    refine ⟨ssmBuffer_safe s hT, ?_⟩
    apply ih
    rw [hb.1, hb.2.1]; exact hT

/-- the `i`-th of `n` successive `bufferData()` calls succeeds exactly while the trajectory lasts -/
theorem ssmCalls_tokens (n : Nat) : ∀ s : SSM,
    (ssmCalls s n).val = (List.range n).map (fun i => if s.cur + i < s.T then "1:" ++ (Shape.mk s.target.r 1).str else "0") := by
  induction n with
  | zero => intro s; simp [ssmCalls]
  | succ n ih =>
    intro s
    have hb := ssmBuffer_state s
    simp only [ssmCalls, val_bind, val_pure]
    rw [ih, List.range_succ_eq_map, List.map_cons, List.map_map]
    rw [hb.1, hb.2.1, hb.2.2.1, hb.2.2.2]
    congr 1
    · by_cases h : s.cur < s.T <;> simp [h]
    · apply List.map_congr_left
      intro i _
      by_cases h : s.cur < s.T
      · simp only [h, if_true, Function.comp]
        have : s.cur + 1 + i = s.cur + (i + 1) := by omega
        rw [this]
      · simp only [h, if_false, Function.comp]
        have h1 : ¬ (s.cur + i < s.T) := by omega
        have h2 : ¬ (s.cur + (i + 1) < s.T) := by omega
        simp [h1, h2]

theorem ssmLogGo (n : Nat) : ∀ s : SSM, s.target.c = s.T → s.cur ≤ s.T →
    (ssmLogTokens.go s n).Safe ∧ (ssmLogTokens.go s n).val.target = s.target ∧ (ssmLogTokens.go s n).val.T = s.T ∧
    (ssmLogTokens.go s n).val.cur = min (s.cur + n) s.T := by
  induction n with
  | zero => intro s _ h; simp [ssmLogTokens.go]; omega
  | succ n ih =>
    intro s hT hc
    have hb := ssmBuffer_state s
    have hs := ssmBuffer_safe s hT
    have h' := ih (ssmBuffer s).val.1 (by rw [hb.1, hb.2.1]; exact hT) (by rw [hb.2.1, hb.2.2.1]; split <;> omega)
    simp only [ssmLogTokens.go, safe_bind, val_bind]
    refine ⟨⟨hs, h'.1⟩, ?_, ?_, ?_⟩
    · rw [h'.2.1, hb.1]
    · rw [h'.2.2.1, hb.2.1]
    · rw [h'.2.2.2, hb.2.1, hb.2.2.1]; split <;> omega

/-! ### LinearModel -/

theorem lmCtor_safe (n : Nat) (comps : List Nat) (R : Shape) : (lmCtor n comps R).Safe := by
  unfold lmCtor
  simp only [ldltSqrt]
  split
  · simp
  · split
    · rename_i h1 h2
      simp only [List.all_eq_true, decide_eq_true_eq] at h2
      simp
      refine ⟨?_, by omega⟩
      intro i hi
      refine ⟨hi, ?_⟩
      rw [List.getElem?_eq_getElem hi]
      exact h2 _ (List.getElem_mem hi)
    · simp

theorem lmCtor_some (n : Nat) (comps : List Nat) (R : Shape) (m : LM) (h : (lmCtor n comps R).val = some m) :
    m.H = ⟨comps.length, n⟩ ∧ m.R = R ∧ m.sqrtR = ⟨R.r, R.r⟩ ∧ R.r = R.c ∧ comps.length = R.r ∧ 0 < n ∧ 0 < comps.length := by
  unfold lmCtor at h
  simp only [ldltSqrt] at h
  split at h
  · simp at h
  · split at h
    · rename_i h1 h2
      simp at h
      subst h
      simp
      omega
    · simp at h

/-! ### SimulatedLinearSensor -/

/-- what the constructor establishes: trajectory bookkeeping, `H` has one column per state row, `sqrt_R_` is
    `measured × measured` with `R_` of the same size -/
def SLS.ok (x : SLS) : Prop :=
  x.ssm.target.c = x.ssm.T ∧ x.lm.H.c = x.ssm.target.r ∧ x.lm.sqrtR.c = x.lm.R.r ∧ x.lm.H.r = x.lm.sqrtR.r

theorem slsFreeze_safe (x : SLS) (h : x.ok) : (slsFreeze x).Safe ∧ (slsFreeze x).val.1.ok := by
  obtain ⟨h1, h2, h3, h4⟩ := h
  have hb := ssmBuffer_state x.ssm
  have hs := ssmBuffer_safe x.ssm h1
  unfold slsFreeze
  simp only [safe_bind, val_bind]
  generalize hbv : (ssmBuffer x.ssm) = b at hb hs
  obtain ⟨bo, ⟨s', r⟩⟩ := b
  simp only at hb
  cases r with
  | none =>
    simp [SLS.ok, hs, hb.1, hb.2.1, h1, h2, h3, h4]
  | some data =>
    have hd : data = ⟨x.ssm.target.r, 1⟩ := by
      have := hb.2.2.2
      split at this <;> simp_all
    subst hd
    simp [SLS.ok, hs, lmNoise, hb.1, hb.2.1, h1, h2, h3, h4]

theorem slsCalls_safe (n : Nat) : ∀ x : SLS, x.ok → (slsCalls x n).Safe := by
  induction n with
  | zero => intro x _; simp [slsCalls]
  | succ n ih =>
    intro x hx
    have := slsFreeze_safe x hx
    simp only [slsCalls, safe_bind, safe_pure, and_true]
    exact ⟨this.1, ih _ this.2⟩

/-! ### HistoryBuffer -/

/-- every stored vector has `state_size_` entries -/
def Hist.uniform (h : Hist) : Prop := ∀ k ∈ h.buf, k = h.stateSize
/-- the window is within its limits and never exceeded by the content -/
def Hist.bounded (h : Hist) : Prop := h.buf.length ≤ h.window ∧ 2 ≤ h.window ∧ h.window ≤ 30

theorem clampWindow_bounds (w : Nat) : 2 ≤ clampWindow w ∧ clampWindow w ≤ 30 := by
  unfold clampWindow; split <;> (try split) <;> omega

theorem histAdd_ok (h : Hist) (k : Nat) (hu : h.uniform) (hk : k = h.stateSize) :
    (histAdd h k).Safe ∧ (histAdd h k).val.uniform ∧ (histAdd h k).val.stateSize = h.stateSize ∧ (histAdd h k).val.window = h.window := by
  unfold histAdd
  split
  · simp [Hist.uniform]
    intro x hx
    rw [List.dropLast_eq_take] at hx
    have := List.mem_of_mem_take hx
    simp at this
    rcases this with rfl | h1
    · exact hk
    · exact hu x h1
  · simp [Hist.uniform]
    exact ⟨hk, hu⟩

theorem histAdd_len (h : Hist) (k : Nat) :
    (histAdd h k).val.buf.length = (if h.buf.length + 1 > h.window then h.buf.length else h.buf.length + 1) := by
  unfold histAdd
  split <;> rename_i hc <;> simp at hc ⊢ <;> omega

theorem histSetSize_ok (h : Hist) (w : Nat) (hu : h.uniform) :
    (histSetSize h w).Safe ∧ (histSetSize h w).val.uniform ∧ (histSetSize h w).val.stateSize = h.stateSize := by
  unfold histSetSize
  split
  · simp [hu]
  · split
    · simp [Hist.uniform]
      refine ⟨by intro i hi; omega, ?_⟩
      intro x hx
      exact hu x (List.mem_of_mem_take hx)
    · simp [Hist.uniform]; exact hu

theorem histSetSize_bounded (h : Hist) (w : Nat) (hb : h.bounded) : (histSetSize h w).val.bounded := by
  unfold histSetSize
  obtain ⟨h1, h2, h3⟩ := hb
  have hc := clampWindow_bounds w
  split
  · simp [Hist.bounded]; omega
  · split
    · rename_i hc
      simp [Hist.bounded, List.length_take]
      omega
    · rename_i hc
      simp [Hist.bounded]
      omega

theorem histGet_ok (h : Hist) (hu : h.uniform) : (histGet h).Safe := by
  unfold histGet
  simp
  intro i hi
  refine ⟨hi, ?_⟩
  rw [List.getElem?_eq_getElem hi]
  simp
  exact (hu _ (List.getElem_mem hi)).symm

theorem histAdd_bounded' (h : Hist) (k : Nat) (hb : h.bounded) : (histAdd h k).val.bounded := by
  have hl := histAdd_len h k
  have hw : (histAdd h k).val.window = h.window := by unfold histAdd; split <;> simp
  obtain ⟨h1, h2, h3⟩ := hb
  simp only [Hist.bounded]
  rw [hl, hw]
  split <;> omega

theorem histAddMany_ok (S : Nat) (k : Nat) : ∀ h : Hist, h.uniform → h.stateSize = S → h.bounded →
    (histAddMany S k h).Safe ∧ (histAddMany S k h).val.uniform ∧ (histAddMany S k h).val.stateSize = S ∧ (histAddMany S k h).val.bounded := by
  induction k with
  | zero => intro h hu hs hb; simp [histAddMany, hu, hs, hb]
  | succ k ih =>
    intro h hu hs hb
    have ha := histAdd_ok h S hu hs.symm
    have hb' := histAdd_bounded' h S hb
    have := ih (histAdd h S).val ha.2.1 (by rw [ha.2.2.1, hs]) hb'
    simp only [histAddMany, safe_bind, val_bind, ha.1, true_and]
    exact this

/-- the other buffer of a move assignment is itself a well-formed buffer of its own state size -/
theorem otherHist_ok (S2 k w : Nat) :
    (otherHist S2 k w).Safe ∧ (otherHist S2 k w).val.uniform ∧ (otherHist S2 k w).val.stateSize = S2 ∧ (otherHist S2 k w).val.bounded := by
  have hu0 : (Hist.new S2).uniform := by simp [Hist.uniform, Hist.new]
  have hb0 : (Hist.new S2).bounded := by simp [Hist.bounded, Hist.new]
  unfold otherHist
  simp only [safe_bind, val_bind]
  split
  · have hs := histSetSize_ok (Hist.new S2) w hu0
    have hb := histSetSize_bounded (Hist.new S2) w hb0
    have := histAddMany_ok S2 k _ hs.2.1 (by rw [hs.2.2]; rfl) hb
    exact ⟨⟨hs.1, this.1⟩, this.2⟩
  · have := histAddMany_ok S2 k (Hist.new S2) hu0 rfl hb0
    exact ⟨⟨by simp, this.1⟩, this.2⟩

theorem histStep_ok (h : Hist) (op : HOp) (hu : h.uniform) (hop : op.ok h.stateSize) :
    (histStep h op).Safe ∧ (histStep h op).val.1.uniform ∧ (histStep h op).val.1.stateSize = op.nextSize h.stateSize := by
  cases op with
  | add k =>
    have := histAdd_ok h k hu hop
    simp [histStep, this, HOp.nextSize]
  | setSize w =>
    have := histSetSize_ok h w hu
    simp [histStep, this, HOp.nextSize]
  | dec =>
    have := histSetSize_ok h (if h.window = 0 then 4294967295 else h.window - 1) hu
    simp [histStep, this, HOp.nextSize]
  | inc =>
    have := histSetSize_ok h (h.window + 1) hu
    simp [histStep, this, HOp.nextSize]
  | clear => simp [histStep, Hist.uniform, HOp.nextSize]
  | get => simp [histStep, histGet_ok h hu, hu, HOp.nextSize]
  | moveKeepNew => simp [histStep, hu, HOp.nextSize]
  | moveSelf => simp [histStep, hu, HOp.nextSize]
  | moveKeepOld => simp [HOp.ok] at hop
  | moveAssignFrom S2 k w =>
    have := otherHist_ok S2 k w
    simp [histStep, this.1, this.2.1, this.2.2.1, HOp.nextSize]
  | moveAssignInto S2 k w =>
    have := otherHist_ok S2 k w
    simp [histStep, this.1, hu, HOp.nextSize]

theorem histRun_safe (ops : List HOp) : ∀ h : Hist, h.uniform → histValid h.stateSize ops → (histRun h ops).Safe := by
  induction ops with
  | nil => intro h _ _; simp [histRun]
  | cons op ops ih =>
    intro h hu hv
    obtain ⟨hv1, hv2⟩ := hv
    have hs := histStep_ok h op hu hv1
    simp only [histRun, safe_bind, safe_pure, and_true]
    refine ⟨hs.1, ih _ hs.2.1 ?_⟩
    rw [hs.2.2]
    exact hv2

theorem histStep_bounded (h : Hist) (op : HOp) (hb : h.bounded) (hop : op ≠ .moveKeepOld) : (histStep h op).val.1.bounded := by
  cases op with
  | add k =>
    have hl := histAdd_len h k
    have hw : (histAdd h k).val.window = h.window := by unfold histAdd; split <;> simp
    obtain ⟨h1, h2, h3⟩ := hb
    simp only [histStep, val_bind, val_pure, Hist.bounded]
    rw [hl, hw]
    split <;> omega
  | setSize w => simp [histStep, histSetSize_bounded h w hb]
  | dec => simp [histStep, histSetSize_bounded h _ hb]
  | inc => simp [histStep, histSetSize_bounded h _ hb]
  | clear => obtain ⟨h1, h2, h3⟩ := hb; simp [histStep, Hist.bounded]; omega
  | get => simp [histStep, hb]
  | moveKeepNew => simp [histStep, hb]
  | moveSelf => simp [histStep, hb]
  | moveKeepOld => exact absurd rfl hop
  | moveAssignFrom S2 k w => simp [histStep, (otherHist_ok S2 k w).2.2.2]
  | moveAssignInto S2 k w => simp [histStep, hb]

theorem histFinal_bounded (ops : List HOp) : ∀ h : Hist, h.bounded → (∀ op ∈ ops, op ≠ .moveKeepOld) → (histFinal h ops).bounded := by
  induction ops with
  | nil => intro h hb _; exact hb
  | cons op ops ih =>
    intro h hb hv
    simp only [histFinal]
    exact ih _ (histStep_bounded h op hb (hv op List.mem_cons_self)) (fun o ho => hv o (List.mem_cons_of_mem _ ho))

end BFL.Bounds
