import BFL.Proofs.ExtractMachine
/-
The history of the extraction object is always the most recent part of the log of base estimates
pushed since the last `clear`; what a windowed `extract` returns is `mean(history, fresh weights)`.
-/
namespace BFL
namespace Extract

/-- the three ways a two-argument `extract` can go -/
theorem extract2_cases (eps : ℝ) (s : EE ℝ) (a : Args ℝ) :
    (s.method.stat = .map ∧ extract2 eps s a = (s, ⟨false, none⟩) ∧ pushed eps s (.extract2 a) = none) ∨
    (s.method.stat ≠ .map ∧ s.method.fam = none ∧ pushed eps s (.extract2 a) = none ∧
      extract2 eps s a = (s, ⟨true, some (baseEst eps s.lin s.circ s.method.stat a)⟩)) ∨
    (∃ f b, s.method.stat ≠ .map ∧ s.method.fam = some f ∧ pushed eps s (.extract2 a) = some b ∧
      b = baseEst eps s.lin s.circ s.method.stat { ps := a.ps, ws := a.ws } ∧
      extract2 eps s a = ((windowed s f b).1, ⟨true, some (windowed s f b).2⟩)) := by
  unfold extract2 pushed
  cases hm : s.method <;> simp [Method.stat, Method.fam]

/-- the two ways a five-argument `extract` can go -/
theorem extract5_cases (eps : ℝ) (s : EE ℝ) (a : Args ℝ) :
    (s.method.fam = none ∧ pushed eps s (.extract5 a) = none ∧
      extract5 eps s a = (s, ⟨true, some (baseEst eps s.lin s.circ s.method.stat a)⟩)) ∨
    (∃ f b, s.method.fam = some f ∧ pushed eps s (.extract5 a) = some b ∧
      b = baseEst eps s.lin s.circ s.method.stat
            (if s.method.stat = .map then a else { ps := a.ps, ws := a.ws }) ∧
      extract5 eps s a = ((windowed s f b).1, ⟨true, some (windowed s f b).2⟩)) := by
  unfold extract5 extract2 pushed
  cases hm : s.method <;> simp [Method.stat, Method.fam, baseEst]

/-- ghost invariant: the stored history is a prefix of the newest-first log -/
def LogInv (s : EE ℝ) (log : List (List ℝ)) : Prop := s.hist.items <+: log

theorem windowed_items {lin circ : Nat} {s : EE ℝ} (h : EEInv lin circ s) (f : Fam) (b : List ℝ) :
    (windowed s f b).1.hist.items = (b :: s.hist.items).take s.hist.window ∧
    (windowed s f b).1.hist.window = s.hist.window := by
  rw [windowed_eq h.cache]
  simp only [setCached_hist, HistBuf.add_window]
  exact ⟨HistBuf.add_items s.hist b (by have := h.hist.lo; omega) h.hist.len, trivial⟩

theorem take_cons_prefix {β : Type} {l log : List β} (b : β) (n : Nat) (h : l <+: log) :
    (b :: l).take n <+: b :: log :=
  (List.take_prefix n (b :: l)).trans ((List.prefix_cons_inj b).mpr h)

theorem logInv_step {lin circ : Nat} (eps : ℝ) {s : EE ℝ} {log : List (List ℝ)} (h : EEInv lin circ s)
    (hl : LogInv s log) (c : Call ℝ) : LogInv (step eps s c).1 (logStep eps s log c) := by
  unfold LogInv at *
  cases c with
  | setMethod m => exact hl
  | setWindow n =>
    simp only [step, setMobileWindow, logStep, pushed]
    split
    · simp only
      rw [HistBuf.setWindow_items s.hist _ h.hist.len]
      exact (List.take_prefix _ _).trans hl
    · exact hl
  | clear => simp [step, logStep, HistBuf.clear]
  | move => exact hl
  | extract2 a =>
    simp only [step, logStep]
    rcases extract2_cases eps s a with ⟨_, he, hp⟩ | ⟨_, _, hp, he⟩ | ⟨f, b, _, _, hp, _, he⟩
    · rw [he, hp]; exact hl
    · rw [he, hp]; exact hl
    · rw [he, hp]
      simp only
      rw [(windowed_items h f b).1]
      exact take_cons_prefix b _ hl
  | extract5 a =>
    simp only [step, logStep]
    rcases extract5_cases eps s a with ⟨_, hp, he⟩ | ⟨f, b, _, hp, _, he⟩
    · rw [he, hp]; exact hl
    · rw [he, hp]
      simp only
      rw [(windowed_items h f b).1]
      exact take_cons_prefix b _ hl

theorem runLogFrom_fst (eps : ℝ) (s : EE ℝ) (log : List (List ℝ)) (cs : List (Call ℝ)) :
    (runLogFrom eps s log cs).1 = runFrom eps s cs := by
  induction cs generalizing s log with
  | nil => rfl
  | cons c cs ih => simp only [runLogFrom, runFrom, List.foldl_cons]; exact ih _ _

theorem logInv_runLogFrom {lin circ : Nat} (eps : ℝ) {s : EE ℝ} {log : List (List ℝ)} (h : EEInv lin circ s)
    (hl : LogInv s log) (cs : List (Call ℝ)) :
    LogInv (runLogFrom eps s log cs).1 (runLogFrom eps s log cs).2 := by
  induction cs generalizing s log with
  | nil => exact hl
  | cons c cs ih => exact ih (inv_step eps h c) (logInv_step eps h hl c)

/-- number of base estimates pushed along a call sequence -/
noncomputable def pushCount (eps : ℝ) (s : EE ℝ) : List (Call ℝ) → Nat
  | [] => 0
  | c :: cs => (if (pushed eps s c).isSome then 1 else 0) + pushCount eps (step eps s c).1 cs

/-- a call that is neither a window change nor a clear -/
def Call.keepsWindow : Call ℝ → Prop
  | .setWindow _ => False
  | .clear => False
  | _ => True

theorem step_hist_len {lin circ : Nat} (eps : ℝ) {s : EE ℝ} (h : EEInv lin circ s) (c : Call ℝ)
    (hc : Call.keepsWindow c) :
    (step eps s c).1.hist.window = s.hist.window ∧
    (step eps s c).1.hist.items.length
      = min (s.hist.items.length + (if (pushed eps s c).isSome then 1 else 0)) s.hist.window := by
  have hlen := h.hist.len
  cases c with
  | setMethod m => simp [step, pushed]; omega
  | setWindow n => exact absurd hc (by simp [Call.keepsWindow])
  | clear => exact absurd hc (by simp [Call.keepsWindow])
  | move => simp [step, pushed]; omega
  | extract2 a =>
    simp only [step]
    rcases extract2_cases eps s a with ⟨_, he, hp⟩ | ⟨_, _, hp, he⟩ | ⟨f, b, _, _, hp, _, he⟩
    · rw [he, hp]; simp; omega
    · rw [he, hp]; simp; omega
    · rw [he, hp]
      obtain ⟨h1, h2⟩ := windowed_items h f b
      simp only [h1, h2, List.length_take, List.length_cons, Option.isSome_some, if_true, true_and]
      exact Nat.min_comm _ _
  | extract5 a =>
    simp only [step]
    rcases extract5_cases eps s a with ⟨_, hp, he⟩ | ⟨f, b, _, hp, _, he⟩
    · rw [he, hp]; simp; omega
    · rw [he, hp]
      obtain ⟨h1, h2⟩ := windowed_items h f b
      simp only [h1, h2, List.length_take, List.length_cons, Option.isSome_some, if_true, true_and]
      exact Nat.min_comm _ _

/-- With no window change and no clear in between, the history holds
    `min(previous length + pushes, window)` estimates. -/
theorem hist_len_runFrom {lin circ : Nat} (eps : ℝ) {s : EE ℝ} (h : EEInv lin circ s) (cs : List (Call ℝ))
    (hcs : ∀ c ∈ cs, Call.keepsWindow c) :
    (runFrom eps s cs).hist.window = s.hist.window ∧
    (runFrom eps s cs).hist.items.length = min (s.hist.items.length + pushCount eps s cs) s.hist.window := by
  induction cs generalizing s with
  | nil =>
    have := h.hist.len
    simp [runFrom, pushCount]; omega
  | cons c cs ih =>
    obtain ⟨h1, h2⟩ := step_hist_len eps h c (hcs c (by simp))
    obtain ⟨h3, h4⟩ := ih (inv_step eps h c) (fun c' hc' => hcs c' (by simp [hc']))
    simp only [runFrom, List.foldl_cons] at h3 h4 ⊢
    refine ⟨h3.trans h1, ?_⟩
    rw [h4, h1, h2]
    simp only [pushCount]
    omega

/-- a call that pushes `b` is a windowed `extract`: it returns `true` and `mean(history, weights)` -/
theorem step_of_pushed (eps : ℝ) (s : EE ℝ) (c : Call ℝ) (b : List ℝ) (hp : pushed eps s c = some b) :
    ∃ f, s.method.fam = some f ∧
      step eps s c = ((windowed s f b).1, ⟨true, some (windowed s f b).2⟩) := by
  cases c with
  | setMethod m => simp [pushed] at hp
  | setWindow n => simp [pushed] at hp
  | clear => simp [pushed] at hp
  | move => simp [pushed] at hp
  | extract2 a =>
    rcases extract2_cases eps s a with ⟨_, _, hp'⟩ | ⟨_, _, hp', _⟩ | ⟨f, b', _, hf, hp', _, he⟩
    · rw [hp] at hp'; cases hp'
    · rw [hp] at hp'; cases hp'
    · rw [hp] at hp'; cases hp'
      exact ⟨f, hf, he⟩
  | extract5 a =>
    rcases extract5_cases eps s a with ⟨_, hp', _⟩ | ⟨f, b', hf, hp', _, he⟩
    · rw [hp] at hp'; cases hp'
    · rw [hp] at hp'; cases hp'
      exact ⟨f, hf, he⟩

/-- What a windowed `extract` does, in terms of the ghost log: the new history is the `k` most recent
    base estimates, `k = min(stored + 1, window)`, and the result is `mean(history, fresh weights for k)`. -/
theorem windowed_step_spec {lin circ : Nat} (eps : ℝ) {s : EE ℝ} {log : List (List ℝ)}
    (h : EEInv lin circ s) (hl : LogInv s log) (c : Call ℝ) (b : List ℝ) (hp : pushed eps s c = some b) :
    ∃ f, s.method.fam = some f ∧
      let k := min (s.hist.items.length + 1) s.hist.window
      let H := (b :: log).take k
      1 ≤ k ∧ k ≤ 30 ∧ H.length = k ∧
      (step eps s c).1.hist.items = H ∧
      (step eps s c).2 = ⟨true, some (meanEst lin circ H (famWeights f k))⟩ := by
  obtain ⟨f, hf, hstep⟩ := step_of_pushed eps s c b hp
  refine ⟨f, hf, ?_⟩
  intro k H
  have hlo := h.hist.lo
  have hhi := h.hist.hi
  have hlen := h.hist.len
  have hk1 : 1 ≤ k := by simp only [k]; omega
  have hk30 : k ≤ 30 := by simp only [k]; omega
  have hitems : s.hist.items = log.take s.hist.items.length := List.prefix_iff_eq_take.mp hl
  have hloglen : s.hist.items.length ≤ log.length := hl.length_le
  have hH : (b :: s.hist.items).take s.hist.window = H := by
    have h1 : b :: s.hist.items = (b :: log).take (s.hist.items.length + 1) := by
      rw [List.take_succ_cons, ← hitems]
    rw [h1, List.take_take]
    simp only [H, k]
    congr 1
    exact Nat.min_comm _ _
  have hHlen : H.length = k := by
    simp only [H, List.length_take, List.length_cons]
    simp only [k]
    omega
  obtain ⟨hi1, _⟩ := windowed_items h f b
  refine ⟨hk1, hk30, hHlen, ?_, ?_⟩
  · rw [hstep]; simp only; rw [hi1, hH]
  · rw [hstep]
    simp only
    rw [windowed_eq h.cache]
    simp only
    rw [HistBuf.add_items s.hist b (by omega) hlen, hH, hHlen, h.lin_eq, h.circ_eq]

end Extract
end BFL
