import BFL.Core.Det
import BFL.Bridge.Mat
import Mathlib.LinearAlgebra.Matrix.Determinant.Basic
import Mathlib.Data.Matrix.Block
import Mathlib.LinearAlgebra.Matrix.Block
import Mathlib.Logic.Equiv.Fin.Basic
/-
Bridge for `BFL.Mat.det` (Laplace expansion) to `Matrix.det`, and for the block addressing
of `Fin (nb * bs)` to `Matrix.blockDiagonal` reindexed along `finProdFinEquiv`.
-/
namespace BFL
open Matrix

theorem Fin.skip_eq_succAbove {n : Nat} (j : Fin (n + 1)) (b : Fin n) : Fin.skip j b = j.succAbove b := by
  unfold Fin.skip _root_.Fin.succAbove
  simp only [Fin.lt_def, Fin.val_castSucc]

theorem toM_minor0 {α : Type} {n : Nat} (A : Mat α (n + 1) (n + 1)) (j : Fin (n + 1)) :
    toM (Mat.minor0 A j) = (toM A).submatrix _root_.Fin.succ j.succAbove := by
  ext a b
  simp [Mat.minor0, Fin.skip_eq_succAbove]

/-- The executable Laplace determinant is Mathlib's determinant. -/
theorem toM_det {α : Type} [CommRing α] [Inhabited α] : ∀ (n : Nat) (A : Mat α n n), Mat.det n A = (toM A).det
  | 0, A => by simp [Mat.det]
  | n + 1, A => by
    rw [Matrix.det_succ_row_zero, Mat.det, fsum_eq_sum]
    refine Finset.sum_congr rfl (fun j _ => ?_)
    rw [Mat.eval_eq, toM_det n, toM_minor0]
    rcases Nat.even_or_odd j.val with h | h
    · have h2 : j.val % 2 = 0 := Nat.even_iff.mp h
      simp [h2, h.neg_one_pow]
    · have h2 : ¬ (j.val % 2 = 0) := by have := Nat.odd_iff.mp h; omega
      simp [h2, h.neg_one_pow]

theorem foldl_mul_eq_prod {M : Type} [CommMonoid M] : ∀ (n : Nat) (f : Fin n → M),
    Fin.foldl n (fun acc i => acc * f i) 1 = ∏ i, f i
  | 0, f => by simp [Fin.foldl_zero]
  | n + 1, f => by
    have ih := foldl_mul_eq_prod n (fun i => f i.castSucc)
    rw [Fin.foldl_succ_last, Fin.prod_univ_castSucc, ih]

/-- the exact certificate of `detLU` implies the determinant -/
theorem luCert_sound {α : Type} [CommRing α] [Inhabited α] [DecidableEq α] {n : Nat} (A L U : Mat α n n)
    (h : Mat.luCert A L U = true) : (toM A).det = ∏ i, U i i := by
  simp only [Mat.luCert, Bool.and_eq_true, decide_eq_true_eq] at h
  obtain ⟨h1, h2⟩ := h
  have hA : toM A = toM L * toM U := by
    rw [← toM_mul]; ext i j; exact ((h1 i j).2.2).symm
  have hL : (toM L).IsLowerTriangular := by
    intro i j hij
    exact (h1 i j).1 (by simpa using hij)
  have hU : (toM U).IsUpperTriangular := fun i j hij => (h1 i j).2.1 (by simpa using hij)
  rw [hA, Matrix.det_mul, Matrix.det_of_isLowerTriangular _ hL, Matrix.det_of_isUpperTriangular hU]
  simp [h2]

/-- `detLU` (certified elimination with Laplace fall-back) is Mathlib's determinant, whatever the
    elimination code does. -/
theorem toM_detLU {α : Type} [Field α] [Inhabited α] [DecidableEq α] (n : Nat) (A : Mat α n n) :
    Mat.detLU n A = (toM A).det := by
  unfold Mat.detLU
  split
  · rename_i L U _
    simp only [Mat.eval_eq]
    split
    · rename_i hc
      rw [foldl_mul_eq_prod, luCert_sound A L U hc]
    · exact toM_det n A
  · exact toM_det n A

theorem natPow_eq {α : Type} [Monoid α] (x : α) : ∀ n, natPow x n = x ^ n
  | 0 => by simp [natPow]
  | n + 1 => by rw [natPow, natPow_eq x n, pow_succ]

theorem natTo_eq {α : Type} [AddMonoidWithOne α] : ∀ n : Nat, (natTo n : α) = (n : α)
  | 0 => by simp [natTo]
  | n + 1 => by rw [natTo, natTo_eq n, Nat.cast_succ]

/-! ### Block addressing -/

variable {nb bs : Nat}

/-- `(i, c) ↦ bs * i + c` as an equivalence `Fin bs × Fin nb ≃ Fin (nb * bs)` in the index order
    of `Matrix.blockDiagonal` (offset first, block second). -/
def blkEquiv (nb bs : Nat) : Fin bs × Fin nb ≃ Fin (nb * bs) :=
  (Equiv.prodComm (Fin bs) (Fin nb)).trans finProdFinEquiv

theorem blkEquiv_apply (c : Fin bs) (i : Fin nb) : blkEquiv nb bs (c, i) = bidx i c := by
  ext
  simp [blkEquiv, bidx, finProdFinEquiv, Nat.add_comm]

theorem bdiv_eq (p : Fin (nb * bs)) : bdiv p = p.divNat := rfl
theorem bmod_eq (p : Fin (nb * bs)) : bmod p = p.modNat := rfl

theorem blkEquiv_symm_apply (p : Fin (nb * bs)) : (blkEquiv nb bs).symm p = (p.modNat, p.divNat) := by
  simp [blkEquiv, finProdFinEquiv, Equiv.prodComm]

theorem bidx_divNat (i : Fin nb) (c : Fin bs) : (bidx i c).divNat = i := by
  have := congrArg Prod.snd ((blkEquiv_symm_apply (bidx i c)).symm.trans (by rw [← blkEquiv_apply, Equiv.symm_apply_apply]))
  simpa using this

theorem bidx_modNat (i : Fin nb) (c : Fin bs) : (bidx i c).modNat = c := by
  have := congrArg Prod.fst ((blkEquiv_symm_apply (bidx i c)).symm.trans (by rw [← blkEquiv_apply, Equiv.symm_apply_apply]))
  simpa using this

theorem bidx_div_mod (p : Fin (nb * bs)) : bidx p.divNat p.modNat = p := by
  rw [← blkEquiv_apply, ← blkEquiv_symm_apply, Equiv.apply_symm_apply]

/-- sum over `Fin (nb * bs)` = sum over blocks of sums over offsets -/
theorem sum_blocks {β : Type} [AddCommMonoid β] (f : Fin (nb * bs) → β) :
    ∑ p, f p = ∑ i : Fin nb, ∑ c : Fin bs, f (bidx i c) := by
  rw [← (blkEquiv nb bs).sum_comp, Fintype.sum_prod_type_right]
  simp only [blkEquiv_apply]

/-- The block-diagonal matrix with diagonal blocks `D i`, over the flat index `Fin (nb * bs)`. -/
def bdiag {α : Type} [Zero α] (D : Fin nb → Matrix (Fin bs) (Fin bs) α) : Matrix (Fin (nb * bs)) (Fin (nb * bs)) α :=
  Matrix.of (fun p q => if p.divNat = q.divNat then D p.divNat p.modNat q.modNat else 0)

theorem bdiag_eq_reindex {α : Type} [Zero α] (D : Fin nb → Matrix (Fin bs) (Fin bs) α) :
    bdiag D = Matrix.reindex (blkEquiv nb bs) (blkEquiv nb bs) (Matrix.blockDiagonal D) := by
  ext p q
  simp [bdiag, Matrix.blockDiagonal_apply, blkEquiv_symm_apply]

@[simp] theorem bdiag_apply_bidx {α : Type} [Zero α] (D : Fin nb → Matrix (Fin bs) (Fin bs) α)
    (i j : Fin nb) (a c : Fin bs) : bdiag D (bidx i a) (bidx j c) = if i = j then D i a c else 0 := by
  simp [bdiag, bidx_divNat, bidx_modNat]

theorem bdiag_mul {α : Type} [NonUnitalNonAssocSemiring α] (D E : Fin nb → Matrix (Fin bs) (Fin bs) α) :
    bdiag D * bdiag E = bdiag (fun i => D i * E i) := by
  rw [bdiag_eq_reindex, bdiag_eq_reindex, bdiag_eq_reindex, Matrix.blockDiagonal_mul]
  simp [Matrix.reindex_apply, Matrix.submatrix_mul_equiv]

theorem bdiag_one {α : Type} [Zero α] [One α] : bdiag (fun _ : Fin nb => (1 : Matrix (Fin bs) (Fin bs) α)) = 1 := by
  rw [bdiag_eq_reindex]
  have : (fun _ : Fin nb => (1 : Matrix (Fin bs) (Fin bs) α)) = 1 := rfl
  rw [this, Matrix.blockDiagonal_one]
  simp [Matrix.reindex_apply]

theorem det_bdiag {α : Type} [CommRing α] (D : Fin nb → Matrix (Fin bs) (Fin bs) α) :
    (bdiag D).det = ∏ i, (D i).det := by
  rw [bdiag_eq_reindex, Matrix.det_reindex_self, Matrix.det_blockDiagonal]

theorem bdiag_transpose {α : Type} [Zero α] (D : Fin nb → Matrix (Fin bs) (Fin bs) α) :
    (bdiag D)ᵀ = bdiag (fun i => (D i)ᵀ) := by
  ext p q
  simp only [bdiag, Matrix.transpose_apply, Matrix.of_apply]
  by_cases h : p.divNat = q.divNat
  · simp [h]
  · simp [h, Ne.symm h]

end BFL
