import BFL.Proofs.Bounds
/-
C14 — safety lemmas for sigma_point(), unscented_transform() and GaussianMixture storage operations.
-/
set_option linter.unusedSimpArgs false
namespace BFL.Bounds
open W

theorem sigmaPoint_val (L : Layout) (K : Nat) : (sigmaPoint L K).val = ⟨L.dim, (L.dcov * 2 + 1) * K⟩ := by
  simp [sigmaPoint]

/-- `sigma_point()` on a well-formed, non-degenerate mixture: all blocks in range, all assignments consistent. -/
theorem sigmaPoint_safe (L : Layout) (K : Nat) (h : 1 ≤ L.dcov) : (sigmaPoint L K).Safe := by
  simp [sigmaPoint, gmCov, gmMean, directionalAdd, Layout.meanS, Layout.covS]
  intro i hi
  have h1 := mul_block_le L.dcov i K hi
  have h2 := mul_block_le (L.dcov * 2 + 1) i K hi
  cases hq : L.quat with
  | false =>
    obtain ⟨e1, e2⟩ := L.euler hq
    simp
    bounds_arith
  | true =>
    obtain ⟨e1, e2⟩ := L.quaternion hq
    simp
    bounds_arith

theorem utGeneric_val (I : Layout) (K ws : Nat) (O : Layout) (prop : Shape) (fv : Bool) :
    (utGeneric I K ws O prop fv).val = if fv then ⟨true, O, K, ⟨I.dcov - I.dn, O.dcov * K⟩⟩ else UTRes.failed := by
  cases fv <;> simp [utGeneric]

/-- The generic unscented transform: weights built for the input's degrees of freedom, the function returns one
    column per sigma point and `total_size()` rows of its output description. -/
theorem utGeneric_safe (I : Layout) (K ws : Nat) (O : Layout) (prop : Shape) (fv : Bool)
    (h1 : 1 ≤ I.dcov) (hw : ws = 2 * I.dcov + 1) (hO : O.dn = 0) (hp : prop = ⟨O.dim, (I.dcov * 2 + 1) * K⟩) :
    (utGeneric I K ws O prop fv).Safe := by
  have hs := sigmaPoint_safe I K h1
  have hv := sigmaPoint_val I K
  subst hp hw
  cases fv with
  | false => simp [utGeneric, hs]
  | true =>
    simp [utGeneric, hs, hv, gmCov, gmMean, directionalAdd, directionalMean, meanQuaternion, Layout.meanS, Layout.covS]
    intro i hi
    have b1 := mul_block_le (I.dcov * 2 + 1) i K hi
    have b2 := mul_block_le O.dcov i K hi
    cases hq : O.quat with
    | false =>
      obtain ⟨o1, o2⟩ := O.euler hq
      cases hqi : I.quat with
      | false =>
        obtain ⟨i1, i2⟩ := I.euler hqi
        simp
        bounds_arith
      | true =>
        obtain ⟨i1, i2⟩ := I.quaternion hqi
        simp
        bounds_arith
    | true =>
      obtain ⟨o1, o2⟩ := O.quaternion hq
      cases hqi : I.quat with
      | false =>
        obtain ⟨i1, i2⟩ := I.euler hqi
        simp
        bounds_arith
      | true =>
        obtain ⟨i1, i2⟩ := I.quaternion hqi
        simp
        bounds_arith

/-! ### GaussianMixture storage -/

theorem gmCtor_wf (K dl dc : Nat) (q : Bool) : (gmCtor K dl dc q).wf := by
  simp [gmCtor, GMStore.wf]

theorem withNoise_dim (L : Layout) (n : Nat) : (L.withNoise n).dim = L.dim + n ∧ (L.withNoise n).dcov = L.dcov + n := by
  cases L with
  | mk dl dc q dn => cases q <;> simp [Layout.withNoise, Layout.dim, Layout.dcov, Layout.cc, Layout.tc] <;> omega

/-- `augmentWithNoise` on a well-formed mixture with at least one component: consistent, and the result is well-formed
    with `dim_noise` grown by the size of the noise covariance (a non-square argument is refused). -/
theorem gmAugment_ok (g : GMStore) (noise : Shape) (hwf : g.wf) (hK : 1 ≤ g.K) :
    (gmAugment g noise).Safe ∧ (gmAugment g noise).val.1.wf ∧ (gmAugment g noise).val.1.K = g.K ∧
    (gmAugment g noise).val.1.L = (if noise.r = noise.c then g.L.withNoise noise.r else g.L) ∧
    (gmAugment g noise).val.2 = decide (noise.r = noise.c) := by
  obtain ⟨w1, w2, w3, w4, w5⟩ := hwf
  obtain ⟨nr, nc⟩ := noise
  unfold gmAugment
  split
  · rename_i hne
    simp only [ne_eq] at hne
    simp [GMStore.wf, w1, w2, w3, w4, w5, hne]
  · rename_i hsq
    simp only [ne_eq, Decidable.not_not] at hsq
    subst hsq
    obtain ⟨d1, d2⟩ := withNoise_dim g.L nr
    simp [GMStore.wf, w1, w2, w3, w5, d1, d2]
    refine ⟨by omega, ?_, ?_⟩
    · intro i hi
      have b1 := mul_block_le' (g.L.dcov + nr) (g.K - 1 - i) g.K (by omega)
      have b2 := mul_block_le' g.L.dcov (g.K - 1 - i) g.K (by omega)
      have b3 : g.L.dcov * g.K ≤ (g.L.dcov + nr) * g.K := Nat.mul_le_mul_right _ (by omega)
      have b4 : (g.L.dcov + nr) * g.K = g.L.dcov * g.K + nr * g.K := Nat.add_mul _ _ _
      refine ⟨by omega, by omega, ?_⟩
      intro j hj; omega
    · intro i hi
      have b1 := mul_block_le' (g.L.dcov + nr) i g.K hi
      omega

theorem mkGM_safe (K : Nat) (L : Layout) (hK : 1 ≤ K ∨ L.dn = 0) : (mkGM K L).Safe := by
  unfold mkGM
  split
  · rename_i h
    have hK' : 1 ≤ K := by omega
    have := gmAugment_ok (gmCtor K L.dl L.dc L.quat) ⟨L.dn, L.dn⟩ (gmCtor_wf _ _ _ _) (by simpa [gmCtor] using hK')
    simp [this.1]
  · simp

/-! ### unscented_transform overloads -/

theorem noiseless_of_dn (L : Layout) (h : L.dn = 0) : L.noiseless = L := by
  cases L; simp_all [Layout.noiseless]

theorem utMeasGeneric_safe (I : Layout) (K ws : Nat) (M : MMod)
    (h1 : 1 ≤ I.dcov) (hw : ws = 2 * I.dcov + 1) (hO : M.O.dn = 0) (hp : M.prows = M.O.dim) (hd : M.dcols = 0) :
    (utMeasGeneric I K ws M).Safe := by
  unfold utMeasGeneric
  exact utGeneric_safe I K ws M.O _ M.pvalid h1 hw hO (by simp [hp, hd])

theorem utMeasGeneric_val (I : Layout) (K ws : Nat) (M : MMod) :
    (utMeasGeneric I K ws M).val = if M.pvalid then ⟨true, M.O, K, ⟨I.dcov - I.dn, M.O.dcov * K⟩⟩ else UTRes.failed := by
  unfold utMeasGeneric; exact utGeneric_val _ _ _ _ _ _

theorem utMeasAdditive_safe (I : Layout) (K ws : Nat) (M : MMod)
    (h1 : 1 ≤ I.dcov) (hw : ws = 2 * I.dcov + 1) (hO : M.O.dn = 0) (hp : M.prows = M.O.dim) (hd : M.dcols = 0)
    (hr : M.rr = M.O.dcov) : (utMeasAdditive I K ws M).Safe := by
  have hs := utMeasGeneric_safe I K ws M h1 hw hO hp hd
  have hv := utMeasGeneric_val I K ws M
  unfold utMeasAdditive
  simp only [safe_bind, hs, true_and, hv]
  cases M.pvalid with
  | false => simp [UTRes.failed]
  | true =>
    simp [gmCov, Layout.covS, hr]
    intro i hi
    exact mul_block_le _ _ _ hi

theorem utMeasAdditive_val (I : Layout) (K ws : Nat) (M : MMod) :
    (utMeasAdditive I K ws M).val = if M.pvalid then ⟨true, M.O, K, ⟨I.dcov - I.dn, M.O.dcov * K⟩⟩ else UTRes.failed := by
  have hv := utMeasGeneric_val I K ws M
  unfold utMeasAdditive
  simp only [val_bind, hv]
  cases M.pvalid <;> simp [UTRes.failed]

theorem utStateAdditive_safe (I : Layout) (K ws : Nat) (M : SMod)
    (h1 : 1 ≤ I.dcov) (hw : ws = 2 * I.dcov + 1) (hD : M.D.dn = 0) (hF : M.F = ⟨I.dim, I.dim⟩) (hdim : M.D.dim = I.dim)
    (hq : M.D.dcov = M.q) : (utStateAdditive I K ws M).Safe := by
  have hs := sigmaPoint_safe I K h1
  have hv := sigmaPoint_val I K
  have hn := noiseless_of_dn M.D hD
  have hu := utGeneric_safe I K ws M.D ⟨I.dim, (I.dcov * 2 + 1) * K⟩ true h1 hw hD (by simp [hdim])
  have huv := utGeneric_val I K ws M.D ⟨I.dim, (I.dcov * 2 + 1) * K⟩ true
  unfold utStateAdditive
  simp only [safe_bind, val_bind, hs, hv, hn, hu, huv, true_and]
  simp [linPropagate, hF, gmCov, Layout.covS, hq]
  intro i hi
  rw [← hq]
  exact mul_block_le _ _ _ hi

theorem utStateGeneric_safe (I : Layout) (K ws : Nat) (M : SMod)
    (h1 : 1 ≤ I.dcov) (hw : ws = 2 * I.dcov + 1) (hD : M.D.dn = 0) (hF : M.F = ⟨I.dim, I.dim⟩) (hdim : M.D.dim = I.dim)
    (hq : M.q = I.dim) : (utStateGeneric I K ws M).Safe := by
  have hs := sigmaPoint_safe I K h1
  have hv := sigmaPoint_val I K
  have hn := noiseless_of_dn M.D hD
  have hu := utGeneric_safe I K ws M.D ⟨M.D.dim, (I.dcov * 2 + 1) * K⟩ true h1 hw hD rfl
  unfold utStateGeneric
  simp only [safe_bind, val_bind, hs, hv, hn, hu, true_and, and_true]
  simp [additiveMotion, linPropagate, hF, hdim, hq]

end BFL.Bounds
