import BFL.Core.Mat
import BFL.Core.Transc
/-
Model of the shipped models and initialisers (property C16), branch by branch as the code is now.

  WhiteNoiseAcceleration.cpp   F, Q per `Dim`, noise samples `sqrt_Q_ * z`, transition density
  AdditiveStateModel.cpp       motion = propagate + noise sample; input description
  LinearStateModel.cpp         propagate (five branches over the two skip flags / exogenous model)
  LTIStateModel.cpp            constructor validation chain
  LTIMeasurementModel.cpp      constructor validation chain (H's column count is not constrained)
  LinearModel.cpp              0/1 measurement matrix from (n, index list); noise samples `sqrt_R_ * z`
  SimulatedStateModel.cpp      trajectory x_{k+1} = motion(x_k), serving cursor, "reset"
  SimulatedLinearSensor.cpp    freeze: H x_k + noise; measure; descriptions
  InitSurveillanceAreaGrid.cpp regular grid, count check, uniform log-weights

External routines are parameters with a contract (DESIGN.md 3.2):
  * the square-root factor `S` of a covariance (Eigen LDLᵀ): any `S` with `S Sᵀ = Q`;
  * the standard normal draws (std::mt19937_64 + std::normal_distribution): a stream `Nat → α`
    read through a cursor (the harness obtains the values with a twin generator);
  * matrix inverse / determinant inside the Gaussian density: parameters `inv`, `det`.
Everything numeric is polymorphic in the scalar (ℚ exact execution, Float where `exp`/`log`
occur, ℝ in the theorems).
-/
namespace BFL.Models

/-! ## White-noise-acceleration model -/

/-- `WhiteNoiseAcceleration::Dim` -/
inductive Dim where
  | oneD | twoD | threeD
  deriving DecidableEq, Repr, Inhabited

/-- number of Cartesian axes -/
def Dim.n : Dim → Nat
  | .oneD => 1
  | .twoD => 2
  | .threeD => 3

/-- the three `state_description_ = VectorDescription(2 | 4 | 6)` assignments of the `switch` -/
def Dim.stateDim : Dim → Nat
  | .oneD => 2
  | .twoD => 4
  | .threeD => 6

/-- block index / index inside the block of a row or column of a matrix made of 2×2 blocks -/
def blkIdx {d : Nat} (i : Fin (d * 2)) : Fin d := ⟨i.val / 2, by have := i.isLt; omega⟩
def subIdx {d : Nat} (i : Fin (d * 2)) : Fin 2 := ⟨i.val % 2, by omega⟩

section wna
variable {α : Type} [Add α] [Sub α] [Mul α] [Div α] [Neg α] [Zero α] [One α] [Inhabited α]

/-- the literals `2.0`, `3.0` -/
def num2 : α := 1 + 1
def num3 : α := 1 + 1 + 1

/-- `F << 1.0, T_, 0.0, 1.0;` -/
def wnaF2 (T : α) : Mat α 2 2 :=
  Mat.of fun i j =>
    if i.val = 0 then (if j.val = 0 then 1 else T)
    else (if j.val = 0 then 0 else 1)

/-- `q11 = 1.0/3.0 * pow(T,3)`, `q2 = 1.0/2.0 * pow(T,2)`, `Q << q11, q2, q2, T_;` -/
def wnaQ2 (T : α) : Mat α 2 2 :=
  let q11 : α := (1 / num3) * (T * T * T)
  let q2 : α := (1 / num2) * (T * T)
  Mat.of fun i j =>
    if i.val = 0 then (if j.val = 0 then q11 else q2)
    else (if j.val = 0 then q2 else T)

/-- Eigen comma initialiser filled with a `d × d` table of 2×2 blocks. -/
def ofBlocks (d : Nat) (tbl : Fin d → Fin d → Mat α 2 2) : Mat α (d * 2) (d * 2) :=
  Mat.of fun i j => tbl (blkIdx i) (blkIdx j) (subIdx i) (subIdx j)

/-- the block-diagonal matrix with `d` copies of `B` (specification side) -/
def blockDiag (d : Nat) (B : Mat α 2 2) : Mat α (d * 2) (d * 2) :=
  ofBlocks d (fun I J => if I = J then B else Mat.zero)

/-- The three tables of the `switch (dim)`:
      OneD   : B
      TwoD   : B, 0,
               0, B
      ThreeD : B, 0, 0,
               0, B, 0,
               0, 0, B      -/
def wnaTable (B : Mat α 2 2) : (dim : Dim) → Mat α (dim.n * 2) (dim.n * 2)
  | .oneD => ofBlocks 1 (fun _ _ => B)
  | .twoD => ofBlocks 2 (fun I J =>
      match I.val, J.val with
      | 0, 0 => B | 0, _ => Mat.zero
      | _, 0 => Mat.zero | _, _ => B)
  | .threeD => ofBlocks 3 (fun I J =>
      match I.val, J.val with
      | 0, 0 => B | 0, 1 => Mat.zero | 0, _ => Mat.zero
      | 1, 0 => Mat.zero | 1, 1 => B | 1, _ => Mat.zero
      | _, 0 => Mat.zero | _, 1 => Mat.zero | _, _ => B)

/-- `getStateTransitionMatrix()` -/
def wnaF (dim : Dim) (T : α) : Mat α (dim.n * 2) (dim.n * 2) := wnaTable (wnaF2 T) dim

/-- `getNoiseCovarianceMatrix()`: the table of `Q` blocks, then `Q_ *= tilde_q_` -/
def wnaQ (dim : Dim) (T q : α) : Mat α (dim.n * 2) (dim.n * 2) :=
  Mat.of fun i j => (wnaTable (wnaQ2 T) dim) i j * q

/-- A stream of standard normal draws read through a cursor
    (`std::mt19937_64 generator_` + `std::normal_distribution<double>(0, 1)`). -/
structure Rng (α : Type) where
  stream : Nat → α
  pos : Nat

/-- `for (i < rand_vectors.size()) *(rand_vectors.data() + i) = gauss_rnd_sample_();`
    — an `n × N` matrix filled in column-major order from position `c` of the stream. -/
def fillCM (n N : Nat) (g : Nat → α) (c : Nat) : Mat α n N :=
  Mat.eval (Mat.of fun i j => g (c + j.val * n + i.val))

def Rng.draw (r : Rng α) (n N : Nat) : Mat α n N × Rng α :=
  (fillCM n N r.stream r.pos, { r with pos := r.pos + n * N })

/-- `sqrt_Q_ * rand_vectors` -/
def wnaSample {n N : Nat} (S : Mat α n n) (z : Mat α n N) : Mat α n N := S.mul z

/-- `getNoiseSample(num)` of `WhiteNoiseAcceleration` and of `LinearModel`: draw, multiply. -/
def noiseSample {n : Nat} (S : Mat α n n) (r : Rng α) (N : Nat) : Mat α n N × Rng α :=
  let (z, r') := r.draw n N
  (wnaSample S z, r')

/-- `sqrt_Q_ = (P * I)ᵀ * L * D.cwiseMax(0.0).cwiseSqrt().asDiagonal()` for the factors `P, L, D` of
    Eigen's `LDLT` (`Q = Pᵀ L D Lᵀ P`); pivots that rounding made negative are clamped at zero before
    the square root.  The same expression gives `sqrt_R_` in `LinearModel`. -/
def ldltSqrt [Transc α] [LT α] [DecidableLT α] {n : Nat} (P L : Mat α n n) (d : Vec α n) : Mat α n n :=
  ((P.mul Mat.one).transpose.mul L).mul
    (Mat.of fun i j => if i = j then Transc.sqrt (if d i < 0 then 0 else d i) else 0)

/-! ### shapes of the sampling code (the dimension bookkeeping that was defective) -/

/-- Shape of an Eigen product: defined iff the inner dimensions agree (assertion otherwise). -/
def mulShape (a b : Nat × Nat) : Option (Nat × Nat) :=
  if a.2 = b.1 then some (a.1, b.2) else none

/-- `MatrixXd rand_vectors(pimpl_->Q_.rows(), num);` -/
def wnaDrawShape (dim : Dim) (num : Nat) : Nat × Nat := (dim.n * 2, num)

/-- shape of `sqrt_Q_ * rand_vectors`, `sqrt_Q_` having the shape of `Q_` -/
def wnaSampleShape (dim : Dim) (num : Nat) : Option (Nat × Nat) :=
  mulShape (dim.n * 2, dim.n * 2) (wnaDrawShape dim num)

/-- number of draws one `getNoiseSample(num)` consumes (`rand_vectors.size()`) -/
def wnaDrawCount (dim : Dim) (num : Nat) : Nat := (wnaDrawShape dim num).1 * (wnaDrawShape dim num).2

/-! ### propagate / motion -/

/-- An exogenous model attached to the state model: its own skip flag and its map. -/
structure Exo (α : Type) (n N : Nat) where
  skipping : Bool
  f : Mat α n N → Mat α n N

/-- `LinearStateModel::propagate(cur, prop)`; `out` is the caller's matrix `prop_states`
    (left as it is when no branch writes it). -/
def linPropagate {n N : Nat} (F : Mat α n n) (skipping : Bool) (exo : Option (Exo α n N))
    (cur out : Mat α n N) : Mat α n N :=
  match skipping, exo with
  | true, some e =>
      if e.skipping then cur            -- both skipped: identity
      else e.f cur                      -- state skipped, exogenous active
  | false, some e =>
      if e.skipping then F.mul cur      -- third branch (`!is_skipping()`)
      else (F.mul cur).add (e.f cur)    -- second branch
  | false, none => F.mul cur            -- third branch
  | true, none => out                   -- no branch taken: `prop_states` not written

/-- `AdditiveStateModel::motion`: `propagate`, then `mot_states += getNoiseSample(cols)`. -/
def addMotion {n N : Nat} (F S : Mat α n n) (skipping : Bool) (exo : Option (Exo α n N))
    (cur out : Mat α n N) (r : Rng α) : Mat α n N × Rng α :=
  let p := linPropagate F skipping exo cur out
  let (w, r') := noiseSample S r N
  (p.add w, r')

/-- The plain case (nothing skipped, no exogenous model): `F x + S z`. -/
def wnaMotion {n N : Nat} (F S : Mat α n n) (x z : Mat α n N) : Mat α n N :=
  (F.mul x).add (wnaSample S z)

/-- The `(k+1)`-th call `motion(target_.col(k), target_.col(k+1))` made by the constructor of
    `SimulatedStateModel` when the state model is an additive linear one: one column, reading the
    draws `k n … k n + n − 1` of the model's generator. -/
def addSimStep {n : Nat} (F S : Mat α n n) (stream : Nat → α) (k : Nat) (x : Vec α n) : Vec α n :=
  let X : Mat α n 1 := Mat.of fun i _ => x i
  let M := (addMotion F S false none X X ⟨stream, k * n⟩).1
  Vec.of fun i => M i ⟨0, Nat.one_pos⟩

/-- `VectorDescription`: linear / circular / noise component counts and the circular type
    (`quat = true` for `CircularType::Quaternion`, `false` for `Euler`, the default). -/
structure Descr where
  lin : Nat
  circ : Nat
  noise : Nat
  quat : Bool := false
  deriving DecidableEq, Repr

def Descr.linearSize (d : Descr) : Nat := d.lin
/-- a quaternion component occupies four entries -/
def Descr.circularSize (d : Descr) : Nat := if d.quat then d.circ * 4 else d.circ
def Descr.noiseSize (d : Descr) : Nat := d.noise
def Descr.totalSize (d : Descr) : Nat := d.linearSize + d.circularSize + d.noiseSize
/-- degrees of freedom: a quaternion has three -/
def Descr.dofSize (d : Descr) : Nat :=
  if d.quat then d.linearSize + d.circ * 3 + d.noiseSize else d.totalSize

/-- `AdditiveStateModel::getInputDescription`: state description plus `Q.rows()` noise components -/
def additiveInputDescr (state : Descr) (qRows : Nat) : Descr :=
  { state with noise := state.noise + qRows }

/-- `WhiteNoiseAcceleration::getStateDescription` -/
def wnaStateDescr (dim : Dim) : Descr := { lin := dim.stateDim, circ := 0, noise := 0 }

/-! ### transition density -/

/-- `dᵀ A d` -/
def quadForm {n : Nat} (A : Mat α n n) (d : Vec α n) : α := Vec.dot d (A.mulVec d)

/-- `utils::multivariate_gaussian_log_density`, one column:
    `-0.5 * (rows * log(2π) + log(det Σ) + (x-μ)ᵀ Σ⁻¹ (x-μ))`. -/
def gaussLogDensity [Transc α] [NatCast α] {n : Nat} (inv : Mat α n n → Mat α n n) (det : Mat α n n → α)
    (x mu : Vec α n) (Sigma : Mat α n n) : α :=
  -((1 / num2) * ((n : α) * Transc.log (num2 * Transc.pi) + Transc.log (det Sigma)
      + quadForm (inv Sigma) (x.sub mu)))

/-- `utils::multivariate_gaussian_density`: `exp` of the above, per column. -/
def gaussDensity [Transc α] [NatCast α] {n N : Nat} (inv : Mat α n n → Mat α n n) (det : Mat α n n → α)
    (X : Mat α n N) (mu : Vec α n) (Sigma : Mat α n n) : Vec α N :=
  Vec.of fun i => Transc.exp (gaussLogDensity inv det (X.col i) mu Sigma)

/-- `getTransitionProbability(prev, cur)` as coded:
    `multivariate_gaussian_density(cur - F * prev, Zero(rows), Q)`. -/
def wnaTransition [Transc α] [NatCast α] {n N : Nat} (inv : Mat α n n → Mat α n n) (det : Mat α n n → α)
    (F Q : Mat α n n) (prev cur : Mat α n N) : Vec α N :=
  gaussDensity inv det (cur.sub (F.mul prev)) Vec.zero Q

end wna

/-! ## Constructor validation -/

/-- `LTIStateModel::LTIStateModel(F, Q)`: `none` = constructed, `some k` = the k-th check threw. -/
def ltiStateCheck (fr fc qr qc : Nat) : Option Nat :=
  if fr = 0 ∨ fc = 0 then some 1
  else if qr = 0 ∨ qc = 0 then some 2
  else if fr ≠ fc then some 3
  else if qr ≠ qc then some 4
  else if fr ≠ qr then some 5
  else none

/-- `LTIMeasurementModel::LTIMeasurementModel(H, R)`; nothing relates `H.cols()` to anything. -/
def ltiMeasCheck (hr hc rr rc : Nat) : Option Nat :=
  if hr = 0 ∨ hc = 0 then some 1
  else if rr = 0 ∨ rc = 0 then some 2
  else if rr ≠ rc then some 3
  else if hr ≠ rr then some 4
  else none

def ltiStateCtor (fr fc qr qc : Nat) : Bool := (ltiStateCheck fr fc qr qc).isNone
def ltiMeasCtor (hr hc rr rc : Nat) : Bool := (ltiMeasCheck hr hc rr rc).isNone

/-- `LinearModel::LinearModel({n, idx}, R, seed)`: the base-class constructor runs first on
    `Zero(idx.size(), n)` and `R`, then the loop throws at the first index `≥ n` (check 5). -/
def linearModelCheck (n : Nat) (idx : List Nat) (rr rc : Nat) : Option Nat :=
  match ltiMeasCheck idx.length n rr rc with
  | some k => some k
  | none => if idx.all (fun c => decide (c < n)) then none else some 5

def linearModelCtor (n : Nat) (idx : List Nat) (rr rc : Nat) : Bool := (linearModelCheck n idx rr rc).isNone

/-- The matrix the loop `H_(i, idx[i]) = 1.0` leaves in the zero matrix. -/
def linearModelH {α : Type} [Zero α] [One α] (n : Nat) (idx : List Nat) : Mat α idx.length n :=
  Mat.of fun i j => if idx[i.val]'i.isLt = j.val then 1 else 0

/-! ## Simulated trajectory -/

/-- `if (L > 0) target_.col(0) = x0; for k = 1 .. L-1: motion(target_.col(k-1), target_.col(k))`
    (a zero-length simulation stores nothing and `bufferData` reports `false` at once).
    `step k` is the `(k+1)`-th call of `motion` (it knows which draws that call consumes). -/
def simTraj {σ : Type} (step : Nat → σ → σ) (x0 : σ) : Nat → σ
  | 0 => x0
  | k + 1 => step k (simTraj step x0 k)

structure Sim (σ : Type) where
  /-- `target_`, column by column; its length is `simulation_time_` -/
  target : List σ
  /-- `current_simulation_time_` -/
  cursor : Nat
  /-- `data_simulated_state_model_` (empty `any` before the first successful `bufferData`) -/
  data : Option σ

def simCtor {σ : Type} (step : Nat → σ → σ) (x0 : σ) (L : Nat) : Sim σ :=
  { target := (List.range L).map (simTraj step x0), cursor := 0, data := none }

inductive SimOp where
  | buffer          -- bufferData()
  | get             -- getData()
  | reset           -- setProperty("reset")
  | other           -- setProperty(anything else)
  deriving DecidableEq, Repr

inductive SimOut (σ : Type) where
  | flag (b : Bool)
  | data (d : Option σ)

def Sim.step {σ : Type} (s : Sim σ) : SimOp → Sim σ × SimOut σ
  | .buffer =>
      if s.cursor ≥ s.target.length then (s, .flag false)      -- exhausted: nothing changes
      else ({ s with cursor := s.cursor + 1, data := s.target[s.cursor]? }, .flag true)
  | .get => (s, .data s.data)
  | .reset => ({ s with cursor := 0 }, .flag true)
  | .other => (s, .flag false)

def Sim.run {σ : Type} (s : Sim σ) : List SimOp → Sim σ × List (SimOut σ)
  | [] => (s, [])
  | op :: ops =>
    let (s1, o) := s.step op
    let (s2, os) := s1.run ops
    (s2, o :: os)

/-- effect of one call on the count of `bufferData` calls since the last reset -/
def cursorStep (c : Nat) : SimOp → Nat
  | .buffer => c + 1
  | .reset => 0
  | _ => c

/-- number of `bufferData` calls since the last reset (or since construction) -/
def bufCount (ops : List SimOp) : Nat := ops.foldl cursorStep 0

/-! ### Specification of the serving protocol ("served in order, restarting on reset")

The abstract machine knows nothing of the stored trajectory: it counts.  `served` is the number of
states handed out since the last reset, `last` the index of the state `getData` shows (the last one
handed out — a reset does not clear it). -/
structure SimSpec where
  served : Nat
  last : Option Nat
  deriving DecidableEq, Repr

def SimSpec.step (L : Nat) (a : SimSpec) : SimOp → SimSpec × SimOut Nat
  | .buffer => if a.served < L then ({ served := a.served + 1, last := some a.served }, .flag true) else (a, .flag false)
  | .get => (a, .data a.last)
  | .reset => ({ a with served := 0 }, .flag true)
  | .other => (a, .flag false)

def SimSpec.run (L : Nat) (a : SimSpec) : List SimOp → SimSpec × List (SimOut Nat)
  | [] => (a, [])
  | op :: ops =>
    let (a1, o) := a.step L op
    let (a2, os) := SimSpec.run L a1 ops
    (a2, o :: os)

/-- an answer of the specification (an index) read as an answer of the object (the state with that index) -/
def SimOut.mapIdx {σ : Type} (traj : Nat → σ) : SimOut Nat → SimOut σ
  | .flag b => .flag b
  | .data d => .data (d.map traj)

/-! ## Simulated linear sensor -/

section sensor
variable {α : Type} [Add α] [Mul α] [Zero α] [Inhabited α]

structure Sensor (α : Type) (n m : Nat) where
  sim : Sim (Vec α n)
  /-- `measurement_` (empty before the first successful `freeze`) -/
  meas : Option (Vec α m)
  rng : Rng α

/-- the value `freeze` stores for the state `x` and the draws `z`: `H x + sqrt_R z` -/
def sensorMeasurement {n m : Nat} (H : Mat α m n) (SR : Mat α m m) (x : Vec α n) (z : Vec α m) : Vec α m :=
  (H.mulVec x).add (SR.mulVec z)

/-- `SimulatedLinearSensor::freeze`: refuses (drawing nothing, keeping the old measurement) when the
    trajectory is exhausted; otherwise `measurement_ = H x_k + sqrt_R z` for the state just served. -/
def sensorFreeze {n m : Nat} (H : Mat α m n) (SR : Mat α m m) (s : Sensor α n m) : Sensor α n m × Bool :=
  match s.sim.step .buffer with
  | (sim', .flag true) =>
    match sim'.data with
    | some x =>
      let (z, r') := s.rng.draw m 1
      ({ sim := sim', meas := some (sensorMeasurement H SR x (z.col ⟨0, Nat.one_pos⟩)), rng := r' }, true)
    | none => ({ s with sim := sim' }, false)   -- not reachable: a successful bufferData stores data
  | (sim', _) => ({ s with sim := sim' }, false)

/-- `k` successive calls of `freeze` -/
def sensorFreezeN {n m : Nat} (H : Mat α m n) (SR : Mat α m m) (s : Sensor α n m) : Nat → Sensor α n m
  | 0 => s
  | k + 1 => (sensorFreeze H SR (sensorFreezeN H SR s k)).1

/-- `measure()`: always valid; returns `measurement_`. -/
def sensorMeasure {n m : Nat} (s : Sensor α n m) : Bool × Option (Vec α m) := (true, s.meas)

/-- The calls a user can make on a `SimulatedLinearSensor` and on the trajectory it wraps. -/
inductive SensorOp where
  | freeze          -- sensor.freeze()
  | measure         -- sensor.measure()
  | reset           -- trajectory.setProperty("reset")
  | buffer          -- trajectory.bufferData() called directly (a state is consumed without a measurement)
  deriving DecidableEq, Repr

inductive SensorOut (β : Type) where
  | flag (b : Bool)
  | meas (ok : Bool) (y : Option β)

/-- one call on the sensor object -/
def Sensor.step {n m : Nat} (H : Mat α m n) (SR : Mat α m m) (s : Sensor α n m) : SensorOp → Sensor α n m × SensorOut (Vec α m)
  | .freeze => let r := sensorFreeze H SR s; (r.1, .flag r.2)
  | .measure => (s, .meas (sensorMeasure s).1 (sensorMeasure s).2)
  | .reset => ({ s with sim := (s.sim.step .reset).1 }, .flag true)
  | .buffer =>
    let r := s.sim.step .buffer
    ({ s with sim := r.1 }, .flag (match r.2 with | .flag b => b | .data _ => false))

/-- a finite sequence of calls -/
def Sensor.run {n m : Nat} (H : Mat α m n) (SR : Mat α m m) (s : Sensor α n m) : List SensorOp → Sensor α n m × List (SensorOut (Vec α m))
  | [] => (s, [])
  | op :: ops =>
    let r1 := s.step H SR op
    let r2 := Sensor.run H SR r1.1 ops
    (r2.1, r1.2 :: r2.2)

/-- Specification of the sensor: it counts.  `served` states handed out since the last reset, `draws`
    noise vectors drawn so far, and the stored measurement described by (index of the state it was
    taken of, number of the noise vector added). -/
structure SensorSpec where
  served : Nat
  draws : Nat
  meas : Option (Nat × Nat)
  deriving DecidableEq, Repr

def SensorSpec.step (L : Nat) (a : SensorSpec) : SensorOp → SensorSpec × SensorOut (Nat × Nat)
  | .freeze =>
    if a.served < L then ({ served := a.served + 1, draws := a.draws + 1, meas := some (a.served, a.draws) }, .flag true)
    else (a, .flag false)
  | .measure => (a, .meas true a.meas)
  | .reset => ({ a with served := 0 }, .flag true)
  | .buffer => if a.served < L then ({ a with served := a.served + 1 }, .flag true) else (a, .flag false)

def SensorSpec.run (L : Nat) (a : SensorSpec) : List SensorOp → SensorSpec × List (SensorOut (Nat × Nat))
  | [] => (a, [])
  | op :: ops =>
    let r1 := a.step L op
    let r2 := SensorSpec.run L r1.1 ops
    (r2.1, r1.2 :: r2.2)

def SensorOut.mapVal {β γ : Type} (f : β → γ) : SensorOut β → SensorOut γ
  | .flag b => .flag b
  | .meas ok y => .meas ok (y.map f)

/-- constructor: input description = state description + `R.rows()` noise components;
    measurement description counts the rows whose selected component lies in the linear part. -/
def sensorInputDescr (state : Descr) (rRows : Nat) : Descr := { state with noise := state.noise + rRows }

def sensorMeasDescr (state : Descr) (idx : List Nat) : Descr :=
  { lin := (idx.filter (fun c => decide (c < state.linearSize))).length
    circ := (idx.filter (fun c => !decide (c < state.linearSize))).length
    noise := 0 }

end sensor

/-! ### the measurement description as the constructor computes it (from `H`, not from the index list) -/

section measdescr
variable {α : Type} [LT α] [DecidableLT α] [Neg α] [Zero α]

/-- `|x|` -/
def absV (x : α) : α := if x < 0 then -x else x

/-- `H_.row(i).array().abs().maxCoeff(&state_index)`: the first column at which `|H i ·|` is maximal -/
def rowArgmaxAbs {m n : Nat} (H : Mat α m n) (i : Fin m) : Option (Fin n) :=
  (List.finRange n).find? fun j => (List.finRange n).all fun k => !decide (absV (H i j) < absV (H i k))

/-- the state component row `i` selects (`state_index`) -/
def rowSel {m n : Nat} (H : Mat α m n) (i : Fin m) : Nat :=
  match rowArgmaxAbs H i with
  | some j => j.val
  | none => 0

def sensorSel {m n : Nat} (H : Mat α m n) : List Nat := (List.finRange m).map (rowSel H)

/-- the loop of the constructor: a row counts as linear iff its arg-max column lies in the linear
    part of the input description; the result is `VectorDescription(linear, circular)` (Euler). -/
def sensorMeasDescrH {m n : Nat} (state : Descr) (H : Mat α m n) : Descr :=
  let sel := sensorSel H
  { lin := (sel.filter (fun c => decide (c < state.linearSize))).length
    circ := (sel.filter (fun c => !decide (c < state.linearSize))).length
    noise := 0 }

end measdescr

/-! ## Plumbing: properties, sampling time, hand-over -/

/-- `Agent::setProperty` (default), `WhiteNoiseAcceleration::setProperty`,
    `LTIStateModel::setProperty`: every property string is refused. -/
def defaultSetProperty (_property : String) : Bool := false

/-- `StateModel::setSamplingTime` (not overridden by the shipped models): reports `true` and changes
    nothing — the configuration `(dim, T, q)` stays the constructor's. -/
def wnaSetSamplingTime {α : Type} (cfg : Dim × α × α) (_time : α) : Bool × (Dim × α × α) := (true, cfg)

/-- What an object of `WhiteNoiseAcceleration` is, as far as this property is concerned: its
    configuration and the state of its generator.  Move construction / move assignment transfer the
    `pimpl_` pointer: the target is the source, unchanged. -/
structure WnaObj (α : Type) where
  dim : Dim
  T : α
  q : α
  rng : Rng α

def WnaObj.moveFrom {α : Type} (src : WnaObj α) : WnaObj α := src
def WnaObj.moveAssign {α : Type} (_dst src : WnaObj α) : WnaObj α := src

/-- What an `LTIStateModel` carries besides `F`, `Q`: the skip flag and whether an exogenous model is
    attached (members of the `StateModel` base).  Both move operations move the base as well. -/
structure LtiObj where
  n : Nat
  skipping : Bool
  hasExo : Bool
  deriving DecidableEq, Repr

def LtiObj.moveFrom (src : LtiObj) : LtiObj := src
def LtiObj.moveAssign (_dst src : LtiObj) : LtiObj := src

/-! ## Grid initialiser -/

section grid
variable {α : Type} [Add α] [Sub α] [Mul α] [Div α] [Neg α] [Zero α] [One α] [NatCast α]

/-- coordinate of grid line `i` of `k` lines over `[inf, sup]`, as coded:
    `(delta / (k - 1)) * i + inf` with `delta = sup - inf`. -/
def gridCoord (inf sup : α) (k i : Nat) : α :=
  ((sup - inf) / ((k : α) - 1)) * (i : α) + inf

/-- the column written for grid point `(i, j)`, by row number: `x, 0, y, 0` -/
def gridColumn (xinf xsup yinf ysup : α) (nx ny i j : Nat) (r : Nat) : α :=
  if r = 0 then gridCoord xinf xsup nx i
  else if r = 2 then gridCoord yinf ysup ny j
  else 0

/-- column index of grid point `(i, j)` -/
def gridIndex (ny i j : Nat) : Nat := i * ny + j

/-- `particles.state().col(c) << v` (a column index outside the set writes nothing here; the
    real code would trip Eigen's bounds assertion) -/
def setCol {R N : Nat} (M : Mat α R N) (c : Nat) (v : Nat → α) : Mat α R N :=
  Mat.of fun r k => if k.val = c then v r.val else M r k

/-- the iteration space `for i < nx: for j < ny`, in the order the loops run -/
def gridPairs (nx ny : Nat) : List (Nat × Nat) :=
  (List.range nx).flatMap fun i => (List.range ny).map fun j => (i, j)

/-- the double loop of `initialize` -/
def gridLoop (xinf xsup yinf ysup : α) (nx ny : Nat) {R N : Nat} (state : Mat α R N) : Mat α R N :=
  (gridPairs nx ny).foldl
    (fun M p => setCol M (gridIndex ny p.1 p.2) (gridColumn xinf xsup yinf ysup nx ny p.1 p.2)) state

/-- `InitSurveillanceAreaGrid::initialize` on a particle set with `N` columns of `R` rows:
    refuses (returning the set as it was) when `N ≠ nx * ny`, and when `R ≠ 4`; otherwise runs
    the double loop and sets every log-weight to `-log N`. -/
def gridInit [Transc α] (xinf xsup yinf ysup : α) (nx ny : Nat) {R N : Nat}
    (state : Mat α R N) (weight : Vec α N) : Bool × Mat α R N × Vec α N :=
  if N ≠ nx * ny then (false, state, weight)
  else if R ≠ 4 then (false, state, weight)
  else
    (true,
     gridLoop xinf xsup yinf ysup nx ny state,
     Vec.of (fun _ => - Transc.log ((N : Nat) : α)))

end grid

end BFL.Models
