// Correspondence harness for C14 (shape algebra): every op runs ONE real library function on
// matrices whose *shapes* are the case parameters (contents are fixed, well-conditioned filler) in
// the dbg build (ASan + UBSan + Eigen assertions).  A violated side condition of a matrix
// operation aborts the process (-> `crash:*` from vlib.run_harness); a clean run prints `ok` and
// the shapes / return values the Lean shape model also predicts.
#include "common.hpp"
#include <BayesFilters/WhiteNoiseAcceleration.h>
#include <BayesFilters/LinearModel.h>
#include <BayesFilters/LTIStateModel.h>
#include <BayesFilters/SimulatedStateModel.h>
#include <BayesFilters/SimulatedLinearSensor.h>
#include <BayesFilters/HistoryBuffer.h>
#include <BayesFilters/InitSurveillanceAreaGrid.h>
#include <BayesFilters/sigma_point.h>
#include <BayesFilters/UKFCorrection.h>
#include <BayesFilters/SUKFCorrection.h>
#include <BayesFilters/KFCorrection.h>
#include <BayesFilters/GPFCorrection.h>
#include <BayesFilters/GaussianMixture.h>
#include <BayesFilters/ParticleSet.h>
#include <BayesFilters/Resampling.h>
#include <BayesFilters/ResamplingWithPrior.h>
#include <BayesFilters/EstimatesExtraction.h>
#include <BayesFilters/AdditiveMeasurementModel.h>
#include <BayesFilters/LikelihoodModel.h>
#include <BayesFilters/KFPrediction.h>
#include <BayesFilters/UKFPrediction.h>
#include <BayesFilters/GPFPrediction.h>
#include <BayesFilters/DrawParticles.h>
#include <BayesFilters/BootstrapCorrection.h>
#include <BayesFilters/GaussianLikelihood.h>
#include <BayesFilters/SIS.h>
#include <BayesFilters/ExogenousModel.h>
#include <BayesFilters/utils.h>
#include <BayesFilters/GaussianFilter.h>
#include <BayesFilters/Logger.h>
#include <sys/stat.h>
#include <cmath>
#include <limits>
#include <cstdlib>
#include <memory>
#include <new>

using namespace bfl;
using namespace Eigen;
using vh::Toks; using vh::Out;

// ---------------------------------------------------------------- filler data
static MatrixXd fillm(long r, long c, double s = 0.1) {
    MatrixXd m(r, c);
    for (long j = 0; j < c; ++j) for (long i = 0; i < r; ++i) m(i, j) = s * std::sin(1.0 + 0.7 * i + 1.3 * j);
    return m;
}
static MatrixXd spd(long n, double s = 1.0) { return MatrixXd::Identity(n, n) * s; }
static std::string shp(const MatrixXd& m) { return std::to_string(m.rows()) + "x" + std::to_string(m.cols()); }
template <class M> static std::string shpT(const M& m) { return std::to_string(m.rows()) + "x" + std::to_string(m.cols()); }

static WhiteNoiseAcceleration::Dim wdim(long d) {
    if (d == 1) return WhiteNoiseAcceleration::Dim::OneD;
    if (d == 2) return WhiteNoiseAcceleration::Dim::TwoD;
    if (d == 3) return WhiteNoiseAcceleration::Dim::ThreeD;
    throw vh::BadArgs("dim");
}

// mixture with the given layout; quaternion parts = identity quaternion, covariance blocks = s*I
static void fillGM(GaussianMixture& g) {
    for (std::size_t i = 0; i < g.components; ++i) {
        for (std::size_t r = 0; r < g.dim; ++r) g.mean(i)(r) = 0.05 * (1 + r) + 0.01 * i;
        if (g.use_quaternion)
            for (std::size_t j = 0; j < g.dim_circular; ++j) {
                g.mean(i).segment(g.dim_linear + 4 * j, 4) << 1.0, 0.0, 0.0, 0.0;
            }
        g.covariance(i) = spd(g.dim_covariance, 0.5 + 0.25 * i);
    }
}
static GaussianMixture mkGM(long K, long dl, long dc, bool quat, long dn) {
    GaussianMixture g(K, dl, dc, quat);
    fillGM(g);
    if (dn > 0) g.augmentWithNoise(spd(dn, 0.1));
    return g;
}
static void fillPS(ParticleSet& p) {
    fillGM(p);
    for (std::size_t i = 0; i < p.components; ++i) {
        p.state(i) = p.mean(i);
        p.weight(i) = -std::log(static_cast<double>(p.components));
    }
}

// ---------------------------------------------------------------- WhiteNoiseAcceleration
static std::string wna_noise(Toks& t) {
    long d = t.nat(), num = t.nat(); t.done();
    WhiteNoiseAcceleration m(wdim(d), 1.0, 1.0);
    MatrixXd F = m.getStateTransitionMatrix(), Q = m.getNoiseCovarianceMatrix();
    VectorDescription sd = m.getStateDescription();
    MatrixXd s = m.getNoiseSample(num);
    Out o; o.s("ok").s(shp(F)).s(shp(Q)).n(sd.total_size()).s(shp(s));
    return o.str();
}
static std::string wna_motion(Toks& t) {
    long d = t.nat(), num = t.nat(), sr = t.nat(); t.done();
    WhiteNoiseAcceleration m(wdim(d), 1.0, 1.0);
    MatrixXd cur = fillm(sr, num), out(sr, num);
    m.motion(cur, out);
    Out o; o.s("ok").s(shp(out));
    return o.str();
}
static std::string wna_tp(Toks& t) {
    long d = t.nat(), num = t.nat(), sr = t.nat(); t.done();
    WhiteNoiseAcceleration m(wdim(d), 1.0, 1.0);
    MatrixXd prev = fillm(sr, num), cur = fillm(sr, num, 0.2);
    VectorXd p = m.getTransitionProbability(prev, cur);
    Out o; o.s("ok").n(p.size());
    return o.str();
}
// moved-to model used after the source is gone (ImplData lives on the heap)
static std::string wna_move(Toks& t) {
    long d = t.nat(), num = t.nat(); t.done();
    std::unique_ptr<WhiteNoiseAcceleration> a(new WhiteNoiseAcceleration(wdim(d), 1.0, 1.0));
    WhiteNoiseAcceleration b(std::move(*a));
    a.reset();
    MatrixXd s = b.getNoiseSample(num);
    Out o; o.s("ok").s(shp(s));
    return o.str();
}

// ---------------------------------------------------------------- LinearModel
struct XLinearModel : public LinearModel {
    using LinearModel::LinearModel;
    bool freeze(const Data&) override { return true; }
    std::pair<bool, Data> measure(const Data&) const override { return std::make_pair(false, Data()); }
    VectorDescription getInputDescription() const override { return VectorDescription(H_.cols(), 0, R_.rows()); }
    VectorDescription getMeasurementDescription() const override { return VectorDescription(H_.rows()); }
    std::pair<bool, MatrixXd> sample(int num) const { return getNoiseSample(num); }
    const MatrixXd& sqrtR() const { return sqrt_R_; }
};
static std::vector<std::size_t> comps(Toks& t) {
    long k = t.nat(); std::vector<std::size_t> c;
    for (long i = 0; i < k; ++i) c.push_back(t.nat());
    return c;
}
static std::string lm(Toks& t) {
    long n = t.nat(), rr = t.nat(), rc = t.nat(), num = t.nat();
    std::vector<std::size_t> c = comps(t); t.done();
    MatrixXd R = MatrixXd::Zero(rr, rc);
    for (long i = 0; i < std::min(rr, rc); ++i) R(i, i) = 0.5 + 0.1 * i;
    XLinearModel m(std::make_pair(std::size_t(n), c), R);
    MatrixXd H = m.getMeasurementMatrix();
    MatrixXd s = m.sample(num).second;
    MatrixXd p = any::any_cast<MatrixXd>(m.predictedMeasure(fillm(n, num)).second);
    Out o; o.s("ok").s(shp(H)).s(shp(m.sqrtR())).s(shp(s)).s(shp(p));
    return o.str();
}

// the two-argument constructor LinearModel(component, covariance), called explicitly (it delegates to the seeded one)
struct XLinearModel2 : public XLinearModel {
    XLinearModel2(const LinearMatrixComponent& c, const MatrixXd& R) : XLinearModel(c, Ref<const MatrixXd>(R)) { }
};
static std::string lm2(Toks& t) {
    long n = t.nat(), rr = t.nat(), rc = t.nat(), num = t.nat();
    std::vector<std::size_t> c = comps(t); t.done();
    MatrixXd R = MatrixXd::Zero(rr, rc);
    for (long i = 0; i < std::min(rr, rc); ++i) R(i, i) = 0.5 + 0.1 * i;
    XLinearModel2 m(std::make_pair(std::size_t(n), c), R);
    MatrixXd H = m.getMeasurementMatrix();
    MatrixXd s = m.sample(num).second;
    MatrixXd p = any::any_cast<MatrixXd>(m.predictedMeasure(fillm(n, num)).second);
    Out o; o.s("ok").s(shp(H)).s(shp(m.sqrtR())).s(shp(s)).s(shp(p));
    return o.str();
}

// ---------------------------------------------------------------- SimulatedStateModel / SimulatedLinearSensor
struct XSim : public SimulatedStateModel {
    using SimulatedStateModel::SimulatedStateModel;
    void call_log() { log(); }
};
static std::string ssm(Toks& t) {
    long d = t.nat(), T = t.nat(), sr = t.nat(), calls = t.nat(); t.done();
    VectorXd x0 = fillm(sr, 1);
    SimulatedStateModel s(std::unique_ptr<StateModel>(new WhiteNoiseAcceleration(wdim(d), 1.0, 1.0)), x0, T);
    Out o; o.s("ok");
    for (long i = 0; i < calls; ++i) {
        bool r = s.bufferData();
        if (r) { MatrixXd m = any::any_cast<MatrixXd>(s.getData()); o.s("1:" + shp(m)); }
        else o.s("0");
    }
    return o.str();
}
static std::string ssmlog(Toks& t) {
    long d = t.nat(), T = t.nat(), calls = t.nat(); t.done();
    VectorXd x0 = fillm(2 * d, 1);
    XSim s(std::unique_ptr<StateModel>(new WhiteNoiseAcceleration(wdim(d), 1.0, 1.0)), x0, T);
    for (long i = 0; i < calls; ++i) s.bufferData();
    s.call_log();
    return "ok";
}
static std::string sls(Toks& t) {
    long d = t.nat(), T = t.nat(), n = t.nat(), rr = t.nat(), calls = t.nat();
    std::vector<std::size_t> c = comps(t); t.done();
    VectorXd x0 = fillm(2 * d, 1);
    std::unique_ptr<SimulatedStateModel> s(new SimulatedStateModel(std::unique_ptr<StateModel>(new WhiteNoiseAcceleration(wdim(d), 1.0, 1.0)), x0, T));
    SimulatedLinearSensor sens(std::move(s), std::make_pair(std::size_t(n), c), spd(rr, 0.5));
    Out o; o.s("ok");
    VectorDescription in = sens.getInputDescription(), me = sens.getMeasurementDescription();
    o.n(in.linear_size()).n(in.circular_size()).n(in.noise_size()).n(me.total_size());
    for (long i = 0; i < calls; ++i) {
        bool r = sens.freeze();
        if (r) { MatrixXd m = any::any_cast<MatrixXd>(sens.measure().second); o.s("1:" + shp(m)); }
        else o.s("0");
    }
    return o.str();
}

// ---------------------------------------------------------------- HistoryBuffer
static std::string hist(Toks& t) {
    long S = t.nat();
    std::unique_ptr<HistoryBuffer> h(new HistoryBuffer(S));
    Out o; o.s("ok");
    while (!t.empty()) {
        std::string op = t.tok();
        char k = op[0]; long a = op.size() > 1 ? std::strtol(op.c_str() + 1, nullptr, 10) : 0;
        if (k == 'a') { VectorXd e = fillm(a, 1); h->addElement(e); o.s("a"); }
        else if (k == 's') { bool r = h->setHistorySize(static_cast<unsigned int>(std::strtoull(op.c_str() + 1, nullptr, 10))); o.s(std::string("s") + (r ? "1" : "0") + ":" + std::to_string(h->getHistorySize())); }
        else if (k == 'd') { h->decreaseHistorySize(); o.s("s1:" + std::to_string(h->getHistorySize())); }
        else if (k == 'i') { h->increaseHistorySize(); o.s("s1:" + std::to_string(h->getHistorySize())); }
        else if (k == 'c') { h->clear(); o.s("c"); }
        else if (k == 'g') { MatrixXd m = h->getHistoryBuffer(); o.s("g:" + shp(m)); }
        else if (k == 'M' || k == 'T') {   // move ASSIGNMENT from / into another buffer of state size S2 holding cnt vectors (window w)
            long S2 = 0, cnt = 0, w = 0;
            if (std::sscanf(op.c_str() + 1, "%ld_%ld_%ld", &S2, &cnt, &w) != 3) throw vh::BadArgs("histmove");
            std::unique_ptr<HistoryBuffer> other(new HistoryBuffer(S2));
            if (w > 0) other->setHistorySize(w);
            for (long i = 0; i < cnt; ++i) { VectorXd e = fillm(S2, 1); other->addElement(e); }
            if (k == 'M') { *h = std::move(*other); } else { *other = std::move(*h); h = std::move(other); }
            o.s("m");
        }
        else if (k == 'S') { HistoryBuffer& self = *h; *h = std::move(self); o.s("m"); }   // h = std::move(h): `if (this == &history_buffer) return *this;`
        else if (k == 'm') { std::unique_ptr<HistoryBuffer> h2(new HistoryBuffer(std::move(*h))); if (a == 0) h = std::move(h2); o.s("m"); }  // m0: continue with the moved-to buffer, m1: with the moved-from one
        else throw vh::BadArgs("histop");
    }
    return o.str();
}

// ---------------------------------------------------------------- InitSurveillanceAreaGrid
static std::string grid(Toks& t) {
    long nx = t.nat(), ny = t.nat(), N = t.nat(), dl = t.nat(), dc = t.nat(); bool quat = t.flag(); t.done();
    ParticleSet p(N, dl, dc, quat);
    InitSurveillanceAreaGrid g(10.0, 20.0, nx, ny);
    bool r = g.initialize(p);
    Out o; o.s("ok").n(r ? 1 : 0).s(shpT(p.state()));
    return o.str();
}

// ---------------------------------------------------------------- sigma points / unscented transform
static std::string sp(Toks& t) {
    long K = t.nat(), dl = t.nat(), dc = t.nat(); bool quat = t.flag(); long dn = t.nat(); t.done();
    GaussianMixture g = mkGM(K, dl, dc, quat, dn);
    MatrixXd s = sigma_point::sigma_point(g, 1.5);
    Out o; o.s("ok").n(g.dim).n(g.dim_covariance).n(g.dim_noise).s(shp(s));
    return o.str();
}
static std::string utw(Toks& t) {
    long dof = t.nat(); t.done();
    sigma_point::UTWeight w(std::size_t(dof), 1.0, 2.0, 0.0);
    Out o; o.s("ok").n(w.mean.size()).n(w.covariance.size());
    return o.str();
}
// output rows filled so that quaternion blocks are unit quaternions
static MatrixXd propFill(long rows, long cols) {
    MatrixXd p = fillm(rows, cols, 0.3);
    return p;
}
static void outUT(Out& o, bool valid, const GaussianMixture& g, const MatrixXd& cc) {
    o.n(valid ? 1 : 0).n(g.components).n(g.dim).n(g.dim_covariance).s(shpT(g.mean())).s(shpT(g.covariance())).s(shp(cc));
}
static std::string ut(Toks& t) {
    long K = t.nat(), dl = t.nat(), dc = t.nat(); bool quat = t.flag(); long dn = t.nat(), wdof = t.nat();
    long ol = t.nat(), oc = t.nat(); bool oq = t.flag(); long prows = t.nat(), dcols = t.nat(); bool fvalid = t.flag(); t.done();
    GaussianMixture g = mkGM(K, dl, dc, quat, dn);
    sigma_point::UTWeight w(std::size_t(wdof), 1.0, 2.0, 0.0);
    VectorDescription od(ol, oc, 0, oq ? VectorDescription::CircularType::Quaternion : VectorDescription::CircularType::Euler);
    sigma_point::FunctionEvaluation f = [&](const Ref<const MatrixXd>& x) {
        MatrixXd p = propFill(prows, x.cols() + dcols);
        return std::make_tuple(fvalid, Data(std::move(p)), od);
    };
    bool valid; GaussianMixture out; MatrixXd cc;
    std::tie(valid, out, cc) = sigma_point::unscented_transform(g, w, f);
    Out o; o.s("ok"); outUT(o, valid, out, cc);
    return o.str();
}

struct XState : public LTIStateModel {
    XState(const MatrixXd& F, const MatrixXd& Q, const VectorDescription& d) : LTIStateModel(F, Q), d_(d) {}
    VectorDescription getStateDescription() override { return d_; }
    // zero noise sample of the covariance's size (the base class returns an empty placeholder)
    MatrixXd getNoiseSample(const std::size_t num) override { return MatrixXd::Zero(getNoiseCovarianceMatrix().rows(), num); }
    VectorDescription d_;
};
// UT through a (generic | additive) state model
static std::string utsm(Toks& t) {
    long kind = t.nat(), K = t.nat(), dl = t.nat(), dc = t.nat(); bool quat = t.flag(); long dn = t.nat(), wdof = t.nat();
    long fn = t.nat(), fq = t.nat(), sl = t.nat(), sc = t.nat(); bool sq = t.flag(); t.done();
    GaussianMixture g = mkGM(K, dl, dc, quat, dn);
    sigma_point::UTWeight w(std::size_t(wdof), 1.0, 2.0, 0.0);
    XState sm(spd(fn, 1.0), spd(fq, 0.2), VectorDescription(sl, sc, 0, sq ? VectorDescription::CircularType::Quaternion : VectorDescription::CircularType::Euler));
    GaussianMixture out; MatrixXd cc;
    if (kind == 0) std::tie(out, cc) = sigma_point::unscented_transform(g, w, static_cast<StateModel&>(sm));
    else std::tie(out, cc) = sigma_point::unscented_transform(g, w, static_cast<AdditiveStateModel&>(sm));
    Out o; o.s("ok"); outUT(o, true, out, cc);
    return o.str();
}
static std::string utwna(Toks& t) {
    long kind = t.nat(), d = t.nat(), K = t.nat(), dl = t.nat(), dn = t.nat(), wdof = t.nat(); t.done();
    GaussianMixture g = mkGM(K, dl, 0, false, dn);
    sigma_point::UTWeight w(std::size_t(wdof), 1.0, 2.0, 0.0);
    WhiteNoiseAcceleration sm(wdim(d), 1.0, 1.0);
    GaussianMixture out; MatrixXd cc;
    if (kind == 0) std::tie(out, cc) = sigma_point::unscented_transform(g, w, static_cast<StateModel&>(sm));
    else std::tie(out, cc) = sigma_point::unscented_transform(g, w, static_cast<AdditiveStateModel&>(sm));
    Out o; o.s("ok"); outUT(o, true, out, cc);
    return o.str();
}

// shape-parametric measurement model: every returned matrix has the configured shape
struct XMeas : public AdditiveMeasurementModel {
    VectorDescription in_, out_;
    long prows = 0, dcols = 0, irows = 0, ysize = 0; MatrixXd R;
    bool mvalid = true, pvalid = true, ivalid = true;
    bool freeze(const Data&) override { return true; }
    std::pair<bool, Data> measure(const Data&) const override { MatrixXd y = fillm(ysize, 1, 0.4); return std::make_pair(mvalid, Data(std::move(y))); }
    std::pair<bool, Data> predictedMeasure(const Ref<const MatrixXd>& x) const override {
        MatrixXd p = propFill(prows, x.cols() + dcols);
        return std::make_pair(pvalid, Data(std::move(p)));
    }
    std::pair<bool, Data> innovation(const Data& p, const Data&) const override {
        MatrixXd pm = any::any_cast<MatrixXd>(p);
        MatrixXd inn = fillm(irows, pm.cols(), 0.05);
        return std::make_pair(ivalid, Data(std::move(inn)));
    }
    std::pair<bool, MatrixXd> getNoiseCovarianceMatrix() const override { return std::make_pair(true, R); }
    VectorDescription getInputDescription() const override { return in_; }
    VectorDescription getMeasurementDescription() const override { return out_; }
};
static VectorDescription vdesc(long l, long c, long n, bool q) {
    return VectorDescription(l, c, n, q ? VectorDescription::CircularType::Quaternion : VectorDescription::CircularType::Euler);
}
// reads: in_l in_c in_q in_noise  ml mc mq  prows dcols irows ysize rr  mvalid pvalid ivalid
static std::unique_ptr<XMeas> readMeas(Toks& t) {
    std::unique_ptr<XMeas> m(new XMeas());
    long il = t.nat(), ic = t.nat(); bool iq = t.flag(); long inn = t.nat();
    long ml = t.nat(), mc = t.nat(); bool mq = t.flag();
    m->in_ = vdesc(il, ic, inn, iq); m->out_ = vdesc(ml, mc, 0, mq);
    m->prows = t.nat(); m->dcols = t.nat(); m->irows = t.nat(); m->ysize = t.nat();
    long rr = t.nat(); m->R = spd(rr, 0.3);
    m->mvalid = t.flag(); m->pvalid = t.flag(); m->ivalid = t.flag();
    return m;
}
// UT through a (generic | additive) measurement model
static std::string utmm(Toks& t) {
    long kind = t.nat(), K = t.nat(), dl = t.nat(), dc = t.nat(); bool quat = t.flag(); long dn = t.nat(), wdof = t.nat();
    std::unique_ptr<XMeas> m = readMeas(t); t.done();
    GaussianMixture g = mkGM(K, dl, dc, quat, dn);
    sigma_point::UTWeight w(std::size_t(wdof), 1.0, 2.0, 0.0);
    bool valid; GaussianMixture out; MatrixXd cc;
    if (kind == 0) std::tie(valid, out, cc) = sigma_point::unscented_transform(g, w, static_cast<MeasurementModel&>(*m));
    else std::tie(valid, out, cc) = sigma_point::unscented_transform(g, w, static_cast<AdditiveMeasurementModel&>(*m));
    Out o; o.s("ok"); outUT(o, valid, out, cc);
    return o.str();
}
static void outCorr(Out& o, const GaussianMixture& c, const std::pair<bool, VectorXd>& lik) {
    o.n(c.components).n(c.dim).n(c.dim_covariance).s(shpT(c.mean())).s(shpT(c.covariance())).n(lik.first ? 1 : 0).n(lik.second.size());
}
// kind 0: UKF generic, 1: UKF additive, 2: SUKF (then: sub reduced); b_ukfcmv: the object used is move-constructed from the configured one
static bool g_move_corr = false;
static std::string ukfc(Toks& t) {
    long kind = t.nat(), K = t.nat(), dl = t.nat(), dc = t.nat(); bool quat = t.flag();
    long cK = t.nat(), cl = t.nat(), cc = t.nat(); bool cq = t.flag();
    std::unique_ptr<XMeas> m = readMeas(t);
    long sub = 0; bool reduced = false;
    if (kind == 2) { sub = t.nat(); reduced = t.flag(); }
    t.done();
    GaussianMixture pred = mkGM(K, dl, dc, quat, 0);
    GaussianMixture corr(cK, cl, cc, cq);
    std::unique_ptr<GaussianCorrection> c;
    if (kind == 0) c.reset(new UKFCorrection(std::unique_ptr<MeasurementModel>(std::move(m)), 1.0, 2.0, 0.0));
    else if (kind == 1) c.reset(new UKFCorrection(std::unique_ptr<AdditiveMeasurementModel>(std::move(m)), 1.0, 2.0, 0.0));
    else c.reset(new SUKFCorrection(std::unique_ptr<AdditiveMeasurementModel>(std::move(m)), 1.0, 2.0, 0.0, sub, reduced));
    if (g_move_corr) {
        std::unique_ptr<GaussianCorrection> moved;
        if (kind == 2) moved.reset(new SUKFCorrection(std::move(*static_cast<SUKFCorrection*>(c.get()))));
        else moved.reset(new UKFCorrection(std::move(*static_cast<UKFCorrection*>(c.get()))));
        c = std::move(moved);      // the source is destroyed here
    }
    c->correct(pred, corr);
    std::pair<bool, VectorXd> lik = c->getLikelihood();
    Out o; o.s("ok"); outCorr(o, corr, lik);
    return o.str();
}
struct XLin : public LTIMeasurementModel {
    XLin(const MatrixXd& H, const MatrixXd& R, long ysize) : LTIMeasurementModel(H, R), ysize_(ysize) {}
    bool freeze(const Data&) override { return true; }
    std::pair<bool, Data> measure(const Data&) const override { MatrixXd y = fillm(ysize_, 1, 0.4); return std::make_pair(mvalid, Data(std::move(y))); }
    VectorDescription getInputDescription() const override { return VectorDescription(H_.cols(), 0, R_.rows()); }
    VectorDescription getMeasurementDescription() const override { return VectorDescription(H_.rows()); }
    long ysize_; bool mvalid = true;
};
// successive correct() + getLikelihood() on ONE correction object (members survive between calls):
//   b_corrseq kind dl dc quat <meas> [sub reduced] n (K mv pv iv)*
static std::string corrseq(Toks& t) {
    long kind = t.nat(), dl = t.nat(), dc = t.nat(); bool quat = t.flag();
    std::unique_ptr<XMeas> m = readMeas(t);
    long sub = 0; bool reduced = false;
    if (kind == 2) { sub = t.nat(); reduced = t.flag(); }
    long n = t.nat();
    std::vector<long> K(n), msz(n); std::vector<bool> mv(n), pv(n), iv(n);
    for (long i = 0; i < n; ++i) { K[i] = t.nat(); mv[i] = t.flag(); pv[i] = t.flag(); iv[i] = t.flag(); msz[i] = t.nat(); }
    t.done();
    XMeas* mp = m.get();
    struct { VectorDescription out_; long prows, irows, ysize; MatrixXd R; } cfg = { mp->out_, mp->prows, mp->irows, mp->ysize, mp->R };   // restored by msz = 0
    XLin* lp = nullptr;
    const bool rr_follows = (kind == 2 && !reduced) || kind == 1;
    std::unique_ptr<GaussianCorrection> c;
    if (kind == 0) c.reset(new UKFCorrection(std::unique_ptr<MeasurementModel>(std::move(m)), 1.0, 2.0, 0.0));
    else if (kind == 1) c.reset(new UKFCorrection(std::unique_ptr<AdditiveMeasurementModel>(std::move(m)), 1.0, 2.0, 0.0));
    else if (kind == 2) c.reset(new SUKFCorrection(std::unique_ptr<AdditiveMeasurementModel>(std::move(m)), 1.0, 2.0, 0.0, sub, reduced));
    else {   // KFCorrection over a linear model H : ml x dim, R : ml x ml (time invariant: msz is ignored)
        const long hm = mp->out_.total_size(), hn = dl + dc * (quat ? 4 : 1);
        lp = new XLin(fillm(hm, hn, 1.0), spd(hm, 0.3), mp->ysize);
        c.reset(new KFCorrection(std::unique_ptr<LinearMeasurementModel>(lp)));
    }
    Out o; o.s("ok");
    for (long i = 0; i < n; ++i) {
        if (lp) lp->mvalid = mv[i];
        else {
            mp->mvalid = mv[i]; mp->pvalid = pv[i]; mp->ivalid = iv[i];
            if (msz[i] > 0) {   // the model is time varying: another measurement size at this call
                mp->out_ = vdesc(msz[i], 0, 0, false); mp->prows = msz[i]; mp->irows = msz[i]; mp->ysize = msz[i];
                mp->R = rr_follows ? spd(msz[i], 0.3) : cfg.R;
            } else {            // 0: the size the model was configured with
                mp->out_ = cfg.out_; mp->prows = cfg.prows; mp->irows = cfg.irows; mp->ysize = cfg.ysize; mp->R = cfg.R;
            }
        }
        GaussianMixture pred = mkGM(K[i], dl, dc, quat, 0);
        GaussianMixture corr(K[i], dl, dc, quat);
        c->correct(pred, corr);
        std::pair<bool, VectorXd> lik = c->getLikelihood(), lik2 = c->getLikelihood();
        const bool same = lik.first == lik2.first && lik.second.size() == lik2.second.size();
        o.s(std::to_string(corr.components) + ":" + shpT(corr.mean()) + ":" + (lik.first ? "1" : "0") + ":" + std::to_string(same ? lik.second.size() : -1));
    }
    return o.str();
}
// successive getNoiseSample(n) / motion on n columns on ONE WhiteNoiseAcceleration object: b_wna_seq d k n1 .. nk
static std::string wna_seq(Toks& t) {
    long d = t.nat(); std::vector<std::size_t> nums = comps(t); t.done();
    WhiteNoiseAcceleration m(wdim(d), 1.0, 1.0);
    Out o; o.s("ok");
    for (std::size_t n : nums) {
        MatrixXd s = m.getNoiseSample(n);
        MatrixXd cur = fillm(2 * d, n), out(2 * d, n);
        m.motion(cur, out);
        o.s(shp(s)).s(shp(out));
    }
    return o.str();
}
// successive getNoiseSample(n) on ONE LinearModel object: b_lm_seq n kc c1..ckc k n1..nk
static std::string lm_seq(Toks& t) {
    long n = t.nat(); std::vector<std::size_t> c = comps(t); std::vector<std::size_t> nums = comps(t); t.done();
    XLinearModel m(std::make_pair(std::size_t(n), c), spd(c.size(), 0.5));
    Out o; o.s("ok");
    for (std::size_t k : nums) o.s(shp(m.sample(int(k)).second));
    return o.str();
}

static std::string kfc(Toks& t) {
    long K = t.nat(), dl = t.nat(), dc = t.nat(); bool quat = t.flag();
    long cK = t.nat(), cl = t.nat(), cc = t.nat(); bool cq = t.flag();
    long hm = t.nat(), hn = t.nat(), ysize = t.nat(); bool mvalid = t.flag(); t.done();
    GaussianMixture pred = mkGM(K, dl, dc, quat, 0);
    GaussianMixture corr(cK, cl, cc, cq);
    std::unique_ptr<XLin> m(new XLin(fillm(hm, hn, 1.0), spd(hm, 0.3), ysize)); m->mvalid = mvalid;
    KFCorrection c(std::unique_ptr<LinearMeasurementModel>(std::move(m)));
    c.correct(pred, corr);
    std::pair<bool, VectorXd> lik = c.getLikelihood();
    Out o; o.s("ok"); outCorr(o, corr, lik);
    return o.str();
}

// ---------------------------------------------------------------- GaussianMixture / ParticleSet
static std::string gmacc(Toks& t) {
    long K = t.nat(), dl = t.nat(), dc = t.nat(); bool quat = t.flag(); long dn = t.nat();
    std::string which = t.tok(); std::size_t i = t.unat(), j = t.unat(), k = t.unat(); t.done();   // the whole size_t range
    GaussianMixture g = mkGM(K, dl, dc, quat, dn);
    const GaussianMixture& cg = g;
    Out o; o.s("ok");
    if (which == "mean1") { o.s(shpT(g.mean(i))); o.s(shpT(cg.mean(i))); }
    else if (which == "mean2") { double v = g.mean(i, j) + cg.mean(i, j); o.n(std::isfinite(v) ? 1 : 0); }
    else if (which == "cov1") { o.s(shpT(g.covariance(i))); o.s(shpT(cg.covariance(i))); }
    else if (which == "cov3") { double v = g.covariance(i, j, k) + cg.covariance(i, j, k); o.n(std::isfinite(v) ? 1 : 0); }
    else if (which == "w1") { double v = g.weight(i) + cg.weight(i); o.n(std::isfinite(v) ? 1 : 0); }
    else throw vh::BadArgs("which");
    return o.str();
}
static std::string psacc(Toks& t) {
    long K = t.nat(), dl = t.nat(), dc = t.nat(); bool quat = t.flag();
    std::string which = t.tok(); std::size_t i = t.unat(), j = t.unat(); t.done();
    ParticleSet p(K, dl, dc, quat); fillPS(p);
    const ParticleSet& cp = p;
    Out o; o.s("ok");
    if (which == "state1") { o.s(shpT(p.state(i))); o.s(shpT(cp.state(i))); }
    else if (which == "state2") { double v = p.state(i, j) + cp.state(i, j); o.n(std::isfinite(v) ? 1 : 0); }
    else throw vh::BadArgs("which");
    return o.str();
}
static void outGMshape(Out& o, const GaussianMixture& g) {
    o.n(g.components).n(g.dim).n(g.dim_linear).n(g.dim_circular).n(g.dim_noise).n(g.dim_covariance)
     .s(shpT(g.mean())).s(shpT(g.covariance())).n(g.weight().size());
}
static std::string gmaug(Toks& t) {
    long K = t.nat(), dl = t.nat(), dc = t.nat(); bool quat = t.flag();
    long r1 = t.nat(), c1 = t.nat(), r2 = t.nat(), c2 = t.nat(); t.done();
    GaussianMixture g(K, dl, dc, quat); fillGM(g);
    bool a = g.augmentWithNoise(fillm(r1, c1));
    bool b = true;
    if (r2 + c2 > 0) b = g.augmentWithNoise(fillm(r2, c2));
    Out o; o.s("ok").n(a).n(b); outGMshape(o, g);
    // every block of the augmented storage is addressable
    for (std::size_t i = 0; i < g.components; ++i) o.s(shpT(g.covariance(i)));
    return o.str();
}
static std::string gmresize(Toks& t) {
    long K = t.nat(), dl = t.nat(), dc = t.nat(); bool quat = t.flag(); long dn = t.nat();
    long K2 = t.nat(), dl2 = t.nat(), dc2 = t.nat(); t.done();
    GaussianMixture g = mkGM(K, dl, dc, quat, dn);
    g.resize(K2, dl2, dc2);
    Out o; o.s("ok"); outGMshape(o, g);
    return o.str();
}
static std::string psresize(Toks& t) {
    long K = t.nat(), dl = t.nat(), dc = t.nat(); bool quat = t.flag();
    long K2 = t.nat(), dl2 = t.nat(), dc2 = t.nat(); t.done();
    ParticleSet p(K, dl, dc, quat); fillPS(p);
    p.resize(K2, dl2, dc2);
    Out o; o.s("ok"); outGMshape(o, p); o.s(shpT(p.state()));
    return o.str();
}
static std::string psadd(Toks& t) {
    long K1 = t.nat(), dl1 = t.nat(), dc1 = t.nat(); bool q1 = t.flag();
    long K2 = t.nat(), dl2 = t.nat(), dc2 = t.nat(); bool q2 = t.flag(); t.done();
    ParticleSet a(K1, dl1, dc1, q1), b(K2, dl2, dc2, q2); fillPS(a); fillPS(b);
    a += b;
    Out o; o.s("ok"); outGMshape(o, a); o.s(shpT(a.state()));
    return o.str();
}

// b_gmaugalias K dl dc q : g.augmentWithNoise(g.covariance(0)) (argument aliases the reallocated storage)
static std::string gmaugalias(Toks& t) {
    long K = t.nat(), dl = t.nat(), dc = t.nat(); bool q = t.flag(); t.done();
    GaussianMixture g(K, dl, dc, q); fillGM(g);
    bool a = g.augmentWithNoise(g.covariance(0));
    Out o; o.s("ok").n(a); outGMshape(o, g);
    return o.str();
}
// b_psaddself K dl dc q : a += a (the same object on both sides)
static std::string psaddself(Toks& t) {
    long K = t.nat(), dl = t.nat(), dc = t.nat(); bool q = t.flag(); t.done();
    ParticleSet a(K, dl, dc, q); fillPS(a);
    a += a;
    Out o; o.s("ok"); outGMshape(o, a); o.s(shpT(a.state()));
    return o.str();
}

// ---------------------------------------------------------------- resampling
// log-weight profiles (same numbering as BFL.Bounds.weightOracle): the shape is right, the values are anything
//   0 normalised uniform; 1 normalised, skewed; 2 all -inf; 3 all underflowing (exp == 0); 4 exponentials sum to 0.5;
//   5 exponentials sum to 1e-6 * N; 6 exponentials sum to N (> 1); 7 one normalised-size weight, the others -inf; 8 all NaN
static void setWeights(ParticleSet& p, long prof) {
    const long N = p.components;
    for (long i = 0; i < N; ++i) {
        double w;
        switch (prof) {
            case 0: w = -std::log(double(N)); break;
            case 1: w = std::log((i == 0) ? (N > 1 ? 0.5 : 1.0) : 0.5 / double(N - 1)); break;
            case 2: w = -std::numeric_limits<double>::infinity(); break;
            case 3: w = -800.0 - i; break;
            case 4: w = std::log(0.5 / double(N)); break;
            case 5: w = std::log(1e-6); break;
            case 6: w = 0.0; break;
            case 7: w = (i == N / 2) ? -std::log(double(N)) : -std::numeric_limits<double>::infinity(); break;
            case 8: w = std::numeric_limits<double>::quiet_NaN(); break;
            default: throw vh::BadArgs("profile");
        }
        p.weight(i) = w;
    }
}
static std::string rs(Toks& t) {
    long N = t.nat(), dl = t.nat(), dc = t.nat(); bool quat = t.flag();
    long rN = t.nat(), rl = t.nat(), rc = t.nat(); bool rq = t.flag(); long plen = t.nat(), prof = t.nat(); t.done();
    ParticleSet cor(N, dl, dc, quat), res(rN, rl, rc, rq); fillPS(cor); setWeights(cor, prof);
    VectorXi par = VectorXi::Constant(plen, -7);
    Resampling r(3 + prof);
    r.resample(cor, res, par);
    long unwritten = 0, bad = 0;
    for (long i = 0; i < par.size(); ++i) { if (par(i) == -7) ++unwritten; else if (par(i) < 0 || par(i) >= N) ++bad; }
    Out o; o.s("ok").n(res.components).s(shpT(res.state())).n(unwritten).n(bad);
    return o.str();
}
static std::string rwp(Toks& t) {
    long N = t.nat(), rnum = t.nat(), rden = t.nat(), dl = t.nat(), dc = t.nat(); bool quat = t.flag();
    long nx = t.nat(), ny = t.nat(), plen = t.nat(), prof = t.nat(); t.done();
    ParticleSet cor(N, dl, dc, quat), res(1, 1); fillPS(cor); setWeights(cor, prof);
    VectorXi par = VectorXi::Constant(plen, -7);
    ResamplingWithPrior r(std::unique_ptr<ParticleSetInitialization>(new InitSurveillanceAreaGrid(10.0, 20.0, nx, ny)), double(rnum) / double(rden), 3);
    r.resample(cor, res, par);
    long unwritten = 0, minus1 = 0, bad = 0;
    for (long i = 0; i < par.size(); ++i) { if (par(i) == -7) ++unwritten; else if (par(i) == -1) ++minus1; else if (par(i) < 0 || par(i) >= N) ++bad; }
    Out o; o.s("ok").n(res.components).s(shpT(res.state())).s(shpT(res.mean())).s(shpT(res.covariance())).n(res.weight().size()).n(unwritten).n(minus1).n(bad);
    return o.str();
}

// ---------------------------------------------------------------- EstimatesExtraction
struct XExtract : public EstimatesExtraction {
    using EstimatesExtraction::EstimatesExtraction;
    VectorXd xmean(const MatrixXd& p, const VectorXd& w) const { return mean(p, w); }
    VectorXd xmode(const MatrixXd& p, const VectorXd& w) const { return mode(p, w); }
    VectorXd xmap(const MatrixXd& p, const VectorXd& pw, const VectorXd& l, const MatrixXd& tp) const { return map(p, pw, l, tp); }
};
static EstimatesExtraction::ExtractionMethod emeth(long m) {
    typedef EstimatesExtraction::ExtractionMethod E;
    static const E all[12] = {E::mean, E::smean, E::wmean, E::emean, E::mode, E::smode, E::wmode, E::emode, E::map, E::smap, E::wmap, E::emap};
    if (m < 0 || m >= 12) throw vh::BadArgs("method");
    return all[m];
}
// ee ls cs method full prow pcol wlen pwlen llen tpr tpc reps window
static std::string ee(Toks& t) {
    long ls = t.nat(), cs = t.nat(), method = t.nat(); bool full = t.flag();
    long prow = t.nat(), pcol = t.nat(), wlen = t.nat(), pwlen = t.nat(), llen = t.nat(), tpr = t.nat(), tpc = t.nat(), reps = t.nat(), window = t.nat(); t.done();
    XExtract e(ls, cs);
    e.setMethod(emeth(method));
    if (window > 0) e.setMobileAverageWindowSize(window);
    MatrixXd P = fillm(prow, pcol);
    VectorXd w = VectorXd::Constant(wlen, wlen > 0 ? -std::log(double(wlen)) : 0.0);
    if (wlen > 0) w(wlen - 1) += 0.125;   // the largest weight is the last one (extreme index for mode())
    VectorXd pw = VectorXd::Constant(pwlen, pwlen > 0 ? -std::log(double(pwlen)) : 0.0);
    VectorXd l = VectorXd::Constant(llen, 0.5);
    MatrixXd tp = MatrixXd::Constant(tpr, tpc, 0.25);
    Out o; o.s("ok");
    for (long i = 0; i < reps; ++i) {
        std::pair<bool, VectorXd> r = full ? e.extract(P, w, pw, l, tp) : e.extract(P, w);
        o.s(std::to_string(r.first ? 1 : 0) + ":" + std::to_string(r.second.size()));
    }
    return o.str();
}
static std::string eefn(Toks& t) {
    long ls = t.nat(), cs = t.nat(); std::string fn = t.tok();
    long prow = t.nat(), pcol = t.nat(), wlen = t.nat(), llen = t.nat(), tpr = t.nat(), tpc = t.nat(); t.done();
    XExtract e(ls, cs);
    MatrixXd P = fillm(prow, pcol);
    VectorXd w = VectorXd::Constant(wlen, wlen > 0 ? -std::log(double(wlen)) : 0.0);
    if (wlen > 0) w(wlen - 1) += 0.125;   // the largest weight is the last one (extreme index for mode())
    VectorXd l = VectorXd::Constant(llen, 0.5);
    MatrixXd tp = MatrixXd::Constant(tpr, tpc, 0.25);
    VectorXd r;
    if (fn == "mean") r = e.xmean(P, w);
    else if (fn == "mode") r = e.xmode(P, w);
    else if (fn == "map") r = e.xmap(P, w, l, tp);
    else throw vh::BadArgs("fn");
    Out o; o.s("ok").n(r.size());
    return o.str();
}

// ---------------------------------------------------------------- object lifetime (moved std::function capturing `this`)
struct XLik : public LikelihoodModel {
    std::pair<bool, VectorXd> likelihood(const MeasurementModel&, const Ref<const MatrixXd>& s) override { return std::make_pair(true, VectorXd::Constant(s.cols(), 0.5)); }
};
struct XGPF : public GPFCorrection {
    using GPFCorrection::GPFCorrection;
    VectorXd sample(const VectorXd& m, const MatrixXd& c) { return sampleFromProposal(m, c); }
};
static std::unique_ptr<XGPF> mkGPF(long n) {
    std::unique_ptr<XLin> m(new XLin(fillm(1, n, 1.0), spd(1, 0.3), 1));
    std::unique_ptr<GaussianCorrection> kf(new KFCorrection(std::unique_ptr<LinearMeasurementModel>(std::move(m))));
    std::unique_ptr<StateModel> sm(new XState(spd(n, 1.0), spd(n, 0.2), VectorDescription(n)));
    return std::unique_ptr<XGPF>(new XGPF(std::unique_ptr<LikelihoodModel>(new XLik()), std::move(kf), std::move(sm)));
}
// gpfmove mode n : 0 = use the original; 1 = move-construct a freshly built object (source kept alive);
//   2..4 build the source in zero-initialised storage (so that its never-initialised `valid_likelihood_` is a valid bool):
//   2 = move-construct, source kept alive; 3 = move-construct, source destroyed and freed; 4 = move-assign, source destroyed and freed
static XGPF* mkGPFz(long n) {
    void* mem = std::calloc(1, sizeof(XGPF));
    std::unique_ptr<XLin> m(new XLin(fillm(1, n, 1.0), spd(1, 0.3), 1));
    std::unique_ptr<GaussianCorrection> kf(new KFCorrection(std::unique_ptr<LinearMeasurementModel>(std::move(m))));
    std::unique_ptr<StateModel> sm(new XState(spd(n, 1.0), spd(n, 0.2), VectorDescription(n)));
    return new (mem) XGPF(std::unique_ptr<LikelihoodModel>(new XLik()), std::move(kf), std::move(sm));
}
static void delGPFz(XGPF* p) { p->~XGPF(); std::free(p); }
static std::string gpfmove(Toks& t) {
    long mode = t.nat(), n = t.nat(); t.done();
    VectorXd mean = fillm(n, 1); MatrixXd cov = spd(n, 0.5);
    VectorXd s;
    if (mode == 0) { std::unique_ptr<XGPF> a = mkGPF(n); s = a->sample(mean, cov); }
    else if (mode == 1) { std::unique_ptr<XGPF> a = mkGPF(n); XGPF b(std::move(*a)); s = b.sample(mean, cov); }
    else if (mode == 2) { XGPF* a = mkGPFz(n); { XGPF b(std::move(*a)); s = b.sample(mean, cov); } delGPFz(a); }
    else if (mode == 3) { XGPF* a = mkGPFz(n); XGPF b(std::move(*a)); delGPFz(a); s = b.sample(mean, cov); }
    else if (mode == 4) { XGPF* a = mkGPFz(n); XGPF* b = mkGPFz(n); *b = std::move(*a); delGPFz(a); s = b->sample(mean, cov); delGPFz(b); }
    else throw vh::BadArgs("mode");
    Out o; o.s("ok").n(s.size());
    return o.str();
}
// GPF sampling step with a quaternion / euler layout: sampleFromProposal(mean(dim), covariance(dim_covariance))
static std::string gpfsample(Toks& t) {
    long msize = t.nat(), csize = t.nat(); t.done();
    std::unique_ptr<XGPF> a = mkGPF(2);
    VectorXd s = a->sample(fillm(msize, 1), spd(csize, 0.5));
    Out o; o.s("ok").n(s.size());
    return o.str();
}

// ---------------------------------------------------------------- predictions, particle-filter steps (deepening round)
// exogenous input u(x) = 0.5 x: the output Ref must be shaped like the input
struct XExo : public ExogenousModel {
    void propagate(const Ref<const MatrixXd>& cur, Ref<MatrixXd> prop) override { prop = 0.5 * cur; }
    bool setProperty(const std::string&) override { return false; }
    VectorDescription getStateDescription() const override { return VectorDescription(1); }
};
// a generic (non-additive) state model: motion accepts any input rows (state + noise) and fills whatever it is given
struct XGen : public StateModel {
    XGen(const VectorDescription& d, long q, long inoise) : d_(d), q_(q), inoise_(inoise) {}
    void propagate(const Ref<const MatrixXd>& cur, Ref<MatrixXd> prop) override { motion(cur, prop); }
    void motion(const Ref<const MatrixXd>& cur, Ref<MatrixXd> mot) override {
        for (long j = 0; j < mot.cols(); ++j) for (long i = 0; i < mot.rows(); ++i)
            mot(i, j) = 0.2 * std::sin(1.0 + i + 0.5 * j) + ((i < cur.rows() && j < cur.cols()) ? 0.5 * cur(i, j) : 0.0);
        if (d_.circular_type == VectorDescription::CircularType::Quaternion)
            for (long j = 0; j < mot.cols(); ++j) for (std::size_t c = 0; c < d_.circular_components(); ++c) {
                long r = d_.linear_size() + 4 * c; if (r + 4 <= mot.rows()) mot.col(j).segment(r, 4) << 1.0, 0.0, 0.0, 0.0; }
    }
    bool setProperty(const std::string&) override { return false; }
    VectorDescription getStateDescription() override { return d_; }
    VectorDescription getInputDescription() override { VectorDescription i = d_; i.add_noise_components(inoise_); return i; }
    MatrixXd getNoiseCovarianceMatrix() override { return spd(q_, 0.2); }
    VectorDescription d_; long q_, inoise_;
};
// b_linprop fn sr num pr pc skipS hasExo skipE : LinearStateModel::propagate, every skip / exogenous branch
static std::string linprop(Toks& t) {
    long fn = t.nat(), sr = t.nat(), num = t.nat(), pr = t.nat(), pc = t.nat(); bool skipS = t.flag(), hasExo = t.flag(), skipE = t.flag(); t.done();
    XState sm(spd(fn, 1.0), spd(fn, 0.2), VectorDescription(fn));
    if (hasExo) sm.add_exogenous_model(std::unique_ptr<ExogenousModel>(new XExo()));
    sm.skip("state", skipS);
    if (hasExo) sm.skip("exogenous", skipE);
    MatrixXd cur = fillm(sr, num), prop = MatrixXd::Constant(pr, pc, 77.0);
    sm.propagate(cur, prop);
    long untouched = 0; for (long j = 0; j < pc; ++j) for (long i = 0; i < pr; ++i) if (prop(i, j) == 77.0) ++untouched;
    Out o; o.s("ok").s(shp(prop)).n(untouched == pr * pc && pr * pc > 0 ? 0 : 1);
    return o.str();
}
static void outPS(Out& o, const ParticleSet& p) { outGMshape(o, p); o.s(shpT(p.state())); }
// b_kfp K dl dc q pK pl pc pq fn skip exo alias : KFPrediction::predict (skip: 0 none, 1 "prediction", 2 "state", 3 "exogenous")
static std::string kfp(Toks& t) {
    long K = t.nat(), dl = t.nat(), dc = t.nat(); bool q = t.flag(); long pK = t.nat(), pl = t.nat(), pc = t.nat(); bool pq = t.flag();
    long fn = t.nat(), skip = t.nat(); bool exo = t.flag(), alias = t.flag(); t.done();
    std::unique_ptr<XState> sm(new XState(spd(fn, 1.0), spd(fn, 0.2), VectorDescription(fn)));
    if (exo) sm->add_exogenous_model(std::unique_ptr<ExogenousModel>(new XExo()));
    KFPrediction p(std::unique_ptr<LinearStateModel>(std::move(sm)));
    if (skip == 1) p.skip("prediction", true);
    else if (skip == 2) p.skip("state", true);
    else if (skip == 3 && exo) p.skip("exogenous", true);
    GaussianMixture prev = mkGM(K, dl, dc, q, 0), pred(pK, pl, pc, pq);
    if (alias) p.predict(prev, prev); else p.predict(prev, pred);
    Out o; o.s("ok"); outGMshape(o, alias ? prev : pred);
    return o.str();
}
// b_ukfp kind K dl dc q  n qn sl sc sq inoise skip : UKFPrediction::predict, kind 0 generic StateModel, 1 AdditiveStateModel
static std::string ukfp(Toks& t) {
    long kind = t.nat(), K = t.nat(), dl = t.nat(), dc = t.nat(); bool q = t.flag();
    long n = t.nat(), qn = t.nat(), sl = t.nat(), sc = t.nat(); bool sq = t.flag(); long inoise = t.nat(); bool skip = t.flag(); t.done();
    VectorDescription d = vdesc(sl, sc, 0, sq);
    std::unique_ptr<UKFPrediction> p;
    if (kind == 0) p.reset(new UKFPrediction(std::unique_ptr<StateModel>(new XGen(d, qn, inoise)), 1.0, 2.0, 0.0));
    else p.reset(new UKFPrediction(std::unique_ptr<AdditiveStateModel>(new XState(spd(n, 1.0), spd(qn, 0.2), d)), 1.0, 2.0, 0.0));
    if (skip) p->skip("prediction", true);
    GaussianMixture prev = mkGM(K, dl, dc, q, 0), pred(1, 1);
    p->predict(prev, pred);
    Out o; o.s("ok"); outGMshape(o, pred);
    return o.str();
}
// b_gpfp K dl dc q pK pl pc pq fn : GPFPrediction over a KFPrediction
static std::string gpfp(Toks& t) {
    long K = t.nat(), dl = t.nat(), dc = t.nat(); bool q = t.flag(); long pK = t.nat(), pl = t.nat(), pc = t.nat(); bool pq = t.flag(); long fn = t.nat(); t.done();
    std::unique_ptr<GaussianPrediction> kf(new KFPrediction(std::unique_ptr<LinearStateModel>(new XState(spd(fn, 1.0), spd(fn, 0.2), VectorDescription(fn)))));
    GPFPrediction p(std::move(kf));
    ParticleSet prev(K, dl, dc, q), pred(pK, pl, pc, pq); fillPS(prev);
    p.predict(prev, pred);
    Out o; o.s("ok"); outPS(o, pred);
    return o.str();
}
// b_draw d N dl dc q pN pl pc pq exo : DrawParticles over WhiteNoiseAcceleration (exo: two-argument constructor)
static std::string draw(Toks& t) {
    long d = t.nat(), N = t.nat(), dl = t.nat(), dc = t.nat(); bool q = t.flag(); long pN = t.nat(), pl = t.nat(), pc = t.nat(); bool pq = t.flag(); bool exo = t.flag(); t.done();
    std::unique_ptr<StateModel> sm(new WhiteNoiseAcceleration(wdim(d), 1.0, 1.0));
    std::unique_ptr<DrawParticles> p;
    if (exo) p.reset(new DrawParticles(std::move(sm), std::unique_ptr<ExogenousModel>(new XExo())));
    else p.reset(new DrawParticles(std::move(sm)));
    ParticleSet prev(N, dl, dc, q), pred(pN, pl, pc, pq); fillPS(prev);
    p->predict(prev, pred);
    Out o; o.s("ok"); outPS(o, pred);
    return o.str();
}
// b_glik N sr <meas> : GaussianLikelihood::likelihood on sr x N states
static std::string glik(Toks& t) {
    long N = t.nat(), sr = t.nat(); std::unique_ptr<XMeas> m = readMeas(t); t.done();
    GaussianLikelihood gl; LikelihoodModel& l = gl;
    std::pair<bool, VectorXd> r = l.likelihood(*m, fillm(sr, N));
    Out o; o.s("ok").n(r.first).n(r.second.size());
    return o.str();
}
// b_boot N dl dc q cN cl cc cq alias <meas> : BootstrapCorrection::correct, getLikelihood twice
static std::string boot(Toks& t) {
    long N = t.nat(), dl = t.nat(), dc = t.nat(); bool q = t.flag(); long cN = t.nat(), cl = t.nat(), cc = t.nat(); bool cq = t.flag(); bool alias = t.flag();
    std::unique_ptr<XMeas> m = readMeas(t); t.done();
    BootstrapCorrection c(std::unique_ptr<MeasurementModel>(std::move(m)), std::unique_ptr<LikelihoodModel>(new GaussianLikelihood()));
    ParticleSet pred(N, dl, dc, q), cor(cN, cl, cc, cq); fillPS(pred);
    if (alias) c.correct(pred, pred); else c.correct(pred, cor);
    std::pair<bool, VectorXd> l1 = c.getLikelihood(), l2 = c.getLikelihood();
    Out o; o.s("ok"); outPS(o, alias ? pred : cor); o.n(l1.first).n(l1.second.size()).n((l1.first == l2.first && l1.second.size() == l2.second.size()) ? 1 : 0);
    return o.str();
}
// b_gpfc d N cN hm ysize mvalid alias : GPFCorrection::correct with KFCorrection + GaussianLikelihood + WhiteNoiseAcceleration
static std::string gpfc(Toks& t) {
    long d = t.nat(), N = t.nat(), cN = t.nat(), hm = t.nat(), ysize = t.nat(); bool mvalid = t.flag(), alias = t.flag(); t.done();
    long n = 2 * d;
    std::unique_ptr<XLin> m(new XLin(fillm(hm, n, 1.0), spd(hm, 0.3), ysize)); m->mvalid = mvalid;
    std::unique_ptr<GaussianCorrection> kf(new KFCorrection(std::unique_ptr<LinearMeasurementModel>(std::move(m))));
    GPFCorrection c(std::unique_ptr<LikelihoodModel>(new GaussianLikelihood()), std::move(kf), std::unique_ptr<StateModel>(new WhiteNoiseAcceleration(wdim(d), 1.0, 1.0)));
    ParticleSet pred(N, n), cor(cN, n); fillPS(pred);
    if (alias) c.correct(pred, pred); else c.correct(pred, cor);
    std::pair<bool, VectorXd> l = c.getLikelihood();
    Out o; o.s("ok"); outPS(o, alias ? pred : cor); o.n(l.first).n(l.second.size());
    return o.str();
}
// b_sis N lin circ d nx ny hm steps : the real SIS filter (thread, boot/run/wait) for `steps` filtering steps
struct XSIS : public SIS {
    using SIS::SIS;
    long steps = 0, done = 0;
    bool run_condition() override { return done < steps; }
    void filtering_step() override { SIS::filtering_step(); ++done; }
    bool predSkipping() { return prediction().is_skipping(); }
    const ParticleSet& predP() const { return pred_particle_; }
    const ParticleSet& corP() const { return cor_particle_; }
};
static std::string sis(Toks& t) {
    long N = t.nat(), lin = t.nat(), circ = t.nat(), d = t.nat(), nx = t.nat(), ny = t.nat(), hm = t.nat(), steps = t.nat(); t.done();
    long n = lin + circ;
    std::unique_ptr<XLin> m(new XLin(fillm(hm, n, 1.0), spd(hm, 0.3), hm));
    std::unique_ptr<PFCorrection> cor(new BootstrapCorrection(std::unique_ptr<MeasurementModel>(std::move(m)), std::unique_ptr<LikelihoodModel>(new GaussianLikelihood())));
    std::unique_ptr<PFPrediction> pre(new DrawParticles(std::unique_ptr<StateModel>(new WhiteNoiseAcceleration(wdim(d), 1.0, 1.0))));
    XSIS f(N, lin, circ, std::unique_ptr<ParticleSetInitialization>(new InitSurveillanceAreaGrid(10.0, 20.0, nx, ny)), std::move(pre), std::move(cor),
           std::unique_ptr<Resampling>(new Resampling(5)));
    f.steps = steps;
    f.boot(); f.run(); f.wait();
    Out o; o.s("ok").n(f.done); outPS(o, f.predP()); outPS(o, f.corP());
    return o.str();
}

// "a failed call after a successful one, then every getter", on ONE object:
// b_bootseq dl dc q <meas> n (N mv pv iv)*
static std::string bootseq(Toks& t) {
    long dl = t.nat(), dc = t.nat(); bool q = t.flag(); std::unique_ptr<XMeas> m = readMeas(t);
    long n = t.nat(); std::vector<long> N(n); std::vector<bool> mv(n), pv(n), iv(n);
    for (long i = 0; i < n; ++i) { N[i] = t.nat(); mv[i] = t.flag(); pv[i] = t.flag(); iv[i] = t.flag(); }
    t.done();
    XMeas* mp = m.get();
    BootstrapCorrection c(std::unique_ptr<MeasurementModel>(std::move(m)), std::unique_ptr<LikelihoodModel>(new GaussianLikelihood()));
    Out o; o.s("ok");
    for (long i = 0; i < n; ++i) {
        mp->mvalid = mv[i]; mp->pvalid = pv[i]; mp->ivalid = iv[i];
        ParticleSet pred(N[i], dl, dc, q), cor(N[i], dl, dc, q); fillPS(pred);
        c.correct(pred, cor);
        std::pair<bool, VectorXd> l1 = c.getLikelihood(), l2 = c.getLikelihood();
        const bool same = l1.first == l2.first && l1.second.size() == l2.second.size();
        o.s(std::to_string(cor.components) + ":" + (l1.first ? "1" : "0") + ":" + std::to_string(same ? l1.second.size() : -1));
    }
    return o.str();
}
// b_gpfcseq d hm n (N mv)*
static std::string gpfcseq(Toks& t) {
    long d = t.nat(), hm = t.nat(), n = t.nat(); std::vector<long> N(n); std::vector<bool> mv(n);
    for (long i = 0; i < n; ++i) { N[i] = t.nat(); mv[i] = t.flag(); }
    t.done();
    const long dim = 2 * d;
    XLin* lp = new XLin(fillm(hm, dim, 1.0), spd(hm, 0.3), hm);
    std::unique_ptr<GaussianCorrection> kf(new KFCorrection(std::unique_ptr<LinearMeasurementModel>(lp)));
    GPFCorrection c(std::unique_ptr<LikelihoodModel>(new GaussianLikelihood()), std::move(kf), std::unique_ptr<StateModel>(new WhiteNoiseAcceleration(wdim(d), 1.0, 1.0)));
    Out o; o.s("ok");
    for (long i = 0; i < n; ++i) {
        lp->mvalid = mv[i];
        ParticleSet pred(N[i], dim), cor(N[i], dim); fillPS(pred);
        c.correct(pred, cor);
        std::pair<bool, VectorXd> l1 = c.getLikelihood(), l2 = c.getLikelihood();
        const bool same = l1.first == l2.first && l1.second.size() == l2.second.size();
        o.s(std::to_string(cor.components) + ":" + (l1.first ? "1" : "0") + ":" + std::to_string(same ? l1.second.size() : -1));
    }
    return o.str();
}
// b_eeseq ls cs N n (method full)* : one EstimatesExtraction object, method changed between calls, getInfo() after each
static std::string eeseq(Toks& t) {
    long ls = t.nat(), cs = t.nat(), N = t.nat(), n = t.nat(); std::vector<long> meth(n); std::vector<bool> full(n);
    for (long i = 0; i < n; ++i) { meth[i] = t.nat(); full[i] = t.flag(); }
    t.done();
    XExtract e(ls, cs);
    MatrixXd P = fillm(ls + cs, N);
    VectorXd w = VectorXd::Constant(N, N > 0 ? -std::log(double(N)) : 0.0); if (N > 0) w(N - 1) += 0.125;
    VectorXd l = VectorXd::Constant(N, 0.5); MatrixXd tp = MatrixXd::Constant(N, N, 0.25);
    Out o; o.s("ok");
    for (long i = 0; i < n; ++i) {
        e.setMethod(emeth(meth[i]));
        std::pair<bool, VectorXd> r = full[i] ? e.extract(P, w, w, l, tp) : e.extract(P, w);
        std::vector<std::string> info = e.getInfo(), info2 = e.getInfo();
        o.s(std::to_string(r.first ? 1 : 0) + ":" + std::to_string(info == info2 ? r.second.size() : -1));
    }
    return o.str();
}

// ---------------------------------------------------------------- hand-over between objects of DIFFERENT configuration
// b_handover cls kind A1 A2 B1 B2 N : object A (configuration a) and object B (configuration b) are both used once; then
//   kind 0: A = std::move(B) (move assignment), kind 1: C(std::move(B)) (move construction), [cls 12-14: 2 copy assignment, 3 copy construction];
//   the receiving object is then used with B's sizes and must behave as B.  The source is destroyed before the use.
static std::unique_ptr<XState> mkX(long n) { return std::unique_ptr<XState>(new XState(spd(n, 1.0), spd(n, 0.2), VectorDescription(n))); }
template <class T> static void useGP(T& p, long n, long K, Out* o) {
    GaussianMixture prev = mkGM(K, n, 0, false, 0), pred(K, n); p.predict(prev, pred); if (o) outGMshape(*o, pred);
}
static std::unique_ptr<XMeas> mkMeas(long sr, long m) {
    std::unique_ptr<XMeas> x(new XMeas()); x->in_ = vdesc(sr, 0, m, false); x->out_ = vdesc(m, 0, 0, false);
    x->prows = m; x->irows = m; x->ysize = m; x->R = spd(m, 0.3); return x;
}
// what getInfo() says: (index of the method in use, window size)
static std::pair<long, long> eeInfo(const EstimatesExtraction& e) {
    std::vector<std::string> info = e.getInfo();
    if (info.size() != 2) return std::make_pair(-1L, -1L);
    long window = -1; std::sscanf(info[0].c_str(), "<| Current window size: %ld", &window);
    static const char* names[12] = {"1) mean <--", "2) smean <--", "3) wmean <--", "4) emean <--", "5) mode <--", "6) smode <--", "7) wmode <--", "8) emode <--", "9) map <--", "10) smap <--", "11) wmap <--", "12) emap <--"};
    long m = -1; int hits = 0;
    for (long i = 0; i < 12; ++i) if (info[1].find(names[i]) != std::string::npos) { m = i; ++hits; }
    return std::make_pair(hits == 1 ? m : -1L, window);
}
// x = std::move(x) through a second reference (no -Wself-move): the guards `if (this == &other) return *this;`
template <class T> static void selfMove(T& x) { T& y = x; x = std::move(y); }
static std::string handover(Toks& t) {
    long cls = t.nat(), kind = t.nat(), A1 = t.nat(), A2 = t.nat(), B1 = t.nat(), B2 = t.nat(), N = t.nat(); t.done();
    Out o; o.s("ok");
    // kind 4: B (used once) is move-assigned to ITSELF, then used with its own sizes: must behave as the configured original
    const bool self = (kind == 4);
    if (cls == 0) {            // KFPrediction
        std::unique_ptr<KFPrediction> a(new KFPrediction(mkX(A1))), b(new KFPrediction(mkX(B1)));
        useGP(*a, A1, 1, nullptr); useGP(*b, B1, 1, nullptr);
        if (self) { selfMove(*b); useGP(*b, B1, N, &o); }
        else if (kind == 0) { *a = std::move(*b); b.reset(); useGP(*a, B1, N, &o); } else { KFPrediction c(std::move(*b)); b.reset(); useGP(c, B1, N, &o); }
    } else if (cls == 1) {     // UKFPrediction (additive)
        typedef std::unique_ptr<AdditiveStateModel> AP;
        std::unique_ptr<UKFPrediction> a(new UKFPrediction(AP(mkX(A1)), 1.0, 2.0, 0.0)), b(new UKFPrediction(AP(mkX(B1)), 1.0, 2.0, 0.0));
        useGP(*a, A1, 1, nullptr); useGP(*b, B1, 1, nullptr);
        if (self) { selfMove(*b); useGP(*b, B1, N, &o); }
        else if (kind == 0) { *a = std::move(*b); b.reset(); useGP(*a, B1, N, &o); } else { UKFPrediction c(std::move(*b)); b.reset(); useGP(c, B1, N, &o); }
    } else if (cls == 2 || cls == 3) {   // GPFPrediction over KFPrediction / DrawParticles over WhiteNoiseAcceleration
        std::unique_ptr<PFPrediction> a, b;
        const long na = cls == 2 ? A1 : 2 * A1, nb = cls == 2 ? B1 : 2 * B1;
        if (cls == 2) { a.reset(new GPFPrediction(std::unique_ptr<GaussianPrediction>(new KFPrediction(mkX(A1))))); b.reset(new GPFPrediction(std::unique_ptr<GaussianPrediction>(new KFPrediction(mkX(B1))))); }
        else { a.reset(new DrawParticles(std::unique_ptr<StateModel>(new WhiteNoiseAcceleration(wdim(A1), 1.0, 1.0)))); b.reset(new DrawParticles(std::unique_ptr<StateModel>(new WhiteNoiseAcceleration(wdim(B1), 1.0, 1.0)))); }
        { ParticleSet x(1, na), y(1, na); fillPS(x); a->predict(x, y); } { ParticleSet x(1, nb), y(1, nb); fillPS(x); b->predict(x, y); }
        ParticleSet prev(N, nb), pred(N, nb); fillPS(prev);
        if (cls == 2) { GPFPrediction* pa = static_cast<GPFPrediction*>(a.get()); GPFPrediction* pb = static_cast<GPFPrediction*>(b.get());
            if (self) { selfMove(*pb); pb->predict(prev, pred); }
            else if (kind == 0) { *pa = std::move(*pb); b.reset(); pa->predict(prev, pred); } else { GPFPrediction c(std::move(*pb)); b.reset(); c.predict(prev, pred); } }
        else { DrawParticles* pa = static_cast<DrawParticles*>(a.get()); DrawParticles* pb = static_cast<DrawParticles*>(b.get());
            if (self) { selfMove(*pb); pb->predict(prev, pred); }
            else if (kind == 0) { *pa = std::move(*pb); b.reset(); pa->predict(prev, pred); } else { DrawParticles c(std::move(*pb)); b.reset(); c.predict(prev, pred); } }
        outPS(o, pred);
    } else if (cls == 4) {     // BootstrapCorrection
        typedef std::unique_ptr<MeasurementModel> MP; typedef std::unique_ptr<LikelihoodModel> LP;
        std::unique_ptr<BootstrapCorrection> a(new BootstrapCorrection(MP(mkMeas(A1, A2)), LP(new GaussianLikelihood()))), b(new BootstrapCorrection(MP(mkMeas(B1, B2)), LP(new GaussianLikelihood())));
        { ParticleSet x(2, A1), y(2, A1); fillPS(x); a->correct(x, y); } { ParticleSet x(3, B1), y(3, B1); fillPS(x); b->correct(x, y); }
        ParticleSet pred(N, B1), cor(N, B1); fillPS(pred);
        std::pair<bool, VectorXd> l;
        if (self) { selfMove(*b); b->correct(pred, cor); l = b->getLikelihood(); }
        else if (kind == 0) { *a = std::move(*b); b.reset(); a->correct(pred, cor); l = a->getLikelihood(); } else { BootstrapCorrection c(std::move(*b)); b.reset(); c.correct(pred, cor); l = c.getLikelihood(); }
        outPS(o, cor); o.n(l.first).n(l.second.size()).n(1);
    } else if (cls == 5) {     // GPFCorrection
        struct Mk { static GPFCorrection* go(long d, long hm) {
            std::unique_ptr<GaussianCorrection> kf(new KFCorrection(std::unique_ptr<LinearMeasurementModel>(new XLin(fillm(hm, 2 * d, 1.0), spd(hm, 0.3), hm))));
            return new GPFCorrection(std::unique_ptr<LikelihoodModel>(new GaussianLikelihood()), std::move(kf), std::unique_ptr<StateModel>(new WhiteNoiseAcceleration(wdim(d), 1.0, 1.0))); } };
        std::unique_ptr<GPFCorrection> a(Mk::go(A1, A2)), b(Mk::go(B1, B2));
        { ParticleSet x(2, 2 * A1), y(2, 2 * A1); fillPS(x); a->correct(x, y); } { ParticleSet x(3, 2 * B1), y(3, 2 * B1); fillPS(x); b->correct(x, y); }
        ParticleSet pred(N, 2 * B1), cor(N, 2 * B1); fillPS(pred);
        std::pair<bool, VectorXd> l;
        if (self) { selfMove(*b); b->correct(pred, cor); l = b->getLikelihood(); }
        else if (kind == 0) { *a = std::move(*b); b.reset(); a->correct(pred, cor); l = a->getLikelihood(); } else { GPFCorrection c(std::move(*b)); b.reset(); c.correct(pred, cor); l = c.getLikelihood(); }
        outPS(o, cor); o.n(l.first).n(l.second.size());
    } else if (cls == 6) {     // ResamplingWithPrior: grid A1 x 1 / B1 x 1, prior ratio A2/10 / B2/10
        typedef std::unique_ptr<ParticleSetInitialization> IP;
        std::unique_ptr<ResamplingWithPrior> a(new ResamplingWithPrior(IP(new InitSurveillanceAreaGrid(10.0, 20.0, A1, 1)), A2 / 10.0, 3)), b(new ResamplingWithPrior(IP(new InitSurveillanceAreaGrid(10.0, 20.0, B1, 1)), B2 / 10.0, 4));
        ParticleSet cor(N, 4), res(1, 1); fillPS(cor); VectorXi par = VectorXi::Constant(N, -7);
        if (self) { selfMove(*b); b->resample(cor, res, par); }
        else if (kind == 0) { *a = std::move(*b); b.reset(); a->resample(cor, res, par); } else { ResamplingWithPrior c(std::move(*b)); b.reset(); c.resample(cor, res, par); }
        long unwritten = 0, minus1 = 0, bad = 0;
        for (long i = 0; i < par.size(); ++i) { if (par(i) == -7) ++unwritten; else if (par(i) == -1) ++minus1; else if (par(i) < 0 || par(i) >= N) ++bad; }
        o.n(res.components).s(shpT(res.state())).s(shpT(res.mean())).s(shpT(res.covariance())).n(res.weight().size()).n(unwritten).n(minus1).n(bad);
    } else if (cls == 7) {     // LTIStateModel
        std::unique_ptr<XState> a = mkX(A1), b = mkX(B1);
        MatrixXd cur = fillm(B1, N), prop = MatrixXd::Constant(B1, N, 77.0);
        if (self) { selfMove(*b); b->propagate(cur, prop); }
        else if (kind == 0) { *a = std::move(*b); b.reset(); a->propagate(cur, prop); } else { XState c(std::move(*b)); b.reset(); c.propagate(cur, prop); }
        o.s(shp(prop)).n(1);
    } else if (cls == 8) {     // EstimatesExtraction, method N, 3 extractions before and 4 after the hand-over, 4 particles
        std::unique_ptr<XExtract> a(new XExtract(A1, A2)), b(new XExtract(B1, B2));
        a->setMethod(emeth(N)); b->setMethod(emeth(N));
        VectorXd w = VectorXd::Constant(4, -std::log(4.0)); w(3) += 0.125; VectorXd l = VectorXd::Constant(4, 0.5); MatrixXd tp = MatrixXd::Constant(4, 4, 0.25);
        MatrixXd Pa = fillm(A1 + A2, 4), Pb = fillm(B1 + B2, 4);
        for (int i = 0; i < 3; ++i) { a->extract(Pa, w, w, l, tp); b->extract(Pb, w, w, l, tp); }
        XExtract* r = a.get(); std::unique_ptr<XExtract> c;
        if (self) { selfMove(*b); r = b.get(); }
        else if (kind == 0) { *a = std::move(*b); b.reset(); } else { c.reset(new XExtract(std::move(*b))); b.reset(); r = c.get(); }
        { std::pair<long, long> i = eeInfo(*r); o.n(i.first).n(i.second); }     // the method in use and the window travel with the object
        for (int i = 0; i < 4; ++i) { std::pair<bool, VectorXd> x = r->extract(Pb, w, w, l, tp); o.s(std::to_string(x.first ? 1 : 0) + ":" + std::to_string(x.second.size())); }
    } else if (cls == 9 || cls == 10 || cls == 11) {   // UKF (additive) / SUKF / KF correction, used once, then move-constructed (the only hand-over they offer)
        std::unique_ptr<GaussianCorrection> b;
        if (cls == 9) b.reset(new UKFCorrection(std::unique_ptr<AdditiveMeasurementModel>(mkMeas(B1, B2)), 1.0, 2.0, 0.0));
        else if (cls == 10) b.reset(new SUKFCorrection(std::unique_ptr<AdditiveMeasurementModel>(mkMeas(B1, B2)), 1.0, 2.0, 0.0, B2, false));
        else b.reset(new KFCorrection(std::unique_ptr<LinearMeasurementModel>(new XLin(fillm(B2, B1, 1.0), spd(B2, 0.3), B2))));
        { GaussianMixture x = mkGM(3, B1, 0, false, 0), y(3, B1); b->correct(x, y); }
        std::unique_ptr<GaussianCorrection> c;
        if (cls == 9) c.reset(new UKFCorrection(std::move(*static_cast<UKFCorrection*>(b.get()))));
        else if (cls == 10) c.reset(new SUKFCorrection(std::move(*static_cast<SUKFCorrection*>(b.get()))));
        else c.reset(new KFCorrection(std::move(*static_cast<KFCorrection*>(b.get()))));
        b.reset();
        std::pair<bool, VectorXd> l0 = c->getLikelihood();
        GaussianMixture pred = mkGM(N, B1, 0, false, 0), corr(N, B1);
        c->correct(pred, corr);
        o.n(l0.first).n(l0.second.size()); outCorr(o, corr, c->getLikelihood());
    } else if (cls == 12 || cls == 13) {   // ParticleSet / GaussianMixture: (K = N + 1, A1 linear, A2 circular) receives (K = N, B1, B2)
        if (cls == 12) {
            ParticleSet a(N + 1, A1, A2), b(N, B1, B2), extra(1, B1, B2); fillPS(a); fillPS(b); fillPS(extra);
            ParticleSet* r = &a; std::unique_ptr<ParticleSet> c;
            if (self) { selfMove(b); r = &b; }
            else if (kind == 0) a = std::move(b); else if (kind == 2) a = b; else if (kind == 1) { c.reset(new ParticleSet(std::move(b))); r = c.get(); } else { c.reset(new ParticleSet(b)); r = c.get(); }
            *r += extra; outPS(o, *r);
        } else {
            GaussianMixture a(N + 1, A1, A2), b(N, B1, B2); fillGM(a); fillGM(b);
            GaussianMixture* r = &a; std::unique_ptr<GaussianMixture> c;
            if (self) { selfMove(b); r = &b; }
            else if (kind == 0) a = std::move(b); else if (kind == 2) a = b; else if (kind == 1) { c.reset(new GaussianMixture(std::move(b))); r = c.get(); } else { c.reset(new GaussianMixture(b)); r = c.get(); }
            bool ok = r->augmentWithNoise(spd(1, 0.1)); o.n(ok); outGMshape(o, *r);
        }
    } else if (cls == 14) {    // Resampling: copy / move construction and assignment
        Resampling a(1), b(9);
        ParticleSet cor(N, B1), res(N, B1); fillPS(cor); VectorXi par = VectorXi::Constant(N, -7);
        if (self) { selfMove(b); b.resample(cor, res, par); }
        else if (kind == 5) {   // Resampling::operator=(const Resampling&&): assignment from a const rvalue, and onto itself
            const Resampling& cb = b; a = static_cast<const Resampling&&>(cb);
            const Resampling& ca = a; a = static_cast<const Resampling&&>(ca);
            a.resample(cor, res, par); }
        else if (kind == 0) { a = std::move(b); a.resample(cor, res, par); } else if (kind == 2) { a = b; a.resample(cor, res, par); }
        else if (kind == 1) { Resampling c(std::move(b)); c.resample(cor, res, par); } else { Resampling c(b); c.resample(cor, res, par); }
        long unwritten = 0, bad = 0; for (long i = 0; i < par.size(); ++i) { if (par(i) == -7) ++unwritten; else if (par(i) < 0 || par(i) >= N) ++bad; }
        o.n(res.components).s(shpT(res.state())).n(unwritten).n(bad);
    } else throw vh::BadArgs("cls");
    return o.str();
}

// ---------------------------------------------------------------- round 4: EstimatesExtraction hand-over language
// b_eehand ls cs N ops… : x<m>_<full> setMethod + extract on particles of the CURRENT state size; w<w> window; c move construction
//   (continue with the new object); S self move; M<ls2>_<cs2>_<w>_<k>_<m> *this = std::move(other) with other = EstimatesExtraction(ls2, cs2),
//   window w (0: default), used k times with method m; T… other = std::move(*this), continue with other
static void eeUse(XExtract& e, long ls, long cs, long N, long m, bool full, Out* o) {
    MatrixXd P = fillm(ls + cs, N);
    VectorXd w = VectorXd::Constant(N, N > 0 ? -std::log(double(N)) : 0.0); if (N > 0) w(N - 1) += 0.125;
    VectorXd l = VectorXd::Constant(N, 0.5); MatrixXd tp = MatrixXd::Constant(N, N, 0.25);
    e.setMethod(emeth(m));
    std::pair<bool, VectorXd> r = full ? e.extract(P, w, w, l, tp) : e.extract(P, w);
    if (o) o->s(std::to_string(r.first ? 1 : 0) + ":" + std::to_string(r.second.size()));
}
static std::string eehand(Toks& t) {
    long ls = t.nat(), cs = t.nat(), N = t.nat();
    std::unique_ptr<XExtract> e(new XExtract(ls, cs));
    Out o; o.s("ok");
    long lastm = eeInfo(*e).first;     // the default method
    auto moved = [&]() { std::pair<long, long> i = eeInfo(*e); o.s("m:" + std::to_string(i.second) + (i.first == lastm ? "" : ":method-in-use-changed")); };
    while (!t.empty()) {
        std::string op = t.tok(); char k = op[0];
        if (k == 'x') { long m = 0, f = 0; if (std::sscanf(op.c_str() + 1, "%ld_%ld", &m, &f) != 2) throw vh::BadArgs("eex"); eeUse(*e, ls, cs, N, m, f != 0, &o); lastm = m; }
        else if (k == 'w') { long w = std::strtol(op.c_str() + 1, nullptr, 10); bool r = e->setMobileAverageWindowSize(static_cast<int>(w)); o.s(r ? "w1" : "w0"); }
        else if (k == 'c') { std::unique_ptr<XExtract> c(new XExtract(std::move(*e))); e = std::move(c); moved(); }
        else if (k == 'S') { selfMove(*e); moved(); }
        else if (k == 'M' || k == 'T') {
            long ls2 = 0, cs2 = 0, w = 0, cnt = 0, m = 0;
            if (std::sscanf(op.c_str() + 1, "%ld_%ld_%ld_%ld_%ld", &ls2, &cs2, &w, &cnt, &m) != 5) throw vh::BadArgs("eemove");
            std::unique_ptr<XExtract> other(new XExtract(ls2, cs2));
            if (w > 0) other->setMobileAverageWindowSize(static_cast<int>(w));
            for (long i = 0; i < cnt; ++i) eeUse(*other, ls2, cs2, N, m, true, nullptr);
            if (k == 'M') { if (cnt > 0) lastm = m; else lastm = eeInfo(*other).first; *e = std::move(*other); other.reset(); ls = ls2; cs = cs2; }
            else { *other = std::move(*e); e = std::move(other); }
            moved();
        }
        else throw vh::BadArgs("eeop");
    }
    return o.str();
}

// ---------------------------------------------------------------- round 4: Logger (log_files_ indexed by position)
// b_logger dir cls n k ops… : cls 0 = a Logger subclass naming n files whose log() hands k (1..4) data to logger(); 1 = SimulatedStateModel,
//   2 = SimulatedLinearSensor, 3 = SIS.  e<ok>_<id> enable_log(dir/L<id> [ok = 0: a folder that does not exist], "p"), d disable_log, l log(), q query
struct XLog : public Logger {
    long n = 0, k = 0;
    std::vector<std::string> log_file_names(const std::string& folder, const std::string& prefix) override {
        std::vector<std::string> v; for (long i = 0; i < n; ++i) v.push_back(folder + "/" + prefix + "_f" + std::to_string(i)); return v; }
    void log() override {
        if (k == 1) logger(1.5); else if (k == 2) logger(1.5, 2.5); else if (k == 3) logger(1.5, 2.5, 3.5); else if (k == 4) logger(1.5, 2.5, 3.5, 4.5);
        const XLog& c = *this;
        if (k == 1) c.logger(1.5); else if (k == 2) c.logger(1.5, 2.5); else if (k == 3) c.logger(1.5, 2.5, 3.5); else if (k == 4) c.logger(1.5, 2.5, 3.5, 4.5);
    }
    void call_log() { log(); }
};
struct XSls : public SimulatedLinearSensor {
    using SimulatedLinearSensor::SimulatedLinearSensor;
    void call_log() { log(); }
};
struct XSISlog : public XSIS {
    using XSIS::XSIS;
    void call_log() { log(); }
};
static std::string loggerOp(Toks& t) {
    std::string dir = t.tok(); long cls = t.nat(), n = t.nat(), k = t.nat();
    std::unique_ptr<XLog> x0; std::unique_ptr<XSim> x1; std::unique_ptr<XSls> x2; std::unique_ptr<XSISlog> x3;
    Logger* lg = nullptr;
    if (cls == 0) { if (k < 1 || k > 4) throw vh::BadArgs("data count"); x0.reset(new XLog()); x0->n = n; x0->k = k; lg = x0.get(); }
    else if (cls == 1) { x1.reset(new XSim(std::unique_ptr<StateModel>(new WhiteNoiseAcceleration(wdim(1), 1.0, 1.0)), VectorXd(fillm(2, 1)), 3)); x1->bufferData(); lg = x1.get(); }
    else if (cls == 2) {
        std::unique_ptr<SimulatedStateModel> sm(new SimulatedStateModel(std::unique_ptr<StateModel>(new WhiteNoiseAcceleration(wdim(1), 1.0, 1.0)), VectorXd(fillm(2, 1)), 3));
        x2.reset(new XSls(std::move(sm), std::make_pair(std::size_t(2), std::vector<std::size_t>{0}), spd(1, 0.5))); x2->freeze(); lg = x2.get(); }
    else if (cls == 3) {
        std::unique_ptr<XLin> m(new XLin(fillm(1, 2, 1.0), spd(1, 0.3), 1));
        std::unique_ptr<PFCorrection> cor(new BootstrapCorrection(std::unique_ptr<MeasurementModel>(std::move(m)), std::unique_ptr<LikelihoodModel>(new GaussianLikelihood())));
        std::unique_ptr<PFPrediction> pre(new DrawParticles(std::unique_ptr<StateModel>(new WhiteNoiseAcceleration(wdim(1), 1.0, 1.0))));
        x3.reset(new XSISlog(4, 2, 0, std::unique_ptr<ParticleSetInitialization>(new InitSurveillanceAreaGrid(10.0, 20.0, 2, 2)), std::move(pre), std::move(cor), std::unique_ptr<Resampling>(new Resampling(5))));
        lg = x3.get(); }
    else throw vh::BadArgs("cls");
    Out o; o.s("ok");
    while (!t.empty()) {
        std::string op = t.tok(); char c = op[0];
        if (c == 'e') {
            long ok = 0, id = 0; if (std::sscanf(op.c_str() + 1, "%ld_%ld", &ok, &id) != 2) throw vh::BadArgs("enable");
            std::string folder = dir + (ok ? "/L" : "/missing/L") + std::to_string(id);
            if (ok) ::mkdir(folder.c_str(), 0777);
            bool r = lg->enable_log(folder, "p"); o.s(r ? "e1" : "e0");
        }
        else if (c == 'd') { bool r = lg->disable_log(); o.s(r ? "d1" : "d0"); }
        else if (c == 'l') { if (x0) x0->call_log(); else if (x1) x1->call_log(); else if (x2) x2->call_log(); else x3->call_log(); o.s("l"); }
        else if (c == 'q') {
            std::string f = lg->get_folder_path(), pre = lg->get_file_name_prefix();
            if (f.empty() && pre.empty()) o.s("q_");
            else { std::size_t p = f.find_last_of('L'); o.s((pre == "p" && p != std::string::npos) ? "q" + f.substr(p + 1) : std::string("q?")); }
        }
        else throw vh::BadArgs("logop");
    }
    return o.str();
}

// ---------------------------------------------------------------- round 4: GaussianFilter::skip / ParticleFilter::skip in front of filtering steps
static const char* skipName(long w) {
    static const char* names[6] = {"prediction", "state", "exogenous", "correction", "all", "no-such-step"};
    if (w < 0 || w > 5) throw vh::BadArgs("what"); return names[w];
}
struct XGF : public GaussianFilter {
    XGF(std::unique_ptr<GaussianPrediction> p, std::unique_ptr<GaussianCorrection> c, const GaussianMixture& init) : GaussianFilter(std::move(p), std::move(c)), pred_(init), corr_(init) { }
    bool initialization_step() override { return true; }
    void filtering_step() override {
        prediction().predict(corr_, pred_);
        correction().freeze_measurements();
        correction().correct(pred_, corr_);
        ++done;
    }
    bool run_condition() override { return done < steps; }
    bool predSkipping() { return prediction().is_skipping(); }
    GaussianMixture pred_, corr_; long steps = 0, done = 0;
};
// prints the return value of each skip command and the flags reachable through the public interface afterwards
template <class F> static void skipCmds(F& f, StateModel& sm, bool hasExo, Toks& t, long n, Out& o) {
    for (long i = 0; i < n; ++i) {
        long w = t.nat(); bool b = t.flag();
        try {
            bool r = f.skip(skipName(w), b);
            o.s(std::string(r ? "1" : "0") + ":" + (f.predSkipping() ? "1" : "0") + (sm.is_skipping() ? "1" : "0") + ((hasExo && sm.exogenous_model().is_skipping()) ? "1" : "0"));
        } catch (const std::runtime_error&) { o.s("x"); }
    }
}
// b_gfilter hasExo fn K hm steps n (what status)*
static std::string gfilter(Toks& t) {
    bool hasExo = t.flag(); long fn = t.nat(), K = t.nat(), hm = t.nat(), steps = t.nat(), n = t.nat();
    std::unique_ptr<XState> sm = mkX(fn);
    if (hasExo) sm->add_exogenous_model(std::unique_ptr<ExogenousModel>(new XExo()));
    StateModel* smp = sm.get();
    std::unique_ptr<GaussianPrediction> p(new KFPrediction(std::unique_ptr<LinearStateModel>(std::move(sm))));
    std::unique_ptr<GaussianCorrection> c(new KFCorrection(std::unique_ptr<LinearMeasurementModel>(new XLin(fillm(hm, fn, 1.0), spd(hm, 0.3), hm))));
    XGF f(std::move(p), std::move(c), mkGM(K, fn, 0, false, 0));
    Out o; o.s("ok");
    skipCmds(f, *smp, hasExo, t, n, o); t.done();
    f.steps = steps;
    f.boot(); f.run(); f.wait();
    outGMshape(o, f.corr_);
    return o.str();
}
// b_pfilter hasExo N lin circ d nx ny hm steps n (what status)*
static std::string pfilter(Toks& t) {
    bool hasExo = t.flag(); long N = t.nat(), lin = t.nat(), circ = t.nat(), d = t.nat(), nx = t.nat(), ny = t.nat(), hm = t.nat(), steps = t.nat(), n = t.nat();
    long dim = lin + circ;
    std::unique_ptr<XLin> m(new XLin(fillm(hm, dim, 1.0), spd(hm, 0.3), hm));
    std::unique_ptr<PFCorrection> cor(new BootstrapCorrection(std::unique_ptr<MeasurementModel>(std::move(m)), std::unique_ptr<LikelihoodModel>(new GaussianLikelihood())));
    std::unique_ptr<StateModel> sm(new WhiteNoiseAcceleration(wdim(d), 1.0, 1.0));
    StateModel* smp = sm.get();
    std::unique_ptr<PFPrediction> pre;
    if (hasExo) pre.reset(new DrawParticles(std::move(sm), std::unique_ptr<ExogenousModel>(new XExo()))); else pre.reset(new DrawParticles(std::move(sm)));
    XSIS f(N, lin, circ, std::unique_ptr<ParticleSetInitialization>(new InitSurveillanceAreaGrid(10.0, 20.0, nx, ny)), std::move(pre), std::move(cor), std::unique_ptr<Resampling>(new Resampling(5)));
    Out o; o.s("ok");
    skipCmds(f, *smp, hasExo, t, n, o); t.done();
    f.steps = steps;
    f.boot(); f.run(); f.wait();
    o.n(f.done); outPS(o, f.predP()); outPS(o, f.corP());
    return o.str();
}

// ---------------------------------------------------------------- round 4: default (throwing) virtuals reached through shipped classes
struct XBareMeas : public MeasurementModel {     // provides only what is pure virtual
    bool freeze(const Data&) override { return true; }
    std::pair<bool, Data> measure(const Data&) const override { MatrixXd y = fillm(2, 1, 0.4); return std::make_pair(true, Data(std::move(y))); }
    std::pair<bool, Data> predictedMeasure(const Ref<const MatrixXd>& x) const override { MatrixXd p = fillm(2, x.cols(), 0.3); return std::make_pair(true, Data(std::move(p))); }
    std::pair<bool, Data> innovation(const Data& p, const Data&) const override { MatrixXd pm = any::any_cast<MatrixXd>(p); MatrixXd i = fillm(2, pm.cols(), 0.05); return std::make_pair(true, Data(std::move(i))); }
};
struct XBareCorr : public GaussianCorrection {
    XBareMeas m_;
    MeasurementModel& getMeasurementModel() override { return m_; }
    void correctStep(const GaussianMixture& p, GaussianMixture& c) override { c = p; }
};
struct XLti : public LTIStateModel {             // an LTIStateModel as shipped: only the description is added
    XLti(long n) : LTIStateModel(spd(n, 1.0), spd(n, 0.2)), n_(n) { }
    VectorDescription getStateDescription() override { return VectorDescription(n_); }
    long n_;
};
struct XBareAdd : public AdditiveStateModel {    // an additive model that does not say what its noise covariance is
    void propagate(const Ref<const MatrixXd>& c, Ref<MatrixXd> p) override { p = c; }
    bool setProperty(const std::string&) override { return false; }
    VectorDescription getStateDescription() override { return VectorDescription(2); }
};
// b_defaults which fn sr N
static std::string defaults(Toks& t) {
    long which = t.nat(), fn = t.nat(), sr = t.nat(), N = t.nat(); t.done();
    Out o; o.s("ok");
    if (which == 0) {        // DrawParticles over a plain LTIStateModel: LinearStateModel::propagate, then StateModel::getNoiseSample
        DrawParticles p(std::unique_ptr<StateModel>(new XLti(fn)));
        ParticleSet prev(N, sr), pred(N, sr); fillPS(prev);
        p.predict(prev, pred); o.s("no-throw");
    } else if (which == 1) { XLti m(2); VectorXd v = m.getTransitionProbability(fillm(2, 3), fillm(2, 3)); o.n(v.size()); }
    else if (which == 2) { XLti m(2); MatrixXd v = m.getNoiseSample(3); o.s(shp(v)); }
    else if (which == 3) { WhiteNoiseAcceleration m(wdim(2), 1.0, 1.0); MatrixXd v = m.getJacobian(); o.s(shp(v)); }
    else if (which == 4) { XBareMeas m; if (m.setProperty("anything")) o.s("setProperty-accepted"); GaussianLikelihood gl; LikelihoodModel& lk = gl; std::pair<bool, VectorXd> r = lk.likelihood(m, fillm(3, 2)); o.n(r.first); }
    else if (which == 5) {
        XBareMeas m; int thrown = 0;
        try { m.getInputDescription(); } catch (const std::runtime_error&) { ++thrown; }
        try { m.getNoiseCovarianceMatrix(); } catch (const std::runtime_error&) { ++thrown; }
        if (thrown != 2) { o.s("no-throw"); return o.str(); }
        GaussianMixture g = mkGM(1, 3, 0, false, 0); sigma_point::UTWeight w(std::size_t(3), 1.0, 2.0, 0.0);
        sigma_point::unscented_transform(g, w, static_cast<MeasurementModel&>(m)); o.s("no-throw");   // asks getMeasurementDescription()
    }
    else if (which == 6) { XBareCorr c; GaussianMixture a = mkGM(1, 2, 0, false, 0), b(1, 2); c.correct(a, b); std::pair<bool, VectorXd> l = c.getLikelihood(); o.n(l.first); }
    else if (which == 7) { XBareAdd m; VectorDescription d = m.getInputDescription(); o.n(d.total_size()); }   // StateModel::getNoiseCovarianceMatrix
    else throw vh::BadArgs("which");
    return o.str();
}

// ---------------------------------------------------------------- round 4 (b): getLikelihood() queried after the measurement model changed its size
// b_likq kind reduced sub m1 m2 how K : kind 0 UKF generic, 1 UKF additive, 2 SUKF(sub, reduced), 3 KF.  A successful correct() with a measurement of
//   m1 rows; getLikelihood(); the (time-varying) model now measures m2 rows (noise covariance follows: full m2 x m2, reduced stays sub x sub); then
//   how 0: getLikelihood() at once; 1: skip(true), correct() (members untouched), getLikelihood(); 2: correct() (not skipped), getLikelihood()
struct XLinTV : public LinearMeasurementModel {      // a linear model whose matrices can be replaced between calls
    MatrixXd H, R; long ysize = 0;
    bool freeze(const Data&) override { return true; }
    std::pair<bool, Data> measure(const Data&) const override { MatrixXd y = fillm(ysize, 1, 0.4); return std::make_pair(true, Data(std::move(y))); }
    MatrixXd getMeasurementMatrix() const override { return H; }
    std::pair<bool, MatrixXd> getNoiseCovarianceMatrix() const override { return std::make_pair(true, R); }
    VectorDescription getInputDescription() const override { return VectorDescription(H.cols(), 0, R.rows()); }
    VectorDescription getMeasurementDescription() const override { return VectorDescription(H.rows()); }
};
static std::string likq(Toks& t) {
    long kind = t.nat(); bool reduced = t.flag(); long sub = t.nat(), m1 = t.nat(), m2 = t.nat(), how = t.nat(), K = t.nat(); t.done();
    const long n = 3;
    XMeas* mp = nullptr; XLinTV* lp = nullptr;
    std::unique_ptr<GaussianCorrection> c;
    auto rrOf = [&](long m) { return (kind == 2 && reduced) ? sub : m; };
    auto setSize = [&](long m) {
        if (mp) { mp->in_ = vdesc(n, 0, rrOf(m), false); mp->out_ = vdesc(m, 0, 0, false); mp->prows = m; mp->irows = m; mp->ysize = m; mp->R = spd(rrOf(m), 0.3); }
        else { lp->H = fillm(m, n, 1.0); lp->R = spd(m, 0.3); lp->ysize = m; }
    };
    if (kind == 3) { lp = new XLinTV(); setSize(m1); c.reset(new KFCorrection(std::unique_ptr<LinearMeasurementModel>(lp))); }
    else {
        std::unique_ptr<XMeas> m(new XMeas()); mp = m.get(); setSize(m1);
        // generic constructor: the noise size of a time-varying model enters the weights, which are re-computed at each call when asked to
        if (kind == 0) c.reset(new UKFCorrection(std::unique_ptr<MeasurementModel>(std::move(m)), 1.0, 2.0, 0.0, /* update_weights_online */ true));
        else if (kind == 1) c.reset(new UKFCorrection(std::unique_ptr<AdditiveMeasurementModel>(std::move(m)), 1.0, 2.0, 0.0));
        else c.reset(new SUKFCorrection(std::unique_ptr<AdditiveMeasurementModel>(std::move(m)), 1.0, 2.0, 0.0, sub, reduced));
    }
    Out o; o.s("ok");
    auto query = [&]() { std::pair<bool, VectorXd> l = c->getLikelihood(); o.s(std::string(l.first ? "1" : "0") + ":" + std::to_string(l.second.size())); };
    { GaussianMixture pred = mkGM(K, n, 0, false, 0), corr(K, n); c->correct(pred, corr); }
    query();
    setSize(m2);
    if (how == 1) { c->skip(true); GaussianMixture pred = mkGM(K, n, 0, false, 0), corr(K, n); c->correct(pred, corr); }
    else if (how == 2) { GaussianMixture pred = mkGM(K, n, 0, false, 0), corr(K, n); c->correct(pred, corr); }
    query();
    return o.str();
}

int main() {
    return vh::run([](const std::string& op, Toks& t, std::string& out) {
        if (op == "b_wna_noise") out = wna_noise(t);
        else if (op == "b_wna_motion") out = wna_motion(t);
        else if (op == "b_wna_tp") out = wna_tp(t);
        else if (op == "b_wna_move") out = wna_move(t);
        else if (op == "b_lm") out = lm(t);
        else if (op == "b_ssm") out = ssm(t);
        else if (op == "b_ssmlog") out = ssmlog(t);
        else if (op == "b_sls") out = sls(t);
        else if (op == "b_hist") out = hist(t);
        else if (op == "b_grid") out = grid(t);
        else if (op == "b_sp") out = sp(t);
        else if (op == "b_utw") out = utw(t);
        else if (op == "b_ut") out = ut(t);
        else if (op == "b_utsm") out = utsm(t);
        else if (op == "b_utwna") out = utwna(t);
        else if (op == "b_utmm") out = utmm(t);
        else if (op == "b_ukfc") out = ukfc(t);
        else if (op == "b_ukfcmv") { g_move_corr = true; out = ukfc(t); g_move_corr = false; }
        else if (op == "b_kfc") out = kfc(t);
        else if (op == "b_corrseq") out = corrseq(t);
        else if (op == "b_psaddself") out = psaddself(t);
        else if (op == "b_gmaugalias") out = gmaugalias(t);
        else if (op == "b_bootseq") out = bootseq(t);
        else if (op == "b_gpfcseq") out = gpfcseq(t);
        else if (op == "b_eeseq") out = eeseq(t);
        else if (op == "b_handover") out = handover(t);
        else if (op == "b_lm2") out = lm2(t);
        else if (op == "b_eehand") out = eehand(t);
        else if (op == "b_logger") out = loggerOp(t);
        else if (op == "b_gfilter") out = gfilter(t);
        else if (op == "b_pfilter") out = pfilter(t);
        else if (op == "b_defaults") out = defaults(t);
        else if (op == "b_likq") out = likq(t);
        else if (op == "b_linprop") out = linprop(t);
        else if (op == "b_kfp") out = kfp(t);
        else if (op == "b_ukfp") out = ukfp(t);
        else if (op == "b_gpfp") out = gpfp(t);
        else if (op == "b_draw") out = draw(t);
        else if (op == "b_glik") out = glik(t);
        else if (op == "b_boot") out = boot(t);
        else if (op == "b_gpfc") out = gpfc(t);
        else if (op == "b_sis") out = sis(t);
        else if (op == "b_wna_seq") out = wna_seq(t);
        else if (op == "b_lm_seq") out = lm_seq(t);
        else if (op == "b_gmacc") out = gmacc(t);
        else if (op == "b_psacc") out = psacc(t);
        else if (op == "b_gmaug") out = gmaug(t);
        else if (op == "b_gmresize") out = gmresize(t);
        else if (op == "b_psresize") out = psresize(t);
        else if (op == "b_psadd") out = psadd(t);
        else if (op == "b_rs") out = rs(t);
        else if (op == "b_rwp") out = rwp(t);
        else if (op == "b_ee") out = ee(t);
        else if (op == "b_eefn") out = eefn(t);
        else if (op == "b_gpfmove") out = gpfmove(t);
        else if (op == "b_gpfsample") out = gpfsample(t);
        else return false;
        return true;
    });
}
