import BFL.Model.Models
import BFL.Bridge.Mat
import Mathlib.Data.Matrix.Mul
import Mathlib.Algebra.BigOperators.Fin
import Mathlib.Data.Real.Basic
import Mathlib.Tactic.Linarith
import Mathlib.Tactic.SplitIfs
/-
Helper lemmas for C16: constructor validation, the component-selecting measurement matrix, the
simulated trajectory (cursor machine) and the simulated sensor.
-/
open Matrix
namespace BFL.Models

/-! ### constructor validation chains -/

theorem ltiStateCtor_iff (fr fc qr qc : Nat) :
    ltiStateCtor fr fc qr qc = true ↔ (0 < fr ∧ fr = fc ∧ qr = qc ∧ fr = qr) := by
  unfold ltiStateCtor ltiStateCheck
  split_ifs <;> simp <;> omega

theorem ltiMeasCtor_iff (hr hc rr rc : Nat) :
    ltiMeasCtor hr hc rr rc = true ↔ (0 < hr ∧ 0 < hc ∧ rr = rc ∧ hr = rr) := by
  unfold ltiMeasCtor ltiMeasCheck
  split_ifs <;> simp <;> omega

/-- which shape class each check of `LTIStateModel` rejects -/
theorem ltiStateCheck_cases (fr fc qr qc : Nat) :
    (ltiStateCheck fr fc qr qc = some 1 ↔ (fr = 0 ∨ fc = 0)) ∧
    (ltiStateCheck fr fc qr qc = some 2 ↔ (0 < fr ∧ 0 < fc ∧ (qr = 0 ∨ qc = 0))) ∧
    (ltiStateCheck fr fc qr qc = some 3 ↔ (0 < fr ∧ 0 < fc ∧ 0 < qr ∧ 0 < qc ∧ fr ≠ fc)) ∧
    (ltiStateCheck fr fc qr qc = some 4 ↔ (0 < fr ∧ fr = fc ∧ 0 < qr ∧ 0 < qc ∧ qr ≠ qc)) ∧
    (ltiStateCheck fr fc qr qc = some 5 ↔ (0 < fr ∧ fr = fc ∧ 0 < qr ∧ qr = qc ∧ fr ≠ qr)) := by
  unfold ltiStateCheck
  split_ifs <;> simp <;> omega

theorem ltiMeasCheck_cases (hr hc rr rc : Nat) :
    (ltiMeasCheck hr hc rr rc = some 1 ↔ (hr = 0 ∨ hc = 0)) ∧
    (ltiMeasCheck hr hc rr rc = some 2 ↔ (0 < hr ∧ 0 < hc ∧ (rr = 0 ∨ rc = 0))) ∧
    (ltiMeasCheck hr hc rr rc = some 3 ↔ (0 < hr ∧ 0 < hc ∧ 0 < rr ∧ 0 < rc ∧ rr ≠ rc)) ∧
    (ltiMeasCheck hr hc rr rc = some 4 ↔ (0 < hr ∧ 0 < hc ∧ 0 < rr ∧ rr = rc ∧ hr ≠ rr)) := by
  unfold ltiMeasCheck
  split_ifs <;> simp <;> omega

theorem linearModelCtor_iff (n : Nat) (idx : List Nat) (rr rc : Nat) :
    linearModelCtor n idx rr rc = true ↔
      (idx ≠ [] ∧ 0 < n ∧ rr = rc ∧ idx.length = rr ∧ ∀ c ∈ idx, c < n) := by
  have hbase := ltiMeasCtor_iff idx.length n rr rc
  unfold linearModelCtor linearModelCheck
  unfold ltiMeasCtor at hbase
  cases h : ltiMeasCheck idx.length n rr rc with
  | some k =>
    rw [h] at hbase
    simp only [Option.isNone_some, Bool.false_eq_true, false_iff] at hbase ⊢
    intro hcon
    apply hbase
    refine ⟨?_, hcon.2.1, hcon.2.2.1, hcon.2.2.2.1⟩
    exact List.length_pos_of_ne_nil hcon.1
  | none =>
    rw [h] at hbase
    simp only [Option.isNone_none, true_iff] at hbase
    have hne : idx ≠ [] := List.ne_nil_of_length_pos hbase.1
    by_cases hall : idx.all (fun c => decide (c < n)) = true
    · simp only [hall, if_true, Option.isNone_none, true_iff]
      refine ⟨hne, hbase.2.1, hbase.2.2.1, hbase.2.2.2, ?_⟩
      simpa using hall
    · simp only [hall, Bool.false_eq_true, if_false, Option.isNone_some, false_iff]
      intro hcon
      apply hall
      simpa using hcon.2.2.2.2

/-- rejected by the index loop (check 5) ⇔ the base constructor accepted and some index is `≥ n` -/
theorem linearModelCheck_index (n : Nat) (idx : List Nat) (rr rc : Nat) :
    linearModelCheck n idx rr rc = some 5 ↔
      (ltiMeasCtor idx.length n rr rc = true ∧ ∃ c ∈ idx, n ≤ c) := by
  unfold linearModelCheck ltiMeasCtor
  cases h : ltiMeasCheck idx.length n rr rc with
  | some k =>
    simp only [Option.isNone_some, Bool.false_eq_true, false_and, iff_false]
    intro hk
    have hk5 : k = 5 := by simpa using hk
    subst hk5
    unfold ltiMeasCheck at h
    split_ifs at h <;> simp at h
  | none =>
    simp only [Option.isNone_none, true_and]
    by_cases hall : idx.all (fun c => decide (c < n)) = true
    · simp only [hall, if_true, reduceCtorEq, false_iff]
      push Not
      intro c hcm
      have := (List.all_eq_true.mp hall) c hcm
      simpa using this
    · simp only [hall, Bool.false_eq_true, if_false, true_iff]
      by_contra hcon
      push Not at hcon
      apply hall
      rw [List.all_eq_true]
      intro c hcm
      simpa using hcon c hcm

/-! ### the 0/1 measurement matrix -/

theorem linearModelH_mulVec {n : Nat} (idx : List Nat) (x : Fin n → ℝ) (i : Fin idx.length)
    (h : idx[i.val] < n) :
    (toM (linearModelH (α := ℝ) n idx) *ᵥ x) i = x ⟨idx[i.val], h⟩ := by
  simp only [Matrix.mulVec, dotProduct, toM_apply, linearModelH, Mat.of_apply]
  rw [Finset.sum_eq_single ⟨idx[i.val], h⟩]
  · simp
  · intro j _ hj
    have : ¬ idx[i.val] = j.val := fun e => hj (Fin.ext e.symm)
    simp [this]
  · intro hcon
    exact absurd (Finset.mem_univ _) hcon

theorem linearModelH_entry {n : Nat} (idx : List Nat) (i : Fin idx.length) (j : Fin n) :
    (linearModelH (α := ℝ) n idx) i j = 0 ∨ (linearModelH (α := ℝ) n idx) i j = 1 := by
  simp only [linearModelH, Mat.of_apply]
  split_ifs <;> simp

theorem linearModelH_one_iff {n : Nat} (idx : List Nat) (i : Fin idx.length) (j : Fin n) :
    (linearModelH (α := ℝ) n idx) i j = 1 ↔ idx[i.val] = j.val := by
  simp only [linearModelH, Mat.of_apply]
  split_ifs with h <;> simp [h]

/-! ### the trajectory and its cursor -/

section sim
variable {σ : Type}

theorem simCtor_target_length (step : Nat → σ → σ) (x0 : σ) (L : Nat) :
    (simCtor step x0 L).target.length = L := by
  simp [simCtor]

theorem simCtor_target_get (step : Nat → σ → σ) (x0 : σ) (L k : Nat) (h : k < L) :
    (simCtor step x0 L).target[k]? = some (simTraj step x0 k) := by
  simp [simCtor, h]

theorem step_target (s : Sim σ) (op : SimOp) : (s.step op).1.target = s.target := by
  cases op <;> simp only [Sim.step]
  split_ifs <;> rfl

theorem run_cons (s : Sim σ) (op : SimOp) (ops : List SimOp) :
    s.run (op :: ops) = (((s.step op).1.run ops).1, (s.step op).2 :: ((s.step op).1.run ops).2) := by
  simp only [Sim.run]

theorem run_target (s : Sim σ) (ops : List SimOp) : (s.run ops).1.target = s.target := by
  induction ops generalizing s with
  | nil => rfl
  | cons op ops ih => rw [run_cons]; simp only []; rw [ih, step_target]

theorem run_append_fst (s : Sim σ) (a b : List SimOp) :
    (s.run (a ++ b)).1 = ((s.run a).1.run b).1 := by
  induction a generalizing s with
  | nil => rfl
  | cons op a ih => simp only [List.cons_append, run_cons]; exact ih _

theorem run_append_snd (s : Sim σ) (a b : List SimOp) :
    (s.run (a ++ b)).2 = (s.run a).2 ++ ((s.run a).1.run b).2 := by
  induction a generalizing s with
  | nil => rfl
  | cons op a ih => simp only [List.cons_append, run_cons, List.cons_append]; rw [ih]

theorem step_cursor (s : Sim σ) (op : SimOp) (h : s.cursor ≤ s.target.length) :
    (s.step op).1.cursor = min s.target.length (cursorStep s.cursor op) := by
  cases op <;> simp only [Sim.step, cursorStep]
  · split_ifs with hc
    · simp only []; omega
    · simp only []; omega
  · omega
  · simp
  · omega

theorem min_foldl_cursorStep (L : Nat) (ops : List SimOp) (a : Nat) :
    min L (ops.foldl cursorStep (min L a)) = min L (ops.foldl cursorStep a) := by
  induction ops generalizing a with
  | nil => simp
  | cons op ops ih =>
    simp only [List.foldl_cons]
    cases op
    · simp only [cursorStep]
      rw [← ih (min L a + 1), ← ih (a + 1)]
      congr 2
      omega
    · simp only [cursorStep]; exact ih a
    · simp only [cursorStep]
    · simp only [cursorStep]; exact ih a

theorem run_cursor (s : Sim σ) (ops : List SimOp) (h : s.cursor ≤ s.target.length) :
    (s.run ops).1.cursor = min s.target.length (ops.foldl cursorStep s.cursor) := by
  induction ops generalizing s with
  | nil => simp [Sim.run]; omega
  | cons op ops ih =>
    rw [run_cons]
    simp only [List.foldl_cons]
    have h1 : (s.step op).1.cursor ≤ (s.step op).1.target.length := by
      rw [step_cursor s op h, step_target]; omega
    rw [ih _ h1, step_target, step_cursor s op h, min_foldl_cursorStep]

/-- cursor after any call sequence on a freshly constructed object -/
theorem simCtor_run_cursor (step : Nat → σ → σ) (x0 : σ) (L : Nat) (ops : List SimOp) :
    ((simCtor step x0 L).run ops).1.cursor = min L (bufCount ops) := by
  have := run_cursor (simCtor step x0 L) ops (by simp [simCtor])
  rw [this, simCtor_target_length]
  rfl

/-- `bufferData` on a state whose cursor is `c < L` -/
theorem step_buffer_lt (s : Sim σ) (h : s.cursor < s.target.length) :
    s.step .buffer = ({ s with cursor := s.cursor + 1, data := some (s.target[s.cursor]'h) }, .flag true) := by
  simp only [Sim.step]
  rw [if_neg (by omega)]
  simp [List.getElem?_eq_getElem h]

/-- `bufferData` on an exhausted trajectory -/
theorem step_buffer_ge (s : Sim σ) (h : s.target.length ≤ s.cursor) :
    s.step .buffer = (s, .flag false) := by
  simp only [Sim.step]
  rw [if_pos h]

end sim

/-! ### sensor -/

theorem sensorMeasurement_eq {n m : Nat} (H : Mat ℝ m n) (SR : Mat ℝ m m) (x : Vec ℝ n) (z : Vec ℝ m) :
    toV (sensorMeasurement H SR x z) = toM H *ᵥ toV x + toM SR *ᵥ toV z := by
  simp [sensorMeasurement]

theorem sensorFreeze_lt {α : Type} [Add α] [Mul α] [Zero α] [Inhabited α] {n m : Nat}
    (H : Mat α m n) (SR : Mat α m m) (s : Sensor α n m) (h : s.sim.cursor < s.sim.target.length) :
    sensorFreeze H SR s =
      ({ sim := { s.sim with cursor := s.sim.cursor + 1, data := some (s.sim.target[s.sim.cursor]'h) }
         meas := some (sensorMeasurement H SR (s.sim.target[s.sim.cursor]'h)
                   ((s.rng.draw m 1).1.col ⟨0, Nat.one_pos⟩))
         rng := (s.rng.draw m 1).2 }, true) := by
  simp only [sensorFreeze, step_buffer_lt s.sim h]

theorem sensorFreeze_ge {α : Type} [Add α] [Mul α] [Zero α] [Inhabited α] {n m : Nat}
    (H : Mat α m n) (SR : Mat α m m) (s : Sensor α n m) (h : s.sim.target.length ≤ s.sim.cursor) :
    sensorFreeze H SR s = (s, false) := by
  simp only [sensorFreeze, step_buffer_ge s.sim h]

end BFL.Models
