import BFL.Proofs.QuatMean
/-
C18 — Quaternion utilities form a consistent exponential/logarithm pair on rotations.

Theorems about the model `quatExp`, `quatLog`, `quatSum`, `quatDiff`, `outerMean`, `quatMean`
(BFL/Model/Quat.lean) read over ℝ.

`cutoff = 1e-4` is the constant of the exponential (on `‖r‖`), `cutoffLog = 5e-5` the constant of the
logarithm (on `‖vec‖ = sin(angle/2)`; repaired in de34974, it used to be `1e-4`, which made the round trip
exceed the stated bound on a sliver above `2e-4`).  The two still do not coincide exactly: for
`1e-4 < ‖r‖ ≤ 2 arcsin(5e-5) = 1.0000000004…e-4` the exponential is regular and the logarithm returns 0;
the honest round-trip bound is `2 arcsin(5e-5) < 1.00000001e-4`, well inside the property's `2e-4`
(`log_exp_bound`, `log_exp_within_2e4`).
-/
namespace BFL.Quat
open Real

/-! ## exponential, sum: unit quaternions; conventions -/

/-- the exponential of every rotation vector is a unit quaternion -/
theorem exp_unit (r : V3 ℝ) : (quatExp r).normSq = 1 := quatExp_normSq r

/-- adding a rotation vector to a unit quaternion yields a unit quaternion -/
theorem sum_unit (q : Q ℝ) (hq : q.normSq = 1) (r : V3 ℝ) : (quatSum q r).normSq = 1 := by
  unfold quatSum; rw [normSq_mul, quatExp_normSq, hq, mul_one]

/-- left (global-frame) convention of the sum: `(cos(‖r‖/2), sin(‖r‖/2) r/‖r‖) ⊗ q`, i.e. the
    quaternion `exp(r/2)` multiplies `q` on the left -/
theorem sum_left_convention (q : Q ℝ) (r : V3 ℝ) (h : cutoff < r.norm) :
    quatSum q r = (⟨Real.cos (r.norm / 2), Real.sin (r.norm / 2) * r.x / r.norm,
      Real.sin (r.norm / 2) * r.y / r.norm, Real.sin (r.norm / 2) * r.z / r.norm⟩ : Q ℝ).mul q := by
  unfold quatSum; rw [quatExp_regular r h]

/-- left convention of the difference: `2 log(q_l ⊗ q_r*)`: for a unit product with `w ≥ 0` the
    result is `2 acos(w) v/‖v‖` of `q_l ⊗ q_r*` -/
theorem diff_left_convention (ql qr : Q ℝ) (h : cutoffLog < (ql.mul qr.conj).vec.norm)
    (hw : 0 ≤ (ql.mul qr.conj).w) :
    quatDiff ql qr =
      ⟨2 * Real.arccos (ql.mul qr.conj).w * (ql.mul qr.conj).x / (ql.mul qr.conj).vec.norm,
       2 * Real.arccos (ql.mul qr.conj).w * (ql.mul qr.conj).y / (ql.mul qr.conj).vec.norm,
       2 * Real.arccos (ql.mul qr.conj).w * (ql.mul qr.conj).z / (ql.mul qr.conj).vec.norm⟩ := by
  unfold quatDiff; rw [quatLog_pos _ h hw]

/-- left and right multiplication differ (the convention is observable): a quarter turn about x added to
    a half turn about y -/
example : (⟨0, 1, 0, 0⟩ : Q ℝ).mul ⟨0, 0, 1, 0⟩ ≠ (⟨0, 0, 1, 0⟩ : Q ℝ).mul ⟨0, 1, 0, 0⟩ := by
  intro h
  have := congrArg Q.z h
  simp [Q.mul] at this
  linarith

/-! ## log ∘ exp -/

/-- exact inverse when both cut-offs are cleared -/
theorem log_exp_exact (r : V3 ℝ) (h1 : cutoff < r.norm) (h2 : r.norm < π)
    (h3 : cutoffLog < Real.sin (r.norm / 2)) : quatLog (quatExp r) = r := quatLog_quatExp r h1 h2 h3

/-- an explicit range on which both are cleared: `1.00000001e-4 ≤ ‖r‖ < π` -/
theorem log_exp_exact_range (r : V3 ℝ) (h1 : 1.00000001e-4 ≤ r.norm) (h2 : r.norm < π) :
    quatLog (quatExp r) = r := by
  have hc : cutoff < r.norm := by rw [cutoff_val]; linarith [show (1 / 10000 : ℝ) < 1.00000001e-4 by norm_num]
  refine quatLog_quatExp r hc h2 ?_
  by_contra hs
  have := small_of_sin_le (V3.norm_nonneg r) h2 (not_lt.mp hs)
  linarith [two_arcsin_cutoffLog_lt]

/-- round-trip deviation for every `‖r‖ < π`: at most `2 arcsin(5e-5)`, which lies strictly between
    `1e-4` and `1.00000001e-4` -/
theorem log_exp_bound (r : V3 ℝ) (h2 : r.norm < π) :
    ((quatLog (quatExp r)).sub r).norm ≤ 2 * Real.arcsin cutoffLog ∧
    2 * Real.arcsin cutoffLog < 1.00000001e-4 ∧ cutoff < 2 * Real.arcsin cutoffLog := by
  refine ⟨?_, two_arcsin_cutoffLog_lt, cutoff_lt_two_arcsin⟩
  by_cases h : cutoff < r.norm ∧ cutoffLog < Real.sin (r.norm / 2)
  · rw [quatLog_quatExp r h.1 h2 h.2, V3.sub_self_norm]
    linarith [cutoff_lt_two_arcsin, cutoff_pos]
  · obtain ⟨hz, hs⟩ := quatLog_quatExp_small r h2 h
    rw [hz, V3.zero_sub_norm]
    exact small_of_sin_le (V3.norm_nonneg r) h2 hs

/-- the property's clause to the letter: absolute deviation at most 2e-4 for every `‖r‖ < π` -/
theorem log_exp_within_2e4 (r : V3 ℝ) (h2 : r.norm < π) :
    ((quatLog (quatExp r)).sub r).norm ≤ 2e-4 := by
  have h := log_exp_bound r h2
  have : (1.00000001e-4 : ℝ) ≤ 2e-4 := by norm_num
  linarith [h.1, h.2.1]

/-- non-vacuity of `log_exp_exact`: a rotation vector of norm 1 clears both cut-offs -/
example : ∃ r : V3 ℝ, cutoff < r.norm ∧ r.norm < π ∧ cutoffLog < Real.sin (r.norm / 2) := by
  have hn : (⟨1, 0, 0⟩ : V3 ℝ).norm = 1 := by rw [V3.norm_def]; simp
  refine ⟨⟨1, 0, 0⟩, by rw [hn, cutoff_val]; norm_num, by rw [hn]; linarith [Real.pi_gt_three], ?_⟩
  rw [hn]
  have := Real.sin_gt_sub_cube (x := 1 / 2) (by norm_num)
  rw [cutoffLog_val]; linarith [show (1 / 20000 : ℝ) < 1 / 2 - (1 / 2) ^ 3 / 6 by norm_num]

/-! ## exp ∘ log, the double cover, norm of differences -/

/-- on unit quaternions with `w ≥ 0` outside the cut-off the conversions are mutually inverse -/
theorem exp_log (q : Q ℝ) (hq : q.normSq = 1) (hw : 0 ≤ q.w) (h : cutoffLog < q.vec.norm) :
    quatExp (quatLog q) = q := quatExp_quatLog q hq hw h

/-- `q` and `-q` are treated as the same rotation: same rotation vector (away from the exact half
    turn `w = 0`, where the two results are `± π v/‖v‖`, the same rotation again) -/
theorem log_neg (q : Q ℝ) (hw : q.w ≠ 0) : quatLog q.neg = quatLog q := quatLog_neg_eq q hw

theorem log_neg_half_turn (q : Q ℝ) (hw : q.w = 0) (h : cutoffLog < q.vec.norm) :
    quatLog q.neg = (quatLog q).neg ∧ (quatLog q).norm = π := by
  have h' : cutoffLog < q.neg.vec.norm := by rw [vec_neg_norm]; exact h
  have hw' : q.neg.w = 0 := by simp [Q.neg, hw]
  constructor
  · rw [quatLog_pos _ h' (by rw [hw']), quatLog_pos _ h (by rw [hw]), vec_neg_norm, hw, hw']
    ext <;> simp only [Q.neg, V3.neg] <;> ring
  · rw [quatLog_norm q h, hw, abs_zero, Real.arccos_zero]; ring

/-- for `w < 0` the round trip returns the other representative of the same rotation -/
theorem exp_log_neg_branch (q : Q ℝ) (hq : q.normSq = 1) (hw : q.w < 0) (h : cutoffLog < q.vec.norm) :
    quatExp (quatLog q) = q.neg := by
  rw [← quatLog_neg_eq q hw.ne]
  exact quatExp_quatLog q.neg (by rw [normSq_neg]; exact hq) (by simp only [Q.neg]; linarith)
    (by rw [vec_neg_norm]; exact h)

/-- rotation vectors returned by the logarithm (hence all differences) never exceed `π` in norm;
    in the regular branch the norm is `2 acos |w|` -/
theorem diff_norm_le_pi (ql qr : Q ℝ) : (quatDiff ql qr).norm ≤ π := quatLog_norm_le_pi _

theorem log_norm (q : Q ℝ) (h : cutoffLog < q.vec.norm) : (quatLog q).norm = 2 * Real.arccos |q.w| :=
  quatLog_norm q h

/-- negating either operand of a difference does not change it -/
theorem diff_neg_left (p q : Q ℝ) (hw : (p.mul q.conj).w ≠ 0) : quatDiff p.neg q = quatDiff p q := by
  unfold quatDiff; rw [neg_mul']; exact quatLog_neg_eq _ hw

theorem diff_neg_right (p q : Q ℝ) (hw : (p.mul q.conj).w ≠ 0) : quatDiff p q.neg = quatDiff p q := by
  unfold quatDiff; rw [conj_neg, mul_neg']; exact quatLog_neg_eq _ hw

/-! ## sum and difference are inverse to each other -/

/-- subtracting `q` from `q ⊕ r` is `log(exp r)` exactly (unit `q`) … -/
theorem diff_sum_eq (q : Q ℝ) (hq : q.normSq = 1) (r : V3 ℝ) :
    quatDiff (quatSum q r) q = quatLog (quatExp r) := quatDiff_quatSum q hq r

/-- … hence gives back `r` when both cut-offs are cleared (in particular for `1.00000001e-4 ≤ ‖r‖ < π`) … -/
theorem diff_sum (q : Q ℝ) (hq : q.normSq = 1) (r : V3 ℝ) (h1 : 1.00000001e-4 ≤ r.norm) (h2 : r.norm < π) :
    quatDiff (quatSum q r) q = r := by
  rw [quatDiff_quatSum q hq r]; exact log_exp_exact_range r h1 h2

/-- … and up to `2 arcsin(5e-5) < 1.00000001e-4`, hence within the property's 2e-4, for every `‖r‖ < π`. -/
theorem diff_sum_bound (q : Q ℝ) (hq : q.normSq = 1) (r : V3 ℝ) (h2 : r.norm < π) :
    ((quatDiff (quatSum q r) q).sub r).norm ≤ 2 * Real.arcsin cutoffLog ∧
    ((quatDiff (quatSum q r) q).sub r).norm ≤ 2e-4 := by
  rw [quatDiff_quatSum q hq r]; exact ⟨(log_exp_bound r h2).1, log_exp_within_2e4 r h2⟩

/-- adding the difference `p ⊖ q` to `q` gives back `p` (as a rotation: `p` or `-p`) -/
theorem sum_diff (p q : Q ℝ) (hp : p.normSq = 1) (hq : q.normSq = 1)
    (h : cutoffLog < (p.mul q.conj).vec.norm) :
    (0 < (p.mul q.conj).w → quatSum q (quatDiff p q) = p) ∧
    ((p.mul q.conj).w < 0 → quatSum q (quatDiff p q) = p.neg) := by
  have hu : (p.mul q.conj).normSq = 1 := by rw [normSq_mul, normSq_conj, hp, hq, mul_one]
  constructor
  · intro hpos
    rw [quatSum_quatDiff, quatExp_quatLog _ hu hpos.le h, mul_conj_mul_cancel p q hq]
  · intro hneg
    rw [quatSum_quatDiff, exp_log_neg_branch _ hu hneg h, neg_mul', mul_conj_mul_cancel p q hq]

/-- non-vacuity of `exp_log` / `sum_diff`: the unit quaternion `(0.6, 0.8, 0, 0)` -/
example : ∃ q : Q ℝ, q.normSq = 1 ∧ 0 ≤ q.w ∧ cutoffLog < q.vec.norm := by
  refine ⟨⟨0.6, 0.8, 0, 0⟩, by simp [Q.normSq]; norm_num, by norm_num, ?_⟩
  have : (⟨0.6, 0.8, 0, 0⟩ : Q ℝ).vec.norm = 0.8 := by
    rw [V3.norm_def]; simp only [Q.vec]
    rw [show (0.8 : ℝ) ^ 2 + 0 ^ 2 + 0 ^ 2 = 0.8 ^ 2 by ring]; exact Real.sqrt_sq (by norm_num)
  rw [this, cutoffLog_val]; norm_num

/-! ## weighted mean (`mean_quaternion`): eigenvector contract -/

section mean
open Matrix
variable {n : Nat}

/-- The contract of the `Eigen::EigenSolver` call, on the model's matrix `Σ w_i q_i q_iᵀ`: the returned
    vector is a unit eigenvector whose eigenvalue is maximal.  Checked numerically on every observed
    call by the correspondence check. -/
def MeanContract (eig : Mat ℝ 4 4 → Q ℝ) (w : Vec ℝ n) (q : Mat ℝ 4 n) : Prop :=
  IsDominantEigvec (toM (outerMean w q)) (eig (outerMean w q)).get

/-- the model's matrix is `Σ_i w_i q_i q_iᵀ` -/
theorem mean_matrix (w : Vec ℝ n) (q : Mat ℝ 4 n) (a b : Fin 4) :
    toM (outerMean w q) a b = ∑ i, w i * q a i * q b i := by
  rw [toM_outerMean]; rfl

/-- the mean is a unit quaternion -/
theorem mean_unit (eig : Mat ℝ 4 4 → Q ℝ) (w : Vec ℝ n) (q : Mat ℝ 4 n) (h : MeanContract eig w q) :
    (quatMean eig w q).normSq = 1 := by
  rw [← get_dot_self]; exact h.1

/-- negating any inputs leaves `Σ w_i q_i q_iᵀ` unchanged: the same vectors satisfy the contract and any
    deterministic eigen-solver returns the same quaternion -/
theorem mean_sign_invariant (eig : Mat ℝ 4 4 → Q ℝ) (w : Vec ℝ n) (q q' : Mat ℝ 4 n) (s : Fin n → ℝ)
    (hs : ∀ i, s i = 1 ∨ s i = -1) (hq' : ∀ a i, q' a i = s i * q a i) :
    outerMean w q' = outerMean w q ∧ quatMean eig w q' = quatMean eig w q := by
  have h : outerMean w q' = outerMean w q := by
    apply toM_injective
    rw [toM_outerMean, toM_outerMean]
    have : colsOf q' = fun i => s i • colsOf q i := by
      funext i a; simp [colsOf, hq']
    rw [this, outerSum_sign _ _ s hs]
  exact ⟨h, by unfold quatMean; rw [h]⟩

/-- permuting the inputs (with their weights) leaves `Σ w_i q_i q_iᵀ` unchanged -/
theorem mean_perm_invariant (eig : Mat ℝ 4 4 → Q ℝ) (w w' : Vec ℝ n) (q q' : Mat ℝ 4 n)
    (σ : Equiv.Perm (Fin n)) (hw' : ∀ i, w' i = w (σ i)) (hq' : ∀ a i, q' a i = q a (σ i)) :
    outerMean w' q' = outerMean w q ∧ quatMean eig w' q' = quatMean eig w q := by
  have h : outerMean w' q' = outerMean w q := by
    apply toM_injective
    rw [toM_outerMean, toM_outerMean]
    have h1 : colsOf q' = fun i => colsOf q (σ i) := by funext i a; simp [colsOf, hq']
    have h2 : toV w' = fun i => toV w (σ i) := by funext i; simp [hw']
    rw [h1, h2, outerSum_perm]
  exact ⟨h, by unfold quatMean; rw [h]⟩

theorem eq_of_get_eq {u v : Q ℝ} (h : u.get = v.get) : u = v := by
  rw [← ofFn_get u, ← ofFn_get v, h]

/-! ### the same rotation in general: uniqueness up to sign under a simple largest eigenvalue -/

/-- "the largest eigenvalue of `Σ w_i q_i q_iᵀ` is simple", stated on a result `v`: every eigenvector for
    `v`'s eigenvalue is a multiple of `v` -/
def SimpleTop (w : Vec ℝ n) (q : Mat ℝ 4 n) (v : Q ℝ) : Prop :=
  ∀ (lam : ℝ) (u : Fin 4 → ℝ), toM (outerMean w q) *ᵥ v.get = lam • v.get →
    toM (outerMean w q) *ᵥ u = lam • u → ∃ c : ℝ, u = c • v.get

/-- two results meeting the contract for the same inputs are the same rotation (`±`) when the largest
    eigenvalue is simple -/
theorem mean_unique_up_to_sign (eig eig' : Mat ℝ 4 4 → Q ℝ) (w : Vec ℝ n) (q : Mat ℝ 4 n)
    (h : MeanContract eig w q) (h' : MeanContract eig' w q) (hs : SimpleTop w q (quatMean eig w q)) :
    quatMean eig' w q = quatMean eig w q ∨ quatMean eig' w q = (quatMean eig w q).neg := by
  rcases contract_unique_of_simple _ _ _ h h' hs with e | e
  · left; exact eq_of_get_eq e
  · right; apply eq_of_get_eq; rw [get_neg]; exact e

/-- negating any inputs does not change the mean as a rotation — for any two solvers meeting the
    contract (e.g. the same solver run on the two inputs), given a simple largest eigenvalue -/
theorem mean_sign_invariant_rotation (eig eig' : Mat ℝ 4 4 → Q ℝ) (w : Vec ℝ n) (q q' : Mat ℝ 4 n)
    (s : Fin n → ℝ) (hsgn : ∀ i, s i = 1 ∨ s i = -1) (hq' : ∀ a i, q' a i = s i * q a i)
    (h : MeanContract eig w q) (h' : MeanContract eig' w q') (hs : SimpleTop w q (quatMean eig w q)) :
    quatMean eig' w q' = quatMean eig w q ∨ quatMean eig' w q' = (quatMean eig w q).neg := by
  have hM := (mean_sign_invariant eig w q q' s hsgn hq').1
  have h'' : MeanContract eig' w q := by
    unfold MeanContract at h' ⊢; rw [hM] at h'; exact h'
  have := mean_unique_up_to_sign eig eig' w q h h'' hs
  unfold quatMean at this ⊢
  rw [hM]; exact this

/-- permuting the inputs (with their weights) does not change the mean as a rotation -/
theorem mean_perm_invariant_rotation (eig eig' : Mat ℝ 4 4 → Q ℝ) (w w' : Vec ℝ n) (q q' : Mat ℝ 4 n)
    (σ : Equiv.Perm (Fin n)) (hw' : ∀ i, w' i = w (σ i)) (hq' : ∀ a i, q' a i = q a (σ i))
    (h : MeanContract eig w q) (h' : MeanContract eig' w' q') (hs : SimpleTop w q (quatMean eig w q)) :
    quatMean eig' w' q' = quatMean eig w q ∨ quatMean eig' w' q' = (quatMean eig w q).neg := by
  have hM := (mean_perm_invariant eig w w' q q' σ hw' hq').1
  have h'' : MeanContract eig' w q := by
    unfold MeanContract at h' ⊢; rw [hM] at h'; exact h'
  have := mean_unique_up_to_sign eig eig' w q h h'' hs
  unfold quatMean at this ⊢
  rw [hM]; exact this

/-- a spectral gap in quadratic-form terms (`Σ w_i (q_i·u)² ≤ a (p·u)² + t (|u|² − (p·u)²)`, `t < a`, `p` a unit
    eigenvector with eigenvalue `a`: i.e. `λ₂ ≤ t < a = λ₁`) gives `SimpleTop` for every result meeting the
    contract -/
theorem simple_top_of_gap (eig : Mat ℝ 4 4 → Q ℝ) (w : Vec ℝ n) (q : Mat ℝ 4 n) (p : Fin 4 → ℝ) (a t : ℝ)
    (hp : p ⬝ᵥ p = 1) (hMp : toM (outerMean w q) *ᵥ p = a • p) (hta : t < a)
    (hQ : ∀ u : Fin 4 → ℝ, ∑ i, w i * (colsOf q i ⬝ᵥ u) ^ 2 ≤ a * (p ⬝ᵥ u) ^ 2 + t * (u ⬝ᵥ u - (p ⬝ᵥ u) ^ 2))
    (h : MeanContract eig w q) : SimpleTop w q (quatMean eig w q) := by
  rw [toM_outerMean] at hMp
  have hd := dominant_of_quadform (toV w) (colsOf q) p a t hp hMp hta hQ
  unfold MeanContract at h
  rw [toM_outerMean] at h
  have hv : (quatMean eig w q).get = p ∨ (quatMean eig w q).get = -p := hd.2 _ h
  intro lam u hlam hu
  rw [toM_outerMean] at hlam hu
  -- the result's eigenvalue is `a`
  have hlama : lam = a := by
    have hp0 : p ≠ 0 := by intro h0; rw [h0] at hp; simp at hp
    rcases hv with e | e
    · rw [e, hMp] at hlam
      have := congrArg (fun x => p ⬝ᵥ x) hlam
      simp only [dotProduct_smul, hp, smul_eq_mul, mul_one] at this
      exact this.symm
    · rw [e, Matrix.mulVec_neg, hMp] at hlam
      have := congrArg (fun x => p ⬝ᵥ x) hlam
      simp only [dotProduct_neg, dotProduct_smul, hp, smul_eq_mul, mul_one, smul_neg] at this
      linarith
  rw [hlama] at hu
  obtain ⟨k, hk⟩ := simple_of_quadform (toV w) (colsOf q) p a t hp hta hQ u hu
  rcases hv with e | e
  · exact ⟨k, by rw [e]; exact hk⟩
  · exact ⟨-k, by rw [e, hk]; simp⟩

/-- The gap hypothesis cannot be dropped — the half-turn case: inputs `(1,0,0,0)` and `(0,1,0,0)` (half a
    turn apart) with weights `1/2`: both inputs meet the contract and they are not the same rotation. -/
theorem mean_half_turn_not_unique :
    ∃ (eig eig' : Mat ℝ 4 4 → Q ℝ) (w : Vec ℝ 2) (q : Mat ℝ 4 2), MeanContract eig w q ∧ MeanContract eig' w q ∧
      quatMean eig' w q ≠ quatMean eig w q ∧ quatMean eig' w q ≠ (quatMean eig w q).neg := by
  let p1 : Q ℝ := ⟨1, 0, 0, 0⟩
  let p2 : Q ℝ := ⟨0, 1, 0, 0⟩
  let q : Mat ℝ 4 2 := qCols ![p1, p2]
  let w : Vec ℝ 2 := Vec.of (fun _ => 1 / 2)
  have hcols : colsOf q = ![p1.get, p2.get] := by
    funext i; rw [colsOf_eq, ofCol_qCols]; fin_cases i <;> rfl
  have hw : toV w = fun _ : Fin 2 => (1 / 2 : ℝ) := rfl
  have hb := half_turn_both_dominant p1.get p2.get (by rw [get_dot_self]; simp [p1, Q.normSq])
    (by rw [get_dot_self]; simp [p2, Q.normSq]) (by rw [get_dot_get]; simp [p1, p2, Q.dot])
  refine ⟨fun _ => p1, fun _ => p2, w, q, ?_, ?_, ?_, ?_⟩
  · unfold MeanContract; rw [toM_outerMean, hcols, hw]; exact hb.1
  · unfold MeanContract; rw [toM_outerMean, hcols, hw]; exact hb.2
  · intro h; have := congrArg Q.w h; simp [quatMean, p1, p2] at this
  · intro h; have := congrArg Q.x h; simp [quatMean, p1, p2, Q.neg] at this

/-- all inputs `± q0`, total weight positive: `q0` satisfies the contract, and every result satisfying
    the contract is `q0` or `-q0` -/
theorem mean_all_equal (eig : Mat ℝ 4 4 → Q ℝ) (w : Vec ℝ n) (q : Mat ℝ 4 n) (q0 : Q ℝ)
    (hq0 : q0.normSq = 1) (hq : ∀ i, Q.ofCol q i = q0 ∨ Q.ofCol q i = q0.neg) (hsum : 0 < ∑ i, w i) :
    IsDominantEigvec (toM (outerMean w q)) q0.get ∧
    (MeanContract eig w q → quatMean eig w q = q0 ∨ quatMean eig w q = q0.neg) := by
  classical
  let s : Fin n → ℝ := fun i => if Q.ofCol q i = q0 then 1 else -1
  have hs : ∀ i, s i = 1 ∨ s i = -1 := fun i => by
    by_cases h : Q.ofCol q i = q0 <;> simp [s, h]
  have hcols : colsOf q = fun i => s i • q0.get := by
    funext i
    rw [colsOf_eq]
    by_cases h : Q.ofCol q i = q0
    · simp [s, h]
    · have h2 := (hq i).resolve_left h
      have hsi : s i = -1 := by simp [s, h]
      rw [hsi, h2, get_neg, neg_smul, one_smul]
  have hd := all_equal_dominant (toV w) s hs q0.get (by rw [get_dot_self, hq0]) hsum
  rw [← hcols, ← toM_outerMean] at hd
  refine ⟨hd.1, fun hcon => ?_⟩
  rcases hd.2 _ hcon with h | h
  · left; exact eq_of_get_eq h
  · right; apply eq_of_get_eq; rw [get_neg]; exact h

/-- Inputs placed symmetrically around a unit centre `c`: column `i` is `c ⊕ r_i = exp(r_i) ⊗ c`, the
    rotation vectors come in opposite pairs (`r (σ i) = -r i`, `σ` an involution; `r = 0` pairs with
    itself) with equal weights, weights non-negative with positive sum, every `‖r_i‖ < π/2` (half-angle
    below π/4).  Then `c` satisfies the contract and every result satisfying it is `c` or `-c`. -/
theorem mean_symmetric_centre (eig : Mat ℝ 4 4 → Q ℝ) (w : Vec ℝ n) (q : Mat ℝ 4 n) (c : Q ℝ)
    (r : Fin n → V3 ℝ) (σ : Fin n → Fin n) (hσ : Function.Involutive σ) (hc : c.normSq = 1)
    (hcol : ∀ i, Q.ofCol q i = quatSum c (r i)) (hr : ∀ i, r (σ i) = (r i).neg)
    (hwσ : ∀ i, w (σ i) = w i) (hw : ∀ i, 0 ≤ w i) (hsum : 0 < ∑ i, w i)
    (hquarter : ∀ i, (r i).norm < π / 2) :
    IsDominantEigvec (toM (outerMean w q)) c.get ∧
    (MeanContract eig w q → quatMean eig w q = c ∨ quatMean eig w q = c.neg) := by
  have hcols : colsOf q = fun i => ((quatExp (r i)).mul c).get := by
    funext i; rw [colsOf_eq, hcol]; rfl
  have hd := symmetric_centre_dominant (toV w) (fun i => quatExp (r i)) c σ hσ hc
    (fun i => quatExp_normSq _) (fun i => by rw [hr, quatExp_neg]) hwσ hw hsum
    (fun i => quatExp_w_sq _ (hquarter i))
  rw [← hcols, ← toM_outerMean] at hd
  refine ⟨hd.1, fun hcon => ?_⟩
  rcases hd.2 _ hcon with h | h
  · left; exact eq_of_get_eq h
  · right; apply eq_of_get_eq; rw [get_neg]; exact h

/-- Beyond non-negative weights (unscented sets with a negative central weight): weights may be
    negative on inputs that coincide with the centre (`exp(r_i)` is `±1`: `r_i` inside the cut-off),
    and the conclusion holds whenever the gap `Σ_i w_i (2 exp(r_i)_w² − 1)` (`= Σ_i w_i cos‖r_i‖` for
    regular `r_i`) is positive.  Nothing is claimed when the gap is not positive. -/
theorem mean_symmetric_centre_partial (eig : Mat ℝ 4 4 → Q ℝ) (w : Vec ℝ n) (q : Mat ℝ 4 n) (c : Q ℝ)
    (r : Fin n → V3 ℝ) (σ : Fin n → Fin n) (hσ : Function.Involutive σ) (hc : c.normSq = 1)
    (hcol : ∀ i, Q.ofCol q i = quatSum c (r i)) (hr : ∀ i, r (σ i) = (r i).neg)
    (hwσ : ∀ i, w (σ i) = w i) (hw : ∀ i, 0 ≤ w i ∨ (quatExp (r i)).w ^ 2 = 1)
    (hgap : 0 < ∑ i, w i * (2 * (quatExp (r i)).w ^ 2 - 1)) :
    IsDominantEigvec (toM (outerMean w q)) c.get ∧
    (MeanContract eig w q → quatMean eig w q = c ∨ quatMean eig w q = c.neg) := by
  have hcols : colsOf q = fun i => ((quatExp (r i)).mul c).get := by
    funext i; rw [colsOf_eq, hcol]; rfl
  have hd := symmetric_centre_dominant_gen (toV w) (fun i => quatExp (r i)) c σ hσ hc
    (fun i => quatExp_normSq _) (fun i => by rw [hr, quatExp_neg]) hwσ hw hgap
  rw [← hcols, ← toM_outerMean] at hd
  refine ⟨hd.1, fun hcon => ?_⟩
  rcases hd.2 _ hcon with h | h
  · left; exact eq_of_get_eq h
  · right; apply eq_of_get_eq; rw [get_neg]; exact h

/-- The clause "equals the common centre of inputs placed symmetrically around it" for unscented weight
    sets to the letter: like `mean_symmetric_centre`, but a negative weight is allowed on inputs equal
    to the centre (`r_i = 0`), total weight positive. -/
def MeanSymmetricCentreAnyCentralWeight : Prop :=
  ∀ {n : Nat} (eig : Mat ℝ 4 4 → Q ℝ) (w : Vec ℝ n) (q : Mat ℝ 4 n) (c : Q ℝ)
    (r : Fin n → V3 ℝ) (σ : Fin n → Fin n), Function.Involutive σ → c.normSq = 1 →
    (∀ i, Q.ofCol q i = quatSum c (r i)) → (∀ i, r (σ i) = (r i).neg) → (∀ i, w (σ i) = w i) →
    (∀ i, 0 ≤ w i ∨ r i = ⟨0, 0, 0⟩) → 0 < ∑ i, w i → (∀ i, (r i).norm < π / 2) →
    MeanContract eig w q → quatMean eig w q = c ∨ quatMean eig w q = c.neg

/-- It fails when the spread is wide: centre `1`, sigma points `exp(±(3/2, 0, 0))`, weights
    `(-1, 1, 1)` (sum 1): the matrix is `diag(cos 3/2, 1 − cos 3/2, 0, 0)`, `cos 3/2 < 1/2`, so the
    eigenvector of the largest eigenvalue is `(0, 1, 0, 0)` — a half turn about x away from the centre.
    (`mean_symmetric_centre_partial` covers the sets with `Σ w_i cos‖r_i‖ > 0`; here it is
    `-1 + 2 cos(3/2) < 0`.) -/
theorem mean_symmetric_centre_negative_weight_counterexample : ¬ MeanSymmetricCentreAnyCentralWeight := by
  intro h
  let c : Q ℝ := ⟨1, 0, 0, 0⟩
  let q : Mat ℝ 4 3 := qCols (fun i => quatSum c (rWide i))
  let w : Vec ℝ 3 := Vec.of wWide
  let v : Q ℝ := ⟨0, 1, 0, 0⟩
  have hcon : MeanContract (fun _ => v) w q := by
    unfold MeanContract
    rw [toM_outerMean]
    have hcols : colsOf q = fun i => (quatSum c (rWide i)).get := by
      funext i; rw [colsOf_eq, ofCol_qCols]
    rw [hcols]
    exact wide_contract
  have hσ : Function.Involutive (![0, 2, 1] : Fin 3 → Fin 3) := by
    intro i; fin_cases i <;> rfl
  have hres := h (fun _ => v) w q c rWide ![0, 2, 1] hσ (by simp [c, Q.normSq])
    (fun i => ofCol_qCols _ i)
    (by intro i; fin_cases i <;> simp [rWide, V3.neg])
    (by intro i; fin_cases i <;> simp [w, wWide])
    (by intro i; fin_cases i <;> simp [w, wWide, rWide])
    (by simp [w, wWide, Fin.sum_univ_three])
    (by
      intro i
      have h32 : (⟨3 / 2, 0, 0⟩ : V3 ℝ).norm = 3 / 2 := norm_x_axis _ (by norm_num)
      fin_cases i
      · show (⟨0, 0, 0⟩ : V3 ℝ).norm < π / 2
        rw [V3.norm_zero]; linarith [Real.pi_pos]
      · show (⟨3 / 2, 0, 0⟩ : V3 ℝ).norm < π / 2
        rw [h32]; linarith [Real.pi_gt_three]
      · show ((⟨3 / 2, 0, 0⟩ : V3 ℝ).neg).norm < π / 2
        rw [V3.neg_norm, h32]; linarith [Real.pi_gt_three])
    hcon
  rcases hres with h1 | h1
  · have := congrArg Q.w h1
    simp [quatMean, v, c] at this
  · have := congrArg Q.w h1
    simp [quatMean, v, c, Q.neg] at this

/-- non-vacuity of the symmetric-centre hypotheses: the sigma-point layout `0, +r, -r` with
    weights `1/3` and `‖r‖ = 1 < π/2` -/
example : ∃ (r : Fin 3 → V3 ℝ) (σ : Fin 3 → Fin 3) (w : Fin 3 → ℝ), Function.Involutive σ ∧
    (∀ i, r (σ i) = (r i).neg) ∧ (∀ i, w (σ i) = w i) ∧ (∀ i, 0 ≤ w i) ∧ 0 < ∑ i, w i ∧
    ∀ i, (r i).norm < π / 2 := by
  refine ⟨![⟨0, 0, 0⟩, ⟨1, 0, 0⟩, ⟨-1, 0, 0⟩], ![0, 2, 1], fun _ => 1 / 3, ?_, ?_, ?_, ?_, ?_, ?_⟩
  · intro i; fin_cases i <;> rfl
  · intro i; fin_cases i <;> simp [V3.neg]
  · intro i; rfl
  · intro i; norm_num
  · simp
  · intro i
    fin_cases i <;> simp [V3.norm_def] <;> linarith [Real.pi_gt_three]

end mean

section round4
open Matrix

/-! ## histories: an attitude state driven through a list of increments -/

/-- every state of a history started at a unit quaternion is a unit quaternion (induction over the list of increments) -/
theorem chain_unit (q : Q ℝ) (hq : q.normSq = 1) (rs : List (V3 ℝ)) :
    (sumChain q rs).normSq = 1 ∧ ∀ p ∈ sumTrace q rs, p.normSq = 1 := by
  refine ⟨?_, sumTrace_unit q hq rs⟩
  rw [sumChain_eq_prod, normSq_mul, expProd_normSq, hq, mul_one]

/-- the state after a history is the product of the exponentials (latest on the left) times the initial state:
    the left convention through a whole history -/
theorem chain_eq_prod (q : Q ℝ) (rs : List (V3 ℝ)) : sumChain q rs = (expProd rs).mul q ∧ (expProd rs).normSq = 1 :=
  ⟨sumChain_eq_prod q rs, expProd_normSq rs⟩

/-- the recorded trace has one state per increment and ends in the final state -/
theorem chain_trace (q : Q ℝ) (rs : List (V3 ℝ)) :
    (sumTrace q rs).length = rs.length ∧ (q :: sumTrace q rs).getLast (List.cons_ne_nil _ _) = sumChain q rs :=
  ⟨sumTrace_length q rs, sumTrace_last q rs⟩

/-- histories compose -/
theorem chain_append (q : Q ℝ) (rs ss : List (V3 ℝ)) : sumChain q (rs ++ ss) = sumChain (sumChain q rs) ss :=
  sumChain_append q rs ss

/-- a history that nets to nothing: the increments followed by their negatives in reverse order give back the
    initial quaternion EXACTLY — no cut-off error, any lengths, any norms (`exp(-r)` is the conjugate of `exp(r)` in
    either branch of the exponential) -/
theorem chain_unwind (q : Q ℝ) (rs : List (V3 ℝ)) : sumChain (sumChain q rs) (rs.reverse.map V3.neg) = q :=
  sumChain_unwind q rs

/-- the double cover through a history: started at `-q` every history ends at the negative of where it ends from `q` -/
theorem chain_neg (q : Q ℝ) (rs : List (V3 ℝ)) : sumChain q.neg rs = (sumChain q rs).neg := by
  rw [sumChain_eq_prod, sumChain_eq_prod, mul_neg']

/-- subtracting the initial state from the final one gives the logarithm of the accumulated rotation, whatever the
    initial unit quaternion was -/
theorem diff_chain (q : Q ℝ) (hq : q.normSq = 1) (rs : List (V3 ℝ)) :
    quatDiff (sumChain q rs) q = quatLog (expProd rs) := by
  unfold quatDiff
  rw [sumChain_eq_prod, mul_assoc', mul_conj_self, hq, mul_one']

/-- non-vacuity: a two-step history about different axes whose order matters -/
example : sumChain (⟨1, 0, 0, 0⟩ : Q ℝ) [⟨1, 0, 0⟩, ⟨0, 1, 0⟩] = (quatExp ⟨0, 1, 0⟩).mul (quatExp ⟨1, 0, 0⟩) := by
  simp [sumChain, quatSum, mul_one']

/-! ## sum and difference as group operations -/

/-- adding the zero vector changes nothing -/
theorem sum_zero (q : Q ℝ) : quatSum q ⟨0, 0, 0⟩ = q := by
  unfold quatSum
  rw [quatExp_cut _ (by rw [V3.norm_zero]; exact cutoff_pos.le), one_mul']

/-- the difference of a unit quaternion and itself is the zero vector -/
theorem diff_self (q : Q ℝ) (hq : q.normSq = 1) : quatDiff q q = ⟨0, 0, 0⟩ := by
  unfold quatDiff
  rw [mul_conj_self, hq]
  apply quatLog_cut
  simp only [Q.vec]; rw [V3.norm_zero]; exact cutoffLog_pos.le

/-- two sums compose by multiplying the exponentials on the left -/
theorem sum_sum (q : Q ℝ) (r s : V3 ℝ) :
    quatSum (quatSum q r) s = ((quatExp s).mul (quatExp r)).mul q := by
  unfold quatSum; rw [mul_assoc']

/-- adding `r` and then `-r` gives back `q` exactly (no cut-off error) -/
theorem sum_neg_cancel (q : Q ℝ) (r : V3 ℝ) : quatSum (quatSum q r) r.neg = q := quatSum_neg_cancel q r

/-- the difference is antisymmetric: `q ⊖ p = -(p ⊖ q)` — all unit or non-unit operands, either branch -/
theorem diff_antisymm (p q : Q ℝ) : quatDiff q p = (quatDiff p q).neg := by
  unfold quatDiff
  rw [← quatLog_conj, conj_mul, conj_conj]

/-- global-frame (left) convention: sum and difference do not see a common right factor (a change of the body
    frame): `(p g) ⊖ (q g) = p ⊖ q` for unit `g`, `(q g) ⊕ r = (q ⊕ r) g` -/
theorem diff_right_invariant (p q g : Q ℝ) (hg : g.normSq = 1) : quatDiff (p.mul g) (q.mul g) = quatDiff p q := by
  unfold quatDiff
  rw [conj_mul, mul_assoc', ← mul_assoc' g, mul_conj_self, hg, one_mul']

theorem sum_right_equivariant (q g : Q ℝ) (r : V3 ℝ) : quatSum (q.mul g) r = (quatSum q r).mul g := by
  unfold quatSum; rw [mul_assoc']

/-- the difference to another reference: `(q ⊕ r) ⊖ p = log(exp r ⊗ (q ⊗ p*))` -/
theorem diff_sum_other (q p : Q ℝ) (r : V3 ℝ) :
    quatDiff (quatSum q r) p = quatLog ((quatExp r).mul (q.mul p.conj)) := by
  unfold quatDiff quatSum; rw [mul_assoc']

/-! ## the round trips with the cut-offs of the code as explicit case splits -/

/-- `exp ∘ log` on the whole unit sphere, both hemispheres: inside the logarithm's cut-off (`‖vec‖ ≤ 5e-5`, then
    `w² ≥ 1 − 2.5e-9`) the result is the identity quaternion; outside it the result is `q` on the hemisphere `w ≥ 0`
    and `−q` (the same rotation) on the hemisphere `w < 0` -/
theorem exp_log_cases (q : Q ℝ) (hq : q.normSq = 1) :
    (q.vec.norm ≤ cutoffLog → quatExp (quatLog q) = ⟨1, 0, 0, 0⟩ ∧ 1 - cutoffLog ^ 2 ≤ q.w ^ 2) ∧
    (cutoffLog < q.vec.norm → 0 ≤ q.w → quatExp (quatLog q) = q) ∧
    (cutoffLog < q.vec.norm → q.w < 0 → quatExp (quatLog q) = q.neg) := by
  refine ⟨fun h => ⟨?_, ?_⟩, fun h hw => exp_log q hq hw h, fun h hw => exp_log_neg_branch q hq hw h⟩
  · rw [quatLog_cut q h]
    exact quatExp_cut _ (by rw [V3.norm_zero]; exact cutoff_pos.le)
  · have h1 := Q.normSq_eq q
    rw [hq] at h1
    have h0 := V3.norm_nonneg q.vec
    nlinarith [cutoffLog_pos]

/-- `log ∘ exp` for every `‖r‖ < π` with the two cut-offs of the code as explicit cases: inside the exponential's cut-off
    (`‖r‖ ≤ 1e-4`) the result is `0`; in the sliver where the exponential is regular but the logarithm cuts off
    (`1e-4 < ‖r‖`, `sin(‖r‖/2) ≤ 5e-5`, hence `‖r‖ ≤ 2 asin 5e-5 < 1.00000001e-4`) the result is `0` as well; everywhere
    else the result is `r` exactly -/
theorem log_exp_cases (r : V3 ℝ) (h2 : r.norm < π) :
    (r.norm ≤ cutoff → quatLog (quatExp r) = ⟨0, 0, 0⟩) ∧
    (cutoff < r.norm → Real.sin (r.norm / 2) ≤ cutoffLog →
      quatLog (quatExp r) = ⟨0, 0, 0⟩ ∧ r.norm ≤ 2 * Real.arcsin cutoffLog ∧ r.norm < 1.00000001e-4) ∧
    (cutoff < r.norm → cutoffLog < Real.sin (r.norm / 2) → quatLog (quatExp r) = r) := by
  refine ⟨fun h => ?_, fun h hs => ?_, fun h hs => log_exp_exact r h h2 hs⟩
  · exact (quatLog_quatExp_small r h2 (fun hh => absurd hh.1 (not_lt.mpr h))).1
  · have hz := (quatLog_quatExp_small r h2 (fun hh => absurd hh.2 (not_lt.mpr hs))).1
    have hb := small_of_sin_le (V3.norm_nonneg r) h2 hs
    exact ⟨hz, hb, lt_of_le_of_lt hb two_arcsin_cutoffLog_lt⟩

/-- the sliver is inhabited: the regular branch of the exponential and the cut-off branch of the logarithm do meet
    (`‖r‖ = 1.0000000002e-4`), so the middle case of `log_exp_cases` is not vacuous -/
theorem log_exp_sliver_nonempty :
    ∃ r : V3 ℝ, cutoff < r.norm ∧ r.norm < π ∧ Real.sin (r.norm / 2) ≤ cutoffLog ∧ quatLog (quatExp r) = ⟨0, 0, 0⟩ ∧ r ≠ ⟨0, 0, 0⟩ := by
  have hn : (⟨1.0000000002e-4, 0, 0⟩ : V3 ℝ).norm = 1.0000000002e-4 := norm_x_axis _ (by norm_num)
  have hc : cutoff < (⟨1.0000000002e-4, 0, 0⟩ : V3 ℝ).norm := by rw [hn, cutoff_val]; norm_num
  have hpi : (⟨1.0000000002e-4, 0, 0⟩ : V3 ℝ).norm < π := by rw [hn]; linarith [Real.pi_gt_three]
  have hs : Real.sin ((⟨1.0000000002e-4, 0, 0⟩ : V3 ℝ).norm / 2) ≤ cutoffLog := by
    rw [hn, cutoffLog_val]
    have e : (1.0000000002e-4 : ℝ) / 2 = 5.000000001e-5 := by norm_num
    rw [e]
    have hx : |(5.000000001e-5 : ℝ)| ≤ 1 := by rw [abs_of_pos (by norm_num)]; norm_num
    have hb := (abs_sub_le_iff.1 (Real.sin_bound hx)).1
    rw [abs_of_pos (by norm_num : (0 : ℝ) < 5.000000001e-5)] at hb
    have hnum : (5.000000001e-5 : ℝ) - 5.000000001e-5 ^ 3 / 6 + 5.000000001e-5 ^ 5 / 100 ≤ 1 / 20000 := by norm_num
    linarith
  exact ⟨_, hc, hpi, hs, ((log_exp_cases _ hpi).2.1 hc hs).1, by intro h; have := congrArg V3.x h; norm_num at this⟩



/-! ## batches: every column of the batch functions is the single-column function of that column -/

/-- column `j` of each batch function depends on column `j` of the batch argument (and on column 0 of the
    single-quaternion argument) only: the statements about `quatExp`, `quatLog`, `quatSum`, `quatDiff` hold for every
    column of batches of any width -/
theorem batch_columns {m n : Nat} (q : Mat ℝ 4 (m + 1)) (ql : Mat ℝ 4 n) (r : Mat ℝ 3 n) (j : Fin n) :
    Q.ofCol (expBatch r) j = quatExp (V3.ofCol r j) ∧
    V3.ofCol (logBatch ql) j = quatLog (Q.ofCol ql j) ∧
    Q.ofCol (sumBatch q r) j = quatSum (Q.ofCol q 0) (V3.ofCol r j) ∧
    V3.ofCol (diffBatch ql q) j = quatDiff (Q.ofCol ql j) (Q.ofCol q 0) :=
  ⟨ofCol_qCols _ j, ofCol_vCols _ j, ofCol_qCols _ j, ofCol_vCols _ j⟩

/-- the property's first sentence on the batch functions themselves, any width: every column of `q ⊕ r` is a unit
    quaternion and subtracting `q` again gives back the column of `r` within 2e-4 (within `2 asin 5e-5`) -/
theorem batch_round_trip {m n : Nat} (q : Mat ℝ 4 (m + 1)) (hq : (Q.ofCol q 0).normSq = 1) (r : Mat ℝ 3 n) (j : Fin n)
    (h : (V3.ofCol r j).norm < π) :
    (Q.ofCol (sumBatch q r) j).normSq = 1 ∧
    ((V3.ofCol (diffBatch (sumBatch q r) q) j).sub (V3.ofCol r j)).norm ≤ 2 * Real.arcsin cutoffLog ∧
    ((V3.ofCol (diffBatch (sumBatch q r) q) j).sub (V3.ofCol r j)).norm ≤ 2e-4 := by
  have hs := (batch_columns q (sumBatch q r) r j).2.2.1
  have hd := (batch_columns q (sumBatch q r) r j).2.2.2
  rw [hd, hs]
  exact ⟨sum_unit _ hq _, (diff_sum_bound _ hq _ h).1, (diff_sum_bound _ hq _ h).2⟩

/-- only column 0 of the single-quaternion argument is read -/
theorem batch_reads_column_zero {m m' n : Nat} (q : Mat ℝ 4 (m + 1)) (q' : Mat ℝ 4 (m' + 1)) (ql : Mat ℝ 4 n) (r : Mat ℝ 3 n)
    (h : Q.ofCol q 0 = Q.ofCol q' 0) : sumBatch q r = sumBatch q' r ∧ diffBatch ql q = diffBatch ql q' := by
  unfold sumBatch diffBatch; rw [h]; exact ⟨rfl, rfl⟩

/-! ## the known finding made precise: for which weights the centre is the dominant eigenvector, and sharpness -/

/-- The one-axis sigma-point family (centre `1`, sigma points `exp(±(θ,0,0))`, weights `w0, w1, w1`; `θ` above the
    exponential's cut-off): the matrix is `diag(w0 + 2 w1 cos²(θ/2), 2 w1 sin²(θ/2), 0, 0)` and the quantity of
    `mean_symmetric_centre_partial` is `w0 + 2 w1 cos θ`, the difference of the first two entries.
    * positive (and `w1 ≥ 0`): every result meeting the contract is `±` the centre (that theorem);
    * negative: the centre does NOT meet the contract — no eigen-solver meeting it can return `±` the centre.
    So the hypothesis `0 < Σ w_i cos‖r_i‖` of `mean_symmetric_centre_partial` cannot be weakened to any condition
    that admits a negative value: the bound is sharp. -/
theorem mean_symmetric_centre_gap_sharp (θ w0 w1 : ℝ) (hθ : cutoff < θ) (eig : Mat ℝ 4 4 → Q ℝ) :
    (∑ i, (Vec.of (wAxis w0 w1) : Vec ℝ 3) i * (2 * (quatExp (rAxis θ i)).w ^ 2 - 1) = w0 + 2 * w1 * Real.cos θ) ∧
    (0 < w0 + 2 * w1 * Real.cos θ → 0 ≤ w1 →
      MeanContract eig (Vec.of (wAxis w0 w1)) (qCols (fun i => quatSum ⟨1, 0, 0, 0⟩ (rAxis θ i))) →
      quatMean eig (Vec.of (wAxis w0 w1)) (qCols (fun i => quatSum ⟨1, 0, 0, 0⟩ (rAxis θ i))) = ⟨1, 0, 0, 0⟩ ∨
      quatMean eig (Vec.of (wAxis w0 w1)) (qCols (fun i => quatSum ⟨1, 0, 0, 0⟩ (rAxis θ i))) = (⟨1, 0, 0, 0⟩ : Q ℝ).neg) ∧
    (w0 + 2 * w1 * Real.cos θ < 0 →
      ¬ IsDominantEigvec (toM (outerMean (Vec.of (wAxis w0 w1)) (qCols (fun i => quatSum ⟨1, 0, 0, 0⟩ (rAxis θ i)))))
          (⟨1, 0, 0, 0⟩ : Q ℝ).get ∧
      (MeanContract eig (Vec.of (wAxis w0 w1)) (qCols (fun i => quatSum ⟨1, 0, 0, 0⟩ (rAxis θ i))) →
        quatMean eig (Vec.of (wAxis w0 w1)) (qCols (fun i => quatSum ⟨1, 0, 0, 0⟩ (rAxis θ i))) ≠ ⟨1, 0, 0, 0⟩ ∧
        quatMean eig (Vec.of (wAxis w0 w1)) (qCols (fun i => quatSum ⟨1, 0, 0, 0⟩ (rAxis θ i))) ≠ (⟨1, 0, 0, 0⟩ : Q ℝ).neg)) := by
  have hgapeq : ∑ i, (Vec.of (wAxis w0 w1) : Vec ℝ 3) i * (2 * (quatExp (rAxis θ i)).w ^ 2 - 1)
      = w0 + 2 * w1 * Real.cos θ := by
    simp only [Vec.of_apply]; exact axis_gap θ w0 w1 hθ
  have hσ : Function.Involutive (![0, 2, 1] : Fin 3 → Fin 3) := by
    intro i; fin_cases i <;> rfl
  have hcols : colsOf (qCols (fun i => quatSum (⟨1, 0, 0, 0⟩ : Q ℝ) (rAxis θ i)))
      = fun i => (quatSum ⟨1, 0, 0, 0⟩ (rAxis θ i)).get := by
    funext i; rw [colsOf_eq, ofCol_qCols]
  refine ⟨hgapeq, fun hpos hw1 hcon => ?_, fun hneg => ?_⟩
  · refine (mean_symmetric_centre_partial eig _ _ ⟨1, 0, 0, 0⟩ (rAxis θ) ![0, 2, 1] hσ (by simp [Q.normSq])
      (fun i => ofCol_qCols _ i) ?_ ?_ ?_ ?_).2 hcon
    · intro i; fin_cases i <;> simp [rAxis, V3.neg]
    · intro i; fin_cases i <;> simp [wAxis]
    · intro i
      fin_cases i
      · right
        show (quatExp (⟨0, 0, 0⟩ : V3 ℝ)).w ^ 2 = 1
        rw [quatExp_cut _ (by rw [V3.norm_zero]; exact cutoff_pos.le)]; norm_num
      · left; simpa [wAxis] using hw1
      · left; simpa [wAxis] using hw1
    · rw [hgapeq]; exact hpos
  · have hnd : ¬ IsDominantEigvec (toM (outerMean (Vec.of (wAxis w0 w1)) (qCols (fun i => quatSum ⟨1, 0, 0, 0⟩ (rAxis θ i)))))
        (⟨1, 0, 0, 0⟩ : Q ℝ).get := by
      rw [toM_outerMean, hcols]
      exact axis_not_dominant θ w0 w1 hθ hneg
    refine ⟨hnd, fun hcon => ⟨fun he => hnd ?_, fun he => hnd ?_⟩⟩
    · unfold MeanContract at hcon; unfold quatMean at he; rw [he] at hcon; exact hcon
    · unfold MeanContract at hcon; unfold quatMean at he; rw [he, get_neg] at hcon
      exact isDominant_of_neg _ _ hcon

/-- non-vacuity of both regimes of `mean_symmetric_centre_gap_sharp`: `θ = 1`, `w1 = 1`: `w0 = 0` gives a positive gap
    (`2 cos 1 > 0`), `w0 = -2` a negative one -/
example : cutoff < (1 : ℝ) ∧ 0 < (0 : ℝ) + 2 * 1 * Real.cos 1 ∧ (-2 : ℝ) + 2 * 1 * Real.cos 1 < 0 := by
  have h1 : 0 < Real.cos 1 := Real.cos_pos_of_mem_Ioo ⟨by linarith [Real.pi_pos], by linarith [Real.pi_gt_three]⟩
  have h2 : Real.cos 1 < 1 := by
    have := Real.cos_lt_cos_of_nonneg_of_le_pi_div_two (le_refl (0 : ℝ)) (by linarith [Real.pi_gt_three]) (by norm_num : (0 : ℝ) < 1)
    simpa using this
  refine ⟨by rw [cutoff_val]; norm_num, by linarith, by linarith⟩

end round4

end BFL.Quat
