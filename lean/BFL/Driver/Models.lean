import BFL.Driver.Proto
import BFL.Core.GaussJordan
import BFL.Core.Transc
import BFL.Model.Models
/-
Driver entries for the shipped models and initialisers (C16).  Exact over `Rat`; the two places
where `exp`/`log` occur (transition density, grid log-weights) also run over `Float`.

  wna_fq dim T q                                   -> ok n F Q  lin circ noise   (state/input description)
  wna_shape dim num                                -> ok rows cols draws | undefined
  samp n k S c_1..c_k nd d_1..d_nd                 -> ok (rows cols Y)*k pos      (k successive getNoiseSample)
  wna_motion dim T q skip exo exoskip S [G g] k (N X out0)*k nd draws -> ok M_1 .. M_k pos   (k calls on one object)
  wna_trans dim T q k (N prev cur)*k               -> ok det (quad_i.. dens_i..(Float))*k
  lti_state fr fc qr qc | lti_meas hr hc rr rc     -> accept | reject k
  linmodel n m idx.. rr rc                         -> accept H | reject k
  sim <traj> nops ops..                            -> ok out..
  sensor <traj> m idx.. SR nd draws nops ops..     -> ok out..
  sensor_descr lin circ noise quat n m idx.. rr    -> ok input(lin circ noise quat total dof) meas-from-H(lin circ noise total) same|differs
  wna_plumb dim T q T2                             -> ok setProperty x2, setSamplingTime flag, unchanged|changed
  wna_move dim T q dim2 T2 q2 mode c1 c2 S nd draws -> ok n F Q Y pos   (moved object)
  grid xinf xsup yinf ysup nx ny R N state weight  -> ok flag state weight(Float)
 where <traj> = aff n L A b x0 | wna dim T q L x0 S nd draws
-/
namespace BFL.DriverModels
open BFL BFL.Proto BFL.Models

instance : NatCast Float := ⟨Float.ofNat⟩

def dimOf (k : Nat) : Option Dim :=
  match k with
  | 1 => some .oneD
  | 2 => some .twoD
  | 3 => some .threeD
  | _ => none

def dim : R Dim := do
  match dimOf (← nat) with
  | some d => pure d
  | none => failure

/-- nearest-double rendering of a rational whose numerator/denominator may be very long -/
def ratToFloat (q : Rat) : Float :=
  let n := q.num.natAbs
  let d := q.den
  let sn := if n.log2 > 200 then n.log2 - 200 else 0
  let sd := if d.log2 > 200 then d.log2 - 200 else 0
  let f := (Float.ofNat (n >>> sn) / Float.ofNat (d >>> sd)).scaleB ((sn : Int) - (sd : Int))
  if q.num < 0 then -f else f

def matF {r c : Nat} (A : Mat Rat r c) : Mat Float r c := Mat.eval (Mat.of fun i j => ratToFloat (A i j))

/-- stream of draws backed by an array (positions past the end read 0 and are reported) -/
def streamOf (ds : Array Rat) : Nat → Rat := fun k => ds[k]?.getD 0

def wna_fq : R String := do
  let d ← dim; let T ← rat; let q ← rat
  done
  let F := Mat.eval (wnaF d T)
  let Q := Mat.eval (wnaQ d T q)
  let sd := wnaStateDescr d
  let idd := additiveInputDescr sd (d.n * 2)
  pure (join (["ok", toString (d.n * 2)] ++ outMatCM ratStr F ++ outMatCM ratStr Q ++
    [toString sd.lin, toString sd.circ, toString idd.noise]))

def wna_shape : R String := do
  let d ← dim; let num ← nat
  done
  match wnaSampleShape d num with
  | some (r, c) => pure s!"ok {r} {c} {wnaDrawCount d num}"
  | none => pure "undefined"

def samp : R String := do
  let n ← nat; let k ← nat
  let S ← matCM rat n n
  let counts ← listOf k nat
  let nd ← nat
  let ds ← listOf nd rat
  done
  let stream := streamOf ds.toArray
  let mut rng : Rng Rat := ⟨stream, 0⟩
  let mut out : List String := ["ok"]
  for c in counts do
    let (Y, r') := noiseSample (n := n) S rng c
    out := out ++ [toString n, toString c] ++ outMatCM ratStr Y
    rng := r'
  pure (join (out ++ [toString rng.pos]))

def wna_motion : R String := do
  let d ← dim; let T ← rat; let q ← rat
  let skip ← bool; let exo ← bool; let exoskip ← bool
  let n := d.n * 2
  let S ← matCM rat n n
  let exoG ← if exo then do
      let G ← matCM rat n n
      let g ← vec rat n
      pure (some (G, g))
    else pure none
  let k ← nat
  let mut batches : Array (Σ N : Nat, Mat Rat n N × Mat Rat n N) := #[]
  for _ in [0:k] do
    let N ← nat
    let X ← matCM rat n N
    let out0 ← matCM rat n N
    batches := batches.push ⟨N, X, out0⟩
  let nd ← nat
  let ds ← listOf nd rat
  done
  let _ := q
  let F := Mat.eval (wnaF d T)
  -- successive calls on one object: the generator state threads through
  let mut rng : Rng Rat := ⟨streamOf ds.toArray, 0⟩
  let mut out : List String := ["ok"]
  for ⟨N, X, out0⟩ in batches do
    let exoM : Option (Exo Rat n N) := exoG.map fun (G, g) =>
      { skipping := exoskip, f := fun (C : Mat Rat n N) => Mat.of fun i j => (G.mul C) i j + g i }
    let (M, r') := addMotion F S skip exoM X out0 rng
    out := out ++ outMatCM ratStr (Mat.eval M)
    rng := r'
  pure (join (out ++ [toString rng.pos]))

def wna_trans : R String := do
  let d ← dim; let T ← rat; let q ← rat; let k ← nat
  let n := d.n * 2
  let mut batches : Array (Σ N : Nat, Mat Rat n N × Mat Rat n N) := #[]
  for _ in [0:k] do
    let N ← nat
    let prev ← matCM rat n N
    let cur ← matCM rat n N
    batches := batches.push ⟨N, prev, cur⟩
  done
  let F := Mat.eval (wnaF d T)
  let Q := Mat.eval (wnaQ d T q)
  match gaussJordan n Q with
  | none => pure "singular"
  | some (Qi, detQ) =>
    let Qi := Mat.eval Qi
    if !(certInv n Q Qi) then pure "inv-cert-fail" else
    let QiF := matF Qi
    let detF := ratToFloat detQ
    let mut out : List String := ["ok", ratStr detQ]
    for ⟨N, prev, cur⟩ in batches do
      -- exact quadratic forms of the residuals
      let D := Mat.eval (cur.sub (F.mul prev))
      let quads := (List.finRange N).map fun i => quadForm Qi (D.col i)
      -- the model's density, executed over Float with the certified inverse / determinant
      let dens := wnaTransition (α := Float) (fun _ => QiF) (fun _ => detF) (matF F) (matF Q) (matF prev) (matF cur)
      out := out ++ quads.map ratStr ++ outVec floatStr dens
    pure (join out)

def lti_state : R String := do
  let fr ← nat; let fc ← nat; let qr ← nat; let qc ← nat
  done
  match ltiStateCheck fr fc qr qc with
  | none => pure (if ltiStateCtor fr fc qr qc then "accept" else "inconsistent")
  | some k => pure (if ltiStateCtor fr fc qr qc then "inconsistent" else s!"reject {k}")

def lti_meas : R String := do
  let hr ← nat; let hc ← nat; let rr ← nat; let rc ← nat
  done
  match ltiMeasCheck hr hc rr rc with
  | none => pure (if ltiMeasCtor hr hc rr rc then "accept" else "inconsistent")
  | some k => pure (if ltiMeasCtor hr hc rr rc then "inconsistent" else s!"reject {k}")

def linmodel : R String := do
  let n ← nat; let m ← nat
  let idx ← listOf m nat
  let rr ← nat; let rc ← nat
  done
  match linearModelCheck n idx rr rc with
  | some k => pure s!"reject {k}"
  | none =>
    let H : Mat Rat idx.length n := linearModelH n idx
    pure (join (["accept", toString idx.length, toString n] ++ outMatCM ratStr H))

/-- the trajectory source: a harness-defined affine motion or the shipped WNA model -/
def readTraj : R (Σ n : Nat, Sim (Vec Rat n)) := do
  let kind ← tok
  match kind with
  | "aff" =>
    let n ← nat; let L ← nat
    let A ← matCM rat n n
    let b ← vec rat n
    let x0 ← vec rat n
    let step : Nat → Vec Rat n → Vec Rat n := fun _ x => Vec.eval ((A.mulVec x).add b)
    pure ⟨n, simCtor step x0 L⟩
  | "wna" =>
    let d ← dim; let T ← rat; let _q ← rat; let L ← nat
    let n := d.n * 2
    let x0 ← vec rat n
    let S ← matCM rat n n
    let nd ← nat
    let ds ← listOf nd rat
    let stream := streamOf ds.toArray
    let F := Mat.eval (wnaF d T)
    -- the k-th call of motion: one column, reading the draws k*n .. k*n + n - 1
    let step : Nat → Vec Rat n → Vec Rat n := fun k x => Vec.eval (addSimStep F S stream k x)
    pure ⟨n, simCtor step x0 L⟩
  | _ => failure

def simOp (t : String) : Option SimOp :=
  match t with
  | "b" => some .buffer
  | "g" => some .get
  | "r" => some .reset
  | "u" => some .other
  | _ => none

def outSim {n : Nat} (o : SimOut (Vec Rat n)) : List String :=
  match o with
  | .flag b => [if b then "T" else "F"]
  | .data none => ["g", "0"]
  | .data (some v) => ["g", toString n] ++ outVec ratStr v

def sim : R String := do
  let ⟨_, s⟩ ← readTraj
  let nops ← nat
  let ops ← listOf nops tok
  done
  match ops.mapM simOp with
  | none => failure
  | some ops =>
    let (s', outs) := s.run ops
    -- the counting specification on the same calls (theorem `sim_refines_spec`: the answers above are these, read through k ↦ x_k)
    let (a', souts) := SimSpec.run s.target.length { served := 0, last := none } ops
    let specTok : SimOut Nat → String
      | .flag b => if b then "T" else "F"
      | .data none => "g-"
      | .data (some i) => s!"g{i}"
    pure (join (["ok"] ++ outs.flatMap outSim ++ ["cursor", toString s'.cursor, toString (min s.target.length (bufCount ops))]
      ++ ["spec", toString a'.served] ++ souts.map specTok))

def sensor : R String := do
  let ⟨n, s⟩ ← readTraj
  let m ← nat
  let idx ← listOf m nat
  let SR ← matCM rat m m
  let nd ← nat
  let ds ← listOf nd rat
  let nops ← nat
  let ops ← listOf nops tok
  done
  if h : idx.length = m then
    let H0 : Mat Rat idx.length n := linearModelH n idx
    let H : Mat Rat m n := h ▸ H0
    let st0 : Sensor Rat n m := { sim := s, meas := none, rng := ⟨streamOf ds.toArray, 0⟩ }
    let opOf : String → Option SensorOp
      | "f" => some .freeze | "m" => some .measure | "r" => some .reset | "b" => some .buffer | _ => none
    match ops.mapM opOf with
    | none => pure "bad-ops"
    | some sops =>
      -- the model's state machine (`Sensor.run`) and the counting specification on the same calls
      -- (theorem `sensor_refines_spec`: the answers are the specification's, read through (k, d) ↦ H x_k + S_R z_d)
      let (st, outs) := Sensor.run H SR st0 sops
      let (a, souts) := SensorSpec.run s.target.length { served := 0, draws := 0, meas := none } sops
      let tok : SensorOut (Vec Rat m) → List String
        | .flag b => [if b then "T" else "F"]
        | .meas ok none => [if ok then "m" else "mF", "0"]
        | .meas ok (some v) => [if ok then "m" else "mF", toString m] ++ outVec ratStr v
      let stok : SensorOut (Nat × Nat) → String
        | .flag b => if b then "T" else "F"
        | .meas _ none => "m-"
        | .meas _ (some kd) => s!"m{kd.1}:{kd.2}"
      pure (join (["ok"] ++ outs.flatMap tok ++ ["pos", toString st.rng.pos]
        ++ ["spec", toString a.served, toString a.draws] ++ souts.map stok))
  else failure

def sensor_descr : R String := do
  let lin ← nat; let circ ← nat; let noise ← nat; let quat ← bool
  let n ← nat; let m ← nat
  let idx ← listOf m nat
  let rr ← nat
  done
  let st : Descr := { lin := lin, circ := circ, noise := noise, quat := quat }
  let i := sensorInputDescr st rr
  -- the measurement description as the constructor computes it: from H, against the input description
  let H : Mat Rat idx.length n := linearModelH n idx
  let md := sensorMeasDescrH i H
  let md2 := sensorMeasDescr i idx
  pure s!"ok {i.lin} {i.circ} {i.noise} {if i.quat then 1 else 0} {i.totalSize} {i.dofSize} {md.lin} {md.circ} {md.noise} {md.totalSize} {if md == md2 then "same" else "differs"}"

/-- setProperty / setSamplingTime plumbing and hand-over of a WhiteNoiseAcceleration object -/
def wna_plumb : R String := do
  let d ← dim; let T ← rat; let q ← rat; let T2 ← rat
  done
  let (ok, (d', T', q')) := wnaSetSamplingTime (d, T, q) T2
  let same := d' == d && T' == T && q' == q
  pure s!"ok {if defaultSetProperty "reset" then 1 else 0} {if defaultSetProperty "anything" then 1 else 0} {if ok then 1 else 0} {if same then "unchanged" else "changed"}"

def lti_move : R String := do
  let n ← nat; let mode ← nat
  done
  let a : LtiObj := { n := n, skipping := true, hasExo := true }
  let other : LtiObj := { n := n + 1, skipping := false, hasExo := false }
  let b := if mode == 0 then a.moveFrom else LtiObj.moveAssign other a
  pure s!"ok {b.n} {if b.hasExo then 1 else 0} {if b.skipping then 1 else 0}"

def wna_move : R String := do
  let d ← dim; let T ← rat; let q ← rat
  let d2 ← dim; let T2 ← rat; let q2 ← rat
  let mode ← nat; let c1 ← nat; let c2 ← nat
  let n := d.n * 2
  let S ← matCM rat n n
  let nd ← nat
  let ds ← listOf nd rat
  done
  let a : WnaObj Rat := { dim := d, T := T, q := q, rng := ⟨streamOf ds.toArray, 0⟩ }
  let (_, r1) := noiseSample (n := n) S a.rng c1
  let a := { a with rng := r1 }
  let other : WnaObj Rat := { dim := d2, T := T2, q := q2, rng := ⟨fun _ => 0, 0⟩ }
  let b := if mode == 0 then a.moveFrom else WnaObj.moveAssign other a
  if h : b.dim = d then
    let F := Mat.eval (wnaF b.dim b.T)
    let Q := Mat.eval (wnaQ b.dim b.T b.q)
    let S' : Mat Rat (b.dim.n * 2) (b.dim.n * 2) := h ▸ S
    let (Y, r2) := noiseSample S' b.rng c2
    pure (join (["ok", toString (b.dim.n * 2)] ++ outMatCM ratStr F ++ outMatCM ratStr Q ++ outMatCM ratStr Y ++ [toString r2.pos]))
  else pure "moved-object-has-another-dim"

def grid : R String := do
  let xinf ← rat; let xsup ← rat; let yinf ← rat; let ysup ← rat
  let nx ← nat; let ny ← nat; let Rr ← nat; let N ← nat
  let state ← matCM rat Rr N
  let weight ← vec rat N
  done
  -- decisions and log-weights: the model over Float; positions: the same loop, exact over Rat
  let (ok, _, wF) := gridInit (α := Float) (ratToFloat xinf) (ratToFloat xsup) (ratToFloat yinf) (ratToFloat ysup)
      nx ny (matF state) (Vec.of fun i => ratToFloat (weight i))
  if ok then
    let st := Mat.eval (gridLoop xinf xsup yinf ysup nx ny state)
    pure (join (["ok", "T"] ++ outMatCM ratStr st ++ outVec floatStr wF))
  else
    pure (join (["ok", "F"] ++ outMatCM ratStr state ++ outVec ratStr weight))

def handle (op : String) (args : List String) : Option String :=
  match op with
  | "wna_fq" => some ((run wna_fq args).getD "bad-args")
  | "wna_shape" => some ((run wna_shape args).getD "bad-args")
  | "samp" => some ((run samp args).getD "bad-args")
  | "wna_motion" => some ((run wna_motion args).getD "bad-args")
  | "wna_trans" => some ((run wna_trans args).getD "bad-args")
  | "lti_state" => some ((run lti_state args).getD "bad-args")
  | "lti_meas" => some ((run lti_meas args).getD "bad-args")
  | "linmodel" => some ((run linmodel args).getD "bad-args")
  | "sim" => some ((run sim args).getD "bad-args")
  | "sensor" => some ((run sensor args).getD "bad-args")
  | "sensor_descr" => some ((run sensor_descr args).getD "bad-args")
  | "wna_plumb" => some ((run wna_plumb args).getD "bad-args")
  | "wna_move" => some ((run wna_move args).getD "bad-args")
  | "lti_move" => some ((run lti_move args).getD "bad-args")
  | "grid" => some ((run grid args).getD "bad-args")
  | _ => none

end BFL.DriverModels
