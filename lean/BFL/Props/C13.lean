import BFL.Model.Skip
import BFL.Proofs.Skip
/-
C13 — Skip commands are safe, reversible and turn the skipped step into the identity.

Model: BFL/Model/Skip.lean (`filterSkip`, `predictionSkip`, `stateModelSkip`, `correctionSkip`,
`predPath`, `linearPropagate`), transcribed from the dispatch chains of GaussianFilter /
ParticleFilter, GaussianPrediction / PFPrediction, StateModel, ExogenousModel and from the skip
tests in predict / correct / predictStep / LinearStateModel::propagate.

All theorems quantify over *every* command list (no bound on the length), both configurations
(with / without exogenous model), and all five prediction classes of `PredKind`.
-/
namespace BFL
open BFL.Skip

/-- **Totality.**  From *any* flag state (reachable or not), in both configurations: the named
    commands return `true` and do not throw ('exogenous' provided such a model exists); an
    unknown name returns `false` and changes nothing. -/
theorem skip_total (st : SkipState) (n : StepName) (on : Bool) :
    (n ≠ .unknown → (n = .exogenous → st.hasExo = true) → (filterSkip st n on).out = .ret true) ∧
    (n = .unknown → filterSkip st n on = ⟨st, .ret false⟩) := by
  obtain ⟨p, s, e, c⟩ := st
  cases n <;> cases on <;> cases p <;> cases s <;> cases c <;> rcases e with _ | (_ | _) <;> decide

/-- What the code does where the property promises nothing: 'exogenous' without an exogenous
    model throws out of `StateModel::exogenous_model()` — before any flag is written. -/
theorem skip_exogenous_absent_throws (st : SkipState) (on : Bool) (h : st.hasExo = false) :
    filterSkip st .exogenous on = ⟨st, .thrown⟩ := by
  obtain ⟨p, s, e, c⟩ := st
  cases on <;> cases p <;> cases s <;> cases c <;> rcases e with _ | (_ | _) <;>
    first | decide | (revert h; decide)

/-- The configuration built with `DrawParticles(state_model, exogenous_model)` (fixed by
    18ea290: the constructor attaches the model) is covered by `skip_total`: the exogenous model
    is attached, 'exogenous' returns `true`, and the never-skipped prediction applies the input. -/
theorem skip_total_draw_two_arg (on : Bool) :
    (drawTwoArgConfig true).hasExo = true ∧
    (filterSkip (drawTwoArgConfig true) .exogenous on).out = .ret true ∧
    predPath .draw (drawTwoArgConfig true) = .ran .fxExo := by
  cases on <;> decide

/-- No command ever throws after having written a flag: a thrown command leaves the state as it was. -/
theorem skip_thrown_changes_nothing (st : SkipState) (c : Cmd) (h : (skipCmd st c).out = .thrown) :
    (skipCmd st c).st = st := by
  obtain ⟨p, s, e, cr⟩ := st
  obtain ⟨l, n, on⟩ := c
  cases l <;> cases n <;> cases on <;> cases p <;> cases s <;> cases cr <;> rcases e with _ | (_ | _) <;>
    first | decide | (revert h; decide)

/-- **Invariant.**  After every sequence of commands given to the filter or to its steps,
    `prediction.skipping = state.skipping ∧ (no exogenous model ∨ exogenous.skipping)`. -/
theorem skip_inv (hasExo : Bool) (cs : List Cmd) (h : ∀ c ∈ cs, c.viaSteps) :
    Inv (run (SkipState.init hasExo) cs) :=
  run_inv cs _ h (init_inv hasExo)

/-- The configuration is not changed by commands. -/
theorem skip_keeps_configuration (hasExo : Bool) (cs : List Cmd) :
    (run (SkipState.init hasExo) cs).hasExo = hasExo := by
  rw [run_hasExo]; cases hasExo <;> rfl

/-- **The skipping state reported matches the commands given**: after any list of filter-level
    commands the four flags are those of the specification fold `Spec.run`, and the next command
    answers as the specification says. -/
theorem skip_reports_commands (hasExo : Bool) (cs : List (StepName × Bool)) :
    run (SkipState.init hasExo) (filterCmds cs) = ((Spec.init hasExo).run cs).flags ∧
    ∀ (n : StepName) (on : Bool),
      (filterSkip (run (SkipState.init hasExo) (filterCmds cs)) n on).out = ((Spec.init hasExo).run cs).outcome n := by
  have h := run_spec cs (Spec.init hasExo)
  rw [init_flags] at h
  refine ⟨h, fun n on => ?_⟩
  rw [h, filterSkip_spec]

/-- **Identity.**  While the prediction is reported as skipping, `predict` returns its input,
    for every prediction class; while the correction is skipped, `correctStep` is not run
    (`correct` assigns the input to the output). -/
theorem skip_identity (k : PredKind) (st : SkipState) :
    (st.pred = true → predObs k st = .identity) ∧ (st.corr = true → corrRuns st = false) := by
  obtain ⟨p, s, e, c⟩ := st
  cases k <;> cases p <;> cases s <;> cases c <;> rcases e with _ | (_ | _) <;> decide

/-- Identity, in terms of the commands given: 'prediction' on (or 'all' on, or 'state' and
    'exogenous' on separately) makes `predict` the identity until one of them is switched off. -/
theorem skip_identity_of_commands (hasExo : Bool) (cs : List (StepName × Bool)) (k : PredKind) :
    (((Spec.init hasExo).run cs).predSkipped = true →
        predObs k (run (SkipState.init hasExo) (filterCmds cs)) = .identity) ∧
    (((Spec.init hasExo).run cs).corr = true →
        corrRuns (run (SkipState.init hasExo) (filterCmds cs)) = false) := by
  rw [(skip_reports_commands hasExo cs).1]
  constructor
  · intro h; exact (skip_identity k _).1 h
  · intro h; exact (skip_identity k _).2 h

/-- 'all' on: both steps are the identity, from any state. -/
theorem skip_all_on (k : PredKind) (st : SkipState) :
    predObs k (filterSkip st .all true).st = .identity ∧ corrRuns (filterSkip st .all true).st = false := by
  obtain ⟨p, s, e, c⟩ := st
  cases k <;> cases p <;> cases s <;> cases c <;> rcases e with _ | (_ | _) <;> decide

/-- 'all' off resets every flag, from any state. -/
theorem skip_all_off_resets (st : SkipState) :
    (filterSkip st .all false).st = SkipState.init st.hasExo := by
  obtain ⟨p, s, e, c⟩ := st
  cases p <;> cases s <;> cases c <;> rcases e with _ | (_ | _) <;> decide

/-- The never-skipped behaviour: the state model runs in full, with the exogenous contribution
    exactly when there is an exogenous model; the correction runs. -/
theorem never_skipped_behaviour (hasExo : Bool) (k : PredKind) :
    predPath k (SkipState.init hasExo) = .ran (if hasExo then .fxExo else .fx) ∧
    corrRuns (SkipState.init hasExo) = true := by
  cases hasExo <;> cases k <;> decide

/-- **Restore.**  For every command sequence after which nothing is switched on any more (state
    model off, exogenous model off or absent, correction off — however that was reached:
    'prediction'/'all' off, or the parts one by one), each step takes the same branch as in a
    filter that was never given a skip command. -/
theorem skip_restore (hasExo : Bool) (cs : List (StepName × Bool)) (k : PredKind)
    (hs : ((Spec.init hasExo).run cs).state = false)
    (he : hasExo = true → ((Spec.init hasExo).run cs).exo = false)
    (hc : ((Spec.init hasExo).run cs).corr = false) :
    predPath k (run (SkipState.init hasExo) (filterCmds cs)) = predPath k (SkipState.init hasExo) ∧
    corrRuns (run (SkipState.init hasExo) (filterCmds cs)) = corrRuns (SkipState.init hasExo) := by
  have hflags : ((Spec.init hasExo).run cs).flags = SkipState.init hasExo := by
    have hx := spec_run_hasExo cs (Spec.init hasExo)
    generalize (Spec.init hasExo).run cs = s at *
    obtain ⟨h, st, e, c⟩ := s
    simp only [Spec.init] at hx
    subst hx
    simp only at hs hc he
    subst hs hc
    cases h
    · cases e <;> decide
    · simp only [he rfl]; decide
  rw [(skip_reports_commands hasExo cs).1, hflags]
  exact ⟨rfl, rfl⟩

/-- In a state reachable through the filter or the steps, `LinearStateModel::propagate` never
    falls through all of its branches and never copies: whenever the state model is consulted
    the result is `F x (+ u)` or — `DrawParticles` only, state model skipped while the exogenous
    model is not — the exogenous part alone. -/
theorem reachable_propagate_defined (k : PredKind) (st : SkipState) (h : Inv st) :
    predObs k st ≠ .step .untouched ∧ predObs k st ≠ .step .copy ∧
    (predObs k st = .step .exoOnly → k = .draw ∧ st.state = true ∧ st.exo = some false) := by
  obtain ⟨p, s, e, c⟩ := st
  cases k <;> cases p <;> cases s <;> cases c <;> rcases e with _ | (_ | _) <;>
    first | decide | (revert h; decide)

/-- Recorded behaviour in a partial state (not constrained by the property): with 'state'
    skipped and an exogenous model that is *not* skipped, `prediction.skipping` is false, the
    Kalman and unscented `predictStep` nevertheless return their input (the exogenous part is
    not applied), while `DrawParticles` applies the exogenous part alone. -/
theorem partial_state_skip (st : SkipState) (h : Inv st) (hs : st.state = true) (he : st.exo = some false) :
    st.pred = false ∧
    predPath .kf st = .atPredictStep ∧ predPath .ukfAdd st = .atPredictStep ∧
    predPath .ukfGen st = .atPredictStep ∧ predPath .gpfKf st = .atPredictStep ∧
    predPath .draw st = .ran .exoOnly := by
  obtain ⟨p, s, e, c⟩ := st
  subst hs he
  cases p <;> cases c <;> first | decide | (revert h; decide)

/-- **Hand-over is transparent**: a filter rebuilt around move-constructed steps reports the same
    flags, answers the next command identically and takes the same branch in predict / correct as
    the configured original — after every command history, for every prediction class. -/
theorem skip_handover_transparent (st : SkipState) (k : PredKind) (c : Cmd) :
    handOver st = st ∧ skipCmd (handOver st) c = skipCmd st c ∧
    predPath k (handOver st) = predPath k st ∧ corrRuns (handOver st) = corrRuns st := by
  cases st
  exact ⟨rfl, rfl, rfl, rfl⟩

/-- Hand-overs may be interleaved with commands anywhere in a history without changing the
    resulting state. -/
theorem run_with_handovers (cs₁ cs₂ : List Cmd) (st : SkipState) :
    run (handOver (run st cs₁)) cs₂ = run st (cs₁ ++ cs₂) := by
  rw [(skip_handover_transparent _ .kf ⟨.filter, .unknown, false⟩).1]
  induction cs₁ generalizing st with
  | nil => rfl
  | cons c cs ih => simp only [run, List.cons_append]; exact ih _

/-- What fix 88cf1f5 repairs: before it, handing over a Gaussian correction whose skip was on
    gave a filter that corrects again. -/
theorem handover_before_fix_lost_correction_skip :
    let st := (filterSkip (SkipState.init false) .all true).st
    corrRuns st = false ∧ corrRuns (handOverBefore88cf1f5 st) = true ∧ corrRuns (handOver st) = false := by
  decide

/-! ### Non-vacuity -/

/-- a history ending with everything off after partial and full skips, with an exogenous model -/
example : let cs : List (StepName × Bool) :=
            [(.all, true), (.state, false), (.unknown, true), (.prediction, false), (.exogenous, true),
             (.correction, false), (.exogenous, false)]
          ((Spec.init true).run cs).state = false ∧ ((Spec.init true).run cs).exo = false ∧
          ((Spec.init true).run cs).corr = false := by decide

/-- the identity hypothesis is reachable without the word 'prediction' -/
example : ((Spec.init true).run [(.state, true), (.exogenous, true)]).predSkipped = true := by decide

/-- a state-model-level command breaks the invariant (hence the restriction in `skip_inv`) -/
example : ¬ Inv (run (SkipState.init true) [⟨.stateModel, .state, true⟩, ⟨.stateModel, .exogenous, true⟩]) := by
  decide

/-- and then `DrawParticles` reaches the copying branch of `propagate`, which is not the identity
    of `predict` (noise is still added) -/
example : predObs .draw (run (SkipState.init true) [⟨.stateModel, .state, true⟩, ⟨.stateModel, .exogenous, true⟩])
    = .step .copy := by decide

example : predObs .draw (run (SkipState.init false) [⟨.stateModel, .state, true⟩]) = .step .untouched := by decide

end BFL
