import BFL.Driver.Proto
import BFL.Model.Lifecycle
/-
Driver entries of the lifecycle group (C09).

  life <cfg> tok tok …        cfg = cur | old | nolock | nonotify
     r s b t     run / reset / reboot (both stores) / teardown      (R S B T are read the same)
     a0 a1       let the thread leave its parking place and advance to the next one; the digit is
                 what run_condition() — or initialization_step() — returns if the thread is parked
                 inside that call (the recursion ignores the result of initialization_step())
     F           (first token only) boot() fails to create the thread
     b1 b2       reboot() split at schedule point 6 (between `reset_ = true` and `run_ = false`, mutex held)
     u           spurious wake-up of the condition wait
     jw          as j, with wait() called while the thread is still held (it must not return early)
     j           let the thread run freely (run_condition() = false from now on) and join it
     jt          the same with run_condition() = true from now on (64 moves must suffice: meant for
                 schedules in which teardown was requested)

Parking places of the thread (= the places where the harness can hold the real thread):
  0 1 2 3 4   the schedule points of filtering_recursion()       (pc top, preWait, preInit, afterLoop, preFinal)
  k           entry of the condition wait, mutex held            (blocking)
  w           blocked inside the condition wait                  (waiting, no notification pending)
  v           woken, mutex not yet re-acquired, predicate not yet re-evaluated   (waiting, notification pending)
  i s c       inside initialization_step / filtering_step / run_condition   (inInit, inStep, inA|outA)
  f           ended                                              (done)
Output, one word per token:  tok:events:place:is_running:step_number[:d]
  events = Init / Step k start / Step k end since the previous token (I, S<k>, E<k>, `.`-joined, `-` if none);
  `d` = the command needs the mutex the thread holds (place k): it takes effect when the thread
  has released it, i.e. during the next `a`.
  j gives  j:events:f:run:step  or  j:hang  (the thread cannot end).
Every transition is made by `BFL.Life.step` — the function the theorems are about.
-/
namespace BFL.DriverLife
open BFL BFL.Proto BFL.Life

def isGate : PC → Bool
  | .top | .preWait | .blocking | .waiting | .preInit | .inInit | .inA | .inStep
  | .afterLoop | .outA | .preFinal | .done => true
  | _ => false

def place : PC → String
  | .top => "0" | .preWait => "1" | .blocking => "k" | .waiting => "w" | .preInit => "2"
  | .inInit => "i" | .inA => "c" | .outA => "c" | .inStep => "s" | .afterLoop => "3"
  | .preFinal => "4" | .done => "f"
  | _ => "?"

/-- abstract control state: program counter and the three flags (+ pending notification, reboot in progress) -/
def absState (s : St) : String :=
  let b := fun (x : Bool) => if x then "1" else "0"
  s!"{(reprStr s.pc).replace "BFL.Life.PC." ""}/{b s.run}{b s.reset}{b s.teardown}{b s.woken}{b s.mid}"

/-- a state together with the abstract states passed through -/
structure T where
  s : St
  vis : Array String

def pcName (pc : PC) : String := (reprStr pc).replace "BFL.Life.PC." ""

/-- records the abstract state reached and, for a thread move, the control edge taken -/
def T.step (cfg : Cfg) (t : T) (a : Act) : T :=
  let s' := BFL.Life.step cfg t.s a
  let vis := t.vis.push (absState s')
  let vis := match a with
    | .t _ => if s'.pc != t.s.pc then vis.push s!"e:{pcName t.s.pc}>{pcName s'.pc}" else vis
    | _ => vis
  { s := s', vis := vis }

/-- moves that need no value from the environment, until the next parking place -/
def settle (cfg : Cfg) : Nat → T → T
  | 0, t => t
  | n + 1, t => if isGate t.s.pc then t else
      match thr t.s false with
      | some _ => settle cfg n (t.step cfg (.t false))
      | none => t

def advance (cfg : Cfg) (t : T) (c : Bool) : T :=
  match thr t.s c with
  | none => t
  | some _ => settle cfg 8 (t.step cfg (.t c))

def cmdOf : String → Option Cmd
  | "r" | "R" => some .run
  | "s" | "S" => some .reset
  | "b" | "B" => some .reboot
  | "t" | "T" => some .teardown
  | _ => none

def needsMutex (cfg : Cfg) : Cmd → Bool
  | .run | .reboot => true
  | .teardown => cfg.tdLock
  | _ => false

def applyCmd (cfg : Cfg) (t : T) (x : Cmd) : T :=
  let t1 := t.step cfg (.c x)
  if x == .reboot then t1.step cfg .fin else t1

def evStr : Ev → Option String
  | .init => some "I"
  | .stepStart k => some s!"S{k}"
  | .stepEnd k => some s!"E{k}"
  | _ => none

/-- the same for a real `SIS`: the prediction its step carries out (`sisPredicts`) is an event `P`
between the start and the end of the step -/
def evStrSis : Ev → Option String
  | .stepEnd k => some (if sisPredicts k then s!"P.E{k}" else s!"E{k}")
  | e => evStr e

/-- events pushed since the history had length `n0` (oldest first) -/
def newEvents (s : St) (n0 : Nat) (sis : Bool := false) : String :=
  let evs := ((s.hist.take (s.hist.length - n0)).reverse).filterMap (if sis then evStrSis else evStr)
  if evs.isEmpty then "-" else ".".intercalate evs

/-- parking place; a thread in the wait with a notification pending (`v`) has not re-acquired the mutex yet -/
def placeOf (s : St) : String := if s.pc == .waiting && s.woken then "v" else place s.pc

def obs (tok : String) (s : St) (n0 : Nat) (sis : Bool := false) : String :=
  s!"{tok}:{newEvents s n0 sis}:{placeOf s}:{if s.isRunning then 1 else 0}:{s.stepNumber}"

def freeRun (cfg : Cfg) (c : Bool) : Nat → T → T
  | 0, t => t
  | n + 1, t => match thr t.s c with
    | some _ => freeRun cfg c n (t.step cfg (.t c))
    | none => t

structure Run where
  t : T
  pending : List Cmd := []
  /-- an advance made while the thread's next move needs the mutex held by an unfinished reboot() -/
  padv : Option Bool := none
  out : Array String := #[]
  hung : Bool := false
  /-- the filter is a real `SIS` (op `lifesis`): predictions are events -/
  sis : Bool := false

def runTok (cfg : Cfg) (r : Run) (tok : String) : Option Run :=
  let n0 := r.t.s.hist.length
  let obs := fun (tok : String) (s : St) (n0 : Nat) => obs tok s n0 r.sis
  if tok == "F" then
    if r.out.isEmpty then
      some { r with t := { s := St.bootFailed, vis := #[absState St.bootFailed] }, out := r.out.push (obs tok St.bootFailed 0) }
    else none
  else if tok == "b1" then
    let t1 := r.t.step cfg (.c .reboot)
    some { r with t := t1, out := r.out.push (obs tok t1.s n0) }
  else if tok == "b2" then
    let t1 := r.t.step cfg .fin
    let t2 := match r.padv with
      | some c => advance cfg t1 c
      | none => t1
    some { r with t := t2, padv := none, out := r.out.push (obs tok t2.s n0) }
  else
  match cmdOf tok with
  | some x =>
    if r.t.s.pc == .blocking && needsMutex cfg x then
      some { r with pending := r.pending ++ [x], out := r.out.push (obs tok r.t.s n0 ++ ":d") }
    else
      let t' := applyCmd cfg r.t x
      some { r with t := t', out := r.out.push (obs tok t'.s n0) }
  | none =>
    if (tok == "a0" || tok == "a1") && r.t.s.mid && (r.t.s.pc == .preWait || (r.t.s.pc == .waiting && r.t.s.woken)) then
      some { r with padv := some (r.padv.getD (tok == "a1")), out := r.out.push (obs tok r.t.s n0) }
    else if tok == "a0" || tok == "a1" then
      let t1 := advance cfg r.t (tok == "a1")
      let t2 := r.pending.foldl (applyCmd cfg) t1
      some { r with t := t2, pending := [], out := r.out.push (obs tok t2.s n0) }
    else if tok == "u" then
      let t1 := r.t.step cfg .spur
      some { r with t := t1, out := r.out.push (obs tok t1.s n0) }
    else if tok == "j" || tok == "jt" || tok == "jw" then
      let c := tok == "jt"
      let t1 := r.pending.foldl (applyCmd cfg) (freeRun cfg c 64 r.t)
      let t2 := freeRun cfg c 64 t1
      if t2.s.pc == .done then
        let t3 := t2.step cfg (.c .wait)
        some { r with t := t3, pending := [], out := r.out.push (obs tok t3.s n0) }
      else
        some { r with t := t2, pending := [], out := r.out.push (tok ++ ":hang"), hung := true }
    else none

def cfgOf : String → Option Cfg
  | "cur" => some Cfg.current
  | "old" => some Cfg.old
  | "nolock" => some ⟨false, true⟩
  | "nonotify" => some ⟨true, false⟩
  | _ => none

def runLine (args : List String) (sis : Bool := false) : Option Run := do
  match args with
  | [] => none
  | c :: toks =>
    let cfg ← cfgOf c
    let mut r : Run := { t := { s := St.boot, vis := #[absState St.boot] }, sis := sis }
    for t in toks do
      if r.hung then break
      r ← runTok cfg r t
    pure r

def handle (op : String) (args : List String) : Option String :=
  match op with
  | "life" => some (((runLine args).map fun r => " ".intercalate r.out.toList).getD "bad-args")
  | "lifesis" => some (((runLine args true).map fun r => " ".intercalate r.out.toList).getD "bad-args")
  | "lifev" => some (((runLine args).map fun r => " ".intercalate r.t.vis.toList.eraseDups).getD "bad-args")
  | _ => none

end BFL.DriverLife
