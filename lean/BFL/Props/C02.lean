import BFL.Model.KF
import BFL.Model.KFHist
import BFL.Bridge.Mat
import Mathlib.LinearAlgebra.Matrix.PosDef
import Mathlib.Algebra.Order.Star.Real
/-
C02 — Kalman prediction is the exact linear-Gaussian time update.

Theorems about the model `BFL.kfPredict` (BFL/Model/KF.lean) over ℝ, for all dimensions,
component counts, arbitrary square `F`, symmetric PSD `P`, `Q`, with and without an
exogenous model (`exo : Option (state ↦ contribution)`).
-/
namespace BFL
open Matrix

variable {n k : Nat}

/-- Predicted mean without exogenous model: `F m`. -/
theorem kfp_mean_plain (F : Mat ℝ n n) (x : Vec ℝ n) :
    toV (propagateMean F none x) = toM F *ᵥ toV x := by
  simp [propagateMean]

/-- Predicted mean with an exogenous model contributing `u = g x`: `F m + u`. -/
theorem kfp_mean_exogenous (F : Mat ℝ n n) (g : Vec ℝ n → Vec ℝ n) (x : Vec ℝ n) :
    toV (propagateMean F (some g) x) = toM F *ᵥ toV x + toV (g x) := by
  simp [propagateMean]

/-- The exogenous contribution enters additively: result = result without it + `u`. -/
theorem kfp_exogenous_additive (F : Mat ℝ n n) (g : Vec ℝ n → Vec ℝ n) (x : Vec ℝ n) :
    toV (propagateMean F (some g) x) = toV (propagateMean F none x) + toV (g x) := by
  simp [propagateMean]

/-- Predicted covariance: `F P Fᵀ + Q`. -/
theorem kfp_cov (F P Q : Mat ℝ n n) :
    toM (kfPredictCov F P Q) = toM F * toM P * (toM F)ᵀ + toM Q := by
  simp [kfPredictCov]

/-- Symmetric whenever `P` and `Q` are. -/
theorem kfp_symm (F P Q : Mat ℝ n n) (hP : (toM P)ᵀ = toM P) (hQ : (toM Q)ᵀ = toM Q) :
    (toM (kfPredictCov F P Q))ᵀ = toM (kfPredictCov F P Q) := by
  rw [kfp_cov]
  simp [Matrix.transpose_mul, hP, hQ, Matrix.mul_assoc]

/-- Positive semi-definite whenever `P` and `Q` are (singular `P`, `Q` allowed). -/
theorem kfp_posSemidef (F P Q : Mat ℝ n n) (hP : (toM P).PosSemidef) (hQ : (toM Q).PosSemidef) :
    (toM (kfPredictCov F P Q)).PosSemidef := by
  rw [kfp_cov]
  have h := hP.mul_mul_conjTranspose_same (toM F)
  simpa using h.add hQ

/-- The step on a mixture: component `i` of the output is the time update of component `i` of
    the input and nothing else; weights of the output mixture are not written. -/
theorem kfp_step (F Q : Mat ℝ n n) (exo : Option (Vec ℝ n → Vec ℝ n)) (b out : GM ℝ n k) (i : Fin k) :
    toV ((kfPredict F Q exo b out).mean i)
        = toM F *ᵥ toV (b.mean i) + (match exo with | none => 0 | some g => toV (g (b.mean i))) ∧
    toM ((kfPredict F Q exo b out).cov i) = toM F * toM (b.cov i) * (toM F)ᵀ + toM Q ∧
    (kfPredict F Q exo b out).weight = out.weight := by
  refine ⟨?_, kfp_cov F (b.cov i) Q, rfl⟩
  cases exo <;> simp [kfPredict, propagateMean]

/-- Components do not influence one another. -/
theorem kfp_component_independent (F Q : Mat ℝ n n) (exo : Option (Vec ℝ n → Vec ℝ n))
    (b b' out out' : GM ℝ n k) (i : Fin k) (hm : b.mean i = b'.mean i) (hc : b.cov i = b'.cov i) :
    (kfPredict F Q exo b out).mean i = (kfPredict F Q exo b' out').mean i ∧
    (kfPredict F Q exo b out).cov i = (kfPredict F Q exo b' out').cov i := by
  simp [kfPredict, hm, hc]

/-- Non-vacuity of the PSD hypotheses: `P = Q = 0` (singular) and `P = Q = 1`. -/
example : (toM (Mat.zero : Mat ℝ 2 2)).PosSemidef ∧ (toM (Mat.one : Mat ℝ 2 2)).PosSemidef := by
  constructor
  · rw [toM_zero]; exact Matrix.PosSemidef.zero
  · rw [toM_one]; exact Matrix.PosSemidef.one


/-! ## The dispatch in front of the step and whole histories (`Model/KFHist.lean`) -/

/-- **Dispatch** (`GaussianPrediction::predict` → `KFPrediction::predictStep` →
    `LinearStateModel::propagate`): with the prediction or the state model skipped the previous belief
    is handed over as a whole (weights included); otherwise the step is `kfPredict` with the
    exogenous contribution present exactly when a model is attached and not skipped. -/
theorem kfp_dispatch (s : KFHStep ℝ n) (prev out : GM ℝ n k) :
    ((s.skipPred || s.skipState) = true → kfGaussPredict s prev out = prev) ∧
    ((s.skipPred || s.skipState) = false →
      kfGaussPredict s prev out = kfPredict s.F s.Q (if s.skipExo then none else s.exo) prev out) := by
  unfold kfGaussPredict KFHStep.effExo
  by_cases h1 : s.skipPred <;> by_cases h2 : s.skipState <;> simp [h1, h2]

/-- mean and covariance of one component -/
abbrev KfpStat (n : Nat) := (Fin n → ℝ) × Matrix (Fin n) (Fin n) ℝ

/-- the exact time update of one component through one step of a history -/
noncomputable def kfpTimeUpdate (x : KfpStat n) (s : KFHStep ℝ n) : KfpStat n :=
  if s.skipPred || s.skipState then x
  else (toM s.F *ᵥ x.1 + (match s.effExo with | none => 0 | some g => toV (g (Vec.of x.1))),
        toM s.F * x.2 * (toM s.F)ᵀ + toM s.Q)

/-- **History lift**: through any history in which no step hands a measurement to the correction
    (none available, or the correction skipped) — any length, time-varying `F`, `Q`, exogenous
    input, any skip flags — component `i` of the filter's belief is the iterated exact time update
    of component `i` of the initial belief, the corrected belief *is* the predicted one after every
    step, and the covariance stays symmetric positive semi-definite when the initial one and every
    `Q` are.  No inverse is ever taken (`inv` arbitrary). -/
theorem kfp_history (inv : (m : Nat) → Mat ℝ m m → Mat ℝ m m) (steps : List (KFHStep ℝ n))
    (hno : ∀ s ∈ steps, s.skipCorr = true ∨ s.meas = none) (st0 : KFFilter ℝ n k) (i : Fin k) :
    ((toV ((kfFilterRun inv st0 steps).corr.mean i), toM ((kfFilterRun inv st0 steps).corr.cov i)) : KfpStat n)
        = steps.foldl kfpTimeUpdate (toV (st0.corr.mean i), toM (st0.corr.cov i)) ∧
    (steps ≠ [] → (kfFilterRun inv st0 steps).corr = (kfFilterRun inv st0 steps).pred) ∧
    ((toM (st0.corr.cov i)).PosSemidef → (∀ s ∈ steps, (toM s.Q).PosSemidef) →
      (toM ((kfFilterRun inv st0 steps).corr.cov i)).PosSemidef ∧
      (toM ((kfFilterRun inv st0 steps).corr.cov i))ᵀ = toM ((kfFilterRun inv st0 steps).corr.cov i)) := by
  have hcorr : ∀ (s : KFHStep ℝ n), (s.skipCorr = true ∨ s.meas = none) → ∀ st : KFFilter ℝ n k,
      (kfFilterStep inv st s).corr = kfGaussPredict s st.corr st.pred ∧
      (kfFilterStep inv st s).pred = kfGaussPredict s st.corr st.pred := by
    intro s hs st
    rcases hs with h | h <;> simp [kfFilterStep, kfGaussCorrect, h]
  have hstat : ∀ (s : KFHStep ℝ n) (prev out : GM ℝ n k),
      ((toV ((kfGaussPredict s prev out).mean i), toM ((kfGaussPredict s prev out).cov i)) : KfpStat n)
        = kfpTimeUpdate (toV (prev.mean i), toM (prev.cov i)) s := by
    intro s prev out
    unfold kfGaussPredict kfpTimeUpdate
    by_cases h1 : s.skipPred
    · simp [h1]
    · by_cases h2 : s.skipState
      · simp [h2]
      · simp only [h1, h2, Bool.false_eq_true, if_false, Bool.or_self]
        ext : 1
        · have e : Vec.of (toV (prev.mean i)) = prev.mean i := rfl
          cases hE : s.effExo <;> simp [kfPredict, propagateMean, e]
        · simp [kfPredict, kfPredictCov]
  induction steps generalizing st0 with
  | nil => exact ⟨rfl, fun h => absurd rfl h, fun h _ => ⟨h, by simpa [kfFilterRun] using h.1.eq⟩⟩
  | cons s rest ih =>
    have hs := hno s (by simp)
    obtain ⟨ec, ep⟩ := hcorr s hs st0
    obtain ⟨i1, i2, i3⟩ := ih (fun s' hs' => hno s' (by simp [hs'])) (kfFilterStep inv st0 s)
    simp only [kfFilterRun, List.foldl_cons] at i1 i2 i3 ⊢
    refine ⟨?_, ?_, ?_⟩
    · rw [i1, ec, hstat]
    · intro _
      cases rest with
      | nil => simp only [List.foldl_nil]; rw [ec, ep]
      | cons a l => exact i2 (by simp)
    · intro hP hQ
      apply i3
      · rw [ec]
        unfold kfGaussPredict
        by_cases h1 : s.skipPred
        · simpa [h1] using hP
        · by_cases h2 : s.skipState
          · simpa [h1, h2] using hP
          · simp only [h1, h2, Bool.false_eq_true, if_false]
            exact kfp_posSemidef s.F (st0.corr.cov i) s.Q hP (hQ s (by simp))
      · intro s' hs'; exact hQ s' (by simp [hs'])

/-- Non-vacuity: a two-step prediction-only history (one plain step, one skipped). -/
example : ∃ steps : List (KFHStep ℝ 2), steps.length = 2 ∧ (∀ s ∈ steps, s.skipCorr = true ∨ s.meas = none) ∧
    (∀ s ∈ steps, (toM s.Q).PosSemidef) := by
  refine ⟨[{ F := Mat.one, Q := Mat.one, exo := none, skipPred := false, skipState := false, skipExo := false, meas := none, skipCorr := false },
           { F := Mat.one, Q := Mat.zero, exo := none, skipPred := true, skipState := false, skipExo := false, meas := none, skipCorr := true }], rfl, ?_, ?_⟩
  · intro s hs; simp at hs; rcases hs with rfl | rfl <;> simp
  · intro s hs; simp at hs
    rcases hs with rfl | rfl
    · show (toM (Mat.one : Mat ℝ 2 2)).PosSemidef
      rw [toM_one]; exact Matrix.PosSemidef.one
    · show (toM (Mat.zero : Mat ℝ 2 2)).PosSemidef
      rw [toM_zero]; exact Matrix.PosSemidef.zero

end BFL
