"""C09 — filter lifecycle: ordered epochs, honoured commands, guaranteed termination.

Proof stage: theorems of lean/BFL/Props/C09.lean about the transition system BFL.Life.
Tie stage: the same schedules (words over commands / "let the thread advance to its next parking
place" / scripted run_condition() values) are executed on the real bfl::FilteringAlgorithm by
harness/h_life.cpp (real thread held at the BFL_VERIF schedule points, the probe's virtuals and the
entry of the condition wait) and on the model by the Lean driver; event traces (Init / Step k),
step_number(), is_running(), "parked in the wait", "wait returned" are compared word by word.
Oracle stage: the clauses of the property are evaluated directly on the implementation's traces
(scheduled runs and free-running real-thread runs), independently of the model.
"""
import itertools
import json
from concurrent.futures import ThreadPoolExecutor

import vlib

CMDS = ["r", "s", "b", "t"]
WD_OK = 6000       # watchdog (ms) of a schedule the model says terminates (a disagreement is re-run with WD_RERUN)
WD_RERUN = 12000
WD_HANG = 400      # watchdog of a schedule the model says cannot terminate (kept few)

# base advance sequences: the digit is what run_condition() returns when the thread is released from it
BASES = {
    # never asked to run: 0 -> 1 -> k -> w, then whatever the inserted commands cause
    "idle": ("", "1111" + "11110110100011"),
    # run, two steps, condition false, outer true -> second epoch with one step, then the end
    "run2": ("r", "1111" + "11110" + "11" + "1111" + "110" + "10" + "11"),
    # run, condition false at once (epoch without steps), outer true -> second epoch, one step, end
    # (here initialization_step() returns false both times: the recursion ignores its result)
    "run0": ("r", "1110" + "0" + "11" + "1110" + "110" + "10" + "11"),
}


def base_tokens(name):
    pre, adv = BASES[name]
    return ([pre] if pre else []), ["a" + c for c in adv]


def gen_exhaustive(kmax):
    """all placements of <= kmax commands over every position of every base sequence"""
    out = []
    for name in BASES:
        pre, adv = base_tokens(name)
        npos = len(adv) + 1
        for k in range(kmax + 1):
            for poss in itertools.combinations_with_replacement(range(npos), k):
                # `u` = spurious wake-up of the condition wait (kept out of the largest bound)
                for cmds in itertools.product(CMDS + ["u"] if k <= 2 else CMDS, repeat=k):
                    toks = list(pre)
                    j = 0
                    for p in range(npos):
                        while j < k and poss[j] == p:
                            toks.append(cmds[j])
                            j += 1
                        if p < len(adv):
                            toks.append(adv[p])
                    out.append((toks, "exh:%s:k%d" % (name, k)))
    return out


def gen_split_reboot():
    """reboot() split between its two stores (needs schedule point 6): the thread advances, a reset or a
    spurious wake-up arrives, while the controller holds the mutex with reset_ set and run_ not yet cleared"""
    out = []
    for name in BASES:
        pre, adv = base_tokens(name)
        n = len(adv)
        for p in range(n + 1):
            for q in range(p, min(n, p + 5) + 1):
                for extra in [None] + [(x, e) for x in range(p, q + 1) for e in ("s", "u")]:
                    toks = list(pre)
                    for i in range(n + 1):
                        if i == p:
                            toks.append("b1")
                        if extra and extra[0] == i:
                            toks.append(extra[1])
                        if i == q:
                            toks.append("b2")
                        if i < n:
                            toks.append(adv[i])
                    out.append((toks, "split:%s" % name))
    return out


def gen_random(g, n, lo, hi):
    out = []
    for i in range(n):
        L = g.r.randint(lo, hi)
        pc = g.r.choice([0.1, 0.2, 0.35])
        p0 = g.r.choice([0.1, 0.25, 0.5])
        toks = []
        for _ in range(L):
            x = g.r.random()
            if x < pc:
                toks.append(g.r.choice(["r", "r", "s", "s", "b", "b", "t", "u"] if g.r.random() < 0.8 else CMDS))
            else:
                toks.append("a0" if g.r.random() < p0 else "a1")
        post = g.r.choice([[], [], [], ["r"], ["j"], ["r", "j"], ["b", "s", "j"], ["t", "a1", "r", "a1"]])
        out.append((toks, "rand", post))
    return out


def norm(words):
    """harness words in the driver's spelling (asynchronous commands are echoed in upper case)"""
    out = []
    for w in words:
        if w[0] in "RSBT":
            w = w[0].lower() + w[1:]
        out.append(w)
    return out


def b1_blocked(dwords):
    return any(w.startswith("b1:") and w.split(":")[2] == "k" for w in dwords)


def two_pending(dwords):
    """two commands deferred behind the same release of the mutex (order on the implementation unspecified)"""
    pend = 0
    for w in dwords:
        if w.endswith(":d"):
            pend += 1
            if pend > 1:
                return True
        elif w.startswith("a") or w.startswith("j"):
            pend = 0
    return False


def harness_line(toks, dwords, wd, op="life"):
    ht = []
    for t, w in zip(toks, dwords):
        ht.append(t.upper() if w.endswith(":d") else t)
    ht += toks[len(dwords):]
    return "%s %d %s" % (op, wd, " ".join(ht))


def run_parallel(binary, lines, chunk=150, stop_after=None):
    """run the lines through several harness processes; `stop_after(outs_so_far)` may end the run early
    (remaining lines are answered `skipped`)"""
    if not lines:
        return [], {}
    workers = max(2, min(vlib.NPROC, 12))
    chunks = [lines[i:i + chunk] for i in range(0, len(lines), chunk)]
    outs, logs = [], {}
    env = {"H_LIFE_MAX_HANGS": "3"}
    with ThreadPoolExecutor(max_workers=workers) as ex:
        for w0 in range(0, len(chunks), workers):
            wave = chunks[w0:w0 + workers]
            if stop_after is not None and stop_after(outs):
                for c in wave:
                    outs.extend(["skipped"] * len(c))
                continue
            res = list(ex.map(lambda c: vlib.run_harness(binary, c, timeout=3600, env=env), wave))
            for o, l in res:
                for k, v in l.items():
                    logs[len(outs) + k] = v
                outs.extend(o)
    return outs, logs


# ------------------------------------------------------------------ property clauses on a trace

def parse_words(words):
    """-> chronological list of ('cmd', c) / ('I',) / ('S', k) / ('E', k) / ('J', run, step) / ('obs', place, run, step)"""
    ev = []
    place = "0"
    for w in words:
        f = w.split(":")
        tok = f[0]
        if tok in ("a0", "a1") and place == "c" and len(f) >= 5:
            ev.append(("rc", tok == "a1"))
        if len(f) >= 5:
            place = f[2]
        if w in ("hang", "j:hang"):
            ev.append(("hang",))
            continue
        if w.endswith(":alive") or w.endswith(":early"):
            ev.append(("alive",))
            continue
        if len(f) < 5:
            ev.append(("junk", w))
            continue
        if tok[0] in "rsbtRSBT":
            ev.append(("cmd", tok[0].lower()))
        if f[1] != "-":
            for e in f[1].split("."):
                if e == "I":
                    ev.append(("I",))
                elif e[0] == "S":
                    ev.append(("S", int(e[1:])))
                elif e[0] == "E":
                    ev.append(("E", int(e[1:])))
                elif e[0] == "X":
                    ev.append(("foreign", e[1:]))
                elif e == "A":
                    ev.append(("late",))
        if tok in ("j", "jt", "jw"):
            ev.append(("J", int(f[3]), int(f[4])))
        else:
            ev.append(("obs", f[2], int(f[3]), int(f[4])))
    return ev


def clauses(ev):
    """violated clauses of C09 on a chronological event list (implementation trace)"""
    bad = []
    seen_run = False
    nxt = None                     # expected number of the next step in the current epoch; None = no epoch yet
    reqs = []                      # per pending reset/reboot request: steps started since, until the next Init
    tds = 0                        # steps started since the first teardown request (None if none)
    td = False
    rb = []                        # reboot monitors: 'a','ar','b','c','ok'
    joined = False
    ended = False                  # the thread is known to have reached its final store
    run_after_end = False
    expired = False                # run_condition() returned false since the last Init
    leaving = False                # the thread has left the recursion's loop
    for e in ev:
        k = e[0]
        if k == "cmd":
            c = e[1]
            if c == "r":
                seen_run = True
                rb = [{"a": "ar", "b": "c"}.get(m, m) for m in rb]
                if ended:
                    run_after_end = True
            if c in "sb" and not (len(e) > 2 and e[2]):
                reqs.append(0)
            if c == "b":
                rb.append("a")
            if c == "t":
                td = True
        elif k == "I":
            if joined:
                bad.append("init-after-join")
            nxt = 0
            reqs = []
            expired = False
            rb = [{"a": "b", "ar": "ok", "c": "ok"}.get(m, m) for m in rb]
        elif k == "S":
            if joined:
                bad.append("step-after-join")
            if not seen_run:
                bad.append("step-before-run")
            if nxt is None or e[1] != nxt:
                bad.append("epoch-shape")
            nxt = e[1] + 1
            reqs = [n + 1 for n in reqs]
            if any(n > 1 for n in reqs):
                bad.append("reset-not-honoured")
            if any(m in ("b", "c") for m in rb):
                bad.append("reboot-step-before-run-init")
            if td:
                tds += 1
                if tds > 1:
                    bad.append("teardown-more-than-one-step")
        elif k == "hang":
            if td:
                bad.append("teardown-wait-hangs")
        elif k == "alive" or k == "late":
            bad.append("thread-alive-after-wait-returned")
        elif k == "foreign":
            bad.append("callback-on-controller-thread")
        elif k == "ended":
            ended = True
        elif k == "rdone":
            if ended:
                run_after_end = True
        elif k == "J":
            joined = ended = leaving = True
            if e[1] != 0 and not run_after_end:
                bad.append("running-after-join")
        elif k == "rc":
            if not e[1]:
                expired = True
        elif k == "obs":
            if e[1] in ("4", "f") and not leaving and reqs and not td and not expired:
                # the thread leaves although a reset/reboot is pending, the run condition holds and
                # no teardown was requested: the request can never be honoured by a new epoch
                bad.append("reset-never-honoured-thread-ends")
            if e[1] in ("4", "f"):
                leaving = True
            if e[1] == "f":
                ended = True
            if joined and e[2] != 0 and not run_after_end:
                bad.append("running-after-join")
    return sorted(set(bad))


# ------------------------------------------------------------------ free-running runs

def gen_free(g, n):
    # one long epoch in every run (class r of DEEPEN.md: the whole range of the counter's type — a step counter
    # narrowed to 16 bits wraps after 65536 steps of one epoch; step numbers must keep counting)
    lines = ["free %d %d r j" % (WD_RERUN, 65536 + 4)]
    if n > 500:
        lines.append("free %d %d r z50 s j" % (WD_RERUN, 2 * 65536 + 3))
    for i in range(n):
        toks = []
        style = g.r.choice(["teardown", "teardown", "expire", "reboot-run", "early-teardown"])
        true_calls = g.r.choice([0, 1, 3, 10, 50, 400]) if style == "expire" else g.r.choice([3, 50, 400, 100000])

        def pause():
            x = g.r.random()
            if x < 0.3:
                toks.append("y")
            elif x < 0.8:
                toks.append("z%d" % g.r.choice([1, 5, 20, 50, 100, 300]))

        if style == "early-teardown":
            pause()
            for _ in range(g.r.randint(0, 2)):
                toks.append(g.r.choice(["s", "b"])); pause()
            toks.append("t")
        else:
            if g.r.random() < 0.3:
                toks.append(g.r.choice(["s", "b"])); pause()
            toks.append("r"); pause()
            for _ in range(g.r.randint(0, 8)):
                c = g.r.choice(["s", "b", "r", "s", "b", "r", "r"])
                toks.append(c); pause()
            if style == "reboot-run":
                toks += ["b"]; pause(); toks += ["r"]; pause()
            if style != "expire":
                toks.append("t")
            else:
                toks.append("r")      # make sure the filter is asked to run when the condition expires
        toks.append("j")
        lines.append("free %d %d %s" % (WD_OK, true_calls, " ".join(toks)))
    return lines


def parse_free(out):
    """log of a free run -> chronological events.  The store of a command lies somewhere between its begin
    and end marks, so every clause is evaluated for the placement most favourable to the implementation:
    'run was requested' counts from the begin mark, 'after the request' from the end mark, and a reset /
    reboot during whose call an Init was logged counts as honoured already."""
    ev = []
    init_in_window = False
    for w in out.split()[0].split(".") if out and not out.startswith("hang") else []:
        if w == "I":
            ev.append(("I",))
            init_in_window = True
        elif w[0] == "S":
            ev.append(("S", int(w[1:])))
        elif w[0] == "E":
            ev.append(("E", int(w[1:])))
        elif w == "P":
            ev.append(("ended",))
        elif w == "A":
            ev.append(("late",))
        elif w[0] == "X":
            ev.append(("foreign", w[1:]))
        elif w[0] == "<":
            init_in_window = False
            if w[1] == "r":
                ev.append(("cmd", "r"))
        elif w[0] == ">":
            ev.append(("rdone",) if w[1] == "r" else ("cmd", w[1], init_in_window))
        elif w[0] == "J":
            f = w.split(":")
            ev.append(("J", int(f[1]), int(f[2])))
    return ev


# ------------------------------------------------------------------ the check

def finalize(ctx, scheds):
    """driver passes: decide the tail (j / jt / t j / t jt), the asynchronous commands and the watchdog of every
    schedule.  Returns list of dict(toks, kind, dline, hline, dwords, wd)."""
    scheds = [(s_ + ([],))[:3] for s_ in scheds]          # (tokens, kind, tokens after the join)
    first = vlib.run_driver(["life cur " + " ".join(t + ["j"]) for t, _, _ in scheds])
    keep_hang = ctx.n(6, 40)
    pre = []
    nh = 0
    for idx, ((toks, kind, post), d) in enumerate(zip(scheds, first)):
        dw = d.split()
        if two_pending(dw) or b1_blocked(dw):
            continue
        if dw and dw[-1] == "j:hang":
            if nh < keep_hang and (kind.startswith("exh") and len(toks) % 3 == 0 or nh < 2):
                nh += 1
                pre.append((toks + ["j"], kind + ":hang"))
            else:
                # teardown, then the join — with run_condition() true for ever in every other case
                pre.append((toks + ["t", "jt" if idx % 2 else ("jw" if idx % 4 == 0 else "j")] + post, kind + ":td"))
        elif "t" in toks and idx % 2:
            pre.append((toks + ["jt"] + post, kind + ":jt"))
        elif idx % 5 == 2:
            # wait() called while the thread is still held: it must not return before the thread has ended
            pre.append((toks + ["jw"] + post, kind + ":jw"))
        else:
            pre.append((toks + ["j"] + post, kind))
    second = vlib.run_driver(["life cur " + " ".join(t) for t, _ in pre])
    cases = []
    for (toks, kind), d in zip(pre, second):
        dw = d.split()
        if two_pending(dw):
            continue
        hang = dw[-1].endswith(":hang")
        dw = ["hang" if w.endswith(":hang") else w for w in dw]
        cases.append({"toks": toks, "kind": kind, "dwords": dw, "wd": WD_HANG if hang else WD_OK})
    for c in cases:
        c["hline"] = harness_line(c["toks"], c["dwords"], c["wd"])
        c["dline"] = "life cur " + " ".join(c["toks"])
    return cases


def run(ctx):
    ctx.proof_stage()
    binary = vlib.build_harness("h_life", libs=["-ldl"])
    g = ctx.gen("life")

    scheds = []
    corpus = vlib.VERIF / "corpus" / "C09" / "cases.txt"
    if corpus.exists():
        for ln in corpus.read_text().split("\n"):
            ln = ln.split("#")[0].strip()
            if ln:
                scheds.append((ln.split(), "corpus"))
    kmax = ctx.n(2, 3)
    scheds += gen_exhaustive(kmax)
    scheds += gen_random(g, ctx.n(1200, 6000), 20, 120)
    # boot() that cannot create its thread: commands and wait() on a filter without filtering thread
    for k in range(3):
        for cmds in itertools.product(CMDS, repeat=k):
            scheds.append((["F"] + list(cmds), "bootfail", [list(cmds)[0]] if cmds else []))
    # schedule point 6 (inside reboot()) is a proposed hook: used when the tree under test has it
    probe, _ = vlib.run_harness(binary, ["life 5000 b1 b2"])
    have6 = not probe[0].startswith("b1:nohook")
    if have6:
        scheds += gen_split_reboot()
    rp_sis = False
    if ctx.replay:
        rp = json.load(open(ctx.replay))["replay"]
        rp_sis = bool(rp.get("sis"))
        toks = rp["schedule"].split()
        d = vlib.run_driver(["life cur " + " ".join(toks)])[0].split()
        hang = d[-1].endswith(":hang")
        d = ["hang" if w.endswith(":hang") else w for w in d]
        c = {"toks": toks, "kind": "replay", "dwords": d, "wd": WD_HANG if hang else WD_RERUN}
        c["hline"] = harness_line(toks, d, c["wd"])
        cases = [c]
    else:
        cases = finalize(ctx, scheds)

    dw_of = [c["dwords"] for c in cases]

    def too_many(outs):
        n = 0
        for i, o in enumerate(outs):
            if o != "skipped" and norm(o.split()) != dw_of[i]:
                n += 1
        return n >= 12

    houts, logs = run_parallel(binary, [c["hline"] for c in cases], stop_after=too_many)
    mism, prop_bad = [], []
    hist_kind, clause_hits = {}, {}
    crashes = skipped = 0
    for i, (c, h) in enumerate(zip(cases, houts)):
        if h == "skipped":
            c["skipped"] = True
            skipped += 1
            continue
        hist_kind[c["kind"]] = hist_kind.get(c["kind"], 0) + 1
        hw = norm(h.split())
        c["hwords"] = hw
        if any(w.startswith("crash:") for w in hw):
            crashes += 1
        bad = clauses(parse_words(hw))
        if bad:
            prop_bad.append((c, bad))
        if hw != c["dwords"]:
            mism.append(c)
    cases = [c for c in cases if not c.get("skipped")]
    # a disagreement must reproduce (on correct code the scheduled runs do not depend on timing); the re-run
    # gets a long watchdog so that a slow machine cannot turn into a `hang`
    confirmed, flaky = [], 0
    mism.sort(key=lambda c: len(c["toks"]))
    for c in mism[:3]:
        again, _ = vlib.run_harness(binary, [harness_line(c["toks"], c["dwords"], WD_RERUN if c["wd"] == WD_OK else c["wd"])])
        aw = norm(again[0].split())
        if aw != c["dwords"]:
            c["hwords"] = aw
            confirmed.append(c)
            break
        else:
            flaky += 1
    prop_bad = [(c, clauses(parse_words(c["hwords"]))) for c, _ in prop_bad if c not in mism[:3] or c in confirmed]
    prop_bad = [(c, b) for c, b in prop_bad if b]
    prop_bad.sort(key=lambda cb: len(cb[0]["toks"]))

    def first_diff(c):
        for j, (a, b) in enumerate(zip(c["hwords"] + ["<end>"] * 200, c["dwords"] + ["<end>"] * 200)):
            if a != b:
                return j, a, b
        return -1, "", ""

    for c, bad in prop_bad[:10]:
        ctx.violation(bad[0], "FilteringAlgorithm violates C09 (%s) on schedule: boot %s" % (", ".join(bad), " ".join(c["toks"])),
                      {"harness": "h_life", "schedule": " ".join(c["toks"]), "input_line": c["hline"], "observed": " ".join(c["hwords"]),
                       "model": " ".join(c["dwords"]), "clauses": bad})
    if confirmed and not prop_bad:
        confirmed.sort(key=lambda c: len(c["toks"]))
        c = confirmed[0]
        j, a, b = first_diff(c)
        ctx.violation("correspondence:" + (b.split(":")[0] if b else "end"),
                      "model and FilteringAlgorithm disagree on %d schedule(s); shortest: boot %s — word %d: implementation `%s`, model `%s`"
                      % (len(mism), " ".join(c["toks"]), j, a, b),
                      {"harness": "h_life", "schedule": " ".join(c["toks"]), "input_line": c["hline"], "observed": " ".join(c["hwords"]),
                       "model": " ".join(c["dwords"]), "first_difference": {"word": j, "implementation": a, "model": b}})

    # coverage: abstract control states and control edges of the model walked through on the implementation
    ok_cases = [c for c in cases if c not in mism]
    vis = vlib.run_driver(["lifev cur " + " ".join(c["toks"]) for c in ok_cases])
    states, edges = {}, {}
    for v in vis:
        for w in v.split():
            if w.startswith("e:"):
                edges[w[2:]] = edges.get(w[2:], 0) + 1
            else:
                states[w] = states.get(w, 0) + 1
    pcs = {}
    for s_, n_ in states.items():
        pcs[s_.split("/")[0]] = pcs.get(s_.split("/")[0], 0) + n_
    all_edges = ["top>zero", "zero>preWait", "preWait>preInit", "preWait>blocking", "blocking>waiting", "waiting>preInit",
                 "waiting>blocking", "preInit>inInit", "inInit>inA", "inA>inB", "inA>afterLoop", "inB>inC", "inB>afterLoop",
                 "inC>aboutStep", "inC>afterLoop", "aboutStep>inStep", "inStep>incr", "incr>inA", "afterLoop>outA", "outA>outB",
                 "outA>preFinal", "outB>outD", "outB>outC", "outC>outD", "outC>preFinal", "outD>top", "outD>preFinal", "preFinal>done"]
    missing_edges = [e for e in all_edges if e not in edges]

    # the same schedules on a real bfl::SIS (its filtering_step() consults step_number(): model `sisPredicts`):
    # which steps carry out a prediction is compared word by word (event P between S<k> and E<k>)
    sis_cases = [c for c in ok_cases if c["kind"].startswith(("corpus", "exh:run2:k0", "exh:run2:k1", "exh:run0:k1", "rand"))
                 and not any(t in ("b1", "b2", "F") for t in c["toks"])]
    sis_cases = sis_cases[:ctx.n(500, 4000)] if not ctx.replay else ([c for c in ok_cases][:1] if rp_sis else [])
    sis_mism, sis_pred, sis_nopred = [], 0, 0
    if sis_cases and not (confirmed or prop_bad):
        sd = vlib.run_driver(["lifesis cur " + " ".join(c["toks"]) for c in sis_cases])
        sdw = [["hang" if w.endswith(":hang") else w for w in d.split()] for d in sd]
        souts, slogs = run_parallel(binary, [harness_line(c["toks"], dw, c["wd"], "lifesis") for c, dw in zip(sis_cases, sdw)])
        logs.update({("sis", k): v for k, v in slogs.items()})
        for c, dw, h in zip(sis_cases, sdw, souts):
            if h == "skipped":
                continue
            hw = norm(h.split())
            for w in hw:
                f = w.split(":")
                if len(f) >= 5:
                    for e in f[1].split("."):
                        if e[0] == "E":
                            sis_nopred += 1
                    sis_pred += f[1].split(".").count("P")
            if hw != dw:
                sis_mism.append((c, dw, hw))
        sis_nopred -= sis_pred
        sis_mism.sort(key=lambda x: len(x[0]["toks"]))
        for c, dw, hw in sis_mism[:1]:
            again, _ = vlib.run_harness(binary, [harness_line(c["toks"], dw, WD_RERUN if c["wd"] == WD_OK else c["wd"], "lifesis")])
            aw = norm(again[0].split())
            if aw != dw:
                j = next((i for i, (a, b) in enumerate(zip(aw + ["<end>"] * 200, dw + ["<end>"] * 200)) if a != b), -1)
                ctx.violation("correspondence:sis-step-number",
                              "model and a real bfl::SIS disagree on %d schedule(s) (which steps predict / epoch events); shortest: boot %s — word %d: "
                              "implementation `%s`, model `%s`" % (len(sis_mism), " ".join(c["toks"]), j, (aw + ["<end>"] * 200)[j], (dw + ["<end>"] * 200)[j]),
                              {"harness": "h_life", "schedule": " ".join(c["toks"]), "input_line": harness_line(c["toks"], dw, c["wd"], "lifesis"),
                               "observed": " ".join(aw), "model": " ".join(dw), "sis": True})

    # free-running real-thread runs: the clauses evaluated on wall-clock interleavings
    flines = gen_free(ctx.gen("free"), ctx.n(160, 1500))
    if ctx.replay or confirmed or prop_bad:
        flines = []      # already failing: the free runs would only add time-outs
    fouts, flogs = run_parallel(binary, flines, chunk=20, stop_after=lambda outs: sum(1 for o in outs if o.endswith("hang")) >= 3)
    keep = [i for i, o in enumerate(fouts) if o != "skipped"]
    flines, fouts = [flines[i] for i in keep], [fouts[i] for i in keep]
    free_bad = []
    fsteps = 0
    for ln, o in zip(flines, fouts):
        ev = parse_free(o)
        fsteps += sum(1 for e in ev if e[0] == "S")
        bad = clauses(ev)
        if o.endswith("hang") or "crash:" in o:
            bad = sorted(set(bad + ["free-run-hangs" if o.endswith("hang") else "free-run-crash"]))
        if not any(e[0] == "J" for e in ev) and not bad:
            bad = ["free-run-no-join"]
        if bad:
            free_bad.append((ln, o, bad))
    for ln, o, bad in free_bad[:5]:
        ctx.violation("free:" + bad[0], "free-running FilteringAlgorithm violates C09 (%s): %s" % (", ".join(bad), ln),
                      {"harness": "h_life", "input_line": ln, "observed": o[:3000], "clauses": bad,
                       "note": "real-thread interleaving; replay may need several attempts"})

    nontrivial = len(set(" ".join(c["toks"]) for c in cases if any(t in CMDS for t in c["toks"][1:-1])))
    ctx.coverage.update({
        "evaluations": len(cases) + len(flines),
        "distinct_nontrivial": nontrivial,
        "rule": "schedules = every placement of <= %d commands from {run, reset, reboot, teardown} at every position (incl. the entry of the condition "
                "wait, mutex held) of %d base advance sequences (%s), each followed by join (or teardown+join when the model says the thread "
                "cannot end; %d expected-hang schedules kept), plus %d seeded random schedules of 20..120 tokens; non-trivial = at least one "
                "command besides the leading run; plus %d free-running real-thread runs with random command timing"
                % (kmax, len(BASES), ", ".join(BASES), sum(1 for c in cases if c["kind"].endswith(":hang")), ctx.n(1200, 6000), len(flines)),
        "samples": [cases[0]["hline"], cases[len(cases) // 2]["hline"], cases[-1]["hline"]] + flines[:1],
        "exhaustive": True, "exhaustive_bound": "commands <= %d over all positions of the base sequences" % kmax,
        "traces_validated_against_impl": len(ok_cases),
        "model_vs_impl_disagreements": len(mism), "disagreements_confirmed_on_rerun": len(confirmed), "disagreements_not_reproduced": flaky,
        "property_failures_on_impl": len(prop_bad), "free_run_failures": len(free_bad), "free_run_steps_observed": fsteps,
        "schedule_kinds": hist_kind, "reboot_split_hook_6_present": have6 if not ctx.replay else None,
        "abstract_states_visited_on_impl": len(states),
        "program_counters_visited_on_impl": pcs,
        "control_edges_visited_on_impl": edges, "control_edges_not_visited": missing_edges,
        "sis_schedules_compared": len(sis_cases), "sis_disagreements": len(sis_mism),
        "sis_steps_with_prediction": sis_pred, "sis_steps_without_prediction_first_of_epoch": sis_nopred,
        "deferred_commands_checked": sum(1 for c in ok_cases for w in c["dwords"] if w.endswith(":d")),
        "sanitizer_crashes": crashes + len(logs) + len(flogs), "schedules_skipped_after_early_stop": skipped,
    })
    if missing_edges and not ctx.replay:
        ctx.notes.append("model control edges not exercised on the implementation: %s" % missing_edges)
    ctx.assumptions += [
        "each model move is one access to a shared flag; accesses are sequentially consistent (std::atomic default order, fix 3c680f4)",
        "initialization_step(), filtering_step(), run_condition() return; the filtering thread keeps being scheduled (fairness, explicit in teardown_terminates / condition_false_terminates)",
        "on the implementation commands are interleaved at the hook points, the probe's virtual calls and the entry of the condition wait; interleavings between two flag reads of one loop test are covered by the theorems and by the free-running runs only",
    ]
