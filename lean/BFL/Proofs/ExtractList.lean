import BFL.Model.Extract
import BFL.Bridge.Transc
import Mathlib.Algebra.BigOperators.Group.List.Basic
import Mathlib.Algebra.Order.BigOperators.Group.List
import Mathlib.Analysis.SpecialFunctions.Log.Basic
/-
List-level helper lemmas for the extraction model: `lsum` is `List.sum`, `argmaxFirst` returns the
first maximal index, `logSumExp` is `log Σ exp`.
-/
namespace BFL
namespace Extract

theorem lsum_eq_sum (l : List ℝ) : lsum l = l.sum := by
  unfold lsum
  rw [List.sum_eq_foldl]

/-- `r` is the first index at which `L` attains its maximum -/
def IsFirstMax {α : Type} [LinearOrder α] (L : List α) (r : Nat) : Prop :=
  ∃ m, L[r]? = some m ∧ (∀ (j : Nat) x, L[j]? = some x → x ≤ m) ∧ (∀ (j : Nat) x, j < r → L[j]? = some x → x < m)

section argmax
variable {α : Type} [LinearOrder α] [dl : DecidableLT α]

theorem argmaxAux_spec (l : List α) : ∀ (pre : List α) (best : α) (bi : Nat),
    pre[bi]? = some best → (∀ (j : Nat) x, pre[j]? = some x → x ≤ best) →
    (∀ (j : Nat) x, j < bi → pre[j]? = some x → x < best) →
    IsFirstMax (pre ++ l) (argmaxAux best bi pre.length l) := by
  induction l with
  | nil =>
    intro pre best bi h1 h2 h3
    simp only [argmaxAux, List.append_nil]
    exact ⟨best, h1, h2, h3⟩
  | cons x xs ih =>
    intro pre best bi h1 h2 h3
    have hbi : bi < pre.length := by
      rcases List.getElem?_eq_some_iff.mp h1 with ⟨h, _⟩; exact h
    have happ : pre ++ x :: xs = (pre ++ [x]) ++ xs := by simp
    have hlen : (pre ++ [x]).length = pre.length + 1 := by simp
    unfold argmaxAux
    by_cases hlt : best < x
    · rw [if_pos hlt, happ, ← hlen]
      apply ih (pre ++ [x]) x pre.length
      · simp
      · intro j y hj
        rcases Nat.lt_or_ge j pre.length with hjl | hjl
        · rw [List.getElem?_append_left hjl] at hj
          exact le_of_lt (lt_of_le_of_lt (h2 j y hj) hlt)
        · rw [List.getElem?_append_right hjl] at hj
          rcases List.getElem?_eq_some_iff.mp hj with ⟨hh, he⟩
          simp only [List.length_singleton] at hh
          have : j - pre.length = 0 := by omega
          simp only [this, List.getElem_cons_zero] at he
          exact le_of_eq he.symm
      · intro j y hjl hj
        rw [List.getElem?_append_left hjl] at hj
        exact lt_of_le_of_lt (h2 j y hj) hlt
    · rw [if_neg hlt, happ, ← hlen]
      have hxb : x ≤ best := not_lt.mp hlt
      apply ih (pre ++ [x]) best bi
      · rw [List.getElem?_append_left hbi]; exact h1
      · intro j y hj
        rcases Nat.lt_or_ge j pre.length with hjl | hjl
        · rw [List.getElem?_append_left hjl] at hj
          exact h2 j y hj
        · rw [List.getElem?_append_right hjl] at hj
          rcases List.getElem?_eq_some_iff.mp hj with ⟨hh, he⟩
          simp only [List.length_singleton] at hh
          have : j - pre.length = 0 := by omega
          simp only [this, List.getElem_cons_zero] at he
          rw [← he]; exact hxb
      · intro j y hjb hj
        have hjl : j < pre.length := by omega
        rw [List.getElem?_append_left hjl] at hj
        exact h3 j y hjb hj

/-- `argmaxFirst` (Eigen's `maxCoeff(&index)`) returns the first maximal index of a non-empty list. -/
theorem argmaxFirst_spec (l : List α) (hne : l ≠ []) : IsFirstMax l (argmaxFirst l) := by
  cases l with
  | nil => exact absurd rfl hne
  | cons x xs =>
    have h := argmaxAux_spec xs [x] x 0 (by simp)
      (by
        intro j y hj
        rcases List.getElem?_eq_some_iff.mp hj with ⟨hh, he⟩
        simp only [List.length_singleton] at hh
        have : j = 0 := by omega
        subst this
        simp only [List.getElem_cons_zero] at he
        exact le_of_eq he.symm)
      (by intro j y hj; omega)
    simpa [argmaxFirst] using h

end argmax

theorem IsFirstMax.lt_length {α : Type} [LinearOrder α] {L : List α} {r : Nat} (h : IsFirstMax L r) :
    r < L.length := by
  obtain ⟨m, h1, _⟩ := h
  exact (List.getElem?_eq_some_iff.mp h1).1

/-- A strictly monotone map on the entries does not change the first maximal index. -/
theorem IsFirstMax.of_map {L : List ℝ} {r : Nat} (f : ℝ → ℝ) (S : Set ℝ) (hf : StrictMonoOn f S)
    (hS : ∀ x ∈ L, x ∈ S) (h : IsFirstMax (L.map f) r) : IsFirstMax L r := by
  obtain ⟨m, h1, h2, h3⟩ := h
  rw [List.getElem?_map] at h1
  cases hr : L[r]? with
  | none => rw [hr] at h1; simp at h1
  | some mr =>
    rw [hr] at h1
    simp only [Option.map_some, Option.some.injEq] at h1
    have hmr : mr ∈ S := hS mr (List.mem_of_getElem? hr)
    refine ⟨mr, hr, ?_, ?_⟩
    · intro j x hj
      have := h2 j (f x) (by rw [List.getElem?_map, hj]; rfl)
      rw [← h1] at this
      exact (hf.le_iff_le (hS x (List.mem_of_getElem? hj)) hmr).mp this
    · intro j x hjr hj
      have := h3 j (f x) hjr (by rw [List.getElem?_map, hj]; rfl)
      rw [← h1] at this
      exact (hf.lt_iff_lt (hS x (List.mem_of_getElem? hj)) hmr).mp this

/-- `max + log Σ exp(xᵢ − max) = log Σ exp xᵢ` for a non-empty list, whatever value `max` has. -/
theorem logSumExp_eq (l : List ℝ) (hne : l ≠ []) :
    logSumExp l = Real.log (l.map Real.exp).sum ∧ 0 < (l.map Real.exp).sum := by
  have hpos : 0 < (l.map Real.exp).sum := by
    apply List.sum_pos
    · intro x hx
      obtain ⟨y, _, rfl⟩ := List.mem_map.mp hx
      exact Real.exp_pos y
    · simpa using hne
  refine ⟨?_, hpos⟩
  unfold logSumExp
  simp only [transc_log, transc_exp, lsum_eq_sum]
  set m := maxOf l
  have h1 : (l.map fun x => Real.exp (x - m)) = l.map fun x => Real.exp (-m) * Real.exp x := by
    apply List.map_congr_left
    intro x _
    rw [← Real.exp_add]; congr 1; ring
  rw [h1, List.sum_map_mul_left, Real.log_mul (Real.exp_pos _).ne' hpos.ne', Real.log_exp]
  ring

end Extract
end BFL
