/-
Model of the belief containers (C11): `GaussianMixture`, `Gaussian`, `ParticleSet`.

  src/BayesFilters/src/GaussianMixture.cpp   constructors, resize, accessors, augmentWithNoise
  src/BayesFilters/src/Gaussian.cpp          constructors, resize, accessors
  src/BayesFilters/src/ParticleSet.cpp       constructors, resize, operator+=, operator+, accessors

transcribed branch by branch from the code as it is after the `fix:` commits 668e0de, ad6ea89
and 2c84227.  No Mathlib (linked into `bfl_driver`).

A container is its eight public shape fields plus its backing matrices.  A backing matrix
(`Sto`) is its row and column count plus one `Option α` per cell: `none` is *unspecified*
content — what Eigen leaves behind after a constructor or a non-conservative `resize`, and the
cells appended by `conservativeResize` (the library is compiled with
EIGEN_INITIALIZE_MATRICES_BY_ZERO, which zero-fills in some of these situations, but not in all
of them — `conservativeResize` that only appends columns reallocates without initialising — and
nothing in the property depends on it, so the model does not commit to any value there).
Operations that can trip an Eigen assertion in the `-UNDEBUG` build (`block = matrix` of a
different size, an accessor index outside the storage) return `none`.
-/
namespace BFL.Shape

/-! ### Backing matrices -/

/-- An Eigen `MatrixXd`/`VectorXd`: dimensions and cells.  `cell` is only consulted inside the
    dimensions (see `get`). -/
structure Sto (α : Type) where
  rows : Nat
  cols : Nat
  cell : Nat → Nat → Option α

namespace Sto
variable {α : Type}

/-- Entry `(i, j)`; `none` outside the matrix and for unspecified content. -/
def get (s : Sto α) (i j : Nat) : Option α :=
  if i < s.rows ∧ j < s.cols then s.cell i j else none

/-- An `r × c` matrix with the given cells, materialised once (column-major, like Eigen). -/
def build (r c : Nat) (f : Nat → Nat → Option α) : Sto α :=
  let arr : Array (Array (Option α)) :=
    Array.ofFn (n := c) (fun j => Array.ofFn (n := r) (fun i => f i.val j.val))
  { rows := r, cols := c, cell := fun i j => (arr.getD j #[]).getD i none }

/-- Freshly allocated `r × c` storage.  `init` is what the build configuration puts into newly
    allocated coefficients: `some 0` with EIGEN_INITIALIZE_MATRICES_BY_ZERO (the repository's
    CMakeLists.txt), `none` (unspecified) without it. -/
def fresh (r c : Nat) (init : Option α := none) : Sto α := build r c (fun _ _ => init)

/-- Non-conservative `resize(r, c)`: with an unchanged number of coefficients Eigen does not
    reallocate and the values stay where they are in (column-major) linear order; otherwise all
    previous values are lost and the coefficients are freshly allocated (`init`). -/
def resizeNC (s : Sto α) (r c : Nat) (init : Option α) : Sto α :=
  if r * c = s.rows * s.cols then
    build r c (fun i j => s.get ((i + j * r) % s.rows) ((i + j * r) / s.rows))
  else fresh r c init

/-- `MatrixXd::Zero(r, c)`, `Constant`. -/
def const (r c : Nat) (v : α) : Sto α := build r c (fun _ _ => some v)

/-- `conservativeResize(r, c)`: the top-left block that fits survives, new cells unspecified. -/
def conservativeResize (s : Sto α) (r c : Nat) : Sto α := build r c s.get

/-- `conservativeResizeLike(other)`: as `conservativeResize(other.rows(), other.cols())`, the new
    cells taken from `other`. -/
def conservativeResizeLike (s other : Sto α) : Sto α :=
  build other.rows other.cols (fun i j => if i < s.rows ∧ j < s.cols then s.get i j else other.get i j)

/-- `block(r0, c0, nr, nc) = src` (also `rightCols`, `bottomRows`, `tail`, `col`): Eigen asserts
    that the block lies inside the matrix and that `src` has exactly the block's size. -/
def assignBlock (s : Sto α) (r0 c0 nr nc : Nat) (src : Sto α) : Option (Sto α) :=
  if r0 + nr ≤ s.rows ∧ c0 + nc ≤ s.cols ∧ src.rows = nr ∧ src.cols = nc then
    some (build s.rows s.cols (fun i j =>
      if r0 ≤ i ∧ i < r0 + nr ∧ c0 ≤ j ∧ j < c0 + nc then src.get (i - r0) (j - c0) else s.get i j))
  else none

/-- `m(i, j) = v`: Eigen asserts the index range. -/
def write (s : Sto α) (i j : Nat) (v : α) : Option (Sto α) :=
  if i < s.rows ∧ j < s.cols then
    some (build s.rows s.cols (fun a b => if a = i ∧ b = j then some v else s.get a b))
  else none

end Sto

/-! ### Loops -/

/-- `for (i = 0; i < n; ++i) s = f i s`. -/
def forUp {σ : Type} : Nat → (Nat → σ → σ) → σ → σ
  | 0, _, s => s
  | n + 1, f, s => f n (forUp n f s)

/-! ### Containers -/

/-- The C++ class of the object (decides which `resize` runs and whether `state_` exists). -/
inductive Kind
  | gm
  | gaussian
  | ps
  deriving DecidableEq, Repr

structure Container (α : Type) where
  kind : Kind
  components : Nat
  useQuaternion : Bool
  dimCircularComponent : Nat
  dim : Nat
  dimLinear : Nat
  dimCircular : Nat
  dimNoise : Nat
  dimCovariance : Nat
  mean : Sto α
  cov : Sto α
  /-- `VectorXd weight_`: `components × 1`. -/
  weight : Sto α
  /-- `ParticleSet::state_`; `0 × 0` for the other classes. -/
  state : Sto α
  /-- Build configuration: content of newly allocated coefficients (see `Sto.fresh`). -/
  init : Option α := none

section
variable {α : Type}

/-- `GaussianMixture(components, dim_linear, dim_circular, use_quaternion)` and
    `ParticleSet(…)`, which adds `state_(dim, components)`.  The loop fills the weights with
    `1.0 / components`; means, covariances and states are left as allocated. -/
def ctorFull [One α] [Div α] [NatCast α] (kind : Kind) (components dimLinear dimCircular : Nat)
    (useQuaternion : Bool) (init : Option α := none) : Container α :=
  let dcc := if useQuaternion then 4 else 1
  let dim := dimLinear + dimCircular * dcc
  let dcov := if useQuaternion then dimLinear + dimCircular * (dcc - 1) else dim
  { kind := kind
    components := components
    useQuaternion := useQuaternion
    dimCircularComponent := dcc
    dim := dim
    dimLinear := dimLinear
    dimCircular := dimCircular
    dimNoise := 0
    dimCovariance := dcov
    mean := Sto.fresh dim components init
    cov := Sto.fresh dcov (dcov * components) init
    weight := Sto.build components 1 (fun _ _ => some (1 / (components : α)))
    state := if kind = Kind.ps then Sto.fresh dim components init else Sto.fresh 0 0
    init := init }

/-- The constructor overloads.  `args`: `[]` default constructor; `[a]` `Gaussian(dim_linear)`;
    `[k, d]` `(components, dim)`; `[k, l, c]` + flag the full one.  A `Gaussian` always has one
    component: `Gaussian(l)`, `Gaussian(l, c, q)` delegate to `GaussianMixture(1, l, c, q)`. -/
def ctorDefault [One α] [Div α] [NatCast α] (kind : Kind) (init : Option α := none) : Container α :=
  ctorFull kind 1 1 0 false init

def ctorDim [One α] [Div α] [NatCast α] (kind : Kind) (components dim : Nat) (init : Option α := none) :
    Container α :=
  match kind with
  | Kind.gaussian => ctorFull kind 1 dim 0 false init
  | _ => ctorFull kind components dim 0 false init

def ctorLayout [One α] [Div α] [NatCast α] (kind : Kind) (components dimLinear dimCircular : Nat)
    (useQuaternion : Bool) (init : Option α := none) : Container α :=
  match kind with
  | Kind.gaussian => ctorFull kind 1 dimLinear dimCircular useQuaternion init
  | _ => ctorFull kind components dimLinear dimCircular useQuaternion init

/-- `GaussianMixture::resize(components, dim_linear, dim_circular)`. -/
def gmResize (x : Container α) (components dimLinear dimCircular : Nat) : Container α :=
  let newDim := dimLinear + dimCircular * x.dimCircularComponent + x.dimNoise
  let newDcov :=
    if x.useQuaternion then dimLinear + dimCircular * (x.dimCircularComponent - 1) + x.dimNoise else newDim
  if x.dimLinear = dimLinear ∧ x.dimCircular = dimCircular ∧ x.components = components then
    x
  else if x.dim = newDim ∧ x.dimCovariance = newDcov ∧ x.components ≠ components then
    { x with
      mean := x.mean.conservativeResize x.mean.rows components
      cov := x.cov.conservativeResize x.cov.rows (x.dimCovariance * components)
      weight := x.weight.conservativeResize components 1
      components := components
      dim := newDim
      dimCovariance := newDcov
      dimLinear := dimLinear
      dimCircular := dimCircular }
  else
    { x with
      mean := x.mean.resizeNC newDim components x.init
      cov := x.cov.resizeNC newDcov (newDcov * components) x.init
      weight := x.weight.resizeNC components 1 x.init
      components := components
      dim := newDim
      dimCovariance := newDcov
      dimLinear := dimLinear
      dimCircular := dimCircular }

/-- `ParticleSet::resize`: resizes `state_`, then `GaussianMixture::resize`. -/
def psResize (x : Container α) (components dimLinear dimCircular : Nat) : Container α :=
  let newDim := dimLinear + dimCircular * x.dimCircularComponent
  if x.dimLinear = dimLinear ∧ x.dimCircular = dimCircular ∧ x.components = components then
    x
  else if x.dim - x.dimNoise = newDim ∧ x.components ≠ components then
    gmResize { x with state := x.state.conservativeResize x.state.rows components } components dimLinear dimCircular
  else
    gmResize { x with state := x.state.resizeNC newDim components x.init } components dimLinear dimCircular

/-- `Gaussian::resize(dim_linear, dim_circular)`. -/
def gaussianResize (x : Container α) (dimLinear dimCircular : Nat) : Container α :=
  gmResize x 1 dimLinear dimCircular

/-- The virtual `resize(components, dim_linear, dim_circular)` of a mixture or particle set. -/
def resize (x : Container α) (components dimLinear dimCircular : Nat) : Container α :=
  match x.kind with
  | Kind.ps => psResize x components dimLinear dimCircular
  | _ => gmResize x components dimLinear dimCircular

/-- One column swap of the relocation loop of `augmentWithNoise`:
    `new_block.col(j).swap(old_block.col(j))`, both blocks `dimOld` rows high starting at row 0,
    `a`, `b` the absolute column numbers. -/
def swapCols (dimOld a b : Nat) (g : Nat → Nat → Option α) : Nat → Nat → Option α :=
  fun r c => if r < dimOld then (if c = a then g r b else if c = b then g r a else g r c) else g r c

/-- `block(r0, c0, nr, nc) = src` on the cells (the caller has established the ranges). -/
def putBlock (r0 c0 nr nc : Nat) (src : Nat → Nat → Option α) (g : Nat → Nat → Option α) :
    Nat → Nat → Option α :=
  fun r c => if r0 ≤ r ∧ r < r0 + nr ∧ c0 ≤ c ∧ c < c0 + nc then src (r - r0) (c - c0) else g r c

/-- The relocation loop: components from the last to the second, columns from right to left. -/
def relocate (components dimOld dimNew : Nat) (g : Nat → Nat → Option α) : Nat → Nat → Option α :=
  forUp (components - 1) (fun i g =>
    let iIndex := components - 1 - i
    forUp dimOld (fun j g =>
      let jIndex := dimOld - 1 - j
      swapCols dimOld (iIndex * dimNew + jIndex) (iIndex * dimOld + jIndex) g) g) g

/-- `GaussianMixture::augmentWithNoise(Q)`, `Q` a `qr × qc` matrix given cell by cell (the function
    copies its argument first, so `Q` may alias the object's own storage).  Returns the container and the
    function's return value; `none` if an Eigen assertion trips (when the mean storage does not have
    `components` columns, and on a container with 0 components — see below). -/
def augmentO [Zero α] (x : Container α) (qr qc : Nat) (q : Nat → Nat → Option α) : Option (Container α × Bool) :=
  if qr ≠ qc then some (x, false)
  else if x.components = 0 then
    -- `for (i = 0; i < components - 1; ++i)`: with 0 components the unsigned `components - 1` wraps
    -- around to 2^64 - 1 and the first iteration takes `covariance_.block(0, (2^64 - 1) * dim_covariance, …)`:
    -- an Eigen assertion whenever `dim_covariance + dim_added > 0` (with 0 rows and a 0 × 0 argument the
    -- loop body is empty and runs 2^64 times: the call does not return; also rendered as `none`)
    none
  else
    let dimOld := x.dimCovariance
    let dimAdded := qr
    let dimNoise := x.dimNoise + dimAdded
    let dim := x.dim + dimAdded
    let dimCov := x.dimCovariance + dimAdded
    let mean1 := x.mean.conservativeResize dim x.mean.cols
    match mean1.assignBlock (dim - dimAdded) 0 dimAdded mean1.cols (Sto.const dimAdded x.components 0) with
    | none => none
    | some mean2 =>
      let cov1 := x.cov.conservativeResizeLike (Sto.const dimCov (dimCov * x.components) 0)
      let g1 := relocate x.components dimOld dimCov cov1.get
      -- second loop: for every component the noise block bottom-right, then the zero block
      -- top-right (both inside the storage: `(i + 1) * dimCov ≤ dimCov * components`)
      let g2 := forUp x.components (fun i g =>
        putBlock 0 (i * dimCov + dimOld) dimOld dimAdded (fun _ _ => some 0)
          (putBlock dimOld (i * dimCov + dimOld) dimAdded dimAdded q g)) g1
      some ({ x with
              dimNoise := dimNoise
              dim := dim
              dimCovariance := dimCov
              mean := mean2
              cov := Sto.build dimCov (dimCov * x.components) g2 }, true)

/-- `augmentWithNoise` with a fully specified matrix. -/
def augment [Zero α] (x : Container α) (qr qc : Nat) (q : Nat → Nat → α) : Option (Container α × Bool) :=
  augmentO x qr qc (fun r c => some (q r c))

/-- `g.augmentWithNoise(g.covariance(i))`: the noise covariance is the object's own block `i`
    (`none`: `covariance(i)` is outside the storage — Eigen assertion). -/
def augmentSelf [Zero α] (x : Container α) (i : Nat) : Option (Container α × Bool) :=
  if x.dimCovariance * i + x.dimCovariance ≤ x.cov.cols then
    augmentO x x.cov.rows x.dimCovariance (fun r c => x.cov.get r (x.dimCovariance * i + c))
  else none

/-- `ParticleSet::operator+=(rhs)` for `rhs` a different object than `*this`.  `none`: one of the
    `rightCols(…) = rhs.…` assignments has operands of different size (Eigen assertion). -/
def concat (x rhs : Container α) : Option (Container α) :=
  let newComponents := x.components + rhs.components
  let state1 := x.state.conservativeResize x.state.rows newComponents
  match state1.assignBlock 0 (newComponents - rhs.components) state1.rows rhs.components rhs.state with
  | none => none
  | some state2 =>
    let mean1 := x.mean.conservativeResize x.mean.rows newComponents
    match mean1.assignBlock 0 (newComponents - rhs.components) mean1.rows rhs.components rhs.mean with
    | none => none
    | some mean2 =>
      let cov1 := x.cov.conservativeResize x.cov.rows (x.dimCovariance * newComponents)
      match cov1.assignBlock 0 (cov1.cols - x.dimCovariance * rhs.components) cov1.rows
              (x.dimCovariance * rhs.components) rhs.cov with
      | none => none
      | some cov2 =>
        let weight1 := x.weight.conservativeResize newComponents 1
        match weight1.assignBlock (newComponents - rhs.components) 0 rhs.components 1 rhs.weight with
        | none => none
        | some weight2 =>
          some { x with state := state2, mean := mean2, cov := cov2, weight := weight2
                        components := newComponents }

/-! ### Element access through the per-component accessors -/

/-- `mean(i, j) = v`, i.e. `mean_(j, i)`; also `mean(i)(j) = v`. -/
def writeMean (x : Container α) (i j : Nat) (v : α) : Option (Container α) :=
  (x.mean.write j i v).map fun m => { x with mean := m }

/-- `covariance(i, j, k) = v`, i.e. `covariance_(j, dim_covariance * i + k)`. -/
def writeCov (x : Container α) (i j k : Nat) (v : α) : Option (Container α) :=
  (x.cov.write j (x.dimCovariance * i + k) v).map fun m => { x with cov := m }

/-- `weight(i) = v`. -/
def writeWeight (x : Container α) (i : Nat) (v : α) : Option (Container α) :=
  (x.weight.write i 0 v).map fun m => { x with weight := m }

/-- `state(i, j) = v`, i.e. `state_(j, i)`. -/
def writeState (x : Container α) (i j : Nat) (v : α) : Option (Container α) :=
  (x.state.write j i v).map fun m => { x with state := m }

/-- Write a recognisable value into every entry of every component through the block accessors
    `mean(i)`, `covariance(i)`, `weight(i)`, `state(i)` for `i < components`:
    `val storage component index`, index counted column-major inside the block.
    `none`: an accessor would address columns outside the storage (Eigen assertion). -/
def fill (x : Container α) (val : Nat → Nat → Nat → α) : Option (Container α) :=
  if x.components ≤ x.mean.cols ∧ x.dimCovariance * x.components ≤ x.cov.cols ∧
     x.components ≤ x.weight.rows ∧ (x.kind = Kind.ps → x.components ≤ x.state.cols) then
    some { x with
      mean := Sto.build x.mean.rows x.mean.cols (fun r c =>
        if c < x.components then some (val 0 c r) else x.mean.get r c)
      cov := Sto.build x.cov.rows x.cov.cols (fun r c =>
        if c < x.dimCovariance * x.components then
          some (val 1 (c / x.dimCovariance) (c % x.dimCovariance * x.cov.rows + r))
        else x.cov.get r c)
      weight := Sto.build x.weight.rows x.weight.cols (fun r c =>
        if r < x.components ∧ c = 0 then some (val 2 r 0) else x.weight.get r c)
      state := if x.kind = Kind.ps then
          Sto.build x.state.rows x.state.cols (fun r c =>
            if c < x.components then some (val 3 c r) else x.state.get r c)
        else x.state }
  else none

/-- Geometry of the per-component accessors: `(first column, number of columns)` of the block of
    `mean_`, `covariance_`, `state_` that `mean(i)`, `covariance(i)`, `state(i)` return (all rows),
    and the index `weight(i)` refers to. -/
def meanBlock (_ : Container α) (i : Nat) : Nat × Nat := (i, 1)
def covBlock (x : Container α) (i : Nat) : Nat × Nat := (x.dimCovariance * i, x.dimCovariance)
def stateBlock (_ : Container α) (i : Nat) : Nat × Nat := (i, 1)
def weightIndex (_ : Container α) (i : Nat) : Nat := i

/-! ### Operation sequences on a pool of objects -/

/-- Slots of live objects. -/
abbrev Pool (α : Type) := Nat → Option (Container α)

def Pool.set (p : Pool α) (s : Nat) (x : Container α) : Pool α :=
  fun t => if t = s then some x else p t

inductive Op (α : Type) where
  /-- construct into a slot -/
  | ctorDefault (dst : Nat) (kind : Kind) (init : Option α := none)
  | ctorDim (dst : Nat) (kind : Kind) (components dim : Nat) (init : Option α := none)
  | ctorLayout (dst : Nat) (kind : Kind) (components dimLinear dimCircular : Nat) (useQuaternion : Bool)
      (init : Option α := none)
  /-- copy construction / copy assignment `dst = src` (same class) -/
  | copy (dst src : Nat)
  /-- copy of the `GaussianMixture` base of `src` (`GaussianMixture g(src)`) -/
  | slice (dst src : Nat)
  /-- `resize(components, dim_linear, dim_circular)` of a mixture or particle set -/
  | resize (s : Nat) (components dimLinear dimCircular : Nat)
  /-- `Gaussian::resize(dim_linear, dim_circular)` -/
  | gaussianResize (s : Nat) (dimLinear dimCircular : Nat)
  | augment (s : Nat) (qr qc : Nat) (q : Nat → Nat → α)
  /-- `g.augmentWithNoise(g.covariance(i))` -/
  | augmentSelf (s i : Nat)
  /-- move construction / move assignment `dst = std::move(src)`; `src` is not used afterwards -/
  | move (dst src : Nat)
  /-- assignment through base references, `static_cast<GaussianMixture&>(dst) = src`: what
      `pred_state = prev_state` does inside the prediction and correction classes -/
  | baseAssign (dst src : Nat)
  /-- `dst += src` -/
  | concatAssign (dst src : Nat)
  /-- `dst = a + b` -/
  | concatPlus (dst a b : Nat)
  | writeMean (s i j : Nat) (v : α)
  | writeCov (s i j k : Nat) (v : α)
  | writeWeight (s i : Nat) (v : α)
  | writeState (s i j : Nat) (v : α)
  | fill (s : Nat) (val : Nat → Nat → Nat → α)

/-- Result of one operation. -/
inductive Outcome (α : Type) where
  /-- performed -/
  | ok (p : Pool α)
  /-- not applicable (empty slot, wrong class): nothing happens; the generators never produce these -/
  | skip
  /-- an Eigen assertion aborts the program -/
  | assert

/-- Lift a partial single-object operation. -/
def onSlot (p : Pool α) (s : Nat) (ok : Container α → Bool) (f : Container α → Option (Container α)) : Outcome α :=
  match p s with
  | none => Outcome.skip
  | some x =>
    if ok x then
      match f x with
      | some y => Outcome.ok (p.set s y)
      | none => Outcome.assert
    else Outcome.skip

def step [Zero α] [One α] [Div α] [NatCast α] (p : Pool α) : Op α → Outcome α
  | Op.ctorDefault dst kind init => Outcome.ok (p.set dst (ctorDefault kind init))
  -- 0 components are legal: empty storage (`dim × 0` means, `dim_covariance × 0` covariances, no weights)
  | Op.ctorDim dst kind k d init => Outcome.ok (p.set dst (ctorDim kind k d init))
  | Op.ctorLayout dst kind k l c q init => Outcome.ok (p.set dst (ctorLayout kind k l c q init))
  | Op.copy dst src =>
      match p src with
      | some x => Outcome.ok (p.set dst x)
      | none => Outcome.skip
  | Op.slice dst src =>
      match p src with
      | some x => Outcome.ok (p.set dst { x with kind := Kind.gm, state := Sto.fresh 0 0 })
      | none => Outcome.skip
  | Op.resize s k l c =>
      -- on a `Gaussian` this is the inherited virtual `GaussianMixture::resize`, reachable through a
      -- `GaussianMixture&` only
      onSlot p s (fun _ => true) (fun x => some (resize x k l c))
  | Op.gaussianResize s l c =>
      onSlot p s (fun x => x.kind == Kind.gaussian) (fun x => some (gaussianResize x l c))
  | Op.augment s qr qc q =>
      onSlot p s (fun _ => true) (fun x => (augment x qr qc q).map (·.1))
  | Op.augmentSelf s i =>
      onSlot p s (fun _ => true) (fun x => (augmentSelf x i).map (·.1))
  | Op.move dst src =>
      match p src with
      | some x => if dst = src then Outcome.skip else Outcome.ok (fun t => if t = src then none else (p.set dst x) t)
      | none => Outcome.skip
  | Op.baseAssign dst src =>
      match p dst, p src with
      | some x, some r => Outcome.ok (p.set dst { r with kind := x.kind, state := x.state })
      | _, _ => Outcome.skip
  | Op.concatAssign dst src =>
      match p dst, p src with
      | some x, some r =>
        if x.kind = Kind.ps ∧ r.kind = Kind.ps then
          -- `a += a` works on a copy of the right-hand side: `r` is then `x` itself
          match concat x r with
          | some y => Outcome.ok (p.set dst y)
          | none => Outcome.assert
        else Outcome.skip
      | _, _ => Outcome.skip
  | Op.concatPlus dst a b =>
      match p a, p b with
      | some x, some r =>
        if x.kind = Kind.ps ∧ r.kind = Kind.ps then
          -- `lhs` is passed by value: a copy of `a`, so `a + a` is fine
          match concat x r with
          | some y => Outcome.ok (p.set dst y)
          | none => Outcome.assert
        else Outcome.skip
      | _, _ => Outcome.skip
  | Op.writeMean s i j v => onSlot p s (fun _ => true) (fun x => writeMean x i j v)
  | Op.writeCov s i j k v => onSlot p s (fun _ => true) (fun x => writeCov x i j k v)
  | Op.writeWeight s i v => onSlot p s (fun _ => true) (fun x => writeWeight x i v)
  | Op.writeState s i j v => onSlot p s (fun x => x.kind == Kind.ps) (fun x => writeState x i j v)
  | Op.fill s val => onSlot p s (fun _ => true) (fun x => fill x val)

/-- Run a sequence from the empty pool; stops at the first assertion (the program is gone).
    Returns the pool and whether an assertion tripped. -/
def runFrom [Zero α] [One α] [Div α] [NatCast α] (p : Pool α) : List (Op α) → Pool α × Bool
  | [] => (p, false)
  | op :: ops =>
    match step p op with
    | Outcome.ok p' => runFrom p' ops
    | Outcome.skip => runFrom p ops
    | Outcome.assert => (p, true)

def emptyPool : Pool α := fun _ => none

def run [Zero α] [One α] [Div α] [NatCast α] (ops : List (Op α)) : Pool α × Bool :=
  runFrom emptyPool ops

end

/-! ### Well-formedness: the agreement C11 states -/

/-- Declared shape fields agree with one another and with the storage:
    total = linear + circular × (4 for quaternions, else 1) + noise; the covariance size counts 3
    per quaternion; `mean_` is `dim × components`; `covariance_` is
    `dim_covariance × (dim_covariance · components)`; `weight_` has `components` entries; a particle
    set's `state_` is `(dim − dim_noise) × components` (particle positions never carry the noise
    rows); a `Gaussian` has exactly one component.  A mixture or particle set may have 0 components
    (`GaussianMixture(0, d)`, `resize(0, …)`): all storage then has 0 columns / entries; the only
    operation that is unsafe there is `augmentWithNoise` (see `augmentO`). -/
structure WF {α : Type} (x : Container α) : Prop where
  dcc : x.dimCircularComponent = if x.useQuaternion then 4 else 1
  dim : x.dim = x.dimLinear + x.dimCircular * (if x.useQuaternion then 4 else 1) + x.dimNoise
  dcov : x.dimCovariance = x.dimLinear + x.dimCircular * (if x.useQuaternion then 3 else 1) + x.dimNoise
  meanRows : x.mean.rows = x.dim
  meanCols : x.mean.cols = x.components
  covRows : x.cov.rows = x.dimCovariance
  covCols : x.cov.cols = x.dimCovariance * x.components
  weightRows : x.weight.rows = x.components
  weightCols : x.weight.cols = 1
  stateRows : x.kind = Kind.ps → x.state.rows = x.dim - x.dimNoise
  stateCols : x.kind = Kind.ps → x.state.cols = x.components
  gaussian : x.kind = Kind.gaussian → x.components = 1

/-- Every live object of the pool is well-formed. -/
def PoolWF {α : Type} (p : Pool α) : Prop := ∀ s x, p s = some x → WF x

/-- Discipline of the two operations that go through base-class references (the caller's
    obligation; the classes cannot enforce it): the inherited `GaussianMixture::resize` applied to a
    `Gaussian` asks for one component, and `static_cast<GaussianMixture&>(dst) = src` is used on a
    destination whose class-specific part fits the source (a particle set's `state_` has the
    source's state size and component count; a `Gaussian` receives a single component). -/
def Disciplined {α : Type} (p : Pool α) : Op α → Prop
  | Op.resize s k _ _ => ∀ x, p s = some x → x.kind = Kind.gaussian → k = 1
  | Op.baseAssign dst src => ∀ x r, p dst = some x → p src = some r →
      (x.kind = Kind.ps → x.state.rows = r.dim - r.dimNoise ∧ x.state.cols = r.components) ∧
      (x.kind = Kind.gaussian → r.components = 1)
  | _ => True

/-- Every operation of the sequence is disciplined in the pool it is applied to. -/
def DisciplinedFrom {α : Type} [Zero α] [One α] [Div α] [NatCast α] (p : Pool α) : List (Op α) → Prop
  | [] => True
  | op :: ops => Disciplined p op ∧
    match step p op with
    | Outcome.ok p' => DisciplinedFrom p' ops
    | Outcome.skip => DisciplinedFrom p ops
    | Outcome.assert => True

end BFL.Shape
