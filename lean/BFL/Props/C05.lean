import BFL.Model.SUKF
import BFL.Bridge.Mat
import BFL.Bridge.Det
import BFL.Bridge.Transc
import BFL.Proofs.SUKF
import BFL.Proofs.SUKFModel
import BFL.Props.C15
/-
C05 — The serial UKF correction equals the standard additive UKF correction.

Theorems about the model in `BFL/Model/SUKF.lean` (`sukfComp`, `sukfLik`, `sukfCorrect` — transcribing
`SUKFCorrection.cpp` — against `ukfComp`, transcribing the additive branch of `UKFCorrection.cpp` with
the moments of `sigma_point::unscented_transform`), over ℝ, for every state dimension `n`, number of
sigma points `s`, number `nb` and size `bs` of sub-measurements, number of components, both encodings
of the noise covariance (`SNoise.full`, `SNoise.reduced`), and *any* measurement function: only the
propagated sigma points `Yp` enter.

Guards, as the property states them: the covariance weights are non-negative (`0 ≤ wc j`; the code
takes their square roots), the noise blocks are symmetric positive definite, a full noise covariance
is block diagonal.  `hX` is the contract of `sigma_point()` (C03): the input sigma points reproduce the
predicted covariance, `Σ_j wc_j (X_j − m)(X_j − m)ᵀ = P`.  `inv` is the inverse routine; `InvCorrect inv`
says it returns the inverse of every invertible matrix; that each matrix the two corrections invert
*is* invertible is part of the conclusions.
-/
namespace BFL
open Matrix

variable {n nb bs s msz k : Nat}

/-- `Σ_j Y_jᵀ R_j⁻¹ Y_j` and `Σ_j Y_jᵀ R_j⁻¹ ν_j` over the sub-measurements are `Yᵀ R⁻¹ Y` and `Yᵀ R⁻¹ ν`
    for the block-diagonal `R` of the blocks `getNoiseCovarianceMatrix(j)` — for both encodings. -/
theorem sukf_block_sum (inv : InvFn ℝ) (R : SNoise ℝ (nb * bs) bs) (Y : Mat ℝ (nb * bs) s) (ν : Vec ℝ (nb * bs))
    (hR : ∀ j, InvOK inv (R.blockAt j)) :
    toM (sukfCinv inv R Y) = 1 + (toM Y)ᵀ * R.Rf⁻¹ * toM Y ∧
    toV (sukfD inv R Y ν) = ((toM Y)ᵀ * R.Rf⁻¹) *ᵥ toV ν ∧
    IsUnit R.Rf :=
  ⟨toM_sukfCinv R Y hR, toV_sukfD R Y ν hR, (Rf_inv R hR).2⟩

/-- The encoding stands for the full covariance the standard correction is given: the block-diagonal
    matrix of the blocks (for a full matrix: provided it *is* block diagonal). -/
theorem sukf_noise_full (R : SNoise ℝ (nb * bs) bs) (h : R.BlockDiag) : toM R.toFull = R.Rf :=
  R.toM_toFull h

/-- Corrected covariance: `X C Xᵀ` of the serial correction is `P − K S Kᵀ` of the standard one. -/
theorem sukf_cov_eq_ukf (inv : InvFn ℝ) (hinv : InvCorrect inv) (nc : Nat) (R : SNoise ℝ (nb * bs) bs)
    (m : Vec ℝ n) (P : Mat ℝ n n) (X : Mat ℝ n s) (Yp : Mat ℝ (nb * bs) s) (wm wc : Vec ℝ s) (y : Vec ℝ (nb * bs))
    (hw : ∀ j, 0 ≤ wc j) (hBD : R.BlockDiag) (hRpd : ∀ j, (toM (R.blockAt j)).PosDef)
    (hX : toM (wOuter (offX nc m X) wc (offX nc m X)) = toM P) :
    toM (sukfComp inv nc R m X Yp wm wc y).cov = toM (ukfComp inv nc R.toFull m P X Yp wm wc y).cov ∧
    IsUnit (toM (sukfCinv inv R (sukfComp inv nc R m X Yp wm wc y).Y)) ∧
    IsUnit (toM (ukfComp inv nc R.toFull m P X Yp wm wc y).Pyy) := by
  obtain ⟨h1, _, h3, h4⟩ := sukfComp_eq_ukfComp inv nc R R.toFull m P X Yp wm wc y hinv hw hRpd (R.toM_toFull hBD) hX
  exact ⟨h1, h3, h4.isUnit⟩

/-- Corrected mean: `m + X C d` of the serial correction is `m + K ν` of the standard one. -/
theorem sukf_mean_eq_ukf (inv : InvFn ℝ) (hinv : InvCorrect inv) (nc : Nat) (R : SNoise ℝ (nb * bs) bs)
    (m : Vec ℝ n) (P : Mat ℝ n n) (X : Mat ℝ n s) (Yp : Mat ℝ (nb * bs) s) (wm wc : Vec ℝ s) (y : Vec ℝ (nb * bs))
    (hw : ∀ j, 0 ≤ wc j) (hBD : R.BlockDiag) (hRpd : ∀ j, (toM (R.blockAt j)).PosDef)
    (hX : toM (wOuter (offX nc m X) wc (offX nc m X)) = toM P) :
    toV (sukfComp inv nc R m X Yp wm wc y).mean = toV (ukfComp inv nc R.toFull m P X Yp wm wc y).mean :=
  (sukfComp_eq_ukfComp inv nc R R.toFull m P X Yp wm wc y hinv hw hRpd (R.toM_toFull hBD) hX).2.1

/-- the blocks of the `bs × (nb·bs)` row `getLikelihood` assembles are the noise blocks -/
theorem snoise_row_block (R : SNoise ℝ (nb * bs) bs) (i : Fin nb) :
    (RNoise.perBlock R.row : RNoise ℝ nb bs).block i = R.blockAt i := by
  ext a c
  simp [RNoise.block, SNoise.row, Mat.blkCols, bdiv_eq, bmod_eq, bidx_divNat, bidx_modNat]

/-- Likelihood: the factorised density with `U = Y`, `V = Yᵀ` of the serial correction is the direct
    density `N(ν; 0, S)` of the standard one (`S = Yo W Yoᵀ + R` positive definite: defined). -/
theorem sukf_likelihood_eq_ukf (inv : InvFn ℝ) (hinv : InvCorrect inv) (nc : Nat) (R : SNoise ℝ (nb * bs) bs)
    (m : Vec ℝ n) (P : Mat ℝ n n) (X : Mat ℝ n s) (Yp : Mat ℝ (nb * bs) s) (wm wc : Vec ℝ s) (y : Vec ℝ (nb * bs))
    (hw : ∀ j, 0 ≤ wc j) (hBD : R.BlockDiag) (hRpd : ∀ j, (toM (R.blockAt j)).PosDef) :
    sukfLik inv R (sukfComp inv nc R m X Yp wm wc y).Y (sukfComp inv nc R m X Yp wm wc y).innov
      = (ukfComp inv nc R.toFull m P X Yp wm wc y).lik ∧
    (toM (ukfComp inv nc R.toFull m P X Yp wm wc y).Pyy).PosDef := by
  have hSpd := ukf_Pyy_posDef inv nc R R.toFull m P X Yp wm wc y hw hRpd (R.toM_toFull hBD)
  refine ⟨?_, hSpd⟩
  set c := sukfComp inv nc R m X Yp wm wc y with hc
  set u := ukfComp inv nc R.toFull m P X Yp wm wc y with hu
  -- the assembled covariance of the factorised form is the innovation covariance of the standard correction
  have hA : toM (assembleS c.Y c.Y.transpose (RNoise.perBlock R.row : RNoise ℝ nb bs)) = toM u.Pyy := by
    rw [toM_assembleS, toM_transpose, hu, ukf_Pyy_eq, R.toM_toFull hBD,
      ← (sukf_moments inv nc R m X Yp wm wc y hw).1]
    simp only [snoise_row_block]
    rfl
  have hApd : (toM (assembleS c.Y c.Y.transpose (RNoise.perBlock R.row : RNoise ℝ nb bs))).PosDef := hA ▸ hSpd
  have hblk : ∀ i, IsUnit (toM ((RNoise.perBlock R.row : RNoise ℝ nb bs).block i)) := by
    intro i; rw [snoise_row_block]; exact (hRpd i).isUnit
  have h1 := (uvr_eq_direct_of_posDef inv hinv (Mat.of (fun i (_ : Fin 1) => c.innov i)) Vec.zero c.Y c.Y.transpose
    (RNoise.perBlock R.row) hblk hApd 0).2.1
  have h2 := (density_congr inv (Mat.of (fun i (_ : Fin 1) => c.innov i)) Vec.zero _ u.Pyy hA
    (hinv _ _ hApd.isUnit) (hinv _ _ hSpd.isUnit) 0).2
  have hlik : u.lik = density inv (Mat.of (fun i (_ : Fin 1) => c.innov i)) Vec.zero u.Pyy 0 := by
    simp only [hu, hc, ukfComp, sukfComp]
  rw [hlik, ← h2, ← h1]
  rfl

/-! ### Euler-circular state rows

The last `nc` rows of the state may be Euler angles: the code then forms the offsets of the input
sigma points with `directional_sub` (`offX`), in the serial and in the standard correction alike, so
every theorem above holds verbatim (its hypothesis `hX` speaks about these offsets). -/

/-- The circular offsets always lie in `(−π, π]`; they are the plain differences `X − m` whenever the
    sigma points stay within half a turn of the mean — then `hX` is the plain covariance condition —
    and for a state without circular rows. -/
theorem sukf_circular_offsets (nc : Nat) (m : Vec ℝ n) (X : Mat ℝ n s) :
    (∀ (i : Fin n) (j : Fin s), n ≤ i.val + nc → offX nc m X i j ∈ Set.Ioc (-Real.pi) Real.pi) ∧
    ((∀ (i : Fin n) (j : Fin s), n ≤ i.val + nc → X i j - m i ∈ Set.Ioc (-Real.pi) Real.pi) →
        offX nc m X = subCols X m) ∧
    offX 0 m X = subCols X m := by
  refine ⟨fun i j h => ?_, offX_eq_subCols nc m X, offX_zero m X⟩
  simp only [offX, Mat.of_apply, if_neg (Nat.not_lt.2 h)]
  exact sukfDirSub_mem _ _

/-! ### The whole step -/

/-- A measurement whose size is not a multiple of the block size leaves the belief unchanged
    (`corr_state = pred_state`), whatever the measurement model answers. -/
theorem sukf_size_mismatch_identity (inv : InvFn ℝ) (bs : Nat) (R : SNoise ℝ msz bs) (inp : SukfIn ℝ n msz s k)
    (b out : GM ℝ n k) (h : msz % bs ≠ 0) : sukfCorrect inv bs R inp b out = b := by
  simp [sukfCorrect, h]

/-- So does every other early return: no valid measurement, failed prediction, failed innovation. -/
theorem sukf_invalid_identity (inv : InvFn ℝ) (bs : Nat) (R : SNoise ℝ msz bs) (inp : SukfIn ℝ n msz s k)
    (b out : GM ℝ n k) (h : inp.validMeas = false ∨ inp.validPred = false ∨ inp.validInnov = false) :
    sukfCorrect inv bs R inp b out = b := by
  unfold sukfCorrect
  rcases h with h | h | h
  · simp [h]
  · split <;> simp [h]
  · split
    · split
      · rfl
      · simp [h]
    · rfl

/-- A successful step writes, per component, the serial correction of that component (the weights
    of the output mixture are not written). -/
theorem sukf_step_components (inv : InvFn ℝ) (bs : Nat) (R : SNoise ℝ msz bs) (inp : SukfIn ℝ n msz s k)
    (b out : GM ℝ n k) (hdiv : msz % bs = 0)
    (hv : inp.validMeas = true ∧ inp.validPred = true ∧ inp.validInnov = true) (i : Fin k) :
    (sukfCorrect inv bs R inp b out).mean i = (sukfComps inv bs hdiv R inp b i).mean ∧
    (sukfCorrect inv bs R inp b out).cov i = (sukfComps inv bs hdiv R inp b i).cov ∧
    (sukfCorrect inv bs R inp b out).weight = out.weight := by
  simp [sukfCorrect, hv.1, hv.2.1, hv.2.2, hdiv]

/-- The step, for every measurement function, component count and both noise encodings: mean,
    covariance and likelihood of every component equal those of the standard additive unscented
    correction applied to the same component, sigma points and propagated points, with the full
    noise covariance the encoding stands for.  (The measurement of size `msz` is viewed as
    `msz / bs` sub-vectors of size `bs`: `castRows`, `castVec`, `SNoise.cast` only re-type.) -/
theorem sukf_correct_eq_ukf (inv : InvFn ℝ) (hinv : InvCorrect inv) (bs : Nat) (R : SNoise ℝ msz bs)
    (inp : SukfIn ℝ n msz s k) (b out : GM ℝ n k) (hdiv : msz % bs = 0)
    (hv : inp.validMeas = true ∧ inp.validPred = true ∧ inp.validInnov = true)
    (hw : ∀ j, 0 ≤ inp.wc j)
    (hBD : (R.cast (Nat.div_mul_cancel (Nat.dvd_of_mod_eq_zero hdiv))).BlockDiag)
    (hRpd : ∀ j, (toM ((R.cast (Nat.div_mul_cancel (Nat.dvd_of_mod_eq_zero hdiv))).blockAt j)).PosDef)
    (hX : ∀ i, toM (wOuter (offX inp.nc (b.mean i) (inp.X i)) inp.wc (offX inp.nc (b.mean i) (inp.X i))) = toM (b.cov i))
    (i : Fin k) :
    let h := Nat.div_mul_cancel (Nat.dvd_of_mod_eq_zero hdiv)
    let u := ukfComp inv inp.nc (R.cast h).toFull (b.mean i) (b.cov i) (inp.X i) (castRows h (inp.Yp i)) inp.wm inp.wc (castVec h inp.y)
    toV ((sukfCorrect inv bs R inp b out).mean i) = toV u.mean ∧
    toM ((sukfCorrect inv bs R inp b out).cov i) = toM u.cov ∧
    sukfLikelihoods inv bs hdiv R inp b i = u.lik := by
  intro h u
  obtain ⟨e1, e2, _⟩ := sukf_step_components inv bs R inp b out hdiv hv i
  rw [e1, e2]
  refine ⟨?_, ?_, ?_⟩
  · exact sukf_mean_eq_ukf inv hinv inp.nc (R.cast h) (b.mean i) (b.cov i) (inp.X i) _ inp.wm inp.wc _ hw hBD hRpd (hX i)
  · exact (sukf_cov_eq_ukf inv hinv inp.nc (R.cast h) (b.mean i) (b.cov i) (inp.X i) _ inp.wm inp.wc _ hw hBD hRpd (hX i)).1
  · exact (sukf_likelihood_eq_ukf inv hinv inp.nc (R.cast h) (b.mean i) (b.cov i) (inp.X i) _ inp.wm inp.wc _ hw hBD hRpd).1

/-- Re-typing the measurement (`msz' = msz`) does not change what the standard correction computes. -/
theorem ukfComp_cast (inv : InvFn ℝ) (nc : Nat) {msz' : Nat} (h : msz' = msz) (Rfull : Mat ℝ msz msz)
    (m : Vec ℝ n) (P : Mat ℝ n n) (X : Mat ℝ n s) (Yp : Mat ℝ msz s) (wm wc : Vec ℝ s) (y : Vec ℝ msz) :
    let u' := ukfComp inv nc (Mat.of (fun p q => Rfull (Fin.cast h p) (Fin.cast h q))) m P X (castRows h Yp) wm wc (castVec h y)
    let u := ukfComp inv nc Rfull m P X Yp wm wc y
    u'.mean = u.mean ∧ u'.cov = u.cov ∧ u'.lik = u.lik := by
  subst h
  have e1 : (Mat.of (fun p q => Rfull (Fin.cast rfl p) (Fin.cast rfl q)) : Mat ℝ msz' msz') = Rfull := by ext p q; simp
  have e2 : castRows rfl Yp = Yp := by ext p q; simp [castRows]
  have e3 : castVec rfl y = y := by ext p; simp [castVec]
  have e1' : (Mat.of (fun p q => Rfull p q) : Mat ℝ msz' msz') = Rfull := by ext p q; simp
  simp [e1', e2, e3]

/-- The noise covariance supplied in full: the serial step equals the standard correction given the
    very same matrix `R0` (required to be block diagonal with positive-definite blocks). -/
theorem sukf_correct_eq_ukf_full (inv : InvFn ℝ) (hinv : InvCorrect inv) (bs : Nat) (R0 : Mat ℝ msz msz)
    (inp : SukfIn ℝ n msz s k) (b out : GM ℝ n k) (hdiv : msz % bs = 0)
    (hv : inp.validMeas = true ∧ inp.validPred = true ∧ inp.validInnov = true)
    (hw : ∀ j, 0 ≤ inp.wc j)
    (hBD : ((SNoise.full R0 : SNoise ℝ msz bs).cast (Nat.div_mul_cancel (Nat.dvd_of_mod_eq_zero hdiv))).BlockDiag)
    (hRpd : ∀ j, (toM (((SNoise.full R0 : SNoise ℝ msz bs).cast (Nat.div_mul_cancel (Nat.dvd_of_mod_eq_zero hdiv))).blockAt j)).PosDef)
    (hX : ∀ i, toM (wOuter (offX inp.nc (b.mean i) (inp.X i)) inp.wc (offX inp.nc (b.mean i) (inp.X i))) = toM (b.cov i))
    (i : Fin k) :
    let u := ukfComp inv inp.nc R0 (b.mean i) (b.cov i) (inp.X i) (inp.Yp i) inp.wm inp.wc inp.y
    toV ((sukfCorrect inv bs (SNoise.full R0) inp b out).mean i) = toV u.mean ∧
    toM ((sukfCorrect inv bs (SNoise.full R0) inp b out).cov i) = toM u.cov ∧
    sukfLikelihoods inv bs hdiv (SNoise.full R0) inp b i = u.lik := by
  intro u
  have h := Nat.div_mul_cancel (Nat.dvd_of_mod_eq_zero hdiv)
  obtain ⟨a1, a2, a3⟩ := sukf_correct_eq_ukf inv hinv bs (SNoise.full R0) inp b out hdiv hv hw hBD hRpd hX i
  obtain ⟨c1, c2, c3⟩ := ukfComp_cast inv inp.nc h R0 (b.mean i) (b.cov i) (inp.X i) (inp.Yp i) inp.wm inp.wc inp.y
  simp only [SNoise.cast, SNoise.toFull] at a1 a2 a3
  exact ⟨by rw [a1, c1], by rw [a2, c2], by rw [a3, c3]⟩

/-! ### The guard `0 ≤ wc_j` is needed (documentation; outside the property's quantifier)

With a negative covariance weight the square-root scaling no longer reproduces the weighted moments
the standard correction uses: over ℝ, `√wc · √wc = max wc 0` (in floating point the square root is
`nan`).  Concrete witness: one measurement, three sigma points, `wc = (−1, 1, 1)`, propagated points
`(1, 0, 0)`, `wm = 0`: the serial correction forms `Y Yᵀ = 0` where the standard one has
`Yo W Yoᵀ = −1`, so the innovation covariances `S` — hence gains, covariances and likelihoods — differ. -/
theorem sukf_negative_weight_counterexample :
    ∃ (wc wm : Vec ℝ 3) (Yp : Mat ℝ (1 * 1) 3), wc 0 < 0 ∧ (∀ j, j ≠ 0 → 0 ≤ wc j) ∧
      ∀ (inv : InvFn ℝ) (nc : Nat) (R : SNoise ℝ (1 * 1) 1) (m : Vec ℝ 1) (X : Mat ℝ 1 3) (y : Vec ℝ (1 * 1)),
        toM (sukfComp inv nc R m X Yp wm wc y).Y * (toM (sukfComp inv nc R m X Yp wm wc y).Y)ᵀ
          ≠ toM (wOuter (offY Yp wm) wc (offY Yp wm)) := by
  refine ⟨Vec.of (fun j => if j = 0 then -1 else 1), Vec.of (fun _ => 0),
    Mat.of (fun _ j => if j = 0 then 1 else 0), by simp, ?_, ?_⟩
  · intro j hj; simp [hj]
  · intro inv nc R m X y hEq
    have h00 := congrFun (congrFun hEq 0) 0
    rw [sukf_Y_eq, toM_wOuter] at h00
    simp only [Matrix.mul_apply, Matrix.of_apply, Matrix.transpose_apply, toM_apply, offY, subCols, Mat.of_apply,
      Mat.mulVec_apply, fsum_eq_sum, Vec.of_apply, mul_zero, Finset.sum_const_zero, sub_zero] at h00
    rw [Fin.sum_univ_three, Fin.sum_univ_three] at h00
    have hs : Real.sqrt (-1) = 0 := Real.sqrt_eq_zero_of_nonpos (by norm_num)
    have h2 : (2 : Fin 3) ≠ 0 := by decide
    norm_num [hs, h2] at h00

/-! ### Non-vacuity -/

/-- The hypotheses of `sukf_cov_eq_ukf` are jointly satisfiable on a non-trivial instance: two
    sub-measurements of size one, the shared identity block, weights `(0, 1/2, 1/2)`, sigma points
    `(0, 1, −1)` reproducing `P = 1`, Mathlib's inverse as the routine, any propagated points. -/
example : ∃ (inv : InvFn ℝ) (R : SNoise ℝ (2 * 1) 1) (m : Vec ℝ 1) (P : Mat ℝ 1 1) (X : Mat ℝ 1 3) (wc : Vec ℝ 3),
    InvCorrect inv ∧ (∀ j, 0 ≤ wc j) ∧ R.BlockDiag ∧ (∀ j, (toM (R.blockAt j)).PosDef) ∧
    toM (wOuter (offX 0 m X) wc (offX 0 m X)) = toM P := by
  refine ⟨mathlibInv, SNoise.reduced Mat.one, Vec.of (fun _ => 0), Mat.one,
    Mat.of (fun _ j => if j = 0 then 0 else if j = 1 then 1 else -1),
    Vec.of (fun j => if j = 0 then 0 else 1 / 2), fun n A h => mathlibInv_ok A h, ?_, trivial, ?_, ?_⟩
  · intro j; simp only [Vec.of_apply]; split <;> norm_num
  · intro j
    simp only [SNoise.blockAt, toM_one]
    exact Matrix.PosDef.one
  · ext a c
    rw [toM_wOuter]
    simp only [Matrix.mul_apply, Matrix.of_apply, Matrix.transpose_apply, toM_apply, offX, Mat.of_apply,
      Vec.of_apply, sub_zero]
    rw [Fin.sum_univ_three]
    have ha : a = 0 := Subsingleton.elim _ _
    have hc : c = 0 := Subsingleton.elim _ _
    subst ha; subst hc
    have h2 : (2 : Fin 3) ≠ 0 := by decide
    have h21 : (2 : Fin 3) ≠ 1 := by decide
    norm_num [h2, h21]

/-! ### Deepening round -/

/-- Without the contract `hX` of `sigma_point()` the two covariances differ exactly by the defect of the
    sigma points: `X C Xᵀ = (P − K S Kᵀ) + (Σ_j wc_j Xo_j Xo_jᵀ − P)`.  (This is the form the correspondence
    check evaluates on the implementation's sigma points, which reproduce `P` only up to rounding.) -/
theorem sukf_cov_eq_ukf_general (inv : InvFn ℝ) (hinv : InvCorrect inv) (nc : Nat) (R : SNoise ℝ (nb * bs) bs)
    (m : Vec ℝ n) (P : Mat ℝ n n) (X : Mat ℝ n s) (Yp : Mat ℝ (nb * bs) s) (wm wc : Vec ℝ s) (y : Vec ℝ (nb * bs))
    (hw : ∀ j, 0 ≤ wc j) (hBD : R.BlockDiag) (hRpd : ∀ j, (toM (R.blockAt j)).PosDef) :
    toM (sukfComp inv nc R m X Yp wm wc y).cov
      = toM (ukfComp inv nc R.toFull m P X Yp wm wc y).cov
        + (toM (wOuter (offX nc m X) wc (offX nc m X)) - toM P) := by
  have h := (sukf_cov_eq_ukf inv hinv nc R m (wOuter (offX nc m X) wc (offX nc m X)) X Yp wm wc y hw hBD hRpd rfl).1
  rw [h]
  simp only [ukfComp, toM_sub, Mat.eval_eq]
  abel

/-- The block-diagonality of a full noise covariance is needed: the serial correction reads only the
    diagonal blocks.  Witness: `R = [[1, 1/2], [1/2, 1]]` with block size 1 — positive definite blocks `1`, `1`,
    but `R` is not the block-diagonal matrix of its blocks (so the standard correction, which is given `R`,
    uses a different innovation covariance). -/
theorem sukf_blockdiag_needed :
    ∃ R0 : Mat ℝ (2 * 1) (2 * 1), (∀ j, (toM ((SNoise.full R0 : SNoise ℝ (2 * 1) 1).blockAt j)).PosDef) ∧
      toM (SNoise.full R0 : SNoise ℝ (2 * 1) 1).toFull ≠ (SNoise.full R0 : SNoise ℝ (2 * 1) 1).Rf := by
  refine ⟨Mat.of (fun p q => if p = q then 1 else 1 / 2), fun j => ?_, fun h => ?_⟩
  · have : toM ((SNoise.full (Mat.of (fun p q => if p = q then (1:ℝ) else 1 / 2)) : SNoise ℝ (2 * 1) 1).blockAt j) = 1 := by
      ext a c
      have ha : a = 0 := Subsingleton.elim _ _
      have hc : c = 0 := Subsingleton.elim _ _
      subst ha; subst hc
      simp [SNoise.blockAt, Mat.blkDiag]
    rw [this]; exact Matrix.PosDef.one
  · have h01 := congrFun (congrFun h (0 : Fin (2 * 1))) (1 : Fin (2 * 1))
    simp [SNoise.toFull, SNoise.Rf, bdiag, Fin.divNat] at h01

/-- The likelihood query after a step: none after every early return (no valid measurement, size not a
    multiple of the block size, failed prediction, failed innovation) — as the standard correction — and the
    likelihoods of this very step after a successful one (which `sukf_correct_eq_ukf` equates with the
    standard ones). -/
theorem sukf_likelihood_after_step (inv : InvFn ℝ) (bs : Nat) (R : SNoise ℝ msz bs) (inp : SukfIn ℝ n msz s k)
    (b : GM ℝ n k) :
    ((inp.validMeas = false ∨ msz % bs ≠ 0 ∨ inp.validPred = false ∨ inp.validInnov = false) →
        sukfStepLikelihood inv bs R inp b = none) ∧
    (∀ (hdiv : msz % bs = 0), inp.validMeas = true → inp.validPred = true → inp.validInnov = true →
        sukfStepLikelihood inv bs R inp b = some (sukfLikelihoods inv bs hdiv R inp b)) := by
  constructor
  · intro h
    unfold sukfStepLikelihood
    rcases h with h | h | h | h
    · simp [h]
    · simp [h]
    · split <;> simp [h]
    · split
      · split
        · rfl
        · simp [h]
      · rfl
  · intro hdiv h1 h2 h3
    simp [sukfStepLikelihood, h1, h2, h3, hdiv]

end BFL
