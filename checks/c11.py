"""C11 — Belief containers keep their declared shape consistent with their storage.

Proof stage: theorems of lean/BFL/Props/C11.lean about the executable model BFL.Shape.
Tie stage: operation sequences run on real GaussianMixture / Gaussian / ParticleSet objects
(harness/h_shape.cpp) and on the model (driver `shp`); after every operation all public fields,
all storage dimensions, the geometry of every per-component accessor and every entry are compared
(entries the model leaves unspecified are skipped).
Oracle stage: every clause of the property is evaluated directly on the implementation's output,
independently of the model (functions `p_*` below).

Only what the property speaks about can raise an alarm: declared fields, storage dimensions,
accessor geometry, data preservation on a component-count resize, augmentation and concatenation
results, uniform initial weights, crashes on legal sequences.  A disagreement between model and
implementation that is confined to entry values outside those clauses is recorded in the evidence
(`content_disagreements_outside_property`) and does not fail the check.
"""
import itertools
import multiprocessing
import struct

import vlib
from vlib import hexd

GM, GA, PS = 0, 1, 2
WIDE = 1 << 31
KIND = {GM: "GaussianMixture", GA: "Gaussian", PS: "ParticleSet"}


# --------------------------------------------------------------------------- values

def val_tok(d):
    """canonical entry token of the harness for the double d"""
    b = struct.unpack("<Q", struct.pack("<d", float(d)))[0]
    if b == 0:
        return "0"
    if abs(d) < 2147483648.0 and d == int(d) and d != 0.0:
        return str(int(d))
    return "%016x" % b


def tok_float(t):
    if len(t) == 16:
        return vlib.unhex(t)
    return float(int(t))


def stampval(stamp, storage, comp, idx):
    return 1 + idx + 1024 * (comp + 32 * (storage + 4 * stamp))


# --------------------------------------------------------------------------- operations

def render(op):
    """op tuple -> tokens.  Doubles inside ops are python floats."""
    t = op[0]
    if t == "AU":
        _, s, qr, qc, q = op
        return ["AU", str(s), str(qr), str(qc)] + [hexd(q[i][j]) for j in range(qc) for i in range(qr)]
    if t in ("WM", "WS"):
        _, s, mode, i, j, v = op
        return [t, str(s), str(mode), str(i), str(j), hexd(v)]
    if t == "WC":
        _, s, mode, i, j, k, v = op
        return [t, str(s), str(mode), str(i), str(j), str(k), hexd(v)]
    if t == "WW":
        _, s, mode, i, v = op
        return [t, str(s), str(mode), str(i), hexd(v)]
    return [str(x) for x in op]


def case_line(ops):
    return "shp " + " ; ".join(" ".join(render(o)) for o in ops)


def parse_line(line):
    """inverse of case_line (for corpus / replay lines)"""
    ops = []
    for chunk in " ".join(line.split()[1:]).split(" ; "):
        t = chunk.split()
        k = t[0]
        if k == "AU":
            s, qr, qc = int(t[1]), int(t[2]), int(t[3])
            vals = [vlib.unhex(x) for x in t[4:]]
            q = [[vals[j * qr + i] for j in range(qc)] for i in range(qr)]
            ops.append(("AU", s, qr, qc, q))
        elif k in ("WM", "WS"):
            ops.append((k, int(t[1]), int(t[2]), int(t[3]), int(t[4]), vlib.unhex(t[5])))
        elif k == "WC":
            ops.append((k, int(t[1]), int(t[2]), int(t[3]), int(t[4]), int(t[5]), vlib.unhex(t[6])))
        elif k == "WW":
            ops.append((k, int(t[1]), int(t[2]), int(t[3]), vlib.unhex(t[4])))
        else:
            ops.append(tuple([k] + [int(x) for x in t[1:]]))
    return ops


def op_dst(op):
    return op[1]


# --------------------------------------------------------------------------- dumps

class Dump:
    __slots__ = ("slot", "kind", "k", "q", "dcc", "dim", "l", "c", "n", "dcov", "mr", "mc", "cr", "cc", "wr",
                 "sr", "sc", "acc", "mean", "cov", "weight", "state")

    def fields(self):
        return (self.kind, self.k, self.q, self.dcc, self.dim, self.l, self.c, self.n, self.dcov)

    def dims(self):
        return (self.mr, self.mc, self.cr, self.cc, self.wr, self.sr, self.sc)

    def M(self, r, c):
        return self.mean[c * self.mr + r]

    def C(self, r, c):
        return self.cov[c * self.cr + r]

    def S(self, r, c):
        return self.state[c * self.sr + r]

    def brief(self):
        return ("%s components=%d quat=%d dcc=%d dim=%d linear=%d circular=%d noise=%d dim_cov=%d | mean %dx%d cov %dx%d "
                "weight %d state %dx%d" % ((KIND.get(self.kind, "?"),) + self.fields()[1:] + self.dims()))


def parse_dump(t, p):
    """parse one object dump starting at token index p ('O'); returns (Dump, next index)"""
    if t[p] != "O":
        raise ValueError("dump expected at %d: %s" % (p, t[p:p + 5]))
    d = Dump()
    (d.slot, d.kind, d.k, d.q, d.dcc, d.dim, d.l, d.c, d.n, d.dcov) = [int(x) for x in t[p + 1:p + 11]]
    p += 11
    assert t[p] == "M"; d.mr, d.mc = int(t[p + 1]), int(t[p + 2]); p += 3
    assert t[p] == "C"; d.cr, d.cc = int(t[p + 1]), int(t[p + 2]); p += 3
    assert t[p] == "W"; d.wr = int(t[p + 1]); p += 2
    assert t[p] == "S"; d.sr, d.sc = int(t[p + 1]), int(t[p + 2]); p += 3
    assert t[p] == "A"; p += 1
    e = t.index("E", p)
    d.acc = t[p:e]
    p = e + 1
    n = d.mr * d.mc
    d.mean = t[p:p + n]; p += n
    assert t[p] == "/"; p += 1
    n = d.cr * d.cc
    d.cov = t[p:p + n]; p += n
    assert t[p] == "/"; p += 1
    d.weight = t[p:p + d.wr]; p += d.wr
    assert t[p] == "/"; p += 1
    n = d.sr * d.sc
    d.state = t[p:p + n]; p += n
    return d, p


def parse_output(out):
    """-> (steps, finals): steps = list of None (skip) | (ret, Dump); finals = {slot: Dump}"""
    t = out.split()
    if not t or t[0] != "ok":
        raise ValueError("not an ok line")
    p = 1
    steps = []
    while t[p] != "END":
        if t[p] == "skip":
            steps.append(None); p += 1
        else:
            ret = t[p]
            d, p = parse_dump(t, p + 1)
            steps.append((ret, d))
        assert t[p] == ";"; p += 1
    p += 1
    finals = {}
    while p < len(t):
        d, p = parse_dump(t, p)
        finals[d.slot] = d
    return steps, finals


# --------------------------------------------------------------------------- property predicates (implementation only)

def expected_acc(d):
    """accessor geometry the property demands, from the object's own fields and storage dimensions:
    mean(i)/state(i) = column i, covariance(i) = columns dim_cov*i .. dim_cov*(i+1), weight(i) = entry i;
    element accessors (i, j[, k]) = row j of that block('s column k)."""
    def pos(rows, col, row):
        return ["z", "z"] if rows == 0 else [str(col), str(row)]

    def geom(rows, col, r, c):
        return (["z", "z"] if r * c == 0 else pos(rows, col, 0)) + [str(r), str(c)]
    out = ["H"] + geom(d.mr, 0, d.mr, d.mc) + geom(d.cr, 0, d.cr, d.cc) + geom(d.wr, 0, d.wr, 1)
    if d.kind == PS:
        out += geom(d.sr, 0, d.sr, d.sc)
    dc = d.dcov
    for i in range(min(d.k, 32)):
        out += geom(d.mr, i, d.mr, 1) * 2 if i < d.mc else ["oob"]
        out += pos(d.mr, i, d.mr - 1) * 2 if (i < d.mc and d.mr > 0) else ["-"]
        inr = dc * i + dc <= d.cc
        out += geom(d.cr, dc * i, d.cr, dc) * 2 if inr else ["oob"]
        out += (pos(d.cr, dc * i + dc - 1, 0) + pos(d.cr, dc * i, d.cr - 1)) * 2 if (d.cr > 0 and dc > 0 and inr) else ["-"]
        out += [str(i)] * 2 if i < d.wr else ["oob"]
        if d.kind == PS:
            out += geom(d.sr, i, d.sr, 1) * 2 if i < d.sc else ["oob"]
            out += pos(d.sr, i, d.sr - 1) * 2 if (i < d.sc and d.sr > 0) else ["-"]
    if d.kind == GA:
        out += ["G"]
        out += geom(d.mr, 0, d.mr, 1) * 2 if d.mc >= 1 else ["oob"]
        out += pos(d.mr, 0, d.mr - 1) * 2 if (d.mc >= 1 and d.mr > 0) else ["-"]
        out += geom(d.cr, 0, d.cr, d.cc) * 2
        out += (pos(d.cr, d.cc - 1, 0) + pos(d.cr, 0, d.cr - 1)) * 2 if (d.cr > 0 and d.cc > 0) else ["-"]
        out += ["0", "0"] if d.wr >= 1 else ["oob"]
    return out


def p_wf(d):
    """the agreement the property states; returns list of (key, text)"""
    bad = []
    per = 4 if d.q else 1
    if d.dcc != per:
        bad.append(("wf:dim_circular_component", "dim_circular_component=%d, expected %d" % (d.dcc, per)))
    if d.dim != d.l + d.c * per + d.n:
        bad.append(("wf:dim", "dim=%d but linear + circular*%d + noise = %d" % (d.dim, per, d.l + d.c * per + d.n)))
    ecov = d.l + d.c * (3 if d.q else 1) + d.n
    if d.dcov != ecov:
        bad.append(("wf:dim_covariance", "dim_covariance=%d but linear + circular*%d + noise = %d" % (d.dcov, 3 if d.q else 1, ecov)))
    if (d.mr, d.mc) != (d.dim, d.k):
        bad.append(("wf:mean-storage", "mean storage %dx%d, declared dim x components = %dx%d" % (d.mr, d.mc, d.dim, d.k)))
    if (d.cr, d.cc) != (d.dcov, d.dcov * d.k):
        bad.append(("wf:covariance-storage", "covariance storage %dx%d, declared %dx%d" % (d.cr, d.cc, d.dcov, d.dcov * d.k)))
    if d.wr != d.k:
        bad.append(("wf:weight-storage", "weight length %d, components %d" % (d.wr, d.k)))
    if d.kind == PS and (d.sr, d.sc) != (d.dim - d.n, d.k):
        bad.append(("wf:state-storage", "state storage %dx%d, declared (dim - noise) x components = %dx%d" % (d.sr, d.sc, d.dim - d.n, d.k)))
    if d.kind == GA and d.k != 1:
        bad.append(("wf:gaussian-components", "Gaussian with %d components" % d.k))
    if d.k < 0:
        bad.append(("wf:components", "components=%d" % d.k))
    if d.acc != expected_acc(d):
        bad.append(("accessor-block", "a per-component accessor does not address its component's block: got %s expected %s" % (
            " ".join(d.acc)[:160], " ".join(expected_acc(d))[:160])))
    return bad


def same_obj(a, b, ignore_kind=False):
    return ((a.fields()[1:] == b.fields()[1:]) and (ignore_kind or a.kind == b.kind) and a.dims()[:5] == b.dims()[:5]
            and a.mean == b.mean and a.cov == b.cov and a.weight == b.weight
            and (ignore_kind or (a.dims()[5:] == b.dims()[5:] and a.state == b.state)))


def cols_equal(a, b, what, ia, ib):
    """component ia of a against component ib of b (mean column, covariance block, weight, state column);
    assumes both objects' storage is consistent with their fields (checked by p_wf)"""
    bad = []
    if a.mr != b.mr or any(a.M(r, ia) != b.M(r, ib) for r in range(a.mr)):
        bad.append("mean")
    if a.cr != b.cr or a.dcov != b.dcov or any(a.C(r, a.dcov * ia + c) != b.C(r, b.dcov * ib + c) for r in range(a.cr) for c in range(a.dcov)):
        bad.append("covariance")
    if a.weight[ia] != b.weight[ib]:
        bad.append("weight")
    if a.kind == PS and b.kind == PS and (a.sr != b.sr or any(a.S(r, ia) != b.S(r, ib) for r in range(a.sr))):
        bad.append("state")
    return ["%s: %s of component %d differs from component %d of the operand" % (what, x, ia, ib) for x in bad]


def wf_ok(d):
    return not [b for b in p_wf(d) if b[0].startswith("wf:")]


def p_op(op, ret, d, prev):
    """clauses about one performed operation: d = object after, prev = {slot: Dump before the operation}.
    Returns list of (key, text)."""
    bad = []
    t = op[0]
    if not wf_ok(d):
        return bad          # reported by p_wf; block arithmetic below needs consistent storage
    if t in ("D", "C2", "C4"):
        kind = op[2]
        k, l, c, q = (1, 1, 0, 0) if t == "D" else (op[3], op[4], 0, 0) if t == "C2" else (op[3], op[4], op[5], op[6])
        if kind == GA:
            k = 1
        if (d.kind, d.k, d.l, d.c, d.q, d.n) != (kind, k, l, c, q, 0):
            bad.append(("ctor-layout", "constructed %s, requested components=%d linear=%d circular=%d quat=%d" % (d.brief(), k, l, c, q)))
        w = val_tok(1.0 / k) if k else "-"
        if any(x != w for x in d.weight):
            bad.append(("ctor-weights", "new mixture does not start with uniform weights 1/%d: %s" % (k, " ".join(d.weight)[:120])))
        return bad
    if t == "CP":
        src = prev.get(op[2])
        if src is not None and not same_obj(d, src):
            bad.append(("copy", "copy differs from its source: %s vs %s" % (d.brief(), src.brief())))
        return bad
    if t == "MV":
        src = prev.get(op[2])
        if src is not None and not same_obj(d, src):
            bad.append(("move", "moved-to object differs from the moved-from original: %s vs %s" % (d.brief(), src.brief())))
        return bad
    if t == "BA":
        old, src = prev.get(op[1]), prev.get(op[2])
        if old is None or src is None:
            return bad
        if not (d.kind == old.kind and d.fields()[1:] == src.fields()[1:] and d.dims()[:5] == src.dims()[:5]
                and (d.mean, d.cov, d.weight) == (src.mean, src.cov, src.weight)
                and d.dims()[5:] == old.dims()[5:] and d.state == old.state):
            bad.append(("base-assign", "assignment through base references: mixture part is not the source's or class / particle state changed: %s" % d.brief()))
        return bad
    if t == "SL":
        src = prev.get(op[2])
        if src is not None and not (d.kind == GM and same_obj(d, src, ignore_kind=True)):
            bad.append(("copy", "base-class copy differs from its source"))
        return bad
    old = prev.get(op[1])
    if t in ("RS", "R2", "GR", "G1"):
        k, l, c = (1, op[2], op[3]) if t == "GR" else (1, op[2], 0) if t == "G1" else (op[2], op[3], 0) if t == "R2" else (op[2], op[3], op[4])
        if old is None:
            return bad
        if (d.kind, d.k, d.l, d.c, d.q, d.n) != (old.kind, k, l, c, old.q, old.n):
            bad.append(("resize-layout", "after resize(%d,%d,%d): %s (noise before %d)" % (k, l, c, d.brief(), old.n)))
        elif wf_ok(old) and (old.l, old.c) == (l, c):
            for i in range(min(old.k, k)):
                for m in cols_equal(d, old, "resize changing only the component count %d -> %d" % (old.k, k), i, i):
                    bad.append(("resize-preserve", m))
        return bad
    if t == "AA":
        if old is None or not wf_ok(old):
            return bad
        i0 = op[2]
        Q = [[old.C(r, old.dcov * i0 + c) for c in range(old.dcov)] for r in range(old.dcov)]    # tokens
        op = ("AU", op[1], old.dcov, old.dcov, Q)
        t = "AU"
    if t == "AU":
        qr, qc, Q = op[2], op[3], op[4]
        if old is None or not wf_ok(old):
            return bad
        if qr != qc:
            if ret != "f" or not same_obj(d, old):
                bad.append(("augment-nonsquare", "non-square noise covariance must be refused without change (returned %s)" % ret))
            return bad
        a = qr
        if ret != "t":
            bad.append(("augment-return", "augmentWithNoise returned false for a square matrix"))
        if (d.kind, d.k, d.l, d.c, d.q, d.n, d.dim, d.dcov) != (old.kind, old.k, old.l, old.c, old.q, old.n + a, old.dim + a, old.dcov + a):
            bad.append(("augment-layout", "after augmenting %d noise rows: %s; before: %s" % (a, d.brief(), old.brief())))
            return bad
        if d.weight != old.weight or d.state != old.state:
            bad.append(("augment-other-storage", "augmentWithNoise changed weights or particle states"))
        D0, N0 = old.dcov, old.dim
        for i in range(d.k):
            okm = all(d.M(r, i) == old.M(r, i) for r in range(N0)) and all(tok_float(d.M(N0 + r, i)) == 0.0 for r in range(a))
            if not okm:
                bad.append(("augment-mean", "component %d: mean is not [m; 0]" % i))
            b0 = d.dcov * i
            okP = all(d.C(r, b0 + c) == old.C(r, D0 * i + c) for r in range(D0) for c in range(D0))
            okQ = all(d.C(D0 + r, b0 + D0 + c) == (Q[r][c] if isinstance(Q[r][c], str) else val_tok(Q[r][c])) for r in range(a) for c in range(a))
            okZ = all(tok_float(d.C(r, b0 + D0 + c)) == 0.0 and tok_float(d.C(D0 + c, b0 + r)) == 0.0 for r in range(D0) for c in range(a))
            if not (okP and okQ and okZ):
                bad.append(("augment-cov", "component %d: covariance is not blockdiag(P, Q) (P block %s, Q block %s, zero blocks %s)" % (
                    i, "ok" if okP else "wrong", "ok" if okQ else "wrong", "ok" if okZ else "wrong")))
        return bad
    if t in ("PE", "PL", "PA"):
        a_, b_ = (prev.get(op[1]), prev.get(op[2])) if t == "PE" else (prev.get(op[2]), prev.get(op[3]))
        if a_ is None or b_ is None or not (wf_ok(a_) and wf_ok(b_)):
            return bad
        if (d.kind, d.k, d.l, d.c, d.q, d.n, d.dim, d.dcov) != (PS, a_.k + b_.k, a_.l, a_.c, a_.q, a_.n, a_.dim, a_.dcov):
            bad.append(("concat-layout", "concatenation of %d and %d components: %s" % (a_.k, b_.k, d.brief())))
            return bad
        for i in range(a_.k):
            bad += [("concat-order", m) for m in cols_equal(d, a_, "concatenation (left operand)", i, i)]
        for i in range(b_.k):
            bad += [("concat-order", m) for m in cols_equal(d, b_, "concatenation (right operand)", a_.k + i, i)]
        return bad
    if old is None:
        return bad
    # element writes and fills: layout unchanged, the addressed cells hold the value, nothing else moves
    if d.fields() != old.fields() or d.dims() != old.dims():
        bad.append(("write-layout", "an element write changed the layout: %s -> %s" % (old.brief(), d.brief())))
        return bad
    exp = {"mean": list(old.mean), "cov": list(old.cov), "weight": list(old.weight), "state": list(old.state)}
    if t in ("WM", "WC", "WW", "WS") and any(x >= WIDE for x in op[3:-1]):
        return bad          # reported as accessor-index-range
    if t == "WM":
        exp["mean"][op[3] * d.mr + op[4]] = val_tok(op[5])
    elif t == "WC":
        exp["cov"][(d.dcov * op[3] + op[5]) * d.cr + op[4]] = val_tok(op[6])
    elif t == "WW":
        exp["weight"][op[3]] = val_tok(op[4])
    elif t == "WS":
        exp["state"][op[3] * d.sr + op[4]] = val_tok(op[5])
    elif t == "FI":
        st = op[2]
        for i in range(d.k):
            for r in range(d.mr):
                exp["mean"][i * d.mr + r] = str(stampval(st, 0, i, r))
            for c in range(d.dcov):
                for r in range(d.cr):
                    exp["cov"][(d.dcov * i + c) * d.cr + r] = str(stampval(st, 1, i, c * d.cr + r))
            exp["weight"][i] = str(stampval(st, 2, i, 0))
            if d.kind == PS:
                for r in range(d.sr):
                    exp["state"][i * d.sr + r] = str(stampval(st, 3, i, r))
    if (d.mean, d.cov, d.weight, d.state) != (exp["mean"], exp["cov"], exp["weight"], exp["state"]):
        bad.append(("accessor-write", "a write through the accessors of component(s) did not land exactly in that component's block (%s)" % t))
    return bad


# --------------------------------------------------------------------------- discipline of base-reference operations

def disciplined_ba(dst, src):
    """`static_cast<GaussianMixture&>(dst) = src` fits dst's class-specific part (BFL.Shape.Disciplined)"""
    if dst.kind == PS and (dst.sr, dst.sc) != (src.dim - src.n, src.k):
        return False
    if dst.kind == GA and src.k != 1:
        return False
    return True


KIND_CLAUSES = ("wf:state-storage", "wf:gaussian-components")


# --------------------------------------------------------------------------- branches of the anchored code hit by a case

def branches(op, old, prev):
    """which branch of the anchored C++ function the operation takes, computed from the object before it"""
    t = op[0]
    if t in ("D", "C2", "C4"):
        return ["ctor:%s:%s" % (t, KIND[op[2]]) + (":quaternion" if t == "C4" and op[6] else "")]
    if t in ("CP", "SL"):
        return ["copy:%s" % ("construct" if t == "CP" and op[3] == 0 else ("self-assign" if op[1] == op[2] else "assign") if t == "CP" else "slice")]
    if t == "MV":
        src, dst = prev.get(op[2]), prev.get(op[1])
        return ["move:%s%s%s" % ("construct" if op[3] == 0 else "assign", ":noise%d" % src.n if src is not None and src.n else "",
                                 ":over-other-noise" if op[3] == 1 and src is not None and dst is not None and dst.kind == src.kind and dst.n != src.n else "")]
    if t == "BA":
        a_, b_ = prev.get(op[1]), prev.get(op[2])
        if a_ is None or b_ is None:
            return []
        return ["base-assign:%s<-%s%s" % (KIND[a_.kind], KIND[b_.kind], "" if disciplined_ba(a_, b_) else ":undisciplined")]
    if t == "AA":
        return ["augment:own-block"] if old is not None else []
    if old is None:
        return []
    per = 4 if old.q else 1
    if t in ("RS", "R2", "GR", "G1"):
        k, l, c = (1, op[2], op[3]) if t == "GR" else (1, op[2], 0) if t == "G1" else (op[2], op[3], 0) if t == "R2" else (op[2], op[3], op[4])
        nd = l + c * per + old.n
        ndc = l + c * (3 if old.q else 1) + old.n
        out = []
        if (old.l, old.c, old.k) == (l, c, k):
            out.append("gm-resize:early-return")
        elif old.dim == nd and old.dcov == ndc and old.k != k:
            out.append("gm-resize:conservative" + (":grow" if k > old.k else ":shrink") + (":layout-changed" if (old.l, old.c) != (l, c) else ""))
        else:
            out.append("gm-resize:full" + (":same-dim-other-dimcov" if old.dim == nd and old.dcov != ndc else "") + (":same-components" if old.k == k else ""))
        if old.kind == PS:
            if (old.l, old.c, old.k) == (l, c, k):
                out.append("ps-resize:early-return")
            elif old.dim - old.n == l + c * per and old.k != k:
                out.append("ps-resize:conservative" + (":with-noise" if old.n else ""))
            else:
                out.append("ps-resize:full" + (":with-noise" if old.n else ""))
        if old.kind == GA and t in ("RS", "R2"):
            out.append("gaussian-resized-through-base:%s" % ("one-component" if k == 1 else "undisciplined"))
        if t in ("GR", "G1"):
            out.append("gaussian-resize" + (":default-argument" if t == "G1" else ""))
        return out
    if t == "AU":
        if op[2] != op[3]:
            return ["augment:non-square"]
        if old.k == 0:
            return ["augment:square:zero-components(assert)"]
        return ["augment:square:%s:%s%s" % ("one-component" if old.k == 1 else "relocation", "first" if old.n == 0 else "repeated",
                                           ":zero-rows" if op[2] == 0 else "") + (":dim_old=0" if old.dcov == 0 else "")]
    if t in ("PE", "PL", "PA"):
        a_, b_ = (prev.get(op[1]), prev.get(op[2])) if t == "PE" else (prev.get(op[2]), prev.get(op[3]))
        if a_ is None or b_ is None:
            return []
        okc = (a_.sr == b_.sr and a_.mr == b_.mr and a_.cr == b_.cr and b_.cc == a_.dcov * b_.k)
        extra = (":empty-operand" if 0 in (a_.k, b_.k) else "") + (":noise%d" % a_.n if a_.n else "")
        if t == "PA" and old is not None:
            extra += ":into-existing" + (":other-noise" if old.n != a_.n else "")
        return ["concat:%s%s%s:%s" % ({"PE": "+=", "PL": "+", "PA": "=+"}[t], ":self" if a_ is b_ else "", extra, "accepted" + (":layouts-differ" if (a_.l, a_.c, a_.n) != (b_.l, b_.c, b_.n) else "") if okc else "rejected(assert)")]
    if t in ("WM", "WC", "WW", "WS"):
        return ["write:%s:mode%d%s" % (t, op[2], ":zero-components" if old.k == 0 else "")]
    return ["fill"]


# --------------------------------------------------------------------------- one case: oracles + correspondence

def cmp_entries(model, impl):
    """number of specified model cells that differ from the implementation"""
    if len(model) != len(impl):
        return 1
    return sum(1 for m, h in zip(model, impl) if m != "_" and m != h)


def evaluate(ops, line, h, d):
    """-> dict(viol=[(key, what)], corr=[(key, what)], content=int, note=str|None, branches=[...])"""
    r = {"viol": [], "corr": [], "content": 0, "note": None, "branches": [], "specified": 0, "unspecified": 0}
    if h == "not-run":
        r["note"] = "not-run-after-timeouts"
        return r
    if h.startswith("crash:"):
        if d == "crash:assert":
            r["note"] = "assert-agreed" if h == "crash:assert" else "model-assert-impl-" + h
            r["branches"].append("sequence-ends-in-assertion")
        else:
            r["viol"].append(("crash-on-legal-sequence", "the implementation aborts (%s) on a legal operation sequence" % h))
        return r
    if not h.startswith("ok"):
        if d.startswith("ok"):
            r["viol"].append(("implementation-throws", "the implementation does not complete a legal operation sequence: harness answered %s" % h[:60]))
        else:
            r["corr"].append(("harness-output", "harness answered %s, driver %s" % (h[:60], d[:60])))
        return r
    steps, finals = parse_output(h)
    prev = {}
    taint = set()       # slots whose object went through an undisciplined base-reference operation (caller error)
    for op, st in zip(ops, steps):
        if st is None:
            r["branches"].append("skip")
            continue
        ret, dump = st
        r["branches"] += branches(op, prev.get(op[1]), prev)
        t = op[0]
        srcs = {"CP": [op[2]], "SL": [op[2]], "MV": [op[2]], "PE": [op[1], op[2]], "PL": [op[2], op[3]] if t == "PL" else [],
                "PA": [op[2], op[3]] if t == "PA" else []}.get(t, [op[1]])
        if t in ("D", "C2", "C4"):
            srcs = []
        tainted = any(x in taint for x in srcs)
        if t == "BA":
            a_, b_ = prev.get(op[1]), prev.get(op[2])
            tainted = a_ is not None and b_ is not None and not disciplined_ba(a_, b_)
        if t in ("RS", "R2") and prev.get(op[1]) is not None and prev[op[1]].kind == GA:
            tainted = dump.k != 1
        if t == "SL":
            tainted = False
        (taint.add if tainted else taint.discard)(dump.slot)
        if tainted:
            r["viol"] += [b for b in p_wf(dump) if b[0] not in KIND_CLAUSES]
            r["branches"].append("object-outside-discipline")
        else:
            r["viol"] += p_wf(dump)
            if not any(x in taint for x in srcs):
                r["viol"] += p_op(op, ret, dump, prev)
        prev = dict(prev)
        prev[dump.slot] = dump
        if t == "MV":
            prev.pop(op[2], None)
            taint.discard(op[2])
    if set(finals) != set(prev):
        r["corr"].append(("pool", "live slots differ"))
    for s, dump in finals.items():
        if s in prev and not same_obj(dump, prev[s]):
            r["viol"].append(("frame", "an operation modified an object other than its destination (slot %d)" % s))
    # correspondence with the model
    if d == "crash:assert":
        wide = [o for o in ops if o[0] in ("WM", "WC", "WW", "WS") and any(isinstance(x, int) and x >= WIDE for x in o[3:-1])]
        if wide:
            r["viol"].append(("accessor-index-range", "an element accessor accepted an index far outside the storage (%s) instead of stopping in the range "
                              "assertion: the index is narrowed or wrapped on its way to the storage, so it addresses another component's block" % " ".join(render(wide[0])[:-1])))
            return r
        r["note"] = "model-assert-impl-continues"
        return r
    if not d.startswith("ok"):
        r["corr"].append(("driver-output", "driver answered %s" % d[:60]))
        return r
    if d == h:
        r["specified"] = sum(len(st[1].mean) + len(st[1].cov) + len(st[1].weight) + len(st[1].state) for st in steps if st)
        return r
    msteps, mfinals = parse_output(d)
    if len(msteps) != len(steps):
        r["corr"].append(("steps", "number of steps differs"))
        return r
    for i, (ms, hs) in enumerate(zip(msteps, steps)):
        if (ms is None) != (hs is None):
            r["corr"].append(("applicability", "step %d (%s): model %s, implementation %s" % (i, ops[i][0], "skip" if ms is None else "runs", "skip" if hs is None else "runs")))
            return r
        if ms is None:
            continue
        (mret, md), (hret, hd) = ms, hs
        if mret != hret:
            r["corr"].append(("return-value", "step %d (%s): model returns %s, implementation %s" % (i, ops[i][0], mret, hret)))
        if md.fields() != hd.fields() or md.dims() != hd.dims():
            r["corr"].append(("shape", "step %d (%s): model %s; implementation %s" % (i, ops[i][0], md.brief(), hd.brief())))
            return r
        if md.acc != hd.acc:
            r["corr"].append(("accessor-geometry", "step %d (%s)" % (i, ops[i][0])))
        for a, b in ((md.mean, hd.mean), (md.cov, hd.cov), (md.weight, hd.weight), (md.state, hd.state)):
            r["content"] += cmp_entries(a, b)
            r["unspecified"] += sum(1 for x in a if x == "_")
            r["specified"] += sum(1 for x in a if x != "_")
    for s, md in mfinals.items():
        hd = finals.get(s)
        if hd is None or md.fields() != hd.fields() or md.dims() != hd.dims():
            r["corr"].append(("shape", "final object in slot %d" % s))
        else:
            for a, b in ((md.mean, hd.mean), (md.cov, hd.cov), (md.weight, hd.weight), (md.state, hd.state)):
                r["content"] += cmp_entries(a, b)
    return r


_BIN = None
_PLAIN = None


def run_lines(binary, lines, timeout=15, budget=None):
    """Run the harness on `lines`; never raises on a misbehaving implementation: a crash (sanitizer, assertion, signal)
    marks the crashing case `crash:<kind>` and resumes after it; when a batch hangs its cases are run one by one
    (5 s each) until three of them have timed out (`crash:timeout`), the rest of the batch is then `not-run`;
    short or garbled output marks the case `crash:garbled`."""
    import os
    import subprocess
    if not lines:
        return []
    if budget is None:
        budget = {"timeouts": 0}
    if budget["timeouts"] >= 3:
        return ["not-run"] * len(lines)
    env = dict(os.environ)
    env.setdefault("ASAN_OPTIONS", "detect_leaks=1:abort_on_error=0:halt_on_error=1")
    env.setdefault("UBSAN_OPTIONS", "print_stacktrace=1")
    try:
        rc, o, e = vlib.sh([str(binary)], inp="\n".join(lines) + "\n", timeout=timeout if len(lines) > 1 else 5, env=env)
    except subprocess.TimeoutExpired:
        if len(lines) == 1:
            budget["timeouts"] += 1
            return ["crash:timeout"]
        return sum((run_lines(binary, [l], timeout, budget) for l in lines), [])
    got = o.split("\n")
    if got and got[-1] == "":
        got.pop()
    if rc == 0 and len(got) == len(lines):
        return got
    if rc == 0:
        return ["crash:garbled"] if len(lines) == 1 else sum((run_lines(binary, [l], timeout, budget) for l in lines), [])
    if len(got) == len(lines) and "LeakSanitizer" in e:
        return got[:-1] + ["crash:lsan"]
    ncomplete = min(len(got), len(lines) - 1)
    # the last line before a crash may be partial: complete lines end with the END section
    while ncomplete > 0 and " END" not in got[ncomplete - 1] and not got[ncomplete - 1].startswith(("bad-", "throw:")):
        ncomplete -= 1
    return got[:ncomplete] + [vlib.classify_crash(e, rc)] + run_lines(binary, lines[ncomplete + 1:], timeout, budget)


def build_plain():
    """the three container classes + the harness compiled the way a release build would be (-O2 -DNDEBUG, no sanitizer,
    Eigen assertions off, the repository's EIGEN_INITIALIZE_MATRICES_BY_ZERO): optimisation- and allocator-dependent
    behaviour that the sanitizer build masks (address reuse after free, uninitialised reads) shows up here"""
    import os
    srcd = vlib.REPO / "src/BayesFilters"
    srcs = [vlib.VERIF / "harness/h_shape.cpp"] + [srcd / "src" / f for f in ("GaussianMixture.cpp", "Gaussian.cpp", "ParticleSet.cpp")]
    deps = srcs + [vlib.VERIF / "harness/common.hpp"] + [srcd / "include/BayesFilters" / f for f in ("GaussianMixture.h", "Gaussian.h", "ParticleSet.h")]
    outdir = vlib.BUILD / "plain"
    outdir.mkdir(parents=True, exist_ok=True)
    binary = outdir / "h_shape_plain"
    with vlib.locked("h-plain-h_shape"):
        stale = not binary.exists() or any(os.stat(str(d)).st_mtime > binary.stat().st_mtime for d in deps)
        if stale:
            cmd = ["g++", "-std=c++11", "-O2", "-DNDEBUG", "-DEIGEN_INITIALIZE_MATRICES_BY_ZERO", "-I", str(srcd / "include"), "-I", vlib.EIGEN_INC,
                   "-I", str(vlib.VERIF / "harness")] + [str(x) for x in srcs] + ["-lpthread", "-o", str(binary)]
            rc, o, e = vlib.sh(cmd)
            if rc != 0:
                raise vlib.BuildError("plain harness failed to compile:\n" + e[-4000:])
    return binary


def _work(job):
    """job: (also run the plain build?, list of op lists) -> aggregated result (picklable, small)"""
    plain, chunk = job
    lines = [case_line(o) for o in chunk]
    hout = run_lines(_BIN, lines)
    dout = vlib.run_driver(lines)
    agg = {"n": len(chunk), "viol": [], "corr": [], "content": 0, "content_example": None, "notes": {}, "branches": {},
           "specified": 0, "unspecified": 0, "crashes": 0}
    for ops, line, h, d in zip(chunk, lines, hout, dout):
        try:
            r = evaluate(ops, line, h, d)
        except Exception as e:      # output of unexpected shape: a violation with this input, never a crash of the check
            r = {"viol": [("malformed-output", "the implementation's output has an unexpected shape (%s)" % repr(e)[:200])], "corr": [], "content": 0, "note": None, "branches": [], "specified": 0, "unspecified": 0}
        for key, what in r["viol"]:
            agg["viol"].append((key, what, line, h[:1500]))
        for key, what in r["corr"]:
            agg["corr"].append((key, what, line, h[:1500]))
        if r["content"]:
            agg["content"] += 1
            if agg["content_example"] is None:
                agg["content_example"] = line
        if r["note"]:
            agg["notes"][r["note"]] = agg["notes"].get(r["note"], 0) + 1
        for b in r["branches"]:
            agg["branches"][b] = agg["branches"].get(b, 0) + 1
        agg["specified"] += r["specified"]
        agg["unspecified"] += r["unspecified"]
        if h.startswith("crash:"):
            agg["crashes"] += 1
    if plain and _PLAIN is not None:
        # legal sequences only (where the model predicts an assertion the release build has undefined behaviour)
        sel = [i for i, d in enumerate(dout) if d.startswith("ok")]
        pout = run_lines(_PLAIN, [lines[i] for i in sel])
        agg["plain"] = len(sel)
        for i, hp in zip(sel, pout):
            try:
                r = evaluate(chunk[i], lines[i], hp, dout[i])
            except Exception as e:
                r = {"viol": [("malformed-output", repr(e)[:200])], "corr": [], "content": 0}
            for key, what in r["viol"]:
                agg["viol"].append(("plain-build:" + key, "[non-sanitizer -O2 -DNDEBUG build] " + what, lines[i], hp[:1500]))
            for key, what in r["corr"]:
                agg["corr"].append(("plain-build:" + key, "[non-sanitizer -O2 -DNDEBUG build] " + what, lines[i], hp[:1500]))
            if r["content"]:
                agg["content"] += 1
                agg["content_example"] = agg["content_example"] or lines[i]
    return agg


# --------------------------------------------------------------------------- generators

GRID_FULL = {"k": (0, 1, 2, 3, 4), "l": (0, 1, 2, 3, 4), "c": (0, 1, 2)}
GRID_SMALL = {"k": (0, 1, 2, 3), "l": (0, 1, 2), "c": (0, 1)}
GRID_TINY_3 = {"k": (1, 2), "l": (2,), "c": (0, 1)}
GRID_TINY = {"k": (0, 1, 2), "l": (0, 2), "c": (0, 1)}
GRID_TINY_Q = {"k": (1, 2), "l": (0, 2), "c": (0, 1)}
GRID_TINY_Z = {"k": (0, 2), "l": (2,), "c": (0, 1)}


def quick_select(lay0, n0):
    """quick tier, depth 1: initial noise 0 and 2 with the whole alphabet, 1 and 3 without the grid of resize targets; layouts with 0
    components with initial noise 0..1 (the thorough tier runs everything)"""
    if lay0.k == 0:
        return "full" if n0 <= 1 else None
    return "full" if n0 in (0, 2) else "noresize"



def qmat(a_r, a_c, tag=0):
    """noise covariance with distinct, non-integral, non-symmetric entries"""
    return [[9000.25 + 100 * tag + 10 * r + c for c in range(a_c)] for r in range(a_r)]


class Lay:
    """layout bookkeeping used only to *generate* applicable operations"""
    __slots__ = ("kind", "k", "l", "c", "q", "n")

    def __init__(self, kind, k, l, c, q, n=0):
        self.kind, self.k, self.l, self.c, self.q, self.n = kind, (1 if kind == GA else k), l, c, q, n

    def copy(self):
        return Lay(self.kind, self.k, self.l, self.c, self.q, self.n)

    @property
    def dim(self):
        return self.l + self.c * (4 if self.q else 1) + self.n

    @property
    def dcov(self):
        return self.l + self.c * (3 if self.q else 1) + self.n

    def ctor(self, slot):
        return ("C4", slot, self.kind, self.k, self.l, self.c, self.q)

    def compatible(self, o):
        return self.dim - self.n == o.dim - o.n and self.dim == o.dim and self.dcov == o.dcov


def build_like(lay, slot, k, stamp, kind=PS, tag=7):
    """ops constructing in `slot` a particle set (or `kind`) of lay's layout (incl. its noise) with k components, filled.
    With 0 components and noise the object is built with one component, augmented and then resized to 0
    (augmentWithNoise on 0 components does not return)."""
    k0 = 1 if (k == 0 and lay.n) else k
    ops = [("C4", slot, kind, k0, lay.l, lay.c, lay.q)]
    if lay.n:
        ops.append(("AU", slot, lay.n, lay.n, qmat(lay.n, lay.n, tag)))
    if k0 != k and kind != GA:
        ops.append(("RS", slot, k, lay.l, lay.c))
    ops.append(("FI", slot, stamp))
    return ops


def alphabet(lay, grid, full=True, resize_grid=True):
    """all single steps applied to the object in slot 0 with layout `lay` -> list of (op list, resulting Lay or None when the sequence ends)"""
    out = []
    if not resize_grid:
        grid = {"k": (), "l": (), "c": ()}
    if lay.kind == GA:
        for l2 in grid["l"]:
            for c2 in grid["c"]:
                n = lay.copy(); n.l, n.c = l2, c2
                out.append(([("GR", 0, l2, c2)], n))
            n = lay.copy(); n.l, n.c = l2, 0
            out.append(([("G1", 0, l2)], n))
    else:
        for k2 in grid["k"]:
            for l2 in grid["l"]:
                for c2 in grid["c"]:
                    n = lay.copy(); n.k, n.l, n.c = k2, l2, c2
                    out.append(([("RS", 0, k2, l2, c2)], n))
        n = lay.copy(); n.k, n.c = (lay.k % 4) + 1, 0
        out.append(([("R2", 0, n.k, lay.l)], n))
    for a in (0, 1, 2, 3):
        n = lay.copy(); n.n += a
        if lay.k == 0:
            # `components - 1` wraps: Eigen assertion; with 0 rows and a 0 x 0 matrix the call loops 2^64 times (excluded)
            if lay.dcov + a > 0 and a in (0, 2):
                out.append(([("AU", 0, a, a, qmat(a, a))], None))
            continue
        out.append(([("AU", 0, a, a, qmat(a, a))], n))
    for (r, c) in ((1, 2), (2, 1), (0, 1)):
        out.append(([("AU", 0, r, c, qmat(r, c))], lay.copy()))
    # copies: construction, assignment over an object of another layout, base-class copy; the copy is then modified
    out.append(([("CP", 1, 0, 0), ("FI", 1, 9)], lay.copy()))
    other = Lay(lay.kind, 2, 1, 0, 0)
    out.append(([other.ctor(1), ("CP", 1, 0, 1), ("FI", 1, 9)], lay.copy()))
    out.append(([("SL", 1, 0), ("FI", 1, 9)], lay.copy()))
    out.append(([("CP", 0, 0, 1)], lay.copy()))                                     # a = a
    # hand-over: move out and back (construction), move assignment over another layout and back
    out.append(([("MV", 1, 0, 0), ("FI", 1, 9), ("MV", 0, 1, 0)], lay.copy()))
    out.append(([other.ctor(1), ("MV", 1, 0, 1), ("MV", 0, 1, 1)], lay.copy()))
    # move assignment into an existing object whose dim_noise differs (0 <-> 2), every observation on the moved-to object, and back
    if full:
        on = Lay(lay.kind, 3, lay.l, lay.c, lay.q, 0 if lay.n else 2)
        out.append((build_like(on, 1, on.k, 6, kind=lay.kind, tag=4) + [("MV", 1, 0, 1), ("FI", 1, 9), ("MV", 0, 1, 0)], lay.copy()))
    # assignment through base references from a mixture / particle set of the same sizes (what pred = prev does)
    for skind in (GM, PS):
        out.append((build_like(lay, 1, lay.k, 8, kind=skind, tag=5) + [("BA", 0, 1)], lay.copy()))
    if lay.kind == GM:                                                              # gm = ps of another layout (slicing assignment)
        src = Lay(PS, lay.k % 4 + 1, (lay.l + 1) % 5, lay.c, lay.q)
        n = src.copy(); n.kind = GM
        out.append(([src.ctor(1), ("FI", 1, 8), ("BA", 0, 1)], n))
    # augmentWithNoise with the object's own first / last covariance block as argument
    for i0 in sorted(set((0, max(lay.k - 1, 0)))):
        if lay.k == 0:
            if lay.dcov > 0:                         # covariance(0) of an empty mixture: assertion
                out.append(([("AA", 0, 0)], None))
            continue
        if lay.n + lay.dcov <= 8:
            n = lay.copy(); n.n += lay.dcov
            out.append(([("AA", 0, i0)], n))
    if not full:
        return out + concat_steps(lay, (0, 2) if lay.k == 0 else (2,), full=False)
    out.append(([("AU", 0, 2, 2, [[float("inf"), -0.0], [float("nan"), 1e-310]])], None if lay.k == 0 else Lay(lay.kind, lay.k, lay.l, lay.c, lay.q, lay.n + 2)))
    # element writes through every accessor variant, last component / last row
    i, v = lay.k - 1, 7.625
    modes = (0, 1, 2) if lay.kind == GA else (0, 1)
    if lay.k == 0:                                  # every index is out of range: assertion
        out.pop()
        for m in modes[:1] if lay.n else modes:
            out.append(([("WM", 0, m, 0, 0, v)], None))
            out.append(([("WC", 0, m, 0, 0, 0, v)], None))
            out.append(([("WW", 0, m, 0, v)], None))
        if lay.kind == PS:
            out.append(([("WS", 0, 0, 0, 0, v)], None))
        return out + concat_steps(lay, (0, 1, 2, 3, 4))
    for m in modes:
        if lay.dim > 0:
            out.append(([("WM", 0, m, i, lay.dim - 1, v)], lay.copy()))
        if lay.dcov > 0:
            out.append(([("WC", 0, m, i, lay.dcov - 1, 0, v)], lay.copy()))
            out.append(([("WC", 0, m, i, 0, lay.dcov - 1, v + 1)], lay.copy()))
        out.append(([("WW", 0, m, i, v)], lay.copy()))
    if lay.kind == PS and lay.dim - lay.n > 0:
        for m in (0, 1):
            out.append(([("WS", 0, m, i, lay.dim - lay.n - 1, v)], lay.copy()))
    return out + concat_steps(lay, (0, 1, 2, 3, 4))


def _s64(x):
    x &= (1 << 64) - 1
    return x - (1 << 64) if x >> 63 else x


def wide_writes(lay, short=False):
    """element writes with one index taken from the whole std::size_t range.  Kept only where the address arithmetic of the
    accessor does not wrap back into the storage (`dim_covariance * i + k` modulo 2^64: size_t overflow is outside the model)"""
    out = []
    v = 3.5
    k, dim, dc, sd = lay.k, lay.dim, lay.dcov, lay.dim - lay.n
    bigs = lambda valid: [(1 << 31) + valid, (1 << 32) + valid, (1 << 64) - 1] + ([] if short else [1 << 31, 1 << 32, (1 << 32) + 1, (1 << 63) + valid, (1 << 64) - 2])
    modes = (0, 1, 2) if lay.kind == GA else (0, 1)
    ci, cj = max(k - 1, 0), max(dim - 1, 0)
    for m in modes:
        if m != 2:
            out += [("WM", 0, m, b, cj, v) for b in bigs(ci)]
        out += [("WM", 0, m, 0 if m == 2 else ci, b, v) for b in bigs(cj)]
        if m != 2:
            out += [("WW", 0, m, b, v) for b in bigs(ci)]
        cd = max(dc - 1, 0)
        for b in bigs(ci):
            start = _s64(dc * b)
            if m == 2:
                continue
            if m == 0 and 0 <= _s64(dc * b + cd) < dc * k:
                continue            # wraps onto a valid column
            if m == 1 and 0 <= start <= dc * k - dc:
                continue
            out.append(("WC", 0, m, b, cd, cd, v))
        for b in bigs(cd):
            out.append(("WC", 0, m, 0 if m == 2 else ci, b, cd, v))
            if m == 0 and 0 <= _s64(dc * ci + b) < dc * k:
                continue
            out.append(("WC", 0, m, 0 if m == 2 else ci, cd, b, v))
    if lay.kind == PS:
        for m in (0, 1):
            out += [("WS", 0, m, b, max(sd - 1, 0), v) for b in bigs(ci)]
            out += [("WS", 0, m, ci, b, v) for b in bigs(max(sd - 1, 0))]
    return out


def concat_steps(lay, ks, full=True):
    out = []
    if lay.kind != PS or lay.k > 8:
        return out
    for k2 in ks:
        n = lay.copy(); n.k += k2
        out.append((build_like(lay, 1, k2, 5) + [("PE", 0, 1)], n))
        if k2 == 0 and full:
            n = lay.copy()
            out.append((build_like(lay, 1, 0, 5) + [("PE", 1, 0), ("CP", 0, 1, 1)], n))      # empty += a
            out.append((build_like(lay, 1, 0, 5) + [("PL", 0, 1, 0)], lay.copy()))           # empty + a
    for k2 in [x for x in ks if x][:2]:
        n = lay.copy(); n.k += k2
        out.append((build_like(lay, 1, k2, 5) + [("PL", 0, 0, 1)], n))                        # result replaces a (new object)
        n = lay.copy(); n.k += k2
        out.append((build_like(lay, 1, k2, 5) + [("PA", 0, 0, 1)], n))                        # a = a + b (move assignment of the returned value)
        if not full:
            continue
        # a + b landing in a fresh slot and in an existing particle set whose dim_noise differs
        n = lay.copy(); n.k += k2
        on = Lay(PS, 2, lay.l, lay.c, lay.q, 0 if lay.n else 1)
        out.append((build_like(lay, 1, k2, 5) + [("PL", 2, 0, 1), ("FI", 2, 6), ("CP", 0, 2, 1)], n))
        out.append((build_like(lay, 1, k2, 5) + build_like(on, 2, 2, 6, tag=2) + [("PA", 2, 0, 1), ("FI", 2, 6), ("MV", 0, 2, 1)], n))
    # only one operand augmented: sizes differ, assertion (a 0 x 0 augmentation changes nothing: accepted)
    if lay.k >= 1 and full:
        one = lay.copy(); one.n += 1
        out.append((build_like(one, 1, 2, 5) + [("PL", 2, 0, 1)], None))
        out.append((build_like(one, 1, 2, 5) + [("PL", 2, 1, 0)], None))
        n = lay.copy(); n.k += 2
        out.append((build_like(lay, 1, 2, 5) + [("AU", 1, 0, 0, []), ("PL", 0, 0, 1)], n))
    n = lay.copy(); n.k *= 2
    out.append(([("PL", 0, 0, 0)], n))                      # a + a is legal (lhs by value)
    n = lay.copy(); n.k *= 2
    out.append(([("PE", 0, 0)], n))                         # a += a concatenates a copy
    bigger = lay.copy(); bigger.l += 1
    out.append((build_like(bigger, 1, 2, 5) + [("PE", 0, 1)], None))   # different size: assertion
    if not lay.q and lay.c >= 1:                            # Euler: other split of the same size is accepted
        o = lay.copy(); o.l += 1; o.c -= 1
        n = lay.copy(); n.k += 2
        out.append((build_like(o, 1, 2, 5) + [("PE", 0, 1)], n))
    if lay.q and lay.c >= 1:                                # same total size, other covariance size: assertion
        o = Lay(PS, 2, lay.l + 4 * lay.c, 0, 0, lay.n)
        out.append((build_like(o, 1, 2, 5) + [("PE", 0, 1)], None))
    return out


def enum_wide(quick):
    """element writes with one index from the whole std::size_t range on filled, possibly augmented objects: one case per write"""
    for kind in (GM, GA, PS):
        for k in ((2,) if quick else (1, 2, 3)):
            for l in ((2,) if quick else (0, 2)):
                for c in (0, 1):
                    for q in (0, 1):
                        for n in (0, 1):
                            if kind == GA and k != 2:
                                continue
                            lay = Lay(kind, k, l, c, q, n)
                            base = build_like(lay, 0, lay.k, 1, kind=kind)
                            for w in wide_writes(lay, short=quick):
                                yield base + [w]


def enum_shapes(quick):
    """one object driven through non-monotone shapes in one process (2 x 100, then 5 x 11, and back: rows grow while the number of
    coefficients shrinks), and component counts at 64 / 128 / 256 ... +- 1 reached by construction, resize and concatenation"""
    ks = (63, 64, 65, 128, 257) if quick else (63, 64, 65, 127, 128, 129, 255, 256, 257, 511, 512, 513, 1023, 1024, 1025)
    for kind in (GM, PS):
        for la, lb in (((2, 0, 0), (5, 0, 0)), ((1, 1, 0), (3, 2, 0)), ((2, 0, 1), (1, 1, 1))):
            for n0 in (0, 1):
                ops = [("C4", 0, kind, 100, la[0], la[1], la[2]), ("FI", 0, 1)]
                if n0:
                    ops += [("AU", 0, 1, 1, qmat(1, 1)), ("FI", 0, 2)]
                ops += [("RS", 0, 11, lb[0], lb[1]), ("FI", 0, 3), ("RS", 0, 100, la[0], la[1]), ("FI", 0, 4), ("RS", 0, 11, lb[0], lb[1]),
                        ("FI", 0, 5), ("RS", 0, 12, lb[0], lb[1]), ("FI", 0, 6), ("RS", 0, 100, la[0], la[1]), ("RS", 0, 0, la[0], la[1]),
                        ("RS", 0, 11, lb[0], lb[1]), ("FI", 0, 7)]
                yield ops
        for k in ks:
            for (l, c, q) in ((2, 0, 0), (1, 1, 1), (0, 1, 0)):
                yield [("C4", 0, kind, k, l, c, q), ("FI", 0, 1), ("RS", 0, k + 1, l, c), ("FI", 0, 2), ("AU", 0, 1, 1, qmat(1, 1)),
                       ("RS", 0, k - 1, l, c), ("FI", 0, 3), ("CP", 1, 0, 0), ("RS", 0, 2, l + 1, c), ("RS", 0, k, l, c), ("FI", 0, 4), ("MV", 2, 0, 0)]
                if kind == PS:
                    yield [("C4", 0, PS, k - 2, l, c, q), ("AU", 0, 1, 1, qmat(1, 1)), ("FI", 0, 1), ("C4", 1, PS, 2, l, c, q), ("AU", 1, 1, 1, qmat(1, 1, 2)),
                           ("FI", 1, 2), ("PL", 2, 0, 1), ("PE", 0, 1), ("C4", 3, PS, 1, l, c, q), ("AU", 3, 1, 1, qmat(1, 1, 3)), ("PA", 0, 0, 3), ("PA", 2, 2, 3)]


def layouts(grid, kinds=(GM, GA, PS)):
    for kind in kinds:
        for k in ((1,) if kind == GA else grid["k"]):
            for l in grid["l"]:
                for c in grid["c"]:
                    for q in (0, 1):
                        yield Lay(kind, k, l, c, q)


GRID_BEYOND = {"k": (5, 17), "l": (5, 8), "c": (0, 3)}


def enum_misuse():
    """undisciplined base-reference operations (caller errors): the class-specific clause is expected to fail exactly as
    base_resize_counterexample / base_assign_counterexample say; model and implementation must still agree"""
    for l in (0, 2):
        for c in (0, 1):
            for q in (0, 1):
                for k2 in (1, 2, 3):
                    for nxt in ([], [("AU", 0, 1, 1, qmat(1, 1))], [("GR", 0, l, c)], [("RS", 0, 1, l, c)], [("CP", 1, 0, 0)], [("FI", 0, 3)]):
                        yield [("C4", 0, GA, 1, l, c, q), ("FI", 0, 1), ("RS", 0, k2, l, c)] + nxt
                for k1 in (1, 2):
                    for k2 in (1, 3):
                        for dk in (PS, GA):
                            for nxt in ([], [("RS", 0, 2, l, c)] if dk == PS else [("GR", 0, l, c)], [("FI", 0, 3)], [("AU", 0, 1, 1, qmat(1, 1))]):
                                yield [("C4", 0, dk, k1, l, c, q), ("FI", 0, 1), ("C4", 1, GM, k2, l + 1, c, q), ("FI", 1, 2), ("BA", 0, 1)] + nxt


def enum_ctor_overloads():
    cases = []
    for kind in (GM, GA, PS):
        cases.append([("D", 0, kind)])
        for k in (0, 1, 2, 3, 4):
            for d in (0, 1, 2, 3, 4):
                if kind == GA and k > 1:
                    continue
                cases.append([("C2", 0, kind, k, d)])
                cases.append([("C2", 0, kind, k, d), ("FI", 0, 1), ("CP", 1, 0, 0), ("MV", 2, 1, 0), ("RS", 2, 0, d, 0), ("RS", 2, 3, d, 0), ("FI", 2, 2)])
    return cases


def enum_depth(grid, depth, noise=(0,), full=True, kinds=(GM, GA, PS), select=None, lay_k=None):
    """constructor (+ optional first augmentation giving the layout `noise` rows) followed by `depth` steps of the
    alphabet, every step preceded by a fill of the object with fresh recognisable values (generator)"""
    def rec(prefix, lay, left, stamp, rg=True):
        for steps, nxt in alphabet(lay, grid, full, rg):
            seq = prefix + steps
            if left == 1 or nxt is None:
                yield seq
            else:
                yield from rec(seq + [("FI", 0, stamp)], nxt, left - 1, stamp + 1)
    for lay0 in layouts(grid, kinds):
        if lay_k is not None and lay0.k not in lay_k:
            continue
        for n0 in noise:
            how = select(lay0, n0) if select else "full"
            if how is None:
                continue
            base = [lay0.ctor(0), ("FI", 0, 1)]
            lay = lay0.copy()
            if n0:
                if lay0.k == 0:                     # noise on an empty container: augment one component, then resize to 0
                    base = [("C4", 0, lay0.kind, 1, lay0.l, lay0.c, lay0.q), ("FI", 0, 1)]
                base += [("AU", 0, n0, n0, qmat(n0, n0, 3)), ("FI", 0, 2)]
                if lay0.k == 0:
                    base += [("RS", 0, 0, lay0.l, lay0.c)]
                lay.n = n0
            yield from rec(base, lay, depth, 10, how == "full")


def gen_random(g, maxlen):
    """seeded random sequence on a pool of 3 slots, mostly legal; an illegal concatenation (assertion) only as last step"""
    r = g.r
    lays = {}
    ops = []
    stamp = [1]

    def fresh_stamp():
        stamp[0] = stamp[0] % 62 + 1
        return stamp[0]

    def new_obj(slot):
        kind = r.choice((GM, GM, GA, PS, PS, PS))
        lay = Lay(kind, 0 if r.random() < 0.06 else r.randint(1, 4), r.randint(0, 4), r.randint(0, 2), r.randint(0, 1))
        form = r.random()
        if form < 0.08:
            lay = Lay(kind, 1, 1, 0, 0); ops.append(("D", slot, kind))
        elif form < 0.2:
            lay.c, lay.q = 0, 0; ops.append(("C2", slot, kind, lay.k, lay.l))
        else:
            ops.append(lay.ctor(slot))
        lays[slot] = lay
        ops.append(("FI", slot, fresh_stamp()))
    new_obj(0)
    n = r.randint(2, maxlen)
    while len(ops) < n:
        slot = r.choice(list(lays))
        lay = lays[slot]
        x = r.random()
        if x < 0.12 or (len(lays) < 2 and x < 0.3):
            new_obj(r.randint(0, 2))
            continue
        if x < 0.42:
            if lay.kind == GA:
                l2, c2 = r.randint(0, 4), r.randint(0, 2)
                if r.random() < 0.3:
                    l2, c2 = lay.l, lay.c
                ops.append(("G1", slot, l2) if (c2 == 0 and r.random() < 0.5) else ("GR", slot, l2, c2)); lay.l, lay.c = l2, c2
            else:
                k2, l2, c2 = (0 if r.random() < 0.06 else r.randint(1, 4)), r.randint(0, 4), r.randint(0, 2)
                y = r.random()
                if y < 0.45:
                    l2, c2 = lay.l, lay.c                  # only the component count
                elif y < 0.6 and not lay.q and lay.l + lay.c <= 4:
                    tot = lay.l + lay.c; c2 = r.randint(0, min(2, tot)); l2 = tot - c2   # same size, other split
                elif y < 0.7 and lay.q and lay.c >= 1 and lay.l == 0:
                    l2, c2 = 4, lay.c - 1                  # same total size, other covariance size
                ops.append(("RS", slot, k2, l2, c2)); lay.k, lay.l, lay.c = k2, l2, c2
        elif x < 0.62:
            if r.random() < 0.12:
                qr, qc = r.choice(((1, 2), (2, 1), (0, 2), (3, 1)))
                ops.append(("AU", slot, qr, qc, qmat(qr, qc, r.randint(0, 9))))
            elif lay.k == 0:
                if lay.dcov > 0 and len(ops) >= n - 2:
                    ops.append(("AU", slot, 1, 1, qmat(1, 1))); return ops      # 0 components: assertion ends the sequence
                continue
            elif lay.n <= 4:
                a = r.choice((0, 1, 1, 2, 2, 3))
                ops.append(("AU", slot, a, a, qmat(a, a, r.randint(0, 9)))); lay.n += a
            else:
                continue
        elif x < 0.74:
            dst = r.randint(0, 2)
            y = r.random()
            if y < 0.15:
                ops.append(("SL", dst, slot)); nl = lay.copy(); nl.kind = GM; lays[dst] = nl
            elif y < 0.4:
                if dst == slot:
                    continue
                ops.append(("MV", dst, slot, r.randint(0, 1))); lays[dst] = lay; del lays[slot]
                continue
            else:
                ops.append(("CP", dst, slot, r.randint(0, 1))); lays[dst] = lay.copy()
        elif x < 0.9:
            pss = [s for s in lays if lays[s].kind == PS]
            if lay.kind != PS or not pss:
                continue
            other = r.choice(pss)
            if lays[other].k + lay.k > 8:
                continue
            if not lay.compatible(lays[other]) or (other == slot and r.random() < 0.5):
                if r.random() < 0.25 and len(ops) >= n - 2:
                    ops.append(("PE", slot, other)); return ops      # assertion ends the sequence
                spare = [s for s in (0, 1, 2) if s != slot]
                aux = r.choice(spare)
                k2 = r.randint(1, 3)
                ops += build_like(lay, aux, k2, fresh_stamp())
                lays[aux] = Lay(PS, k2, lay.l, lay.c, lay.q, lay.n)
                other = aux
            if r.random() < 0.5:
                ops.append(("PE", slot, other)); lay.k += lays[other].k
            else:
                dst = r.randint(0, 2)
                nl = lay.copy(); nl.k = lay.k + lays[other].k
                ops.append(("PA" if (dst in lays and lays[dst].kind == PS and r.random() < 0.5) else "PL", dst, slot, other)); lays[dst] = nl
        else:
            if lay.k == 0:
                continue
            i = r.randint(0, lay.k - 1)
            v = r.choice((0.0, -0.0, 1.5, -3.25, 1e300, 5e-324, r.uniform(-10, 10)))
            w = r.random()
            mode = r.choice((0, 1, 2) if lay.kind == GA else (0, 1))
            if w < 0.3 and lay.dim > 0:
                ops.append(("WM", slot, mode, i, r.randint(0, lay.dim - 1), v))
            elif w < 0.6 and lay.dcov > 0:
                ops.append(("WC", slot, mode, i, r.randint(0, lay.dcov - 1), r.randint(0, lay.dcov - 1), v))
            elif w < 0.8:
                ops.append(("WW", slot, mode, i, v))
            elif lay.kind == PS and lay.dim - lay.n > 0:
                ops.append(("WS", slot, min(mode, 1), i, r.randint(0, lay.dim - lay.n - 1), v))
            continue
        if r.random() < 0.6:
            ops.append(("FI", slot, fresh_stamp()))
    return ops


# --------------------------------------------------------------------------- the check

def run_cases(sets, binary, workers, stop_after=300, plain=None, plain_every=4):
    """sets: [(name, rule, iterable of cases, exhaustive)] -> (aggregates, sizes, stopped_early, distinct)"""
    global _BIN, _PLAIN
    _BIN, _PLAIN = binary, plain
    sizes, seen = {}, set()
    counter = [0]

    def job(name, buf):
        counter[0] += 1
        return (name in ("corpus", "random", "base-reference-misuse", "replay") or counter[0] % plain_every == 0, buf)

    def chunks():
        for name, rule, cases, ex in sets:
            buf = []
            sizes[name] = 0
            for c in cases:
                buf.append(c)
                if not ex:
                    seen.add(hash(case_line(c)))
                if len(buf) == 400:
                    sizes[name] += len(buf); yield job(name, buf); buf = []
            if buf:
                sizes[name] += len(buf); yield job(name, buf)
    aggs, bad, stopped = [], 0, False
    if workers <= 1:
        it = (_work(c) for c in chunks())
        pool = None
    else:
        pool = multiprocessing.get_context("fork").Pool(workers)
        it = pool.imap_unordered(_work, chunks(), chunksize=1)
    try:
        for a in it:
            aggs.append(a)
            bad += len(set(v[2] for v in a["viol"])) + 100 * sum(1 for v in a["viol"] if "crash:timeout" in v[1])
            if bad > stop_after:        # enough failing inputs: a broken tree is reported quickly
                stopped = True
                break
    finally:
        if pool is not None:
            pool.terminate()
            pool.join()
    return aggs, sizes, stopped, len(seen)


def shrink(ops, binary, key):
    """shortest prefix / sub-sequence of the failing case that still violates the same clause"""
    global _BIN
    _BIN = binary

    def fails(o):
        if not o:
            return False
        a = _work((key.startswith("plain-build:"), [o]))
        return any(v[0] == key for v in a["viol"])
    best = list(ops)
    for n in range(1, len(best)):
        if fails(best[:n]):
            best = best[:n]
            break
    i = len(best) - 2
    while i >= 1 and len(best) > 2:
        cand = best[:i] + best[i + 1:]
        if fails(cand):
            best = cand
        i -= 1
    return best


RULE_A = ("alphabet A = {self-assignment a = a, move construction out and back, move assignment over another layout and back, assignment through base references "
          "from a mixture and from a particle set of the same sizes (and, for mixtures, from a particle set of another layout), augmentWithNoise with the object's own "
          "first / last covariance block, a noise matrix with inf / nan / -0 / denormal entries, "
          "resize to every (components, linear, circular) of the grid [Gaussian: every (linear, circular)], resize with the default argument, "
          "augmentWithNoise with a square a x a matrix a = 0..3 and with 1x2, 2x1, 0x1 matrices, copy construction / copy assignment over another layout / "
          "base-class copy each followed by a fill of the copy, element writes through every accessor variant at the last component's last row and column, and for "
          "particle sets: += and + with a set of the same layout and 1..4 (resp. 1..2) components, a + a, a += a, += with a larger layout (assertion), "
          "+= with the other Euler split of the same size (accepted), += of an Euler set of the same total size to a quaternion set (assertion)}; "
          "reduced alphabet A' = A without the element writes and with concatenation operands of 2 components only (0 and 2 from a 0-component layout) and without the move over another noise size; "
          "round 4: move assignment over an existing object of another noise size (every observation on the moved-to object) and back; for particle sets a + b into a new object, "
          "a = a + b (assignment of the returned value), a + b into a fresh slot and into an existing set of another noise size, empty += a, empty + a, a += empty, "
          "+ with only one operand augmented (assertion, both orders) and with one operand augmented by a 0 x 0 matrix (accepted); on 0 components: augmentWithNoise / own-block "
          "augmentation / element access (assertion)")


def run(ctx):
    ctx.proof_stage()
    import threading
    pl = {}

    def _bp():
        try:
            pl["bin"] = build_plain()
        except Exception as e:           # reported below
            pl["err"] = e
    th = threading.Thread(target=_bp)
    th.start()
    binary = vlib.build_harness("h_shape")
    th.join()
    if "err" in pl:
        raise vlib.BuildError(str(pl["err"]))
    plain = pl["bin"]
    quick = ctx.quick()
    sets = []        # (name, rule, iterable of cases, exhaustive?)
    corpus = vlib.VERIF / "corpus" / "C11" / "cases.txt"
    if corpus.exists():
        cs = [parse_line(ln.strip()) for ln in corpus.read_text().split("\n") if ln.strip() and not ln.startswith("#")]
        sets.append(("corpus", "regression corpus corpus/C11/cases.txt (witnesses of the defects fixed by 668e0de, ad6ea89, 2c84227 and boundary cases)", cs, False))
    sets.append(("ctor-overloads", "EXHAUSTIVE: every constructor overload of the three classes: default; (components 0..4, dim 0..4); Gaussian(dim 0..4); each also followed by fill, copy, move, resize to 0 components and back to 3", enum_ctor_overloads(), True))
    sets.append(("depth1-full-grid",
                 "EXHAUSTIVE: for every class and every layout of the property's grid (components 0..4 [Gaussian: 1], linear 0..4, circular 0..2, Euler/quaternion) and "
                 "every initial noise size 0..3 (obtained by one augmentWithNoise): construct, fill with recognisable values, then every single step of A"
                 + (" [quick tier: initial noise 1 and 3 without the grid of resize targets; 0-component layouts with initial noise 0..1]" if quick else ""), 
                 enum_depth(GRID_FULL, 1, noise=(0, 1, 2, 3), select=quick_select if quick else None), True))
    sets.append(("base-reference-misuse",
                 "EXHAUSTIVE over its small grid (linear {0,2}, circular 0..1, Euler/quaternion): a Gaussian resized through GaussianMixture& to 1..3 components, and "
                 "assignment through base references of a 1- or 3-component mixture of another size onto a 1..2-component particle set / a Gaussian, each followed by "
                 "nothing / augmentation / resize back / copy / fill; the class-specific clause is waived for these caller errors, everything else is checked", enum_misuse(), True))
    sets.append(("beyond-grid",
                 "EXHAUSTIVE: every single step of A from layouts beyond the property's grid chosen for coincidences (components {5,17}, linear {5,8}, circular {0,3}, "
                 "Euler/quaternion, all classes; resize targets from the same set)", enum_depth(GRID_BEYOND, 1, noise=(0,)), True))
    sets.append(("wide-indices",
                 "EXHAUSTIVE over its grid (quick: components 2, linear 2, circular 0..1, Euler/quaternion, noise 0..1, all classes; thorough: components 1..3, linear {0,2}): "
                 "every element accessor variant (mean(i,j), mean(i)(j), covariance(i,j,k), covariance(i)(j,k), weight(i), weight()(i), state(i,j), state(i)(j), Gaussian's own) "
                 "with one index taken from {2^31 + v, 2^32 + v, 2^64 - 1} (thorough also 2^31, 2^32, 2^32 + 1, 2^63 + v, 2^64 - 2), v the largest valid value, parsed with strtoull; "
                 "the model predicts the range assertion; an implementation that continues is a violation (accessor-index-range). Index combinations whose address arithmetic "
                 "wraps modulo 2^64 back into the storage are left out (size_t overflow is outside the model)", enum_wide(quick), True))
    sets.append(("nonmonotone-shapes",
                 "one object in one process through 100 components of dim 2 -> 11 components of dim 5 -> back (twice, also via 0 components; linear, Euler and quaternion layouts, "
                 "with and without noise, mixtures and particle sets), and component counts %s reached by constructor, resize +-1, augmentation, copy, move and "
                 "concatenation (+, +=, a = a + b) of augmented particle sets" % ("63, 64, 65, 128, 257" if quick else "63..65, 127..129, 255..257, 511..513, 1023..1025"),
                 enum_shapes(quick), True))
    if quick:
        sets.append(("depth2-tiny-grid",
                     "EXHAUSTIVE: two consecutive steps of A' (a fill between them); layouts and resize targets restricted to components 1..2, linear {0, 2}, "
                     "circular 0..1, Euler/quaternion, all classes, initial noise 0",
                     enum_depth(GRID_TINY_Q, 2, noise=(0,), full=False), True))
        sets.append(("depth2-zero-components",
                     "EXHAUSTIVE: two consecutive steps of A' from every mixture / particle set layout with 0 components (linear 2, circular 0..1, Euler/quaternion), "
                     "resize targets with components {0, 2}", enum_depth(GRID_TINY_Z, 2, noise=(0,), full=False, lay_k=(0,)), True))
    else:
        sets.append(("depth2-small-grid",
                     "EXHAUSTIVE: two consecutive steps of the full alphabet A (a fill between them) for every class; layouts and resize targets: components 0..3, "
                     "linear 0..2, circular 0..1, Euler/quaternion, initial noise 0 (round 4: the alphabet doubled, the grid was reduced from the property's full grid)",
                     enum_depth(GRID_SMALL, 2, noise=(0,), full=True), True))
        sets.append(("depth2-tiny-grid-noise",
                     "EXHAUSTIVE: two consecutive steps of A' from the tiny grid (components 0..2, linear {0, 2}, circular 0..1) with initial noise 1",
                     enum_depth(GRID_TINY, 2, noise=(1,), full=False), True))
        sets.append(("depth3-tiny-grid",
                     "EXHAUSTIVE: three consecutive steps of A' (fills between them); layouts and resize targets restricted to components 1..2, linear 2, "
                     "circular 0..1, Euler/quaternion, all classes, initial noise 0",
                     enum_depth(GRID_TINY_3, 3, noise=(0,), full=False), True))
    g = ctx.gen("random")
    nrand = ctx.n(2500, 60000)
    rnd = [gen_random(g, 12) for _ in range(nrand)]
    sets.append(("random", "seeded random sequences of 2..12 operations on a pool of 3 objects (all operations incl. constructor overloads, copies between slots, "
                 "component-count-only resizes, same-size other-split resizes, repeated augmentation, concatenation chains, element writes with special values)", rnd, False))
    if ctx.replay:
        import json
        sets = [("replay", "the input recorded in %s" % ctx.replay, [parse_line(json.load(open(ctx.replay))["replay"]["input_line"])], False)]
    workers = max(1, min(8 if quick else 12, vlib.NPROC - 2))
    aggs, sizes, stopped, distinct_sampled = run_cases(sets, binary, workers, plain=plain, plain_every=4 if quick else 8)
    total = sum(a["n"] for a in aggs)
    viol, corr, notes, br = [], [], {}, {}
    content = specified = unspecified = crashes = 0
    content_example = None
    for a in aggs:
        viol += a["viol"]; corr += a["corr"]; content += a["content"]
        content_example = content_example or a["content_example"]
        specified += a["specified"]; unspecified += a["unspecified"]; crashes += a["crashes"]
        for k, v in a["notes"].items():
            notes[k] = notes.get(k, 0) + v
        for k, v in a["branches"].items():
            br[k] = br.get(k, 0) + v
    # one violation per clause, with the shortest failing input (then shrunk)
    by_key = {}
    for key, what, line, h in viol:
        if key not in by_key or len(line) < len(by_key[key][1]):
            by_key[key] = (what, line, h)
    for key, (what, line, h) in sorted(by_key.items())[:12]:
        ops = shrink(parse_line(line), binary, key)
        small = case_line(ops)
        hs = run_lines(plain if key.startswith("plain-build:") else binary, [small])
        ctx.violation(key, "C11 %s: %s" % (key, what), {"harness": "h_shape", "input_line": small, "original_input_line": line[:3000],
                                                      "observed": hs[0][:3000], "failing_cases": sum(1 for v in viol if v[0] == key)})
    if corr and not viol:
        key, what, line, h = min(corr, key=lambda x: len(x[2]))
        ctx.violation("correspondence:" + key, "model and implementation disagree on %s (%d cases) although no clause of the property failed on the implementation: %s" % (
            key, len(corr), what), {"harness": "h_shape", "correspondence": "BFL.Shape.step vs GaussianMixture/Gaussian/ParticleSet", "input_line": line[:3000], "observed": h[:3000]}, no_input=True)
    if content:
        ctx.notes.append("entry values differ from the model's specified cells in %d case(s) outside the property's clauses (not an alarm); first: %s" % (content, (content_example or "")[:600]))
    if stopped:
        ctx.notes.append("stopped early after more than 300 failing inputs; the enumerations below were not completed on this (failing) run")
    ex_names = [n for n, r, c, e in sets if e]
    ctx.coverage.update({
        "evaluations": total,
        "distinct_nontrivial": sum(sizes.get(n, 0) for n in ex_names) + distinct_sampled,
        "rule": RULE_A + " || " + "; ".join("[%s: %d cases] %s" % (n, sizes.get(n, 0), r) for n, r, c, e in sets)
                + " || distinct = enumerated sequences (distinct by construction) + distinct lines of the sampled sets; all have >= 1 operation on a constructed object",
        "samples": [case_line(rnd[0])[:500] if rnd else "", case_line(rnd[-1])[:500] if rnd else ""],
        "exhaustive": (not stopped) and not ctx.replay,
        "exhaustive_sets": {n: {"complete": not stopped, "cases": sizes.get(n, 0)} for n in ex_names},
        "set_sizes": sizes,
        "traces_validated_against_impl": total,
        "branch_histogram": dict(sorted(br.items())),
        "entries_compared_specified": specified, "entries_skipped_unspecified": unspecified,
        "model_vs_impl_disagreements": len(corr), "property_failures_on_impl": len(viol),
        "content_disagreements_outside_property": content,
        "sequences_ending_in_predicted_assertion": notes.get("assert-agreed", 0),
        "notes_histogram": notes, "impl_aborts": crashes, "workers": workers, "stopped_early": stopped,
        "cases_also_run_on_plain_release_build": sum(a.get("plain", 0) for a in aggs),
    })
    ctx.assumptions += [
        "0 components are inside the model; augmentWithNoise on 0 components is modelled as an assertion (the real code aborts in block(); with 0 rows and a 0 x 0 matrix it loops 2^64 times: that single case is not generated)",
        "size_t overflow in the accessors' address arithmetic (dim_covariance * i + k modulo 2^64) is outside the model; such index combinations are not generated",
        "concatenation of operands with different storage row counts is a caller error (Eigen assertion in the -UNDEBUG build); modelled as Outcome.assert",
        "entries the model leaves unspecified (fresh / non-conservatively resized / appended storage) are not compared",
    ]
