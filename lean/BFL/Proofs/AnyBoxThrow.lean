import BFL.Proofs.AnyBoxSpec
/-
C20 helper lemmas, part 5: operations during which the copy constructor of a held object throws.
-/
namespace BFL.AnyBox

@[simp] theorem content_failedNew (s : St) (x : Obj) : content (failedNew s) x = content s x := rfl
@[simp] theorem isLive_failedNew (s : St) (x : Obj) : isLive (failedNew s) x = isLive s x := rfl
@[simp] theorem held_failedNew (s : St) (x : Obj) : held (failedNew s) x = held s x := rfl
@[simp] theorem heap_failedNew (s : St) : (failedNew s).heap = s.heap := rfl
@[simp] theorem next_failedNew (s : St) : (failedNew s).next = s.next + 1 := rfl
@[simp] theorem log_failedNew (s : St) : (failedNew s).log = .free s.next :: .alloc s.next :: s.log := rfl

theorem absPool_failedNew (s : St) : absPool (failedNew s) = absPool s := rfl

theorem own_failedNew {s : St} (h : Own s) : Own (failedNew s) := by
  have hfn : s.heap s.next = none := h.fresh _ (Nat.le_refl _)
  refine ⟨h.inj, h.live, h.owned, ?_, ?_, ?_⟩
  · intro i hi
    exact h.fresh i (Nat.le_of_succ_le hi)
  · intro i
    have := h.allocOnce i
    simp only [log_failedNew, next_failedNew, List.count_cons]
    by_cases hi : i = s.next
    · subst hi; simp_all
    · have h1 : ¬ s.next = i := fun e => hi e.symm
      have h2 : (i < s.next + 1) ↔ (i < s.next) := by
        constructor
        · intro h3; exact Nat.lt_of_le_of_ne (Nat.le_of_lt_succ h3) hi
        · intro h3; exact Nat.lt_succ_of_lt h3
      simp_all
  · intro i
    have := h.freeOnce i
    simp only [log_failedNew, next_failedNew, heap_failedNew, List.count_cons]
    by_cases hi : i = s.next
    · subst hi; simp_all
    · have h1 : ¬ s.next = i := fun e => hi e.symm
      have h2 : (i < s.next + 1) ↔ (i < s.next) := by
        constructor
        · intro h3; exact Nat.lt_of_le_of_ne (Nat.le_of_lt_succ h3) hi
        · intro h3; exact Nat.lt_succ_of_lt h3
      simp_all

theorem inv_failedNew {n : Nat} {s : St} (h : Inv n s) : Inv n (failedNew s) :=
  ⟨own_failedNew h.own, h.tmpDead, h.bound⟩

/-- what the throwing variant does once something is copied -/
theorem stepThrow_of_copied {n : Nat} {s : St} {op : Op} {v : Val} (hc : copied n s op = some v) :
    (stepThrow n s op).2 = .threw ∧ ((stepThrow n s op).1 = s ∨ (stepThrow n s op).1 = failedNew s) := by
  unfold stepThrow
  rw [hc]
  cases op <;> simp

theorem stepThrow_of_not_copied {n : Nat} {s : St} {op : Op} (hc : copied n s op = none) :
    stepThrow n s op = step n s op := by
  unfold stepThrow; rw [hc]

theorem inv_stepThrow {n : Nat} {s : St} (op : Op) (h : Inv n s) : Inv n (stepThrow n s op).1 := by
  cases hc : copied n s op with
  | none => rw [stepThrow_of_not_copied hc]; exact inv_step op h
  | some v =>
    rcases (stepThrow_of_copied hc).2 with e | e <;> rw [e]
    · exact h
    · exact inv_failedNew h

theorem stepX_cases (n : Nat) (s : St) (x : Op × Bool) :
    stepX n s x = step n s x.1 ∨ (stepX n s x = stepThrow n s x.1 ∧ ∃ v, copied n s x.1 = some v ∧ v.tag = .thr ∧ x.2 = true) := by
  obtain ⟨op, b⟩ := x
  unfold stepX
  cases b with
  | false => left; rfl
  | true =>
    cases hc : copied n s op with
    | none => left; rfl
    | some v =>
      by_cases ht : v.tag = .thr
      · right; exact ⟨by simp [ht], v, rfl, ht, rfl⟩
      · left; simp [ht]

theorem inv_stepX {n : Nat} {s : St} (x : Op × Bool) (h : Inv n s) : Inv n (stepX n s x).1 := by
  rcases stepX_cases n s x with e | ⟨e, _⟩ <;> rw [e]
  · exact inv_step _ h
  · exact inv_stepThrow _ h

theorem inv_runX {n : Nat} (xs : List (Op × Bool)) {s : St} (h : Inv n s) : Inv n (runX n s xs) := by
  induction xs generalizing s with
  | nil => exact h
  | cons x rest ih => exact ih (inv_stepX x h)

end BFL.AnyBox
