/-
Model of `bfl::HistoryBuffer` (HistoryBuffer.h / HistoryBuffer.cpp), branch by branch, as the code
is after fix 382f8e9 (the shrink loop pops while `size > tmp`).

  window_        : unsigned int, default 5          -> `window : Nat`
  max_window_    : 30                               -> `maxWindow`
  history_buffer_: std::deque<VectorXd>, newest at the front -> `items : List β`, newest first

The element type `β` is a parameter (a column vector in the code; nothing in the buffer looks inside).
No Mathlib: this file is linked into the driver.
-/
namespace BFL

structure HistBuf (β : Type) where
  /-- stored elements, newest first (`getHistoryBuffer()` returns them in this order, column `i` = `items[i]`) -/
  items : List β
  /-- `window_` -/
  window : Nat

namespace HistBuf
variable {β : Type}

/-- `max_window_ = 30` -/
def maxWindow : Nat := 30

/-- a freshly constructed buffer: empty, `window_ = 5` -/
def init : HistBuf β := ⟨[], 5⟩

/-- `addElement`: `push_front`; one `pop_back` when the size now exceeds the window. -/
def add (h : HistBuf β) (x : β) : HistBuf β :=
  let l := x :: h.items
  if l.length > h.window then ⟨l.dropLast, h.window⟩ else ⟨l, h.window⟩

/-- the three-way clamp of `setHistorySize`: `< 2 ⇒ 2`, `≥ 30 ⇒ 30`, otherwise unchanged -/
def clampWindow (w : Nat) : Nat :=
  if w < 2 then 2 else if w ≥ maxWindow then maxWindow else w

/-- `while (history_buffer_.size() > tmp) history_buffer_.pop_back();` -/
def popBackWhile (l : List β) (tmp : Nat) : List β :=
  if l.length > tmp then popBackWhile l.dropLast tmp else l
termination_by l.length
decreasing_by simp [List.length_dropLast]; omega

/-- `setHistorySize(window)`: returns `true` early when the window is unchanged; otherwise clamps,
    shrinks the deque when both the window and the content exceed the new value, stores the new
    window.  The returned flag is always `true`. -/
def setWindow (h : HistBuf β) (w : Nat) : HistBuf β × Bool :=
  if w = h.window then (h, true)
  else
    let tmp := clampWindow w
    if tmp < h.window ∧ tmp < h.items.length then
      (⟨popBackWhile h.items tmp, tmp⟩, true)
    else
      (⟨h.items, tmp⟩, true)

/-- `unsigned int` arithmetic (32 bit, wrapping) of `window_ - 1` / `window_ + 1`
    for a stored value `w < 2^32` -/
def uintSub1 (w : Nat) : Nat := if w = 0 then 4294967295 else w - 1
def uintAdd1 (w : Nat) : Nat := if w = 4294967295 then 0 else w + 1

/-- `decreaseHistorySize() { return setHistorySize(window_ - 1); }` -/
def decrease (h : HistBuf β) : HistBuf β × Bool := h.setWindow (uintSub1 h.window)

/-- `increaseHistorySize() { return setHistorySize(window_ + 1); }` -/
def increase (h : HistBuf β) : HistBuf β × Bool := h.setWindow (uintAdd1 h.window)

/-- `clear()`: empties the deque, keeps the window, returns `true` -/
def clear (h : HistBuf β) : HistBuf β × Bool := (⟨[], h.window⟩, true)

/-- Operations of the buffer-only state machine (what the harness drives on a real `HistoryBuffer`). -/
inductive Op (β : Type)
  | add (x : β)
  | set (w : Nat)
  | dec
  | inc
  | clear

def step (h : HistBuf β) : Op β → HistBuf β
  | .add x => h.add x
  | .set w => (h.setWindow w).1
  | .dec => h.decrease.1
  | .inc => h.increase.1
  | .clear => h.clear.1

def run (ops : List (Op β)) : HistBuf β := ops.foldl step init

/-! ### Hand-over: move construction and move assignment

`HistoryBuffer(HistoryBuffer&&)` and `operator=(HistoryBuffer&&)` give the destination the source's
window, deque and state size and leave the source in the documented moved-from state: `window_ = 0`,
`state_size_ = 0`, empty deque.  (`state_size_` is not part of this model: it only matters for reading a
non-empty moved-from buffer back, which is an Eigen size assertion for a non-zero original state size.) -/

/-- the documented moved-from state -/
def movedFrom : HistBuf β := ⟨[], 0⟩

/-- move out of `src`: (destination, source afterwards) -/
def moveOut (src : HistBuf β) : HistBuf β × HistBuf β := (src, movedFrom)

/-- Two buffers (slots `false` / `true`) with operations addressed to a slot, move construction of the
    other slot from a slot, and move assignment between slots (self-assignment is guarded: no-op). -/
structure Pair (β : Type) where
  a : HistBuf β
  b : HistBuf β

def Pair.get (p : Pair β) : Bool → HistBuf β
  | false => p.a
  | true => p.b

def Pair.set (p : Pair β) : Bool → HistBuf β → Pair β
  | false, h => { p with a := h }
  | true, h => { p with b := h }

inductive Op2 (β : Type)
  | on (slot : Bool) (o : Op β)
  /-- construct the other slot from `src` (the object previously there is destroyed) -/
  | moveCtor (src : Bool)
  /-- `slot[dst] = std::move(slot[src])` -/
  | moveAssign (src dst : Bool)

def step2 (p : Pair β) : Op2 β → Pair β
  | .on i o => p.set i (step (p.get i) o)
  | .moveCtor i => let r := moveOut (p.get i); (p.set (!i) r.1).set i r.2
  | .moveAssign i j => if i = j then p else let r := moveOut (p.get i); (p.set j r.1).set i r.2

def run2 (ops : List (Op2 β)) : Pair β := ops.foldl step2 ⟨init, init⟩

end HistBuf
end BFL
