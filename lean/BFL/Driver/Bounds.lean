import BFL.Driver.Proto
import BFL.Model.Bounds
/-
Driver entries of C14 (shape algebra).  Every op takes the same tokens as the op of the same name
in `harness/h_bounds.cpp` and prints

    V<0|1> ok <tokens>      the transcription's obligations all hold; tokens = what the harness prints
    V<0|1> throw            the modelled call reports through a C++ exception
    V<0|1> abort <site>     the first violated obligation (the dbg build aborts there)

where `V1` means the configuration satisfies the documented precondition `…Valid` of the entry point
(the hypothesis of the theorems in `BFL/Props/C14.lean`).
-/
namespace BFL.DriverBounds
open BFL BFL.Proto BFL.Bounds

def fmt (valid : Bool) (c : Case) : String :=
  (if valid then "V1 " else "V0 ") ++ (outcome c).str

def dim : R Dim := do
  match Dim.ofNat? (← nat) with
  | some d => pure d
  | none => failure

/-- `dl dc quat` -/
def layout3 : R Layout := do
  let dl ← nat; let dc ← nat; let q ← bool
  pure ⟨dl, dc, q, 0⟩
/-- `dl dc quat dn` -/
def layout4 : R Layout := do
  let dl ← nat; let dc ← nat; let q ← bool; let dn ← nat
  pure ⟨dl, dc, q, dn⟩

def natList : R (List Nat) := do
  let k ← nat
  listOf k nat

def rest : R (List String) := do
  let ts ← get
  set ([] : List String)
  pure ts

/-- `in_l in_c in_q in_noise  ml mc mq  prows dcols irows ysize rr  mvalid pvalid ivalid` -/
def mmod : R MMod := do
  let il ← nat; let ic ← nat; let iq ← bool; let inn ← nat
  let ml ← nat; let mc ← nat; let mq ← bool
  let prows ← nat; let dcols ← nat; let irows ← nat; let ysize ← nat; let rr ← nat
  let mv ← bool; let pv ← bool; let iv ← bool
  pure ⟨⟨il, ic, iq, inn⟩, ⟨ml, mc, mq, 0⟩, prows, dcols, irows, ysize, rr, mv, pv, iv⟩

/-- `M<S2>_<k>_<w>` / `T<S2>_<k>_<w>` -/
def histMoveArgs (t : String) : Option (Nat × Nat × Nat) :=
  match ((String.ofList (t.toList.drop 1)).splitOn "_").map String.toNat? with
  | [some a, some b, some c] => some (a, b, c)
  | _ => none

def histOp (t : String) : Option HOp :=
  let k := t.toList.headD ' '
  let a := (String.ofList (t.toList.drop 1)).toNat?.getD 0
  if k = 'a' then some (.add a)
  else if k = 's' then some (.setSize a)
  else if k = 'd' then some .dec
  else if k = 'i' then some .inc
  else if k = 'c' then some .clear
  else if k = 'g' then some .get
  else if k = 'm' then some (if a = 0 then .moveKeepNew else .moveKeepOld)
  else if k = 'S' then some .moveSelf
  else if k = 'M' then (histMoveArgs t).map fun (x, y, z) => .moveAssignFrom x y z
  else if k = 'T' then (histMoveArgs t).map fun (x, y, z) => .moveAssignInto x y z
  else none

/-- `x<m>_<full>` extract, `w<w>` window, `c` move construction, `S` self move, `M<ls2>_<cs2>_<w>_<k>_<m>` / `T…` move assignment from / into -/
def eeHandOp (t : String) : Option EEOp :=
  let k := t.toList.headD ' '
  let args := ((String.ofList (t.toList.drop 1)).splitOn "_").map String.toNat?
  if k = 'x' then
    match args with
    | [some m, some f] => (EMethod.ofNat? m).map fun em => .extract em (f != 0)
    | _ => none
  else if k = 'w' then match args with | [some w] => some (.setWindow w) | _ => none
  else if k = 'c' then some .moveConstruct
  else if k = 'S' then some .moveSelf
  else if k = 'M' || k = 'T' then
    match args with
    | [some a, some b, some w, some n, some m] =>
      (EMethod.ofNat? m).map fun em => if k = 'M' then .moveAssignFrom a b w n em else .moveAssignInto a b w n em
    | _ => none
  else none

/-- `e<ok>_<id>` enable_log, `d` disable_log, `l` log(), `q` query -/
def logOp (t : String) : Option LogOp :=
  let k := t.toList.headD ' '
  let args := ((String.ofList (t.toList.drop 1)).splitOn "_").map String.toNat?
  if k = 'e' then match args with | [some ok, some id] => some (.enable (ok != 0) id) | _ => none
  else if k = 'd' then some .disable
  else if k = 'l' then some .log
  else if k = 'q' then some .query
  else none

def handleUkfc : Option (R String) := some do
      let kind ← nat; let K ← nat; let I ← layout3
      let cK ← nat; let C ← layout3
      let M ← mmod
      if kind = 2 then do
        let sub ← nat; let reduced ← bool; done
        pure (fmt (decide (sukfValid I K C cK M sub reduced)) (sukfCase I K C cK M sub reduced))
      else do
        done
        pure (fmt (decide (ukfValid (kind = 1) I K C cK M)) (ukfCase (kind = 1) I K C cK M))

def handleR (op : String) : Option (R String) :=
  match op with
  | "b_wna_noise" => some do
      let d ← dim; let num ← nat; done
      pure (fmt true (wnaNoiseCase d num))
  | "b_wna_motion" => some do
      let d ← dim; let num ← nat; let sr ← nat; done
      pure (fmt (decide (wnaMotionValid d sr)) (wnaMotionCase d num sr))
  | "b_wna_tp" => some do
      let d ← dim; let num ← nat; let sr ← nat; done
      pure (fmt (decide (wnaMotionValid d sr)) (wnaTPCase d num sr))
  | "b_wna_move" => some do
      let d ← dim; let num ← nat; done
      pure (fmt true (wnaMoveCase d num))
  | "b_lm" => some do
      let n ← nat; let rr ← nat; let rc ← nat; let num ← nat; let comps ← natList; done
      pure (fmt true (lmCase n rr rc num comps))
  | "b_ssm" => some do
      let d ← dim; let T ← nat; let sr ← nat; let calls ← nat; done
      pure (fmt (decide (ssmValid d sr)) (ssmCase d T sr calls))
  | "b_ssmlog" => some do
      let d ← dim; let T ← nat; let calls ← nat; done
      pure (fmt (decide (ssmLogValid T calls)) (ssmLogCase d T calls))
  | "b_sls" => some do
      let d ← dim; let T ← nat; let n ← nat; let rr ← nat; let calls ← nat; let comps ← natList; done
      pure (fmt (decide (slsValid d n)) (slsCase d T n rr calls comps))
  | "b_hist" => some do
      let S ← nat
      let ts ← rest
      match ts.mapM histOp with
      | none => failure
      | some ops => pure (fmt (decide (histValid S ops)) (histCase S ops))
  | "b_grid" => some do
      let nx ← nat; let ny ← nat; let N ← nat; let L ← layout3; done
      pure (fmt true (gridCase nx ny N L))
  | "b_sp" => some do
      let K ← nat; let L ← layout4; done
      pure (fmt (decide (spValid K L)) (spCase K L))
  | "b_utw" => some do
      let dof ← nat; done
      pure (fmt true (utwCase dof))
  | "b_ut" => some do
      let K ← nat; let I ← layout4; let wdof ← nat
      let ol ← nat; let oc ← nat; let oq ← bool; let prows ← nat; let dcols ← nat; let fv ← bool; done
      let O : Layout := ⟨ol, oc, oq, 0⟩
      pure (fmt (decide (utValid K I wdof O prows dcols)) (utCase K I wdof O prows dcols fv))
  | "b_utsm" => some do
      let kind ← nat; let K ← nat; let I ← layout4; let wdof ← nat
      let fn ← nat; let fq ← nat; let D ← layout3; done
      pure (fmt (decide (utsmValid K I wdof fn fq D)) (utsmCase (kind != 0) K I wdof fn fq D))
  | "b_utwna" => some do
      let kind ← nat; let d ← dim; let K ← nat; let dl ← nat; let dn ← nat; let wdof ← nat; done
      pure (fmt (decide (utwnaValid d K dl dn wdof)) (utwnaCase (kind != 0) d K dl dn wdof))
  | "b_utmm" => some do
      let kind ← nat; let K ← nat; let I ← layout4; let wdof ← nat; let M ← mmod; done
      pure (fmt (decide (utmmValid (kind != 0) K I wdof M)) (utmmCase (kind != 0) K I wdof M))
  | "b_ukfcmv" => handleUkfc
  | "b_ukfc" => handleUkfc
  | "b_corrseq" => some do
      -- kind dl dc quat  <mmod>  [sub reduced]  n (K mv pv iv)*
      let kind ← nat; let I ← layout3; let M ← mmod
      let (sub, reduced) ← (if kind = 2 then do let s ← nat; let r ← bool; pure (s, r) else pure (0, false))
      let n ← nat
      let follows := (kind = 2 && !reduced) || kind = 1
      let steps ← listOf n (do let K ← nat; let mv ← bool; let pv ← bool; let iv ← bool; let msz ← nat; pure (CStep.mk K mv pv iv msz follows))
      done
      if kind = 3 then pure (fmt (decide (kfSeqValid I M.O.dim I.dim M.ysize steps)) (kfSeqCase I M.O.dim I.dim M.ysize steps))
      else if kind = 2 then pure (fmt (decide (sukfSeqValid I M sub reduced steps)) (sukfSeqCase I M sub reduced steps))
      else pure (fmt (decide (ukfSeqValid (kind = 1) I M steps)) (ukfSeqCase (kind = 1) I M steps))
  | "b_wna_seq" => some do
      let d ← dim; let nums ← natList; done
      pure (fmt true (wnaSeqCase d nums))
  | "b_lm_seq" => some do
      let n ← nat; let comps ← natList; let nums ← natList; done
      pure (fmt true (lmSeqCase n comps nums))
  | "b_psaddself" => some do
      let K ← nat; let L ← layout3; done
      pure (fmt true (psaddselfCase K L))
  | "b_gmaugalias" => some do
      let K ← nat; let L ← layout3; done
      pure (fmt (decide (1 ≤ K)) (gmaugAliasCase K L))
  | "b_bootseq" => some do
      let I ← layout3; let M ← mmod; let n ← nat
      let steps ← listOf n (do let K ← nat; let mv ← bool; let pv ← bool; let iv ← bool; pure (CStep.mk K mv pv iv 0 false))
      done
      pure (fmt (decide (bootValid I M)) (bootSeqCase I M steps))
  | "b_gpfcseq" => some do
      let d ← dim; let hm ← nat; let n ← nat
      let steps ← listOf n (do let K ← nat; let mv ← bool; pure (CStep.mk K mv true true 0 false))
      done
      pure (fmt (decide (gpfcSeqValid hm steps)) (gpfcSeqCase d hm steps))
  | "b_eeseq" => some do
      let ls ← nat; let cs ← nat; let N ← nat; let n ← nat
      let raw ← listOf n (do let m ← nat; let f ← bool; pure (m, f))
      done
      match raw.mapM (fun (p : Nat × Bool) => (EMethod.ofNat? p.1).map (fun m => (m, p.2))) with
      | none => failure
      | some steps => pure (fmt (decide (1 ≤ N)) (eeSeqCase ls cs N steps))
  | "b_handover" => some do
      -- the receiving object behaves as the configured source B (fresh call-to-call members): the case of B's configuration
      let cls ← nat; let kind ← nat; let A1 ← nat; let A2 ← nat; let B1' ← nat; let B2' ← nat; let N ← nat; done
      -- kind 0 move assignment, 1 move construction, 2 copy assignment, 3 copy construction, 4 self move (`B = std::move(B)`),
      -- 5 assignment from a const rvalue: the configuration of the object in use afterwards comes from the hand-over model
      let (B1, B2) ← (match HandKind.ofNat? kind with
        | none => failure
        | some hk => match (handStep hk true (some (A1, A2)) (some (B1', B2'))).1 with
          | some c => pure c
          | none => failure)
      let lin (n : Nat) : Layout := ⟨n, 0, false, 0⟩
      let meas (sr m : Nat) : MMod := ⟨⟨sr, 0, false, m⟩, ⟨m, 0, false, 0⟩, m, 0, m, m, m, true, true, true⟩
      match cls with
      | 0 => pure (fmt (decide (kfpValid (lin B1) N (lin B1) N B1 .none false false)) (kfpCase (lin B1) N (lin B1) N B1 .none false false))
      | 1 => pure (fmt (decide (ukfpValid true (lin B1) N B1 B1 (lin B1) 0)) (ukfpCase true (lin B1) N B1 B1 (lin B1) 0 false))
      | 2 => pure (fmt (decide (gpfpValid (lin B1) N (lin B1) N B1)) (gpfpCase (lin B1) N (lin B1) N B1))
      | 3 => match Dim.ofNat? B1 with
        | none => failure
        | some d => pure (fmt true (drawCase d (lin d.n) N (lin d.n) N false))
      | 4 => pure (fmt true (bootCase (lin B1) N (meas B1 B2)))
      | 5 => match Dim.ofNat? B1 with
        | none => failure
        | some d => pure (fmt (decide (gpfcValid N N B2 B2)) (gpfcCase d N N B2 B2 true))
      | 6 => pure (fmt (decide (rwpValid N B2 10 (lin 4) N)) (rwpCase N B2 10 (lin 4) B1 1 N (weightOracle 2)))
      | 7 => pure (fmt (decide (linpropValid B1 B1 N B1 N)) (linpropCase B1 B1 N B1 N false false false))
      | 8 => match EMethod.ofNat? N with
        | none => failure
        | some em =>
          let a : EEArgs := ⟨⟨B1 + B2, 4⟩, 4, 4, 4, ⟨4, 4⟩⟩
          let c : Case := do
            match (← eeCase B1 B2 em true a 7 0) with
            | some toks => pure (some ([toString N, "5"] ++ toks.drop 3))     -- method in use, default window, then the 4 extractions after the hand-over
            | none => pure none
          pure (fmt true c)
      | 9 => pure (fmt (decide (ukfValid true (lin B1) N (lin B1) N (meas B1 B2))) (do
          match (← ukfCase true (lin B1) N (lin B1) N (meas B1 B2)) with
          | some toks => pure (some (["0", "0"] ++ toks)) | none => pure none))
      | 10 => pure (fmt (decide (sukfValid (lin B1) N (lin B1) N (meas B1 B2) B2 false)) (do
          match (← sukfCase (lin B1) N (lin B1) N (meas B1 B2) B2 false) with
          | some toks => pure (some (["0", "0"] ++ toks)) | none => pure none))
      | 11 => pure (fmt (decide (kfValid (lin B1) N (lin B1) N B2 B1 B2)) (do
          match (← kfCase (lin B1) N (lin B1) N B2 B1 B2 true) with
          | some toks => pure (some (["0", "0"] ++ toks)) | none => pure none))
      | 12 => pure (fmt true (psaddCase N ⟨B1, B2, false, 0⟩ 1 ⟨B1, B2, false, 0⟩))
      | 13 => pure (fmt (decide (1 ≤ N)) (do
          match (← gmaugCase N ⟨B1, B2, false, 0⟩ ⟨1, 1⟩ ⟨0, 0⟩) with
          | some toks => pure (some ((toks.take 1) ++ ((toks.drop 2).take 9))) | none => pure none))
      | 14 => pure (fmt (decide (rsValid N (lin B1) N (lin B1) N)) (rsCase N (lin B1) N (lin B1) N (weightOracle 0)))
      | _ => failure
  | "b_lm2" => some do
      -- the two-argument constructor `LinearModel(component, covariance)` delegates to the seeded one
      let n ← nat; let rr ← nat; let rc ← nat; let num ← nat; let comps ← natList; done
      pure (fmt true (lmCase n rr rc num comps))
  | "b_eehand" => some do
      let ls ← nat; let cs ← nat; let N ← nat
      let ts ← rest
      match ts.mapM eeHandOp with
      | none => failure
      | some ops => pure (fmt (decide (1 ≤ N)) (eeHandCase ls cs N ops))
  | "b_logger" => some do
      let _dir ← tok; let cls ← nat; let n ← nat; let k ← nat
      let ts ← rest
      match ts.mapM logOp with
      | none => failure
      | some ops => pure (fmt (decide (logValid (logSpecOf cls n k))) (logCase (logSpecOf cls n k) ops))
  | "b_gfilter" => some do
      let hasExo ← bool; let fn ← nat; let K ← nat; let hm ← nat; let steps ← nat; let n ← nat
      let raw ← listOf n (do let w ← nat; let b ← bool; pure (w, b))
      done
      match raw.mapM (fun (p : Nat × Bool) => (SkipWhat.ofNat? p.1).map (fun w => (w, p.2))) with
      | none => failure
      | some cmds => pure (fmt (decide (gfValid fn K hm)) (gfCase hasExo fn K hm cmds steps))
  | "b_pfilter" => some do
      let hasExo ← bool; let N ← nat; let lin ← nat; let circ ← nat; let d ← dim; let nx ← nat; let ny ← nat; let hm ← nat
      let steps ← nat; let n ← nat
      let raw ← listOf n (do let w ← nat; let b ← bool; pure (w, b))
      done
      match raw.mapM (fun (p : Nat × Bool) => (SkipWhat.ofNat? p.1).map (fun w => (w, p.2))) with
      | none => failure
      | some cmds => pure (fmt (decide (sisValid N lin circ d hm)) (pfCase hasExo N lin circ d nx ny hm cmds steps (fun _ => true) (fun _ _ => true)))
  | "b_likq" => some do
      let kind ← nat; let reduced ← bool; let sub ← nat; let m1 ← nat; let m2 ← nat; let how ← nat; let K ← nat; done
      match LikQHow.ofNat? how with
      | none => failure
      | some h => if kind > 3 then failure else pure (fmt (decide (likqValid kind sub m1 m2 K)) (likqCase kind reduced sub m1 m2 h K))
  | "b_defaults" => some do
      let which ← nat; let fn ← nat; let sr ← nat; let N ← nat; done
      pure (fmt (decide (defaultsValid which fn sr)) (defaultsCase which fn sr N))
  | "b_linprop" => some do
      let fn ← nat; let sr ← nat; let num ← nat; let pr ← nat; let pc ← nat; let sS ← bool; let hE ← bool; let sE ← bool; done
      if fn = 0 then pure (fmt false (pure none))
      else pure (fmt (decide (linpropValid fn sr num pr pc)) (linpropCase fn sr num pr pc sS hE sE))
  | "b_kfp" => some do
      let K ← nat; let I ← layout3; let pK ← nat; let P ← layout3; let fn ← nat; let sm ← nat; let exo ← bool; let alias ← bool; done
      match SkipMode.ofNat? sm with
      | none => failure
      | some m => pure (fmt (decide (kfpValid I K P pK fn m exo alias)) (kfpCase I K P pK fn m exo alias))
  | "b_ukfp" => some do
      let kind ← nat; let K ← nat; let I ← layout3; let n ← nat; let qn ← nat; let D ← layout3; let inoise ← nat; let skip ← bool; done
      pure (fmt (decide (ukfpValid (kind != 0) I K n qn D inoise)) (ukfpCase (kind != 0) I K n qn D inoise skip))
  | "b_gpfp" => some do
      let K ← nat; let I ← layout3; let pK ← nat; let P ← layout3; let fn ← nat; done
      pure (fmt (decide (gpfpValid I K P pK fn)) (gpfpCase I K P pK fn))
  | "b_draw" => some do
      let d ← dim; let N ← nat; let I ← layout3; let pN ← nat; let P ← layout3; let exo ← bool; done
      pure (fmt (decide (drawValid d I N P pN)) (drawCase d I N P pN exo))
  | "b_glik" => some do
      let N ← nat; let sr ← nat; let M ← mmod; done
      pure (fmt (decide (glikValid M)) (glikCase N sr M))
  | "b_boot" => some do
      let N ← nat; let I ← layout3; let _cN ← nat; let _C ← layout3; let _alias ← bool; let M ← mmod; done
      pure (fmt (decide (bootValid I M)) (bootCase I N M))
  | "b_gpfc" => some do
      let d ← dim; let N ← nat; let cN ← nat; let hm ← nat; let ysize ← nat; let mv ← bool; let alias ← bool; done
      let cN' := if alias then N else cN
      pure (fmt (decide (gpfcValid N cN' hm ysize)) (gpfcCase d N cN' hm ysize mv))
  | "b_sis" => some do
      let N ← nat; let lin ← nat; let circ ← nat; let d ← dim; let nx ← nat; let ny ← nat; let hm ← nat; let steps ← nat; done
      pure (fmt (decide (sisValid N lin circ d hm)) (sisCase N lin circ d nx ny hm steps (fun _ => true) (fun _ _ => true)))
  | "b_kfc" => some do
      let K ← nat; let I ← layout3; let cK ← nat; let C ← layout3
      let hm ← nat; let hn ← nat; let ysize ← nat; let mv ← bool; done
      pure (fmt (decide (kfValid I K C cK hm hn ysize)) (kfCase I K C cK hm hn ysize mv))
  | "b_gmacc" => some do
      let K ← nat; let L ← layout4; let which ← tok; let i ← nat; let j ← nat; let k ← nat; done
      pure (fmt (decide (gmaccValid K L which i j k)) (gmaccCase K L which i j k))
  | "b_psacc" => some do
      let K ← nat; let L ← layout3; let which ← tok; let i ← nat; let j ← nat; done
      pure (fmt (decide (psaccValid K L which i j)) (psaccCase K L which i j))
  | "b_gmaug" => some do
      let K ← nat; let L ← layout3; let r1 ← nat; let c1 ← nat; let r2 ← nat; let c2 ← nat; done
      pure (fmt (decide (gmaugValid K)) (gmaugCase K L ⟨r1, c1⟩ ⟨r2, c2⟩))
  | "b_gmresize" => some do
      let K ← nat; let L ← layout4; let K2 ← nat; let dl2 ← nat; let dc2 ← nat; done
      pure (fmt (decide (gmresizeValid K L)) (gmresizeCase K L K2 dl2 dc2))
  | "b_psresize" => some do
      let K ← nat; let L ← layout3; let K2 ← nat; let dl2 ← nat; let dc2 ← nat; done
      pure (fmt true (psresizeCase K L K2 dl2 dc2))
  | "b_psadd" => some do
      let K1 ← nat; let L1 ← layout3; let K2 ← nat; let L2 ← layout3; done
      pure (fmt (decide (psaddValid L1 L2)) (psaddCase K1 L1 K2 L2))
  | "b_rs" => some do
      let N ← nat; let I ← layout3; let rN ← nat; let Rl ← layout3; let plen ← nat; let prof ← nat; done
      pure (fmt (decide (rsValid N I rN Rl plen)) (rsCase N I rN Rl plen (weightOracle prof)))
  | "b_rwp" => some do
      let N ← nat; let rnum ← nat; let rden ← nat; let I ← layout3; let nx ← nat; let ny ← nat; let plen ← nat; let prof ← nat; done
      -- ResamplingWithPrior normalises the weights of the subset it resamples (log_sum_exp): worst-case comparisons
      pure (fmt (decide (rwpValid N rnum rden I plen)) (rwpCase N rnum rden I nx ny plen (weightOracle (if prof = 8 then 8 else 2))))
  | "b_ee" => some do
      let ls ← nat; let cs ← nat; let m ← nat; let full ← bool
      let prow ← nat; let pcol ← nat; let wlen ← nat; let pwlen ← nat; let llen ← nat; let tpr ← nat; let tpc ← nat
      let reps ← nat; let window ← nat; done
      match EMethod.ofNat? m with
      | none => failure
      | some em =>
        let a : EEArgs := ⟨⟨prow, pcol⟩, wlen, pwlen, llen, ⟨tpr, tpc⟩⟩
        pure (fmt (decide (eeValid ls cs full a)) (eeCase ls cs em full a reps window))
  | "b_eefn" => some do
      let ls ← nat; let cs ← nat; let fn ← tok
      let prow ← nat; let pcol ← nat; let wlen ← nat; let llen ← nat; let tpr ← nat; let tpc ← nat; done
      let a : EEArgs := ⟨⟨prow, pcol⟩, wlen, wlen, llen, ⟨tpr, tpc⟩⟩
      pure (fmt (decide (eeValid ls cs (fn == "map") a)) (eefnCase ls cs fn ⟨prow, pcol⟩ wlen llen ⟨tpr, tpc⟩))
  | "b_gpfmove" => some do
      let mode ← nat; let n ← nat; done
      pure (fmt true (gpfMoveCase mode n))
  | "b_gpfsample" => some do
      let m ← nat; let c ← nat; done
      pure (fmt (decide (gpfSampleValid m c)) (gpfSampleCase m c))
  | _ => none

def handle (op : String) (args : List String) : Option String :=
  match handleR op with
  | none => none
  | some p => some ((run p args).getD "bad-args")

end BFL.DriverBounds
