#!/usr/bin/env python3
"""Measure how much of /repo's library source the correspondence runs drive (line / branch / function
coverage of src/BayesFilters under the harnesses of the registered checks).

    python3 tools/tiecov.py [--tier quick|thorough] [C01 C07 ...]

Builds the library and every harness with --coverage (vlib kind "cov", selected by BFL_TIECOV=1), runs the
checks (their evidence goes to build/cov/evidence, not to evidence/), then summarises with gcovr:
design-notes/tie-coverage.md (per file: lines, branches, functions; the functions never entered and the
line ranges never executed) and design-notes/tie-coverage.json.  A line the harnesses never execute is
code whose behaviour no correspondence run compares with the model: the theorems say nothing about it.
This is a measurement used to direct the growth of the model; it is not itself a check."""
import json, os, subprocess, sys, time, glob
V = os.path.dirname(os.path.dirname(os.path.abspath(__file__)))
sys.path.insert(0, V)
os.environ["BFL_TIECOV"] = "1"
import vlib


def ranges(ns):
    out, ns = [], sorted(ns)
    i = 0
    while i < len(ns):
        j = i
        while j + 1 < len(ns) and ns[j + 1] <= ns[j] + 1:
            j += 1
        out.append(str(ns[i]) if i == j else "%d-%d" % (ns[i], ns[j]))
        i = j + 1
    return out


def main():
    args = [a for a in sys.argv[1:] if a != "--summarise-only"]
    tier = "quick"
    if "--tier" in args:
        i = args.index("--tier"); tier = args[i + 1]; del args[i:i + 2]
    man = json.load(open(os.path.join(V, "MANIFEST.json")))
    props = args or [c["property_id"] for c in man["checks"]]
    cov = vlib.BUILD / "cov"
    if not args and "--summarise-only" not in sys.argv:
        for f in glob.glob(str(cov / "**" / "*.gcda"), recursive=True):
            os.remove(f)
    runs = {}
    if "--summarise-only" in sys.argv:
        props_run = []
    else:
        props_run = props
    for p in props_run:
        t = time.time()
        r = subprocess.run([sys.executable, "check.py", p, "--tier", tier], cwd=V, stdout=subprocess.PIPE, stderr=subprocess.STDOUT, text=True)
        last = [l for l in r.stdout.strip().split("\n") if l.startswith(("PASS", "FAIL"))]
        runs[p] = {"rc": r.returncode, "wall_s": round(time.time() - t), "last": last[-1] if last else ""}
        print(p, runs[p], flush=True)
    repo = str(vlib.REPO)
    out = str(cov / "gcovr.json")
    cmd = ["gcovr", "-r", repo, "--object-directory", str(cov), str(cov), "-f", repo + "/src/BayesFilters/",
           "--json", out, "--exclude-unreachable-branches", "--exclude-throw-branches", "-j", "8", "--gcov-ignore-parse-errors"]
    r = subprocess.run(cmd, stdout=subprocess.PIPE, stderr=subprocess.STDOUT, text=True)
    if r.returncode != 0:
        print(r.stdout[-3000:]); return 1
    data = json.load(open(out))
    rows, total = [], [0, 0, 0, 0]
    summary = {}
    for f in sorted(data["files"], key=lambda x: x["file"]):
        name = f["file"].replace("src/BayesFilters/", "")
        lines = [l for l in f["lines"] if not l.get("gcovr/noncode") and not l.get("gcovr/excluded")]
        nl = len(lines); hl = sum(1 for l in lines if l["count"] > 0)
        nb = sum(len(l.get("branches", [])) for l in lines); hb = sum(1 for l in lines for b in l.get("branches", []) if b["count"] > 0)
        miss = [l["line_number"] for l in lines if l["count"] == 0]
        fmiss = sorted(set(fn.get("name", "?") for fn in f.get("functions", []) if fn.get("execution_count", 0) == 0))
        total[0] += nl; total[1] += hl; total[2] += nb; total[3] += hb
        summary[name] = {"lines": nl, "lines_hit": hl, "branches": nb, "branches_hit": hb, "lines_never_executed": ranges(miss), "functions_never_entered": fmiss}
        rows.append("| `%s` | %d/%d | %d/%d | %s | %s |" % (name, hl, nl, hb, nb, " ".join(ranges(miss))[:160] or "—", "; ".join(x[:70] for x in fmiss)[:300] or "—"))
    head = vlib.sh(["git", "-C", repo, "rev-parse", "--short", "HEAD"])[1].strip()
    md = ["# Tie coverage: which library source lines the correspondence runs execute", "",
          "Written by `python3 tools/tiecov.py` (tier %s, /repo at %s, seed %s). %d/%d lines (%.1f %%), %d/%d branches (%.1f %%) of `src/BayesFilters` "
          "are executed by the harnesses of the %d checks run (%s). Lines never executed are outside every correspondence run: nothing proved about the model is tied to them."
          % (tier, head, os.environ.get("VERIF_SEED", "0"), total[1], total[0], 100.0 * total[1] / max(1, total[0]), total[3], total[2], 100.0 * total[3] / max(1, total[2]), len(props), " ".join(props)),
          "", "| file | lines hit | branches hit | lines never executed | functions never entered |", "|---|---|---|---|---|"] + rows
    open(os.path.join(V, "design-notes", "tie-coverage.md"), "w").write("\n".join(md) + "\n")
    json.dump({"tier": tier, "repo_head": head, "runs": runs, "total": {"lines": total[0], "lines_hit": total[1], "branches": total[2], "branches_hit": total[3]}, "files": summary},
              open(os.path.join(V, "design-notes", "tie-coverage.json"), "w"), indent=1)
    print("lines %d/%d branches %d/%d" % (total[1], total[0], total[3], total[2]))
    return 0


if __name__ == "__main__":
    sys.exit(main())
