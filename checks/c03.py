"""C03 — The unscented transform preserves moments and is exact for affine maps.

Stages: proof audit; weights (unscented_weights vs utWeights in Q); sigma points (sigma_point() on mixtures of
all layouts, also after augmentWithNoise: factor recovered from the C++ columns, contract B B^T = c P, +/- symmetry,
first column = mean); transform (generic overload and the four model overloads with harness-defined affine
models: C++ vs the Lean model run in Q on the C++'s own factor, C++ vs the closed forms A m + b, A P A^T (+noise),
P A^T computed here in Fractions; failed evaluation => flag false); circular / quaternion layouts (Float model).

Only observables the property speaks about raise alarms (weights, sigma points, means, covariances,
cross-covariances, the validity flag).  Everything else the model happens to fix (weights of the output mixture,
number of evaluation calls, input left untouched, content returned next to a false flag) is counted in the
evidence only."""
import math
from fractions import Fraction

import vlib
from vlib import hexd, frac, frac_of_hex, unhex

EPS = 2.0 ** -52
F0 = Fraction(0)

# margin constants (calibrated: see design-notes/C03.md, "tolerances"; `numeric` in the evidence reports the
# largest observed error / tolerance ratio of every class on each run)
C_W = 4.0        # weights
C_SQRT = 256.0    # square-root contract: |B B^T - c P| <= C_SQRT * n * eps * c * ||P||
C_UT = 4.0       # moments


# ------------------------------------------------------------------------------------------------ replay registry

REG = {}   # input line -> (stage, JSON-able snapshot of the case description), filled when the cases are created
HCACHE = {}   # input line -> harness output, filled by one interleaved run of all stages' cases in a single process


def nonfinite_count(h):
    """number of doubles in a harness output line that are NaN or +-inf (16-hex-digit tokens with all exponent bits set)"""
    cnt = 0
    for tok in h.split():
        if len(tok) == 16:
            try:
                if (int(tok, 16) >> 52) & 0x7ff == 0x7ff:
                    cnt += 1
            except ValueError:
                pass
    return cnt


def run_h(binary, lines):
    """outputs of the harness for `lines`: from the interleaved run when available"""
    if lines and all(l in HCACHE for l in lines):
        return [HCACHE[l] for l in lines], {}
    return vlib.run_harness(binary, lines)


def snap(meta):
    """JSON-able deep copy of a case description (layouts as tagged lists; derived, non-serialisable entries dropped)"""
    import json
    if isinstance(meta, Lay):
        return {"__lay__": [meta.lin, meta.circ, meta.quat, meta.noise]}
    if isinstance(meta, dict):
        out = {}
        for k, v in meta.items():
            try:
                out[k] = snap(v)
                json.dumps(out[k])
            except TypeError:
                out.pop(k, None)
        return out
    if isinstance(meta, (list, tuple)):
        return [snap(v) for v in meta]
    return meta


def unsnap(x):
    if isinstance(x, dict):
        if "__lay__" in x:
            return Lay(*x["__lay__"])
        return {k: unsnap(v) for k, v in x.items()}
    if isinstance(x, list):
        return [unsnap(v) for v in x]
    return x


def register(stage, cases):
    for line, meta in cases:
        REG[line] = (stage, snap(meta))


# ------------------------------------------------------------------------------------------------ small helpers

def fr(x):
    return Fraction(x)


def fstr(q):
    q = Fraction(q)
    return "%d/%d" % (q.numerator, q.denominator)


def fmat(M):
    return [[Fraction(x) for x in row] for row in M]


def cm_tokens(M, conv=hexd):
    """row-list matrix -> column-major tokens"""
    r = len(M)
    c = len(M[0]) if r else 0
    return [conv(M[i][j]) for j in range(c) for i in range(r)]


def blockdiag(P, Q):
    n, z = len(P), len(Q)
    M = [[F0] * (n + z) for _ in range(n + z)]
    for i in range(n):
        for j in range(n):
            M[i][j] = Fraction(P[i][j])
    for i in range(z):
        for j in range(z):
            M[n + i][n + j] = Fraction(Q[i][j])
    return M


def maxabs(M):
    return max((abs(float(x)) for row in M for x in row), default=0.0)


def weights_frac(n, a, b, k):
    """exact weights, computed here independently of the Lean model"""
    a, b, k = Fraction(a), Fraction(b), Fraction(k)
    lam = a * a * (n + k) - n
    c = n + lam
    wm0 = lam / c
    wc0 = lam / c + (1 - a * a + b)
    wj = 1 / (2 * c)
    return [wm0] + [wj] * (2 * n), [wc0] + [wj] * (2 * n), c


def weight_tols(n, a, b, k):
    """absolute error bounds of the double-precision weights (see design notes): lambda = a^2 (n+k) - n suffers
    cancellation, c = n + lambda again; everything else is a handful of roundings."""
    a, b, k = float(a), float(b), float(k)
    lam = a * a * (n + k) - n
    c = n + lam
    dlam = 4 * EPS * (a * a * (n + k) + n)
    dc = dlam + EPS * abs(c)
    wm0 = lam / c
    wj = 1 / (2 * c)
    wc0 = wm0 + (1 - a * a + b)
    t_wm0 = (dlam + abs(wm0) * dc) / abs(c) + 2 * EPS * abs(wm0)
    t_wj = abs(wj) * (dc / abs(c) + 3 * EPS)
    t_wc0 = t_wm0 + 4 * EPS * (1 + a * a + b) + EPS * abs(wc0)
    return ([C_W * t_wm0] + [C_W * t_wj] * (2 * n), [C_W * t_wc0] + [C_W * t_wj] * (2 * n), C_W * dc)


def rnd_params(g, n, tiny=True):
    """alpha in [0.1, 2] (the property's range) and, unless tiny=False, now and then a much smaller alpha
    (1e-3, 1e-2: n + lambda = alpha^2 (n + kappa) is still positive, the central weight is of order -1e6)"""
    r = g.r
    alpha = r.choice([0.1, 0.1, 0.5, 1.0, 2.0, 0.25, r.uniform(0.1, 2.0), r.uniform(0.1, 2.0), r.uniform(0.1, 0.3)])
    if tiny and r.random() < 0.06:
        alpha = r.choice([1e-3, 1e-2, 0.03])
    beta = r.choice([0.0, 2.0, 2.0, r.uniform(0.0, 4.0)])
    kappa = r.choice([0.0, 0.0, 1.0, max(0.0, 3.0 - n), r.uniform(0.0, 5.0)])
    return alpha, beta, kappa


def rnd_psd(g, n, style):
    """PSD covariance: prescribed spectrum (cond <= 1e6), singular (rank < n), exactly representable dyadic,
    exactly singular dyadic, diagonal, zero."""
    r = g.r
    if n == 0:
        return []
    if style == "dyadic":
        return g.spd_dyadic(n)
    if style == "dyadic-singular":
        rk = r.randint(0, max(0, n - 1))
        B = [[g.dyadic(-2, 2, 3) if j < rk else 0.0 for j in range(n)] for _ in range(n)]
        return vlib.mmul(B, vlib.mT(B))
    if style == "singular":
        return g.spd(n, rank=r.randint(0, max(0, n - 1)))
    if style == "diag":
        d = [10 ** r.uniform(-2, 2) for _ in range(n)]
        return [[d[i] if i == j else 0.0 for j in range(n)] for i in range(n)]
    if style == "zero":
        return [[0.0] * n for _ in range(n)]
    return g.spd(n)


PSD_STYLES = ["full", "full", "full", "dyadic", "singular", "dyadic-singular", "diag", "zero"]


def neardup_diag(g, n, k):
    """k diagonal covariances (and per-dimension magnitudes) in which consecutive components share one dominant
    variance exactly and differ only in variances 2^-44 .. 2^-70 times smaller: the components are distinct, yet
    equal under any comparison that is relative to the norm of the whole matrix (Eigen's isApprox: 1e-12).  A
    square root computed for one component is not a square root for the next."""
    r = g.r
    big = 2.0 ** r.randint(-4, 40)
    ib = r.randrange(n)
    base = [big if a == ib else big * 2.0 ** -r.randint(44, 70) * r.choice([1.0, 1.5, 0.75]) for a in range(n)]
    out, cur = [], base
    for i in range(k):
        if i:
            cur = [v if a == ib else v * r.choice([0.25, 0.5, 2.0, 4.0, 3.0, 1.0]) for a, v in enumerate(cur)]
            if cur == out[-1] and n > 1:
                a = (ib + 1) % n
                cur = list(cur); cur[a] *= 4.0
        out.append(cur)
    Ps = [[[dv[a] if a == b else 0.0 for b in range(n)] for a in range(n)] for dv in out]
    d = [base[a] ** 0.5 for a in range(n)]
    return Ps, d, ib


def rnd_scales(g, n):
    """per-dimension magnitudes (powers of two, so that exactly representable inputs stay exact): all ones (most
    cases), one tiny / huge overall scale, or mixed scales per dimension"""
    r = g.r
    kind = r.choice(["unit"] * 6 + ["tiny", "small", "large", "huge", "mixed", "mixed"])
    if kind == "unit":
        return kind, [1.0] * n
    if kind == "mixed":
        return kind, [2.0 ** r.randint(-14, 14) for _ in range(n)]
    e = {"tiny": -27, "small": -13, "large": 10, "huge": 23}[kind]
    return kind, [2.0 ** e] * n


def scale_cov(P, d):
    return [[P[i][j] * d[i] * d[j] for j in range(len(P))] for i in range(len(P))]


# ------------------------------------------------------------------------------------------------ weights stage

def weights_stage(ctx, binary, stats, hist, only=None):
    g = ctx.gen("weights")
    r = g.r
    cases = []
    fixed = [(4, 1.0, 2.0, 0.0), (1, 0.1, 0.0, 0.0), (1, 2.0, 0.0, 0.0), (3, 1.0, 2.0, 0.0), (2, 0.1, 2.0, 1.0), (12, 0.1, 2.0, 0.0)]
    for (n, a, b, k) in fixed:
        cases.append(("utw", n, a, b, k, None))
    N = ctx.n(60, 1500)
    for _ in range(N):
        n = r.randint(1, 12 if ctx.quick() else 40)
        a, b, k = rnd_params(g, n)
        if r.random() < 0.3:
            lin, circ, noise, quat = r.randint(0, 4), r.randint(0, 2), r.randint(0, 3), r.random() < 0.5
            if lin + circ + noise == 0:
                lin = 1
            cases.append(("utwd", (lin, circ, noise, quat), a, b, k, None))
        else:
            cases.append(("utw", n, a, b, k, None))
    if only is not None:
        cases = [tuple(c[1]["case"]) for c in only]
        cases = [(c[0], tuple(c[1]) if isinstance(c[1], list) else c[1], c[2], c[3], c[4], None) for c in cases]
    lines = []
    for op, n, a, b, k, _ in cases:
        if op == "utw":
            lines.append("utw %d %s %s %s" % (n, hexd(a), hexd(b), hexd(k)))
        else:
            lin, circ, noise, quat = n
            lines.append("utwd %d %d %d %d %s %s %s" % (lin, circ, noise, 1 if quat else 0, hexd(a), hexd(b), hexd(k)))
    register("weights", [(l, {"case": list(c[:5])}) for l, c in zip(lines, cases)])
    hout, logs = run_h(binary, lines)
    dout = vlib.run_driver([("utwl" + l[4:]) if l.startswith("utwd ") else l for l in lines])   # utwl: BFL.UTWeight.ofLayout
    prop_bad, corr_bad = [], []
    for (op, nn, a, b, k, _), line, h, d in zip(cases, lines, hout, dout):
        hist["weights:" + op] = hist.get("weights:" + op, 0) + 1
        if not h.startswith("ok"):
            prop_bad.append(("weights-crash", "unscented_weights failed on valid parameters: %s" % h[:80], line, h))
            continue
        if not d.startswith("ok"):
            corr_bad.append(("weights-model-undefined", "model undefined: %s" % d[:40], line, h))
            continue
        ht, dt = h.split()[1:], d.split()[1:]
        if op == "utwd":
            lin, circ, noise, quat = nn
            dof_spec = lin + circ * (3 if quat else 1) + noise
            if int(ht[0]) != dof_spec:
                prop_bad.append(("dof-wrong", "dof_size() = %s for layout %s, expected %d (a quaternion counts 3)" % (ht[0], nn, dof_spec), line, h))
                continue
            if int(dt[0]) != dof_spec:
                corr_bad.append(("dof-model", "model dof %s != %d" % (dt[0], dof_spec), line, h))
            n = dof_spec
            ht, dt = ht[1:], dt[1:]
            hist["weights:dof:%s" % ("quat" if quat else "euler")] = hist.get("weights:dof:%s" % ("quat" if quat else "euler"), 0) + 1
        else:
            n = nn
        N1 = 2 * n + 1
        if len(ht) != 2 * N1 + 1:
            prop_bad.append(("weights-shape", "weight vectors have %d entries, expected %d" % (len(ht), 2 * N1 + 1), line, h))
            continue
        cwm = [unhex(x) for x in ht[:N1]]
        cwc = [unhex(x) for x in ht[N1:2 * N1]]
        cc = unhex(ht[2 * N1])
        mwm = [frac(x) for x in dt[:N1]]
        mwc = [frac(x) for x in dt[N1:2 * N1]]
        mc = frac(dt[2 * N1])
        swm, swc, sc = weights_frac(n, a, b, k)
        if mwm != swm or mwc != swc or mc != sc:
            corr_bad.append(("weights-model-vs-spec", "Lean utWeights differs from the closed form computed here", line, h))
        if sum(mwm) != 1:
            corr_bad.append(("weights-theorem-instance", "model weights do not sum to one exactly", line, h))
        twm, twc, tc = weight_tols(n, a, b, k)
        bad = None
        for j in range(N1):
            e1 = abs(Fraction(cwm[j]) - swm[j])
            e2 = abs(Fraction(cwc[j]) - swc[j])
            stats["w_mean"] = max(stats.get("w_mean", 0.0), float(e1) / twm[j])
            stats["w_cov"] = max(stats.get("w_cov", 0.0), float(e2) / twc[j])
            if e1 > twm[j] and bad is None:
                bad = "mean weight %d = %.17g, expected %.17g" % (j, cwm[j], float(swm[j]))
            if e2 > twc[j] and bad is None:
                bad = "covariance weight %d = %.17g, expected %.17g" % (j, cwc[j], float(swc[j]))
        ec = abs(Fraction(cc) - sc)
        stats["w_c"] = max(stats.get("w_c", 0.0), float(ec) / tc)
        if ec > tc and bad is None:
            bad = "c = %.17g, expected n + lambda = %.17g" % (cc, float(sc))
        ssum = abs(sum(Fraction(x) for x in cwm) - 1)
        if ssum > sum(twm) and bad is None:
            bad = "mean weights sum to %.17g, not 1" % float(sum(Fraction(x) for x in cwm))
        if bad:
            prop_bad.append(("weights-wrong", "n=%d alpha=%g beta=%g kappa=%g: %s" % (n, a, b, k, bad), line, h))
    return len(cases), lines, prop_bad, corr_bad, len(logs)


# ------------------------------------------------------------------------------------------------ sigma points

def recover_factor(X, mean, n, comp):
    """B from the C++ columns of component `comp`: B_l = (X_{1+l} - X_{1+n+l}) / 2, exactly; also the centre
    column and the asymmetry (X_{1+l} + X_{1+n+l}) / 2 - mean."""
    base = (2 * n + 1) * comp
    rows = len(X)
    B = [[(X[r][base + 1 + l] - X[r][base + 1 + n + l]) / 2 for l in range(n)] for r in range(rows)]
    asym = [[(X[r][base + 1 + l] + X[r][base + 1 + n + l]) / 2 - mean[r] for l in range(n)] for r in range(rows)]
    centre = [X[r][base] - mean[r] for r in range(rows)]
    return B, asym, centre


def check_points_linear(X, means, covs, c, n, k, stats, what, dc=0.0):
    """Predicates on the sigma points of a linear (+noise) layout: first column = mean, +/- symmetry,
    B B^T = c P.  X, means, covs exact (Fractions); dc: error bound of the c the implementation used (its
    n + lambda suffers cancellation for small alpha).  Returns (problems, factors)."""
    probs, Bs = [], []
    for i in range(k):
        m = means[i]
        B, asym, centre = recover_factor(X, m, n, i)
        Bs.append(B)
        mscale = max([abs(float(v)) for v in m] + [0.0])
        bscale = maxabs(B)
        # row by row (a mean whose rows differ by many orders of magnitude: an error in a small row must not hide
        # behind the largest one)
        rows_ = len(X)
        e0 = t0 = ea = ta = 0.0
        w0 = wa = 0.0
        for r_ in range(rows_):
            mr_ = abs(float(m[r_]))
            br_ = max([abs(float(v)) for v in B[r_]] + [0.0])
            e0r, t0r = abs(float(centre[r_])), 4 * EPS * mr_ + 1e-300
            ear, tar = max([abs(float(v)) for v in asym[r_]] + [0.0]), 8 * EPS * (mr_ + br_) + 1e-300
            if e0r / t0r >= w0:
                w0, e0, t0 = e0r / t0r, e0r, t0r
            if ear / tar >= wa:
                wa, ea, ta = ear / tar, ear, tar
        stats["sp_first"] = max(stats.get("sp_first", 0.0), w0)
        if w0 > 1.0:
            probs.append(("first-not-mean", "%s component %d: first sigma point differs from the mean by %.3g (tolerance %.3g, row by row)" % (what, i, e0, t0)))
        stats["sp_symmetry"] = max(stats.get("sp_symmetry", 0.0), wa)
        if wa > 1.0:
            probs.append(("points-asymmetric", "%s component %d: columns 1+l and 1+n+l are not symmetric about the mean (%.3g, tolerance %.3g, row by row)" % (what, i, ea, ta)))
        BBt = vlib.mmul(B, vlib.mT(B))
        P = covs[i]
        pn = max(n * maxabs(P), 1e-300)
        cf = float(c)
        # the scale of the factor: what was recovered from the columns or, where the mean is so large that the
        # perturbation is (partly) lost in fl(m + B), what the contract says it is
        bscale = max(bscale, math.sqrt(abs(cf) * maxabs(P)))
        res = max([abs(float(BBt[a][b] - c * P[a][b])) for a in range(n) for b in range(n)] + [0.0])
        # the columns themselves are rounded (X = fl(m + B)): the recovered factor carries eps (|m| + |B|) per entry
        tol = C_SQRT * n * EPS * abs(cf) * pn + 16 * n * EPS * bscale * (mscale + bscale) + dc * pn + 1e-300
        stats["sp_contract"] = max(stats.get("sp_contract", 0.0), res / tol)
        if res > tol:
            probs.append(("sqrt-contract", "%s component %d: B B^T differs from c P by %.3g (tolerance %.3g, c = %.6g, ||P|| = %.3g): the columns are not a square root of c P" % (what, i, res, tol, cf, pn)))
        elif n >= 2 and all(P[a][b] == 0 for a in range(n) for b in range(n) if a != b):
            # A diagonal covariance decouples: every factorisation (SVD, eigen, Cholesky, LDL^T) leaves the
            # coordinates separate, so the contract holds entry by entry, relative to sqrt(P_aa P_bb) -- not only
            # relative to the largest variance.
            sd = [math.sqrt(float(P[a][a])) for a in range(n)]
            mr = [abs(float(m[a])) for a in range(n)]
            br = [max([abs(float(v)) for v in B[a]] + [math.sqrt(abs(cf)) * sd[a]]) for a in range(n)]
            worst = 0.0
            for a in range(n):
                for b in range(n):
                    t_ab = (C_SQRT * n * EPS * abs(cf) + dc) * sd[a] * sd[b] + 16 * n * EPS * (br[a] * (mr[b] + br[b]) + br[b] * (mr[a] + br[a])) + 1e-300
                    e_ab = abs(float(BBt[a][b] - c * P[a][b]))
                    if e_ab / t_ab > worst:
                        worst, wa, wb, we, wt = e_ab / t_ab, a, b, e_ab, t_ab
            stats["sp_contract_diag"] = max(stats.get("sp_contract_diag", 0.0), worst)
            if worst > 1.0:
                probs.append(("sqrt-contract", "%s component %d (diagonal covariance): (B B^T)[%d][%d] differs from c P[%d][%d] = %.6g by %.3g (tolerance %.3g relative to sqrt(P_aa P_bb)): the columns are not a square root of c P" % (what, i, wa, wb, wa, wb, float(c * P[wa][wb]), we, wt)))
    return probs, Bs


def sp_case(g, tier):
    r = g.r
    lin = r.randint(1, 5)
    k = r.choice([1, 2, 3, 4, 2, 3, 5, 6, 7])
    naug = r.choice([0, 0, 1, 1, 2, 2, 3, 4])
    nzs = [r.randint(1, 3) for _ in range(naug)]
    if k >= 5 and naug >= 3:
        lin = min(lin, 3)
    n0 = lin
    alpha, beta, kappa = rnd_params(g, n0 + sum(nzs))
    n = n0 + sum(nzs)
    c = float(Fraction(alpha) ** 2 * (n + Fraction(kappa)))
    style = r.choice(PSD_STYLES)
    skind, d = rnd_scales(g, n0)
    Ps = [scale_cov(rnd_psd(g, n0, style), d) for _ in range(k)]
    if n0 >= 2 and r.random() < 0.12:
        k = max(k, r.choice([2, 3]))
        style, skind = "neardup-diag", "neardup"
        Ps, d, _ib = neardup_diag(g, n0, k)
    means = [[v * d[i] for i, v in enumerate(g.vec(n0))] for _ in range(k)]
    if style == "neardup-diag" and r.random() < 0.5:
        means = [list(means[0]) for _ in range(k)]
    elif r.random() < 0.10:
        # means far from the origin relative to the spread (|m| / sigma = 2^18 .. 2^30), in some or all rows
        skind = skind + "+far-mean"
        rows = [a for a in range(n0) if r.random() < 0.6] or [r.randrange(n0)]
        e = r.randint(18, 30)
        means = [[(v + (r.choice([-1.0, 1.0]) * 2.0 ** e * r.uniform(1.0, 2.0) * d[a] if a in rows else 0.0)) for a, v in enumerate(m_)] for m_ in means]
    Qs = []
    for z in nzs:
        _, dz = rnd_scales(g, z)
        Qs.append(scale_cov(rnd_psd(g, z, r.choice(PSD_STYLES)), dz))
    meta = {"lin": lin, "k": k, "nzs": nzs, "c": c, "style": style, "scale": skind, "means": means, "Ps": Ps, "Qs": Qs}
    return sp_line(meta), meta


def sp_line(meta):
    lin, k, nzs = meta["lin"], meta["k"], meta["nzs"]
    toks = ["sp", str(lin), "0", "0", str(k), str(len(nzs))] + [str(z) for z in nzs] + [hexd(meta["c"])]
    toks += [hexd(meta["means"][i][j]) for i in range(k) for j in range(lin)]
    toks += [hexd(meta["Ps"][i][a][b]) for i in range(k) for b in range(lin) for a in range(lin)]
    for Q in meta["Qs"]:
        toks += cm_tokens(Q)
    return " ".join(toks)


def points_stage(ctx, binary, stats, hist, only=None):
    g = ctx.gen("points")
    N = ctx.n(70, 2500)
    cases = [sp_case(g, ctx.tier) for _ in range(N)] if only is None else only
    register("points", cases)
    lines = [c[0] for c in cases]
    hout, logs = run_h(binary, lines)
    # model of augmentWithNoise, applied once per augmentation
    aug_lines, aug_idx = [], []
    for ci, (line, meta) in enumerate(cases):
        n0, k = meta["lin"], meta["k"]
        means = fmat(meta["means"])
        covs = [fmat(P) for P in meta["Ps"]]
        cur_n = n0
        for Q in meta["Qs"]:
            z = len(Q)
            toks = ["aug", str(cur_n), str(z), str(k)]
            toks += [fstr(means[i][j]) for i in range(k) for j in range(cur_n)]
            toks += [fstr(covs[i][a][b]) for i in range(k) for b in range(cur_n) for a in range(cur_n)]
            toks += cm_tokens(Q, fstr)
            aug_lines.append(" ".join(toks))
            aug_idx.append(ci)
            # the specification of the augmentation, computed here
            means = [m + [F0] * z for m in means]
            covs = [blockdiag(P, Q) for P in covs]
            cur_n += z
        meta["aug_means"], meta["aug_covs"], meta["n"] = means, covs, cur_n
    aout = vlib.run_driver(aug_lines)
    # storage-level model (BFL.augmentStore: in-place relocation of the blocks, last component first) on the same
    # inputs, the same loop in ascending order (executed counterexample), and the history model (AnyGM.augmentAll)
    st_lines, st_meta, hist_lines, hist_idx = [], [], [], []
    for ci, (line, meta) in enumerate(cases):
        n0, k = meta["lin"], meta["k"]
        covs = [fmat(P) for P in meta["Ps"]]
        cur_n = n0
        for qi, Q in enumerate(meta["Qs"]):
            z = len(Q)
            toks = [str(cur_n), str(z), str(k)] + [fstr(covs[i][a][b]) for i in range(k) for b in range(cur_n) for a in range(cur_n)] + cm_tokens(Q, fstr)
            covs = [blockdiag(P, Q) for P in covs]
            cur_n += z
            st_lines.append("augst " + " ".join(toks))
            st_meta.append((ci, "desc", covs, cur_n, k, qi == len(meta["Qs"]) - 1))
            if k >= 3:
                st_lines.append("augsa " + " ".join(toks))
                st_meta.append((ci, "asc", covs, cur_n, k, False))
        if meta["Qs"]:
            toks = ["augh", str(n0), str(k), str(len(meta["Qs"]))] + [str(len(Q)) for Q in meta["Qs"]]
            toks += [hexd(meta["means"][i][j]) for i in range(k) for j in range(n0)]
            toks += [hexd(meta["Ps"][i][a][b]) for i in range(k) for b in range(n0) for a in range(n0)]
            for Q in meta["Qs"]:
                toks += cm_tokens(Q)
            hist_lines.append(" ".join(toks))
            hist_idx.append(ci)
    st_out = vlib.run_driver(st_lines)
    hist_out = dict(zip(hist_idx, vlib.run_driver(hist_lines)))
    store_final = {}
    store_bad = []
    for (ci, kind, want, nn, k, last), line_, o_ in zip(st_meta, st_lines, st_out):
        ok_ = o_.startswith("ok")
        got = None
        if ok_:
            t_ = o_.split()[1:]
            ok_ = len(t_) == nn * nn * k
            if ok_:
                got = [vlib.mat_from_cm(t_[i * nn * nn:(i + 1) * nn * nn], nn, nn, frac) for i in range(k)]
        if kind == "desc":
            hist["augmentStore:steps"] = hist.get("augmentStore:steps", 0) + 1
            if got != want:
                store_bad.append(("augment-store-model", "BFL.augmentStore (in-place relocation, last component first) does not yield blockdiag(P_i, Q) (%d components)" % k, cases[ci][0], o_[:60]))
            if last:
                store_final[ci] = got
        else:
            key_ = "augmentStoreAsc(executed counterexample, components>=3):" + ("differs from blockdiag(P_i,Q)" if got != want else "agrees")
            hist[key_] = hist.get(key_, 0) + 1
    # model output of the last augmentation of each case
    last_model = {}
    pos = 0
    for ci, (line, meta) in enumerate(cases):
        cur_n = meta["lin"]
        for Q in meta["Qs"]:
            cur_n += len(Q)
            last_model[ci] = (aout[pos], cur_n)
            pos += 1
    prop_bad, corr_bad = [], []
    for ci, ((line, meta), h) in enumerate(zip(cases, hout)):
        k, n = meta["k"], meta["n"]
        key = "points:lin=%d,noise=%d" % (meta["lin"], n - meta["lin"])
        hist["points:noise-blocks=%d" % len(meta["nzs"])] = hist.get("points:noise-blocks=%d" % len(meta["nzs"]), 0) + 1
        hist["points:cov=" + meta["style"]] = hist.get("points:cov=" + meta["style"], 0) + 1
        hist["points:scale=" + meta.get("scale", "?")] = hist.get("points:scale=" + meta.get("scale", "?"), 0) + 1
        hist["points:components=%d" % k] = hist.get("points:components=%d" % k, 0) + 1
        if not h.startswith("ok"):
            prop_bad.append(("points-crash", "sigma_point()/augmentWithNoise failed on a valid mixture (%s): %s" % (key, h[:80]), line, h))
            continue
        if nonfinite_count(h):
            prop_bad.append(("output-not-finite", "sigma_point() (%s, covariance style %s): %d NaN / inf entries for a finite PSD input" % (key, meta["style"], nonfinite_count(h)), line, h))
            continue
        t = h.split()
        okaug, dim, dimcov, dimnoise, xr, xc = [int(x) for x in t[1:7]]
        p = 7
        if (dim, dimcov, dimnoise) != (n, n, n - meta["lin"]) or (xr, xc) != (n, (2 * n + 1) * k) or okaug != 1:
            prop_bad.append(("points-shape", "%s: dims (dim=%d, dim_covariance=%d, dim_noise=%d), sigma points %dx%d, expected dim %d and %dx%d" % (key, dim, dimcov, dimnoise, xr, xc, n, n, (2 * n + 1) * k), line, h))
            continue
        gm = vlib.mat_from_cm(t[p:p + n * k], n, k, frac_of_hex); p += n * k
        gc = vlib.mat_from_cm(t[p:p + n * n * k], n, n * k, frac_of_hex); p += n * n * k
        X = vlib.mat_from_cm(t[p:p + xr * xc], xr, xc, frac_of_hex); p += xr * xc
        cmeans = [[gm[r][i] for r in range(n)] for i in range(k)]
        ccovs = [[[gc[a][n * i + b] for b in range(n)] for a in range(n)] for i in range(k)]
        # augmentation: exact copy semantics -> exact equality with the specification and with the model
        if cmeans != meta["aug_means"] or ccovs != meta["aug_covs"]:
            prop_bad.append(("augment-wrong", "%s: augmentWithNoise did not produce [m;0], blockdiag(P,Q) for every component" % key, line, h))
            continue
        if ci in last_model:
            mo, nn = last_model[ci]
            mt = mo.split()[1:]
            mm = vlib.mat_from_cm(mt[:0], 0, 0, frac) if False else None
            mmeans = [[frac(mt[i * nn + r]) for r in range(nn)] for i in range(k)]
            mcovs = [vlib.mat_from_cm(mt[nn * k + i * nn * nn: nn * k + (i + 1) * nn * nn], nn, nn, frac) for i in range(k)]
            if mmeans != meta["aug_means"] or mcovs != meta["aug_covs"]:
                corr_bad.append(("augment-model", "Lean augmentWithNoise differs from [m;0], blockdiag(P,Q)", line, h))
            if store_final.get(ci) is not None and store_final[ci] != ccovs:
                corr_bad.append(("augment-store-vs-impl", "storage after augmentWithNoise differs from the storage-level model BFL.augmentStore", line, h))
            ho_ = hist_out.get(ci, "")
            okh = ho_.startswith("ok")
            if okh:
                th_ = ho_.split()[1:]
                okh = int(th_[0]) == n and len(th_) == 1 + n * k + n * n * k
                if okh:
                    hm_ = [[frac(th_[1 + i * n + r_]) for r_ in range(n)] for i in range(k)]
                    hc_ = [vlib.mat_from_cm(th_[1 + n * k + i * n * n:1 + n * k + (i + 1) * n * n], n, n, frac) for i in range(k)]
                    okh = hm_ == cmeans and hc_ == ccovs
            hist["augmentAll(history model):cases"] = hist.get("augmentAll(history model):cases", 0) + 1
            if not okh:
                corr_bad.append(("augment-history-vs-impl", "mixture after %d augmentWithNoise calls differs from the history model AnyGM.augmentAll" % len(meta["Qs"]), line, h))
        probs, _ = check_points_linear(X, cmeans, ccovs, Fraction(meta["c"]), n, k, stats, key)
        for key2, what in probs:
            prop_bad.append((key2, what, line, h))
    corr_bad += store_bad
    # the guard of augmentWithNoise (non-square matrix refused): outside the property's quantifier, counted only
    if not ctx.replay:
        gl = []
        for _ in range(ctx.n(8, 60)):
            lin, k = g.r.randint(1, 3), g.r.randint(1, 3)
            r_, c_ = g.r.randint(1, 3), g.r.randint(1, 3)
            toks = ["augns", str(lin), str(k), str(r_), str(c_)] + [hexd(v) for _ in range(k) for v in g.vec(lin)]
            toks += [hexd(P[a][b]) for P in [g.spd(lin) for _ in range(k)] for b in range(lin) for a in range(lin)]
            toks += cm_tokens(g.mat(r_, c_))
            gl.append((" ".join(toks), r_ == c_, lin + r_))
        gh, _ = vlib.run_harness(binary, [x[0] for x in gl])
        gd = vlib.run_driver([x[0] for x in gl])
        for (gline, square, dim), h_, d_ in zip(gl, gh, gd):
            hist["augmentWithNoise:%s" % ("square" if square else "non-square(refused)")] = hist.get("augmentWithNoise:%s" % ("square" if square else "non-square(refused)"), 0) + 1
            ht = h_.split()
            agree = h_.startswith("ok") and d_.startswith("ok") and ht[1] == d_.split()[1] and (ht[1] == "1" or ht[-1] == "same")
            if not agree:
                hist["augmentWithNoise:guard-differs-from-model(not alarmed)"] = hist.get("augmentWithNoise:guard-differs-from-model(not alarmed)", 0) + 1
    # aliasing (fix af9098e): the noise covariance handed to augmentWithNoise refers to the mixture's own storage
    if not ctx.replay:
        al = []
        for _ in range(ctx.n(10, 80)):
            lin, k = g.r.randint(1, 4), g.r.randint(1, 4)
            comp = g.r.randrange(k)
            means = [g.vec(lin) for _ in range(k)]
            Ps = [g.spd(lin) for _ in range(k)]
            toks = ["augal", str(lin), str(k), str(comp)] + [hexd(v) for m_ in means for v in m_]
            toks += [hexd(P[a][b]) for P in Ps for b in range(lin) for a in range(lin)]
            al.append((" ".join(toks), lin, k, comp, means, Ps))
        register("points-alias", [(x[0], {"aliased-augmentation": list(x[1:4])}) for x in al])
        ah, _ = vlib.run_harness(binary, [x[0] for x in al])
        for (aline, lin, k, comp, means, Ps), h_ in zip(al, ah):
            hist["augmentWithNoise:argument-aliases-own-storage"] = hist.get("augmentWithNoise:argument-aliases-own-storage", 0) + 1
            n2 = 2 * lin
            want_m = [fmat([m_])[0] + [F0] * lin for m_ in means]
            want_c = [blockdiag(P, Ps[comp]) for P in Ps]
            ok_ = h_.startswith("ok") and not nonfinite_count(h_)
            if ok_:
                t_ = h_.split()
                ok_ = [int(x) for x in t_[1:5]] == [1, n2, n2, lin]
                if ok_:
                    gm = vlib.mat_from_cm(t_[5:5 + n2 * k], n2, k, frac_of_hex)
                    gc = vlib.mat_from_cm(t_[5 + n2 * k:5 + n2 * k + n2 * n2 * k], n2, n2 * k, frac_of_hex)
                    ok_ = [[gm[r_][i] for r_ in range(n2)] for i in range(k)] == want_m and \
                          [[[gc[a][n2 * i + b] for b in range(n2)] for a in range(n2)] for i in range(k)] == want_c
            if not ok_:
                prop_bad.append(("augment-wrong", "augmentWithNoise(g.covariance(%d)) (argument refers to the mixture's own storage): result is not [m;0], blockdiag(P_i, P_%d): %s" % (comp, comp, h_[:60]), aline, h_))
    return len(cases), lines, prop_bad, corr_bad, len(logs)


# ------------------------------------------------------------------------------------------------ transform

MODES = ["gen", "gen", "sm", "asm", "mm", "amm"]


BIG_N = [12, 15, 16, 24, 31, 32, 33]


def ut_case(g, tier, idx, force=None):
    """force: dict overriding mode / nx / nzs / ny / k / big (enumerated shapes)"""
    r = g.r
    force = force or {}
    mode = force.get("mode") or r.choice(MODES)
    big = 5 if tier == "quick" else 6
    nx = r.randint(1, big)
    k = r.choice([1, 1, 2, 3, 4, 2, 5, 6])
    if mode in ("asm", "amm"):
        nzs = []
    else:
        nzs = r.choice([[], [], [1], [2], [3], [1, 1], [2, 1], [1, 2, 1], [1, 3], [2, 2, 1, 1]])
    ny = nx if mode == "asm" else r.randint(1, big)
    large = False
    if force.get("big") or (not force and r.random() < 0.012):
        # long inputs: 2n+1 = 25 .. 67 sigma points per component (chunk boundaries 16, 32, 64 and +-1)
        large = True
        nx = (force["big"] if (force.get("big") and force["big"] is not True) else r.choice(BIG_N)) - sum(nzs)
        k = r.choice([1, 2])
        ny = nx if mode == "asm" else r.randint(1, 3)
    nx, ny, k = force.get("nx", nx), force.get("ny", ny), force.get("k", k)
    if "nzs" in force:
        nzs = force["nzs"] if mode not in ("asm", "amm") else []
    if mode == "asm":
        ny = nx
    nz = sum(nzs)
    n = nx + nz
    alpha, beta, kappa = rnd_params(g, n)
    valid = True
    if mode in ("gen", "mm", "amm") and r.random() < 0.15 and not force:
        valid = False
    fail_data = (not valid) and r.random() < 0.5
    astyle = r.choice(["general", "general", "general", "identity", "rank1", "zero", "dyadic", "triangular"])
    if astyle == "identity" and ny == nx:
        A = [[(1.0 if i == j else 0.0) for j in range(n)] for i in range(ny)]
    elif astyle == "rank1":
        u, v = g.vec(ny, -1, 1), g.vec(n, -1, 1)
        A = [[u[i] * v[j] for j in range(n)] for i in range(ny)]
    elif astyle == "zero":
        A = [[0.0] * n for _ in range(ny)]
    elif astyle == "dyadic":
        A = [[g.dyadic(-2, 2, 3) for _ in range(n)] for _ in range(ny)]
    elif astyle == "triangular":
        A = [[(g.full(-2, 2) if j >= i else 0.0) for j in range(n)] for i in range(ny)]
    else:
        A = g.mat(ny, n)
    bv = [0.0] * ny if (astyle == "identity" or r.random() < 0.2) else g.vec(ny)
    pstyle = r.choice(PSD_STYLES)
    skind, d = rnd_scales(g, nx)
    Ps = [scale_cov(rnd_psd(g, nx, pstyle), d) for _ in range(k)]
    ib = None
    special = r.random() if (nx >= 2 and not large) else 1.0
    if special < 0.08:
        k = max(k, r.choice([2, 3]))
        pstyle, skind = "neardup-diag", "neardup"
        Ps, d, ib = neardup_diag(g, nx, k)
    means = [[v * d[i] for i, v in enumerate(g.vec(nx))] for _ in range(k)]
    if special < 0.03:
        # ... and the same mean: components that differ ONLY in the small block of the covariance
        means = [list(means[0]) for _ in range(k)]
        skind = "neardup+same-mean"
    elif special < 0.14:
        # near-duplicate means: one dominant row (2^44 .. 2^50 times the others) shared by all components, the
        # other rows different: equal under a comparison relative to the norm of the whole vector (isApprox);
        # the covariances are equal, isApprox-equal (neardup-diag) or unrelated
        if ib is None:
            ib = r.randrange(nx)
            if r.random() < 0.6:
                k = max(k, 2)
                Ps = [Ps[0]] * k
                means = [[v * d[i] for i, v in enumerate(g.vec(nx))] for _ in range(k)]
        top = 2.0 ** r.randint(44, 50) * r.uniform(1.0, 2.0) * d[ib]
        for m_ in means:
            m_[ib] = top
        skind = skind + "+neardup-mean"
        # the dominant row is read by the last output row only (the others are sensitive at the small scale)
        for i in range(ny - 1 if ny > 1 else ny):
            A[i][ib] = 0.0
    elif special < 0.26:
        # means (or the offset b) far from the origin relative to the spread: |m| / sigma = 2^18 .. 2^30
        e = r.randint(18, 30)
        if r.random() < 0.7:
            rows = [a for a in range(nx) if r.random() < 0.6] or [r.randrange(nx)]
            means = [[(v + (r.choice([-1.0, 1.0]) * 2.0 ** e * r.uniform(1.0, 2.0) * d[a] if a in rows else 0.0)) for a, v in enumerate(m_)] for m_ in means]
            skind = skind + "+far-mean"
        else:
            bv = [r.choice([-1.0, 1.0]) * 2.0 ** e * r.uniform(1.0, 2.0) for _ in range(ny)]
            skind = skind + "+far-offset"
    Qin = []
    if nz:
        Qin = [[0.0] * nz for _ in range(nz)]
        o_ = 0
        for z in nzs:
            _, dz = rnd_scales(g, z)
            Qb = scale_cov(rnd_psd(g, z, r.choice(PSD_STYLES)), dz)
            for a in range(z):
                for b_ in range(z):
                    Qin[o_ + a][o_ + b_] = Qb[a][b_]
            o_ += z
    Nadd = None
    if mode in ("asm", "amm"):
        _, dn = rnd_scales(g, ny)
        Nadd = scale_cov(rnd_psd(g, ny, r.choice(["full", "dyadic", "singular", "zero"])), dn)
    if skind in ("tiny", "small", "large", "huge"):
        bv = [v * d[0] for v in bv]
    if skind.startswith("neardup"):
        # rescale every input dimension to order one, so that the small variances are visible in the output
        A = [[A[i][j] / (d[j] if j < nx else 1.0) for j in range(n)] for i in range(ny)]
    meta = {"mode": mode, "nx": nx, "nz": nz, "nzs": nzs, "ny": ny, "k": k, "alpha": alpha, "beta": beta, "kappa": kappa, "valid": valid, "fail_data": fail_data,
            "A": A, "b": bv, "means": means, "Ps": Ps, "Qin": Qin, "Nadd": Nadd, "astyle": astyle, "pstyle": pstyle, "scale": skind, "large": large}
    return ut_line(meta), meta


def ut_line(meta):
    nx, nz, ny, k = meta["nx"], meta["nz"], meta["ny"], meta["k"]
    nzs = meta.get("nzs") or ([nz] if nz else [])
    # several appended noise blocks: "mode:z1+z2+..." (the harness augments once per block with the diagonal blocks of Qin)
    mtok = meta["mode"] + (":" + "+".join(str(z) for z in nzs) if len(nzs) > 1 else "")
    toks = ["ut", mtok, str(nx), str(nz), str(ny), str(k), hexd(meta["alpha"]), hexd(meta["beta"]), hexd(meta["kappa"]), vcode(meta)]
    toks += cm_tokens(meta["A"]) + [hexd(v) for v in meta["b"]]
    toks += [hexd(meta["means"][i][j]) for i in range(k) for j in range(nx)]
    toks += [hexd(meta["Ps"][i][a][b]) for i in range(k) for b in range(nx) for a in range(nx)]
    toks += cm_tokens(meta["Qin"]) if nz else []
    if meta["Nadd"] is not None:
        toks += cm_tokens(meta["Nadd"])
    return " ".join(toks)


def vcode(meta):
    """validity token of the harness: 1 valid; 0 failed with an empty Data; 2 failed but a non-empty matrix (the
    stale / partial prediction) is handed back with the `false`"""
    if meta["valid"]:
        return "1"
    return "2" if meta.get("fail_data") else "0"


def parse_ut_out(h, meta):
    """-> dict(flag, shapes, X, mean, cov, weights, cross, same) with exact Fractions"""
    t = h.split()
    flag, comps, dim, dimcov, cr, cc, xr, xc, calls = [int(x) for x in t[1:10]]
    p = 10
    X = vlib.mat_from_cm(t[p:p + xr * xc], xr, xc, frac_of_hex); p += xr * xc
    out = {"flag": flag, "comps": comps, "dim": dim, "dimcov": dimcov, "cross_shape": (cr, cc), "X": X, "xshape": (xr, xc), "calls": calls}
    if flag:
        ny, k, nx = dim, comps, cr
        mean = vlib.mat_from_cm(t[p:p + ny * k], ny, k, frac_of_hex); p += ny * k
        cov = vlib.mat_from_cm(t[p:p + dimcov * dimcov * k], dimcov, dimcov * k, frac_of_hex); p += dimcov * dimcov * k
        w = [unhex(x) for x in t[p:p + k]]; p += k
        cross = vlib.mat_from_cm(t[p:p + cr * cc], cr, cc, frac_of_hex); p += cr * cc
        out.update({"mean": mean, "cov": cov, "weights": w, "cross": cross})
    out["same"] = t[p]
    return out


def utf_line(meta, Bs):
    nx, nz, ny, k = meta["nx"], meta["nz"], meta["ny"], meta["k"]
    toks = ["utf", meta["mode"], str(nx), str(nz), str(ny), str(k), hexd(meta["alpha"]), hexd(meta["beta"]), hexd(meta["kappa"]),
            "1" if meta["valid"] else "0"]
    toks += cm_tokens(meta["A"]) + [hexd(v) for v in meta["b"]]
    toks += [hexd(meta["means"][i][j]) for i in range(k) for j in range(nx)]
    toks += [hexd(meta["Ps"][i][a][b]) for i in range(k) for b in range(nx) for a in range(nx)]
    toks += cm_tokens(meta["Qin"]) if nz else []
    if meta["Nadd"] is not None:
        toks += cm_tokens(meta["Nadd"])
    for B in Bs:
        toks += cm_tokens(B, fstr)
    return " ".join(toks)


def parse_utf_out(d, nx, ny, k):
    t = d.split()
    if t[1] == "0":
        return None
    p = 2
    mean = [[frac(t[p + i * ny + r]) for r in range(ny)] for i in range(k)]; p += ny * k
    cov = [vlib.mat_from_cm(t[p + i * ny * ny:p + (i + 1) * ny * ny], ny, ny, frac) for i in range(k)]; p += ny * ny * k
    cross = [vlib.mat_from_cm(t[p + i * nx * ny:p + (i + 1) * nx * ny], nx, ny, frac) for i in range(k)]; p += nx * ny * k
    w = [frac(x) for x in t[p:p + k]]
    return {"mean": mean, "cov": cov, "cross": cross, "weights": w}


def closed_forms(meta):
    """A m + b, A P A^T (+ D Q D^T) (+ N), P A^T per component — exact, independent of the Lean model."""
    nx, nz, ny, k = meta["nx"], meta["nz"], meta["ny"], meta["k"]
    A = fmat(meta["A"])
    b = [Fraction(v) for v in meta["b"]]
    outs = []
    for i in range(k):
        m = [Fraction(v) for v in meta["means"][i]] + [F0] * nz
        P = blockdiag(meta["Ps"][i], meta["Qin"] if nz else [])
        mean = [x + y for x, y in zip(vlib.mvec(A, m), b)]
        PAt = vlib.mmul(P, vlib.mT(A))
        cov = vlib.mmul(A, PAt)
        if meta["Nadd"] is not None:
            cov = vlib.madd(cov, fmat(meta["Nadd"]))
        cross = PAt[:nx]
        outs.append((mean, cov, cross))
    return outs


def ut_tolerances(n, nx, ny, alpha, beta, kappa, A, b, Xi, mi, Nadd):
    """Rounding-error bounds of the moments of one component, from the actual points (floats).
    Xi: n x (2n+1) points, mi: input mean (n).  Returns (tol_mean[ny], tol_cov[ny][ny], tol_cross[nx][ny],
    rowsum[ny])."""
    N1 = 2 * n + 1
    swm, swc, _ = weights_frac(n, alpha, beta, kappa)
    wm = [abs(float(x)) for x in swm]
    wc = [abs(float(x)) for x in swc]
    twm, twc, _ = weight_tols(n, alpha, beta, kappa)
    nops = (N1 + n + 6) * EPS
    Af = [[abs(float(x)) for x in row] for row in A]
    bf = [abs(float(x)) for x in b]
    Xf = [[float(x) for x in row] for row in Xi]
    Ymag = [[sum(Af[i][l] * abs(Xf[l][j]) for l in range(n)) + bf[i] for j in range(N1)] for i in range(ny)]
    # exact propagated points and offsets (floats are enough for magnitudes)
    Aflt = [[float(x) for x in row] for row in A]
    Y = [[sum(Aflt[i][l] * Xf[l][j] for l in range(n)) + float(b[i]) for j in range(N1)] for i in range(ny)]
    ybar = [sum(float(swm[j]) * Y[i][j] for j in range(N1)) for i in range(ny)]
    # The implementation's weights differ from the exact ones by up to twm (cancellation in lambda and c for small
    # alpha), but they are computed from ONE rounded c: they still sum to one and satisfy 2 w c = 1 up to a few eps.
    # Their error therefore only meets the offsets Y_j - Y_0 of the points, not the points themselves; what meets the
    # points is the rounding of the weighted sum, eps * sum |w_j| |Y_j|.
    tol_mean = [C_UT * sum(nops * wm[j] * (Ymag[i][j] + Ymag[i][0]) + twm[j] * (abs(Y[i][j] - Y[i][0]) + (n + 3) * EPS * (Ymag[i][j] + Ymag[i][0]))
                           for j in range(N1)) + 1e-300 for i in range(ny)]
    dY = [[(n + 3) * EPS * Ymag[i][j] for j in range(N1)] for i in range(ny)]
    # offsets: |d| bounded by the exact offset plus its own error
    dd = [[dY[i][j] + tol_mean[i] for j in range(N1)] for i in range(ny)]
    d = [[abs(Y[i][j] - ybar[i]) + dd[i][j] for j in range(N1)] for i in range(ny)]
    tol_cov = [[C_UT * sum((nops * wc[j] + twc[j]) * d[a][j] * d[c][j] + wc[j] * (d[a][j] * dd[c][j] + d[c][j] * dd[a][j])
                           for j in range(N1)) + (16 * EPS * abs(float(Nadd[a][c])) if Nadd is not None else 0.0) + 1e-300
                for c in range(ny)] for a in range(ny)]
    mf = [float(x) for x in mi]
    din = [[abs(Xf[a][j] - mf[a]) for j in range(N1)] for a in range(nx)]
    ddin = [[2 * EPS * (abs(Xf[a][j]) + abs(mf[a])) for j in range(N1)] for a in range(nx)]
    tol_cross = [[C_UT * sum((nops * wc[j] + twc[j]) * (din[a][j] + ddin[a][j]) * d[c][j] + wc[j] * ((din[a][j] + ddin[a][j]) * dd[c][j] + ddin[a][j] * d[c][j])
                             for j in range(N1)) + 1e-300 for c in range(ny)] for a in range(nx)]
    rowsum = [sum(Af[i]) for i in range(ny)]
    return tol_mean, tol_cov, tol_cross, rowsum


def check_ut_case(line, meta, h, stats, notes):
    """first pass: shapes, flag, sigma-point predicates; returns (problems, parsed output, factors)"""
    probs = []
    if not h.startswith("ok"):
        if meta["valid"]:
            return [("prop", "ut-crash", "unscented_transform (%s overload) failed on a valid input: %s" % (meta["mode"], h[:80]))], None, None
        return [("prop", "ut-crash-on-failure", "unscented_transform (%s overload): a failed function evaluation was not reported as failure, the call ended with %s" % (meta["mode"], h[:80]))], None, None
    o = parse_ut_out(h, meta)
    nx, nz, ny, k = meta["nx"], meta["nz"], meta["ny"], meta["k"]
    n = nx + nz
    if o["same"] != "in-same":
        notes["input_modified"] = notes.get("input_modified", 0) + 1
    if o["calls"] not in (-1, 1):
        notes["evaluation_calls_not_one"] = notes.get("evaluation_calls_not_one", 0) + 1
    if not meta["valid"]:
        if o["flag"] != 0:
            probs.append(("prop", "failure-reported-as-success", "%s overload: the function evaluation failed but the transform reported success" % meta["mode"]))
        else:
            notes["failed_eval_returned_default_mixture"] = notes.get("failed_eval_returned_default_mixture", 0) + (1 if (o["comps"], o["dim"]) == (1, 1) and o["cross_shape"] == (0, 0) else 0)
        return probs, o, None
    if o["flag"] != 1:
        probs.append(("prop", "success-reported-as-failure", "%s overload: valid evaluation but the transform reported failure" % meta["mode"]))
        return probs, o, None
    if (o["comps"], o["dim"], o["dimcov"]) != (k, ny, ny) or o["cross_shape"] != (nx, ny * k) or o["xshape"] != (n, (2 * n + 1) * k):
        probs.append(("prop", "ut-shape", "%s overload: output %d components of dim %d, cross %s, expected %d x dim %d, cross %dx%d" % (meta["mode"], o["comps"], o["dim"], o["cross_shape"], k, ny, nx, ny * k)))
        return probs, o, None
    if any(abs(w - 1.0 / k) > 4 * EPS for w in o["weights"]):
        notes["output_weights_not_uniform"] = notes.get("output_weights_not_uniform", 0) + 1
    # sigma point predicates on the points this transform used
    means = [[Fraction(v) for v in meta["means"][i]] + [F0] * nz for i in range(k)]
    covs = [blockdiag(meta["Ps"][i], meta["Qin"] if nz else []) for i in range(k)]
    _, _, c = weights_frac(n, meta["alpha"], meta["beta"], meta["kappa"])
    pp, Bs = check_points_linear(o["X"], means, covs, c, n, k, stats, "ut/" + meta["mode"], weight_tols(n, meta["alpha"], meta["beta"], meta["kappa"])[2])
    for key2, what in pp:
        probs.append(("prop", key2, what))
    return probs, o, Bs


def compare_ut(meta, o, mo, stats):
    """C++ vs model (Q, on the C++'s own factor) and C++ vs closed forms."""
    probs = []
    nx, nz, ny, k = meta["nx"], meta["nz"], meta["ny"], meta["k"]
    n = nx + nz
    A, b = fmat(meta["A"]), [Fraction(v) for v in meta["b"]]
    cf = closed_forms(meta)
    N1 = 2 * n + 1
    for i in range(k):
        Xi = [row[N1 * i:N1 * (i + 1)] for row in o["X"]]
        mi = [Fraction(v) for v in meta["means"][i]] + [F0] * nz
        tol_mean, tol_cov, tol_cross, rowsum = ut_tolerances(n, nx, ny, meta["alpha"], meta["beta"], meta["kappa"], A, b, Xi, mi, meta["Nadd"])
        P = blockdiag(meta["Ps"][i], meta["Qin"] if nz else [])
        pn = max(n * maxabs(P), 0.0)
        tsq = C_SQRT * n * EPS * pn
        # accuracy of the factor seen through A, per input coordinate: relative to ||P|| in general; when the state block
        # is exactly diagonal the coordinates decouple (see check_points_linear) and the scale of coordinate b is
        # sqrt(P_bb) -- a tolerance relative to the largest variance would hide an error in a small one
        sdev = [math.sqrt(pn)] * n
        if nx >= 2 and all(P[a_][b_] == 0 for a_ in range(nx) for b_ in range(nx) if a_ != b_):
            # (the noise block is diagonalised by rotations that stop at a threshold relative to the largest diagonal
            # entry of the whole matrix: its accuracy is relative to ||P||, unless it is exactly diagonal as well)
            zdiag = all(P[a_][b_] == 0 for a_ in range(nx, n) for b_ in range(nx, n) if a_ != b_)
            sdev = [math.sqrt(float(P[b_][b_])) for b_ in range(nx)] + [(math.sqrt(float(P[b_][b_])) if zdiag else math.sqrt(pn)) for b_ in range(nx, n)]
        fsc = [sum(abs(float(A[a_][b_])) * sdev[b_] for b_ in range(n)) for a_ in range(ny)]
        cmean = [o["mean"][r][i] for r in range(ny)]
        ccov = [[o["cov"][a][ny * i + c] for c in range(ny)] for a in range(ny)]
        ccross = [[o["cross"][a][ny * i + c] for c in range(ny)] for a in range(nx)]
        smean, scov, scross = cf[i]
        if "far" in meta.get("scale", "") and ny * N1 <= 400:
            swm_, swc_, _c = weights_frac(n, meta["alpha"], meta["beta"], meta["kappa"])
            Yx = [[sum(A[a][l] * Xi[l][j] for l in range(n)) + b[a] for j in range(N1)] for a in range(ny)]
            toks_ = ["utnv", str(ny), str(N1)] + [hexd(float(w_)) for w_ in swc_] + [hexd(float(Yx[a][j])) for j in range(N1) for a in range(ny)] + [hexd(float(v_)) for v_ in cmean]
            stats.setdefault("_utnv", []).append((" ".join(toks_), [[float(x_) for x_ in row_] for row_ in ccov], [[float(x_) for x_ in row_] for row_ in scov],
                                                  [[tol_cov[a][c] + C_SQRT * n * EPS * fsc[a] * fsc[c] for c in range(ny)] for a in range(ny)], meta["mode"], i,
                                                  [[float(x_) for x_ in row_] for row_ in meta["Nadd"]] if meta["Nadd"] is not None else None))
        for r in range(ny):
            em = float(abs(cmean[r] - mo["mean"][i][r]))
            es = float(abs(cmean[r] - smean[r]))
            stats["ut_mean_model"] = max(stats.get("ut_mean_model", 0.0), em / tol_mean[r])
            stats["ut_mean_spec"] = max(stats.get("ut_mean_spec", 0.0), es / tol_mean[r])
            if es > tol_mean[r]:
                probs.append(("prop", "mean-not-affine", "%s overload, component %d: output mean[%d] = %.17g, A m + b = %.17g (err %.3g, tol %.3g)" % (meta["mode"], i, r, float(cmean[r]), float(smean[r]), es, tol_mean[r])))
                break
            if em > tol_mean[r]:
                probs.append(("corr", "mean-vs-model", "%s overload, component %d: mean differs from the model by %.3g (tol %.3g)" % (meta["mode"], i, em, tol_mean[r])))
                break
        bad = False
        for a in range(ny):
            for c in range(ny):
                em = float(abs(ccov[a][c] - mo["cov"][i][a][c]))
                es = float(abs(ccov[a][c] - scov[a][c]))
                tp = tol_cov[a][c] + C_SQRT * n * EPS * fsc[a] * fsc[c]
                stats["ut_cov_model"] = max(stats.get("ut_cov_model", 0.0), em / tol_cov[a][c])
                stats["ut_cov_spec"] = max(stats.get("ut_cov_spec", 0.0), es / tp)
                if es > tp and not bad:
                    what = "A P A^T" + (" + D Q D^T" if nz else "") + (" + noise" if meta["Nadd"] is not None else "")
                    probs.append(("prop", "cov-not-affine", "%s overload, component %d: output covariance[%d][%d] = %.17g, %s = %.17g (err %.3g, tol %.3g)" % (meta["mode"], i, a, c, float(ccov[a][c]), what, float(scov[a][c]), es, tp)))
                    bad = True
                elif em > tol_cov[a][c] and not bad:
                    probs.append(("corr", "cov-vs-model", "%s overload, component %d: covariance differs from the model by %.3g (tol %.3g)" % (meta["mode"], i, em, tol_cov[a][c])))
                    bad = True
        bad = False
        for a in range(nx):
            for c in range(ny):
                em = float(abs(ccross[a][c] - mo["cross"][i][a][c]))
                es = float(abs(ccross[a][c] - scross[a][c]))
                tp = tol_cross[a][c] + C_SQRT * n * EPS * sdev[a] * fsc[c]
                stats["ut_cross_model"] = max(stats.get("ut_cross_model", 0.0), em / tol_cross[a][c])
                stats["ut_cross_spec"] = max(stats.get("ut_cross_spec", 0.0), es / tp)
                if es > tp and not bad:
                    probs.append(("prop", "cross-not-affine", "%s overload, component %d: cross-covariance[%d][%d] = %.17g, (P A^T) = %.17g (err %.3g, tol %.3g)" % (meta["mode"], i, a, c, float(ccross[a][c]), float(scross[a][c]), es, tp)))
                    bad = True
                elif em > tol_cross[a][c] and not bad:
                    probs.append(("corr", "cross-vs-model", "%s overload, component %d: cross-covariance differs from the model by %.3g (tol %.3g)" % (meta["mode"], i, em, tol_cross[a][c])))
                    bad = True
    return probs


def exact_instances(ctx, stats, hist):
    """Theorem instances on the executed model: with an exact factor (B dyadic, P := B B^T / c as exact
    rationals) the Lean model's output equals the closed forms exactly."""
    g = ctx.gen("exact")
    r = g.r
    N = ctx.n(40, 600)
    lines, metas = [], []
    for _ in range(N):
        mode = r.choice(MODES)
        nx = r.randint(1, 4)
        nz = 0 if mode in ("asm", "amm") else r.choice([0, 1, 2])
        ny = nx if mode == "asm" else r.randint(1, 4)
        k = r.choice([1, 2, 3])
        n = nx + nz
        alpha, beta, kappa = rnd_params(g, n)
        _, _, c = weights_frac(n, alpha, beta, kappa)
        # block-diagonal factor so that P = blockdiag(Px, Q)
        Bx = [[[Fraction(g.dyadic(-2, 2, 2)) for _ in range(nx)] for _ in range(nx)] for _ in range(k)]
        Bz = [[Fraction(g.dyadic(-2, 2, 2)) for _ in range(nz)] for _ in range(nz)]
        Ps = [vlib.mscale(1 / c, vlib.mmul(B, vlib.mT(B))) for B in Bx]
        Qin = vlib.mscale(1 / c, vlib.mmul(Bz, vlib.mT(Bz))) if nz else []
        A = [[Fraction(g.dyadic(-2, 2, 3)) for _ in range(n)] for _ in range(ny)]
        bv = [Fraction(g.dyadic(-2, 2, 3)) for _ in range(ny)]
        means = [[Fraction(g.dyadic(-4, 4, 3)) for _ in range(nx)] for _ in range(k)]
        Nadd = [[Fraction(g.dyadic(0, 2, 2)) if a == b else F0 for b in range(ny)] for a in range(ny)] if mode in ("asm", "amm") else None
        toks = ["utf", mode, str(nx), str(nz), str(ny), str(k), hexd(alpha), hexd(beta), hexd(kappa), "1"]
        toks += cm_tokens(A, fstr) + [fstr(v) for v in bv]
        toks += [fstr(means[i][j]) for i in range(k) for j in range(nx)]
        toks += [fstr(Ps[i][a][b]) for i in range(k) for b in range(nx) for a in range(nx)]
        toks += cm_tokens(Qin, fstr) if nz else []
        if Nadd is not None:
            toks += cm_tokens(Nadd, fstr)
        for i in range(k):
            toks += cm_tokens(blockdiag(Bx[i], Bz), fstr)
        lines.append(" ".join(toks))
        metas.append({"mode": mode, "nx": nx, "nz": nz, "ny": ny, "k": k, "alpha": alpha, "beta": beta, "kappa": kappa,
                      "A": A, "b": bv, "means": means, "Ps": Ps, "Qin": Qin, "Nadd": Nadd})
    douts = vlib.run_driver(lines)
    bad = []
    for line, meta, d in zip(lines, metas, douts):
        hist["exact:" + meta["mode"]] = hist.get("exact:" + meta["mode"], 0) + 1
        if not d.startswith("ok 1"):
            bad.append(("exact-model-undefined", "model undefined on a valid exact instance: %s" % d[:40], line))
            continue
        mo = parse_utf_out(d, meta["nx"], meta["ny"], meta["k"])
        cf = closed_forms(meta)
        for i in range(meta["k"]):
            if mo["mean"][i] != cf[i][0] or mo["cov"][i] != cf[i][1] or mo["cross"][i] != cf[i][2]:
                bad.append(("exact-theorem-instance", "executed model differs from A m + b / A P A^T / P A^T on an exact instance (%s overload, component %d)" % (meta["mode"], i), line))
                break
    return len(lines), bad


def transform_stage(ctx, binary, stats, hist, notes, only=None):
    g = ctx.gen("transform")
    N = ctx.n(150, 5000)
    cases = [ut_case(g, ctx.tier, i) for i in range(N)] if only is None else only
    register("transform", cases)
    lines = [c[0] for c in cases]
    hout, logs = run_h(binary, lines)
    prop_bad, corr_bad = [], []
    first = []
    dl, didx = [], []
    for ci, ((line, meta), h) in enumerate(zip(cases, hout)):
        hist["ut:mode=" + meta["mode"]] = hist.get("ut:mode=" + meta["mode"], 0) + 1
        hist["ut:valid=%d" % meta["valid"]] = hist.get("ut:valid=%d" % meta["valid"], 0) + 1
        if not meta["valid"]:
            kf_ = "ut:failed-evaluation:" + ("non-empty data handed back" if meta.get("fail_data") else "empty data")
            hist[kf_] = hist.get(kf_, 0) + 1
        hist["ut:noise-rows=%d" % meta["nz"]] = hist.get("ut:noise-rows=%d" % meta["nz"], 0) + 1
        hist["ut:components=%d" % meta["k"]] = hist.get("ut:components=%d" % meta["k"], 0) + 1
        hist["ut:A=" + meta["astyle"]] = hist.get("ut:A=" + meta["astyle"], 0) + 1
        hist["ut:P=" + meta["pstyle"]] = hist.get("ut:P=" + meta["pstyle"], 0) + 1
        hist["ut:scale=" + meta.get("scale", "?")] = hist.get("ut:scale=" + meta.get("scale", "?"), 0) + 1
        hist["ut:noise-blocks=%d" % len(meta.get("nzs") or ([1] if meta["nz"] else []))] = hist.get("ut:noise-blocks=%d" % len(meta.get("nzs") or ([1] if meta["nz"] else [])), 0) + 1
        if meta.get("large"):
            hist["ut:long-input(2n+1>=25)"] = hist.get("ut:long-input(2n+1>=25)", 0) + 1
        for tag in ("far-mean", "far-offset", "neardup-mean", "same-mean"):
            if tag in meta.get("scale", ""):
                hist["ut:style=" + tag] = hist.get("ut:style=" + tag, 0) + 1
        nf = nonfinite_count(h) if h.startswith("ok") else 0
        try:
            if nf:
                raise ArithmeticError("non-finite")
            probs, o, Bs = check_ut_case(line, meta, h, stats, notes)
        except ArithmeticError:
            probs, o, Bs = [("prop", "output-not-finite", "unscented_transform (%s overload): %d NaN / inf entries in the sigma points or in the transformed moments for a finite input" % (meta["mode"], max(nf, 1)))], None, None
        except (IndexError, ValueError) as e:
            probs, o, Bs = [("prop", "ut-output-malformed", "unscented_transform (%s overload): output not of the expected form (%s): %s" % (meta["mode"], type(e).__name__, h[:80]))], None, None
        first.append((probs, o, Bs))
        if Bs is not None or (o is not None and not meta["valid"]):
            k, n = meta["k"], meta["nx"] + meta["nz"]
            if Bs is None:
                Bs = [[[F0] * n for _ in range(n)] for _ in range(k)]
            dl.append(utf_line(meta, Bs))
            didx.append(ci)
    douts = vlib.run_driver(dl)
    dmap = dict(zip(didx, douts))
    for ci, ((line, meta), h) in enumerate(zip(cases, hout)):
        probs, o, Bs = first[ci]
        if ci in dmap:
            d = dmap[ci]
            if not d.startswith("ok"):
                probs.append(("corr", "model-undefined", "model undefined on a valid input: %s" % d[:40]))
            elif not meta["valid"]:
                if d.split()[1] != "0":
                    probs.append(("corr", "model-failure-flag", "model reports success for a failed evaluation"))
            elif o is not None and o.get("flag") == 1:
                mo = parse_utf_out(d, meta["nx"], meta["ny"], meta["k"])
                if mo is None:
                    probs.append(("corr", "model-failure-flag", "model reports failure for a valid evaluation"))
                else:
                    probs += compare_ut(meta, o, mo, stats)
        for kind, key2, what in probs:
            (prop_bad if kind == "prop" else corr_bad).append((key2, what, line, h))
    # means / offsets far from the origin: the model's covariance of the offsets and the expanded formula
    # (BFL.utCovNaive, equal over a field: ut_naive_eq_offsets), both executed on Float on the propagated points
    nv = stats.pop("_utnv", [])
    nvo = vlib.run_driver([x[0] for x in nv])
    for (l_, ccov_, scov_, tol_, mode_, i_, nadd_), o_ in zip(nv, nvo):
        hist["far:float-model-cases"] = hist.get("far:float-model-cases", 0) + 1
        if not o_.startswith("ok"):
            corr_bad.append(("far-model-undefined", "utnv: %s" % o_[:40], l_, ""))
            continue
        ny_ = len(ccov_)
        v_ = [unhex(x_) for x_ in o_.split()[1:]]
        off_ = [[v_[c * ny_ + a] + (nadd_[a][c] if nadd_ else 0.0) for c in range(ny_)] for a in range(ny_)]
        nai_ = [[v_[ny_ * ny_ + c * ny_ + a] + (nadd_[a][c] if nadd_ else 0.0) for c in range(ny_)] for a in range(ny_)]
        e1 = max(abs(off_[a][c] - ccov_[a][c]) / tol_[a][c] for a in range(ny_) for c in range(ny_))
        e2 = max(abs(nai_[a][c] - scov_[a][c]) / tol_[a][c] for a in range(ny_) for c in range(ny_))
        stats["far_cov_float_model"] = max(stats.get("far_cov_float_model", 0.0), e1)
        if e1 > 1.0:
            corr_bad.append(("far-cov-vs-float-model", "%s overload, component %d: covariance differs from the Float execution of the model (offsets form) by %.3g tolerances" % (mode_, i_, e1), l_, ""))
        key_ = "far:expanded-formula-on-Float " + ("outside the tolerance (the case tells the two forms apart)" if e2 > 1.0 else "within the tolerance")
        hist[key_] = hist.get(key_, 0) + 1
    return cases, lines, prop_bad, corr_bad, len(logs)


# ------------------------------------------------------------------------------------------------ circular / quaternion layouts

# Float mirrors of the scalar kernels (used to recover the perturbations from the C++ sigma points and for the
# closed forms; the Lean model is executed separately by the driver ops spl / utl).

def wrap(x):
    return math.atan2(math.sin(x), math.cos(x))


def q_mul(a, b):
    return [a[0] * b[0] - a[1] * b[1] - a[2] * b[2] - a[3] * b[3],
            a[0] * b[1] + a[1] * b[0] + a[2] * b[3] - a[3] * b[2],
            a[0] * b[2] + a[2] * b[0] + a[3] * b[1] - a[1] * b[3],
            a[0] * b[3] + a[3] * b[0] + a[1] * b[2] - a[2] * b[1]]


def q_conj(a):
    return [a[0], -a[1], -a[2], -a[3]]


def q_log2(q):
    """2 log(q) as a rotation vector, with the code's cut-off and sign handling"""
    nn = math.sqrt(q[1] * q[1] + q[2] * q[2] + q[3] * q[3])
    if nn > 5e-5:
        w = max(-1.0, min(1.0, q[0]))
        f = (-2.0 * math.acos(-w)) if w < 0 else (2.0 * math.acos(w))
        return [f * q[1] / nn, f * q[2] / nn, f * q[3] / nn]
    return [0.0, 0.0, 0.0]


def q_rot(p):
    """rotation matrix of the unit quaternion p (v -> p v p*)"""
    w, x, y, z = p
    return [[1 - 2 * (y * y + z * z), 2 * (x * y - w * z), 2 * (x * z + w * y)],
            [2 * (x * y + w * z), 1 - 2 * (x * x + z * z), 2 * (y * z - w * x)],
            [2 * (x * z - w * y), 2 * (y * z + w * x), 1 - 2 * (x * x + y * y)]]


def jacobi_eig(M):
    """eigenvalues / eigenvectors (columns) of a small symmetric matrix by cyclic Jacobi rotations"""
    n = len(M)
    A = [list(map(float, r)) for r in M]
    V = [[1.0 if i == j else 0.0 for j in range(n)] for i in range(n)]
    for _ in range(60):
        off = sum(A[i][j] ** 2 for i in range(n) for j in range(n) if i != j)
        if off < 1e-300:
            break
        for p_ in range(n):
            for q_ in range(p_ + 1, n):
                if abs(A[p_][q_]) < 1e-300:
                    continue
                th = (A[q_][q_] - A[p_][p_]) / (2 * A[p_][q_])
                t = (1.0 if th >= 0 else -1.0) / (abs(th) + math.sqrt(th * th + 1))
                c = 1 / math.sqrt(t * t + 1)
                s_ = t * c
                for k_ in range(n):
                    akp, akq = A[k_][p_], A[k_][q_]
                    A[k_][p_], A[k_][q_] = c * akp - s_ * akq, s_ * akp + c * akq
                for k_ in range(n):
                    apk, aqk = A[p_][k_], A[q_][k_]
                    A[p_][k_], A[q_][k_] = c * apk - s_ * aqk, s_ * apk + c * aqk
                for k_ in range(n):
                    vkp, vkq = V[k_][p_], V[k_][q_]
                    V[k_][p_], V[k_][q_] = c * vkp - s_ * vkq, s_ * vkp + c * vkq
    return [A[i][i] for i in range(n)], V


class Lay:
    """layout arithmetic (mirrors BFL.Layout)"""

    def __init__(self, lin, circ, quat, noise):
        self.lin, self.circ, self.quat, self.noise = lin, circ, quat, noise
        self.cs = 4 if quat else 1
        self.ts = 3 if quat else 1
        self.dim = lin + circ * self.cs + noise
        self.dof = lin + circ * self.ts + noise

    def tangent(self, col, mean):
        """tangent-space offset of one point (column, `dim` floats) from `mean` (dim floats): dof floats"""
        out = [col[r] - mean[r] for r in range(self.lin)]
        for q in range(self.circ):
            r0 = self.lin + q * self.cs
            if self.quat:
                out += q_log2(q_mul(col[r0:r0 + 4], q_conj(mean[r0:r0 + 4])))
            else:
                out.append(wrap(col[r0] - mean[r0]))
        base = self.lin + self.circ * self.cs
        out += [col[base + r] - mean[base + r] for r in range(self.noise)]
        return out


def rnd_unit_quat(g):
    while True:
        q = [g.r.gauss(0, 1) for _ in range(4)]
        n = math.sqrt(sum(x * x for x in q))
        if n > 0.1:
            return [x / n for x in q]


def circ_case(g, tier):
    """a transform between layouts with circular blocks; spreads kept small (sigma points within a fraction of a
    turn of the mean, positive resultant) as the property's quantifier says"""
    r = g.r
    quat = r.random() < 0.5
    linI = r.randint(0, 3)
    circI = r.randint(1, 2) if r.random() < 0.9 else 0
    if linI + circI == 0:
        linI = 1
    nz = r.choice([0, 0, 1, 2])
    k = r.choice([1, 2, 3])
    circO = r.randint(0, circI)
    linO = r.randint(0, 3)
    if linO + circO == 0:
        linO = 1
    li = Lay(linI, circI, quat, nz)
    lo = Lay(linO, circO, quat, 0)
    alpha, beta, kappa = rnd_params(g, li.dof, tiny=False)   # tiny alpha would put the spreads into the 1e-4 cut-off band
    c = float(Fraction(alpha) ** 2 * (li.dof + Fraction(kappa)))
    dof0 = li.dof - nz
    lam = 0.3 / max(c, 1.0)
    style = r.choice(["full", "full", "full", "singular", "diag", "zero"])
    if quat and circI and r.random() < 0.12:
        style = "just-above-cut-off"
    Ps = []
    for _ in range(k):
        sc = lam * r.uniform(0.2, 1.0)
        if style == "just-above-cut-off":
            # rotation-vector perturbations of norm in (1.05e-4, 1.9e-4): just above the cut-off of the exponential
            # (1e-4 rad); their half-angle sine (5.2e-5 .. 9.5e-5) must clear the cut-off of the logarithm (5e-5)
            P = [[((r.uniform(1.05e-4, 1.9e-4) ** 2) / c if i == j else 0.0) for j in range(dof0)] for i in range(dof0)]
        elif style == "full":
            P = g.spd(dof0, cond=10 ** r.uniform(0, 1.5), scale=sc)
        elif style == "singular":
            P = g.spd(dof0, cond=10 ** r.uniform(0, 1.5), scale=sc, rank=r.randint(0, max(0, dof0 - 1)))
        elif style == "diag":
            P = [[(sc * r.uniform(0.1, 1.0) if i == j else 0.0) for j in range(dof0)] for i in range(dof0)]
        else:
            P = [[0.0] * dof0 for _ in range(dof0)]
        Ps.append(P)
    means = []
    for _ in range(k):
        m = g.vec(linI)
        for _q in range(circI):
            if quat:
                m += rnd_unit_quat(g)
            else:
                m.append(r.choice([3.1, -3.1, 0.0, 1.5, r.uniform(-3.14, 3.14), r.uniform(-3.14, 3.14), r.uniform(-6.0, 6.0)]))
        means.append(m)
    Qin = rnd_psd(g, nz, r.choice(["full", "dyadic", "singular", "diag"])) if nz else []
    if nz:
        # noise enters linear outputs only; keep its spread comparable
        Qin = [[x * lam / max(1e-9, maxabs(Qin)) for x in row] for row in Qin]
    A = g.mat(linO, linI + nz) if linO else []
    bl = g.vec(linO)
    Cl = [[r.uniform(-0.5, 0.5) for _ in range(linI)] for _ in range(circO)]
    sgn = [r.choice([1.0, -1.0]) for _ in range(circO)]
    perm = [r.randrange(circI) for _ in range(circO)]
    bc = [r.uniform(-3.0, 3.0) for _ in range(circO)]
    pq = [rnd_unit_quat(g) for _ in range(circO)]
    side = [r.choice([0, 1]) for _ in range(circO)]
    valid = r.random() > 0.08
    fail_data = (not valid) and r.random() < 0.5
    meta = {"li": li, "lo": lo, "k": k, "alpha": alpha, "beta": beta, "kappa": kappa, "c": c, "valid": valid, "fail_data": fail_data, "style": style,
            "A": A, "bl": bl, "Cl": Cl, "sgn": sgn, "perm": perm, "bc": bc, "pq": pq, "side": side, "means": means, "Ps": Ps, "Qin": Qin}
    return circ_line(meta), meta


def circ_line(meta):
    li, lo, k = meta["li"], meta["lo"], meta["k"]
    linI, circI, quat, nz, linO, circO = li.lin, li.circ, li.quat, li.noise, lo.lin, lo.circ
    dof0 = li.dof - nz
    toks = ["utc", str(linI), str(circI), "1" if quat else "0", str(nz), str(linO), str(circO), str(k),
            hexd(meta["alpha"]), hexd(meta["beta"]), hexd(meta["kappa"]), vcode(meta)]
    toks += cm_tokens(meta["A"]) if linO else []
    toks += [hexd(v) for v in meta["bl"]]
    toks += cm_tokens(meta["Cl"]) if (circO and linI) else []
    toks += [hexd(v) for v in meta["sgn"]] + [str(x) for x in meta["perm"]] + [hexd(v) for v in meta["bc"]]
    toks += [hexd(meta["pq"][j][i]) for j in range(circO) for i in range(4)]
    toks += [str(x) for x in meta["side"]]
    d0 = li.dim - nz
    toks += [hexd(meta["means"][i][j]) for i in range(k) for j in range(d0)]
    toks += [hexd(meta["Ps"][i][a][b]) for i in range(k) for b in range(dof0) for a in range(dof0)]
    toks += cm_tokens(meta["Qin"]) if nz else []
    return " ".join(toks)


def circ_closed_forms(meta):
    """expected output mean (layout vector), tangent map T (dofO x dofI), per component: (mean, T P T^T, (P T^T) top rows)"""
    li, lo, k = meta["li"], meta["lo"], meta["k"]
    nz = li.noise
    dof0 = li.dof - nz
    T = [[0.0] * li.dof for _ in range(lo.dof)]
    for a in range(lo.lin):
        for l in range(li.lin):
            T[a][l] = meta["A"][a][l]
        for z in range(nz):
            T[a][li.lin + li.circ * li.ts + z] = meta["A"][a][li.lin + z]
    for q in range(lo.circ):
        pr = meta["perm"][q]
        if li.quat:
            R = q_rot(meta["pq"][q]) if meta["side"][q] == 0 else [[1.0, 0, 0], [0, 1.0, 0], [0, 0, 1.0]]
            for e in range(3):
                for f in range(3):
                    T[lo.lin + 3 * q + e][li.lin + 3 * pr + f] = R[e][f]
        else:
            T[lo.lin + q][li.lin + pr] = meta["sgn"][q]
            for l in range(li.lin):
                T[lo.lin + q][l] = meta["Cl"][q][l]
    outs = []
    for i in range(k):
        m = meta["means"][i]
        mean = []
        for a in range(lo.lin):
            mean.append(sum(meta["A"][a][l] * m[l] for l in range(li.lin)) + meta["bl"][a])
        for q in range(lo.circ):
            pr = meta["perm"][q]
            if li.quat:
                mq = m[li.lin + 4 * pr: li.lin + 4 * pr + 4]
                mean += q_mul(meta["pq"][q], mq) if meta["side"][q] == 0 else q_mul(mq, meta["pq"][q])
            else:
                mean.append(wrap(meta["sgn"][q] * m[li.lin + pr] + sum(meta["Cl"][q][l] * m[l] for l in range(li.lin)) + meta["bc"][q]))
        P = [[0.0] * li.dof for _ in range(li.dof)]
        for a in range(dof0):
            for b in range(dof0):
                P[a][b] = meta["Ps"][i][a][b]
        for a in range(nz):
            for b in range(nz):
                P[dof0 + a][dof0 + b] = meta["Qin"][a][b]
        PTt = vlib.mmul(P, vlib.mT(T))
        outs.append((mean, vlib.mmul(T, PTt), PTt[:dof0], P))
    return T, outs


def parse_utc_out(h, meta):
    t = h.split()
    flag, comps, dim, dimcov, cr, cc, xr, xc, calls = [int(x) for x in t[1:10]]
    li, lo = meta["li"], meta["lo"]
    N1 = 2 * li.dof + 1
    p = 10
    wm = [unhex(x) for x in t[p:p + N1]]; p += N1
    wc = [unhex(x) for x in t[p:p + N1]]; p += N1
    c = unhex(t[p]); p += 1
    X = vlib.mat_from_cm(t[p:p + xr * xc], xr, xc, unhex); p += xr * xc
    o = {"flag": flag, "comps": comps, "dim": dim, "dimcov": dimcov, "cross_shape": (cr, cc), "xshape": (xr, xc), "calls": calls,
         "wm": wm, "wc": wc, "c": c, "X": X}
    if flag:
        Y = vlib.mat_from_cm(t[p:p + dim * xc], dim, xc, unhex); p += dim * xc
        mean = vlib.mat_from_cm(t[p:p + dim * comps], dim, comps, unhex); p += dim * comps
        cov = vlib.mat_from_cm(t[p:p + dimcov * dimcov * comps], dimcov, dimcov * comps, unhex); p += dimcov * dimcov * comps
        w = [unhex(x) for x in t[p:p + comps]]; p += comps
        cross = vlib.mat_from_cm(t[p:p + cr * cc], cr, cc, unhex); p += cr * cc
        o.update({"Y": Y, "mean": mean, "cov": cov, "weights": w, "cross": cross})
    o["same"] = t[p]
    return o


def tangent_err(lay, col, mean, E):
    """rounding-error estimate of each tangent offset E (dof floats) of a point from a mean"""
    out = [2 * EPS * (abs(col[r]) + abs(mean[r])) for r in range(lay.lin)]
    for q in range(lay.circ):
        if lay.quat:
            e = E[lay.lin + 3 * q: lay.lin + 3 * q + 3]
            th = math.sqrt(sum(x * x for x in e))
            out += [32 * EPS / max(th, 1e-4) + 8 * EPS] * 3   # acos near 1: d(angle) ~ 4 eps / angle
        else:
            out.append(8 * EPS * math.pi)
    base = lay.lin + lay.circ * lay.cs
    out += [2 * EPS * (abs(col[base + r]) + abs(mean[base + r])) for r in range(lay.noise)]
    return out


def circ_points(meta, o, stats):
    """sigma-point predicates for an arbitrary layout, in the tangent space; returns (problems, per-component
    dict(B, E, Eerr))"""
    li, k = meta["li"], meta["k"]
    n, nz = li.dof, li.noise
    N1 = 2 * n + 1
    probs, comps = [], []
    what = "layout(lin=%d, circ=%d %s, noise=%d)" % (li.lin, li.circ, "quaternion" if li.quat else "Euler", nz)
    for i in range(k):
        m = list(meta["means"][i]) + [0.0] * nz
        cols = [[o["X"][r][N1 * i + j] for r in range(li.dim)] for j in range(N1)]
        E = [li.tangent(cols[j], m) for j in range(N1)]
        Eerr = [tangent_err(li, cols[j], m, E[j]) for j in range(N1)]
        mscale = max([abs(v) for v in m] + [math.pi if li.circ else 0.0])
        B = [[(E[1 + l][r] - E[1 + n + l][r]) / 2 for l in range(n)] for r in range(n)]
        bscale = maxabs(B)
        eerr = max(max(e) for e in Eerr)
        if li.quat and li.circ:
            br = stats.setdefault("_branches", {})
            for j in range(1, N1):
                for q in range(li.circ):
                    z = all(E[j][li.lin + 3 * q + e] == 0.0 for e in range(3))
                    key = "rotation_vector_to_quaternion:" + ("norm<=1e-4 (identity)" if z else "norm>1e-4")
                    br[key] = br.get(key, 0) + 1
        e0 = max([abs(v) for v in E[0]] + [0.0])
        t0 = 4 * EPS * mscale + 2 * eerr + 1e-300
        stats["circ_first"] = max(stats.get("circ_first", 0.0), e0 / t0)
        if e0 > t0:
            probs.append(("first-not-mean", "%s component %d: first sigma point differs from the mean by %.3g (tangent space)" % (what, i, e0)))
        ea = max([abs(E[1 + l][r] + E[1 + n + l][r]) / 2 for l in range(n) for r in range(n)] + [0.0])
        ta = 8 * EPS * (mscale + bscale) + 2 * eerr + 1e-300
        stats["circ_symmetry"] = max(stats.get("circ_symmetry", 0.0), ea / ta)
        if ea > ta:
            probs.append(("points-asymmetric", "%s component %d: columns 1+l and 1+n+l are not symmetric about the mean (%.3g, tangent space)" % (what, i, ea)))
        P = [[0.0] * n for _ in range(n)]
        d0 = n - nz
        for a in range(d0):
            for b in range(d0):
                P[a][b] = meta["Ps"][i][a][b]
        for a in range(nz):
            for b in range(nz):
                P[d0 + a][d0 + b] = meta["Qin"][a][b]
        c = o["c"]
        pn = max(n * maxabs(P), 1e-300)
        res = max([abs(sum(B[a][l] * B[b][l] for l in range(n)) - c * P[a][b]) for a in range(n) for b in range(n)] + [0.0])
        tol = C_SQRT * n * EPS * abs(c) * pn + 16 * n * bscale * (EPS * (mscale + bscale) + eerr) + 1e-300
        stats["circ_contract"] = max(stats.get("circ_contract", 0.0), res / tol)
        if res > tol:
            probs.append(("sqrt-contract", "%s component %d: tangent-space factor B B^T differs from c P by %.3g (tolerance %.3g, c = %.6g)" % (what, i, res, tol, c)))
        comps.append({"B": B, "E": E, "Eerr": Eerr, "m": m, "P": P, "sym_tol": ta})
    return probs, comps


def circ_lines(meta, o, comps):
    """driver lines: sigma points of the model from the recovered factor (spl), moments of the model on the C++'s
    own points (utl)"""
    li, lo, k = meta["li"], meta["lo"], meta["k"]
    n = li.dof
    N1 = 2 * n + 1
    toks = ["spl", str(li.lin), str(li.circ), "1" if li.quat else "0", str(li.noise), str(k)]
    toks += [hexd(comps[i]["m"][r]) for i in range(k) for r in range(li.dim)]
    for i in range(k):
        B = comps[i]["B"]
        pert = [[0.0] + [B[r][l] for l in range(n)] + [-B[r][l] for l in range(n)] for r in range(n)]
        toks += cm_tokens(pert)
    spl = " ".join(toks)
    utl = None
    if o["flag"]:
        toks = ["utl", str(li.lin), str(li.circ), "1" if li.quat else "0", str(li.noise), str(lo.lin), str(lo.circ), "1" if lo.quat else "0", str(k)]
        toks += [hexd(v) for v in o["wm"]] + [hexd(v) for v in o["wc"]]
        toks += [hexd(comps[i]["m"][r]) for i in range(k) for r in range(li.dim)]
        for i in range(k):
            toks += [hexd(o["X"][r][N1 * i + j]) for j in range(N1) for r in range(li.dim)]
        for i in range(k):
            toks += [hexd(o["Y"][r][N1 * i + j]) for j in range(N1) for r in range(lo.dim)]
        if lo.quat:
            for i in range(k):
                for q in range(lo.circ):
                    toks += [hexd(o["mean"][lo.lin + 4 * q + e][i]) for e in range(4)]
        utl = " ".join(toks)
    return spl, utl


def circ_compare(meta, o, comps, spl_out, utl_out, stats):
    probs = []
    li, lo, k = meta["li"], meta["lo"], meta["k"]
    n, nz = li.dof, li.noise
    N1 = 2 * n + 1
    dof0 = n - nz
    what = "%s layout" % ("quaternion" if li.quat else "Euler")
    # (a) sigma points of the Lean model (Float) from the recovered factor vs the C++ sigma points
    if not spl_out.startswith("ok"):
        probs.append(("corr", "circ-model-undefined", "spl: %s" % spl_out[:40]))
    else:
        st = spl_out.split()[1:]
        for i in range(k):
            Xm = vlib.mat_from_cm(st[i * li.dim * N1:(i + 1) * li.dim * N1], li.dim, N1, unhex)
            bs = maxabs(comps[i]["B"])
            ms = max([abs(v) for v in comps[i]["m"]] + [1.0])
            tol = 16 * EPS * (ms + bs + math.pi) + 2 * comps[i]["sym_tol"]
            err = max(min(abs(Xm[r][j] - o["X"][r][N1 * i + j]), abs(abs(Xm[r][j] - o["X"][r][N1 * i + j]) - 2 * math.pi) if (not li.quat and li.lin <= r < li.lin + li.circ) else 1e300)
                      for r in range(li.dim) for j in range(N1))
            stats["circ_points_model"] = max(stats.get("circ_points_model", 0.0), err / tol)
            if err > tol:
                probs.append(("corr", "circ-points-vs-model", "%s, component %d: sigma points differ from the Lean model by %.3g (tol %.3g)" % (what, i, err, tol)))
    if not o["flag"]:
        return probs
    T, cf = circ_closed_forms(meta)
    swm, swc, _ = weights_frac(n, meta["alpha"], meta["beta"], meta["kappa"])
    twm, twc, _ = weight_tols(n, meta["alpha"], meta["beta"], meta["kappa"])
    awm, awc = [abs(float(x)) for x in swm], [abs(float(x)) for x in swc]
    nops = (N1 + n + 8) * EPS
    gw = sum(nops * awm[j] + twm[j] for j in range(N1))
    mo = None
    if utl_out is not None:
        if not utl_out.startswith("ok"):
            probs.append(("corr", "circ-model-undefined", "utl: %s" % utl_out[:40]))
        else:
            mo = [unhex(x) for x in utl_out.split()[1:]]
    per = lo.dim + lo.dof * lo.dof + dof0 * lo.dof
    rowsumT = [sum(abs(x) for x in T[a]) for a in range(lo.dof)]
    for i in range(k):
        emean, ecov, ecross, P = cf[i]
        cmean = [o["mean"][r][i] for r in range(lo.dim)]
        ccov = [[o["cov"][a][lo.dof * i + c] for c in range(lo.dof)] for a in range(lo.dof)]
        ccross = [[o["cross"][a][lo.dof * i + c] for c in range(lo.dof)] for a in range(dof0)]
        Ycols = [[o["Y"][r][N1 * i + j] for r in range(lo.dim)] for j in range(N1)]
        Xcols = [[o["X"][r][N1 * i + j] for r in range(li.dim)] for j in range(N1)]
        # mean tolerances per layout row
        tol_mean = []
        for r in range(lo.lin):
            ymag = [sum(abs(meta["A"][r][l]) * abs(Xcols[j][l]) for l in range(li.lin)) +
                    sum(abs(meta["A"][r][li.lin + z]) * abs(Xcols[j][li.lin + li.circ * li.cs + z]) for z in range(nz)) + abs(meta["bl"][r]) for j in range(N1)]
            tol_mean.append(C_UT * sum((nops * awm[j] + twm[j]) * ymag[j] for j in range(N1)) + 1e-300)
        tang_mean_tol = list(tol_mean)
        for q in range(lo.circ):
            if lo.quat:
                r0 = lo.lin + 4 * q
                M = [[sum(float(swm[j]) * Ycols[j][r0 + a] * Ycols[j][r0 + b] for j in range(N1)) for b in range(4)] for a in range(4)]
                ev, V = jacobi_eig(M)
                order = sorted(range(4), key=lambda z: -ev[z])
                gap = ev[order[0]] - ev[order[1]]
                vdom = [V[a][order[0]] for a in range(4)]
                tq = C_UT * 4 * gw / max(gap, 1e-3) + 16 * EPS
                tol_mean += [tq] * 4
                tang_mean_tol += [2 * tq] * 3
                v = cmean[r0:r0 + 4]
                br = stats.setdefault("_branches", {})
                neg = sum(v[a] * emean[r0 + a] for a in range(4)) < 0
                key = "quaternion_to_rotation_vector:" + ("w<0 (mean quaternion returned with negative sign)" if neg else "w>=0")
                br[key] = br.get(key, 0) + 1
                e_contract = min(max(abs(v[a] - vdom[a]) for a in range(4)), max(abs(v[a] + vdom[a]) for a in range(4)))
                stats["circ_eig_contract"] = max(stats.get("circ_eig_contract", 0.0), e_contract / tq)
                if e_contract > tq:
                    probs.append(("prop", "quat-mean-not-dominant-eigenvector", "%s, component %d: mean quaternion is not the dominant eigenvector of sum w q q^T (err %.3g, tol %.3g)" % (what, i, e_contract, tq)))
            else:
                r0 = lo.lin + q
                re = sum(float(swm[j]) * math.cos(Ycols[j][r0]) for j in range(N1))
                im = sum(float(swm[j]) * math.sin(Ycols[j][r0]) for j in range(N1))
                R = math.hypot(re, im)
                ta = C_UT * 2 * gw / max(R, 1e-3) + 8 * EPS * math.pi
                tol_mean.append(ta)
                tang_mean_tol.append(ta)
        # (c) closed-form mean
        for r in range(lo.dim):
            if r < lo.lin:
                e = abs(cmean[r] - emean[r])
            elif lo.quat:
                r0 = lo.lin + 4 * ((r - lo.lin) // 4)
                e = min(max(abs(cmean[r0 + a] - emean[r0 + a]) for a in range(4)), max(abs(cmean[r0 + a] + emean[r0 + a]) for a in range(4)))
            else:
                e = abs(wrap(cmean[r] - emean[r]))
            stats["circ_mean_spec"] = max(stats.get("circ_mean_spec", 0.0), e / tol_mean[r])
            if e > tol_mean[r]:
                probs.append(("prop", "mean-not-affine", "%s, component %d: output mean row %d = %.17g, expected %.17g (err %.3g, tol %.3g)" % (what, i, r, cmean[r], emean[r], e, tol_mean[r])))
                break
        # tangent offsets (from the C++ points and the C++ mean) and their error estimates
        d = [lo.tangent(Ycols[j], cmean) for j in range(N1)]
        derr = [tangent_err(lo, Ycols[j], cmean, d[j]) for j in range(N1)]
        dd = [[derr[j][a] + tang_mean_tol[a] + (nops * max(abs(Ycols[j][a]), 0.0) if a < lo.lin else 0.0) for a in range(lo.dof)] for j in range(N1)]
        din = comps[i]["E"]
        ddin = comps[i]["Eerr"]
        tol_cov = [[C_UT * sum((nops * awc[j] + twc[j]) * (abs(d[j][a]) + dd[j][a]) * (abs(d[j][c]) + dd[j][c]) +
                               awc[j] * ((abs(d[j][a]) + dd[j][a]) * dd[j][c] + (abs(d[j][c]) + dd[j][c]) * dd[j][a]) for j in range(N1)) + 1e-300
                    for c in range(lo.dof)] for a in range(lo.dof)]
        tol_cross = [[C_UT * sum((nops * awc[j] + twc[j]) * (abs(din[j][a]) + ddin[j][a]) * (abs(d[j][c]) + dd[j][c]) +
                                 awc[j] * ((abs(din[j][a]) + ddin[j][a]) * dd[j][c] + (abs(d[j][c]) + dd[j][c]) * ddin[j][a]) for j in range(N1)) + 1e-300
                      for c in range(lo.dof)] for a in range(dof0)]
        pn = n * maxabs(P)
        tsq = C_SQRT * n * EPS * pn
        bad = False
        for a in range(lo.dof):
            for c in range(lo.dof):
                tp = tol_cov[a][c] + tsq * rowsumT[a] * rowsumT[c]
                e = abs(ccov[a][c] - ecov[a][c])
                stats["circ_cov_spec"] = max(stats.get("circ_cov_spec", 0.0), e / tp)
                if e > tp and not bad:
                    probs.append(("prop", "cov-not-affine", "%s, component %d: output covariance[%d][%d] = %.17g, T P T^T = %.17g (err %.3g, tol %.3g)" % (what, i, a, c, ccov[a][c], ecov[a][c], e, tp)))
                    bad = True
                if mo is not None:
                    mv = mo[i * per + lo.dim + c * lo.dof + a]
                    em = abs(ccov[a][c] - mv)
                    stats["circ_cov_model"] = max(stats.get("circ_cov_model", 0.0), em / tol_cov[a][c])
                    if em > tol_cov[a][c] and not bad:
                        probs.append(("corr", "circ-cov-vs-model", "%s, component %d: covariance[%d][%d] differs from the Lean model by %.3g (tol %.3g)" % (what, i, a, c, em, tol_cov[a][c])))
                        bad = True
        bad = False
        for a in range(dof0):
            for c in range(lo.dof):
                tp = tol_cross[a][c] + tsq * rowsumT[c]
                e = abs(ccross[a][c] - ecross[a][c])
                stats["circ_cross_spec"] = max(stats.get("circ_cross_spec", 0.0), e / tp)
                if e > tp and not bad:
                    probs.append(("prop", "cross-not-affine", "%s, component %d: cross-covariance[%d][%d] = %.17g, (P T^T) = %.17g (err %.3g, tol %.3g)" % (what, i, a, c, ccross[a][c], ecross[a][c], e, tp)))
                    bad = True
                if mo is not None:
                    mv = mo[i * per + lo.dim + lo.dof * lo.dof + c * dof0 + a]
                    em = abs(ccross[a][c] - mv)
                    stats["circ_cross_model"] = max(stats.get("circ_cross_model", 0.0), em / tol_cross[a][c])
                    if em > tol_cross[a][c] and not bad:
                        probs.append(("corr", "circ-cross-vs-model", "%s, component %d: cross-covariance[%d][%d] differs from the Lean model by %.3g (tol %.3g)" % (what, i, a, c, em, tol_cross[a][c])))
                        bad = True
        if mo is not None:
            for r in range(lo.dim):
                mv = mo[i * per + r]
                em = abs(cmean[r] - mv)
                if (not lo.quat) and r >= lo.lin:
                    em = abs(wrap(cmean[r] - mv))
                stats["circ_mean_model"] = max(stats.get("circ_mean_model", 0.0), em / tol_mean[r])
                if em > tol_mean[r]:
                    probs.append(("corr", "circ-mean-vs-model", "%s, component %d: mean row %d differs from the Lean model by %.3g (tol %.3g)" % (what, i, r, em, tol_mean[r])))
                    break
    return probs


def circ_stage_impl(ctx, binary, stats, hist, notes, only=None):
    g = ctx.gen("circular")
    N = ctx.n(90, 3000)
    cases = [circ_case(g, ctx.tier) for _ in range(N)] if only is None else only
    register("circular", cases)
    lines = [c[0] for c in cases]
    hout, logs = run_h(binary, lines)
    prop_bad, corr_bad = [], []
    first, dl, dmap = [], [], {}
    for ci, ((line, meta), h) in enumerate(zip(cases, hout)):
        li, lo, k = meta["li"], meta["lo"], meta["k"]
        kind = "none" if li.circ == 0 else ("quaternion" if li.quat else "euler")
        hist["circ:in=" + kind] = hist.get("circ:in=" + kind, 0) + 1
        hist["circ:out-circular=%d" % lo.circ] = hist.get("circ:out-circular=%d" % lo.circ, 0) + 1
        hist["circ:noise-rows=%d" % li.noise] = hist.get("circ:noise-rows=%d" % li.noise, 0) + 1
        hist["circ:valid=%d" % meta["valid"]] = hist.get("circ:valid=%d" % meta["valid"], 0) + 1
        probs, o, comps = [], None, None
        if not h.startswith("ok"):
            probs.append(("prop", "ut-crash" if meta["valid"] else "ut-crash-on-failure", "unscented_transform failed on a valid input with circular components (%s): %s" % (kind, h[:80])))
        else:
            try:
                if nonfinite_count(h):
                    raise ArithmeticError("non-finite")
                o = parse_utc_out(h, meta)
            except ArithmeticError:
                o = None
                probs.append(("prop", "output-not-finite", "unscented_transform with circular components (%s): %d NaN / inf entries for a finite input" % (kind, max(nonfinite_count(h), 1))))
            except (IndexError, ValueError) as e:
                o = None
                probs.append(("prop", "ut-output-malformed", "unscented_transform with circular components: output not of the expected form (%s): %s" % (type(e).__name__, h[:80])))
            n = li.dof
            if o is None:
                pass
            elif o["same"] != "in-same":
                notes["input_modified"] = notes.get("input_modified", 0) + 1
            if o is None:
                pass
            elif (not meta["valid"]) and o["flag"] != 0:
                probs.append(("prop", "failure-reported-as-success", "circular layout: the function evaluation failed but the transform reported success"))
            elif meta["valid"] and o["flag"] != 1:
                probs.append(("prop", "success-reported-as-failure", "circular layout: valid evaluation but the transform reported failure"))
            elif o["xshape"] != (li.dim, (2 * n + 1) * k) or (o["flag"] and ((o["comps"], o["dim"], o["dimcov"]) != (k, lo.dim, lo.dof) or o["cross_shape"] != (n - li.noise, lo.dof * k))):
                probs.append(("prop", "ut-shape", "circular layout: sigma points %s, output %d x dim %d (dof %d), cross %s; expected %dx%d, %d x dim %d (dof %d), %dx%d" % (
                    o["xshape"], o["comps"], o["dim"], o["dimcov"], o["cross_shape"], li.dim, (2 * n + 1) * k, k, lo.dim, lo.dof, n - li.noise, lo.dof * k)))
            else:
                pp, comps = circ_points(meta, o, stats)
                probs += [("prop", a, b) for a, b in pp]
                spl, utl = circ_lines(meta, o, comps)
                dmap[ci] = (len(dl), len(dl) + 1 if utl else None)
                dl.append(spl)
                if utl:
                    dl.append(utl)
        first.append((probs, o, comps))
    douts = vlib.run_driver(dl)
    for ci, ((line, meta), h) in enumerate(zip(cases, hout)):
        probs, o, comps = first[ci]
        if ci in dmap:
            a, b = dmap[ci]
            probs += circ_compare(meta, o, comps, douts[a], douts[b] if b is not None else None, stats)
        for kind, key2, what in probs:
            (prop_bad if kind == "prop" else corr_bad).append((key2, what, line, h))
    return len(cases), lines, prop_bad, corr_bad


def circ_stage(ctx, binary, stats, hist, notes, only=None):
    return circ_stage_impl(ctx, binary, stats, hist, notes, only)


# ------------------------------------------------------------------------------------------------ run

def run(ctx):
    ctx.proof_stage()
    binary = vlib.build_harness("h_ut")
    stats, hist, notes = {}, {}, {}
    rp = None
    if ctx.replay:
        import json
        rp = json.load(open(ctx.replay))["replay"]

    def sel(stage):
        """None: generate; otherwise the single recorded case of a replay file (if it belongs to this stage)"""
        if rp is None:
            return None
        if rp.get("stage") != stage or "meta" not in rp:
            return []
        return [(rp["input_line"], unsnap(rp["meta"]))]

    pre = {"points": sel("points"), "transform": sel("transform"), "circular": sel("circular")}
    inter_crash = 0
    if rp is None:
        # all sigma-point / transform cases of all layouts go through ONE harness process, interleaved (dimensions,
        # layouts, component counts and parameters change non-monotonically from call to call: state surviving
        # between calls inside the library — caches, workspaces that only grow — would show)
        gp, gt, gc = ctx.gen("points"), ctx.gen("transform"), ctx.gen("circular")
        pre["points"] = [sp_case(gp, ctx.tier) for _ in range(ctx.n(70, 2500))]
        pre["transform"] = [ut_case(gt, ctx.tier, i) for i in range(ctx.n(150, 5000))]
        # enumerated every run: long inputs; >= 5 components with several appended noise blocks; consecutive calls
        # whose offsets matrices have the same number of entries in different shapes (ny x (2n+1): 3x5 / 5x3, ...)
        adjacent = []
        for i_ in range(ctx.n(3, 12)):
            # 2n+1 = 33 and 65 sigma points in every run, a third length at random
            pre["transform"].append(ut_case(gt, ctx.tier, -1, {"big": [16, 32][i_] if i_ < 2 else True, "mode": gt.r.choice(["gen", "sm", "asm", "mm", "amm"])}))
        for i_ in range(ctx.n(3, 20)):
            pre["transform"].append(ut_case(gt, ctx.tier, -1, {"k": gt.r.choice([5, 6, 7]), "nzs": gt.r.choice([[1, 1], [2, 1], [1, 2, 1], [1, 1, 1, 1]]),
                                                              "mode": gt.r.choice(["gen", "sm", "mm"]), "nx": gt.r.randint(1, 3), "ny": gt.r.randint(1, 3)}))
        SAME_SIZE = [((3, 2), (5, 1)), ((5, 3), (7, 2)), ((7, 1), (3, 3)), ((9, 2), (5, 4)), ((5, 4), (3, 7)), ((9, 1), (3, 4))]
        for pair in SAME_SIZE:
            pair = list(pair)
            gt.r.shuffle(pair)
            kk = gt.r.choice([1, 2])
            md = gt.r.choice(["gen", "mm", "amm"])
            grp = [ut_case(gt, ctx.tier, -1, {"mode": md, "ny": ny_, "nx": n_, "nzs": [], "k": kk}) for (ny_, n_) in pair]
            pre["transform"] += grp
            adjacent.append([c_[0] for c_ in grp])
        pre["circular"] = [circ_case(gc, ctx.tier) for _ in range(ctx.n(90, 3000))]
        # regression corpus (boundary cases and minimised past failures), run with every tier and seed
        import json
        ncorpus = 0
        for f in sorted((vlib.VERIF / "corpus" / "C03").glob("*.json")):
            cr = json.load(open(f))
            cr = cr.get("replay", cr)
            if cr.get("stage") in pre and "meta" in cr:
                m_ = unsnap(cr["meta"])
                line_ = {"points": lambda m: sp_line(m), "transform": lambda m: ut_line(m), "circular": lambda m: circ_line(m)}[cr["stage"]](m_)
                pre[cr["stage"]].insert(0, (line_, m_))
                ncorpus += 1
        hist["corpus-cases"] = ncorpus
        inadj = set(l for grp in adjacent for l in grp)
        groups = [[l] for st_ in ("points", "transform", "circular") for (l, _m) in pre[st_] if l not in inadj] + adjacent
        ctx.gen("interleave").r.shuffle(groups)
        allc = [l for grp in groups for l in grp]
        hist["adjacent-calls:same-element-count-different-shape"] = len(adjacent)
        outs, ilogs = vlib.run_harness(binary, allc)
        HCACHE.update(zip(allc, outs))
        inter_crash = len(ilogs)
    nw, wlines, w_prop, w_corr, w_crash = weights_stage(ctx, binary, stats, hist, sel("weights"))
    npnt, plines, p_prop, p_corr, p_crash = points_stage(ctx, binary, stats, hist, pre["points"])
    cases, tlines, t_prop, t_corr, t_crash = transform_stage(ctx, binary, stats, hist, notes, pre["transform"])
    nex, ex_bad = exact_instances(ctx, stats, hist) if rp is None else (0, [])
    ncirc, clines, c_prop, c_corr = circ_stage(ctx, binary, stats, hist, notes, pre["circular"])
    w_crash += inter_crash
    prop_bad = w_prop + p_prop + t_prop + c_prop
    corr_bad = w_corr + p_corr + t_corr + c_corr + [(k2, w, l, "") for (k2, w, l) in ex_bad]

    def rdata(line, h, extra=None):
        stage, meta = REG.get(line, (None, None))
        d = {"harness": "h_ut", "stage": stage, "input_line": line, "meta": meta, "observed": h[:3000],
             "how": "python3 check.py C03 --replay <this file> re-runs exactly this case against the current tree"}
        d.update(extra or {})
        return d

    by_class = {}
    for key2, what, line, h in prop_bad:
        m_ = (REG.get(line, (None, None))[1]) or {}
        tag = "%s | %s %s" % (key2, m_.get("scale", m_.get("style", "?")), m_.get("pstyle", ""))
        by_class[tag] = by_class.get(tag, 0) + 1
    ctx.coverage["failing_cases_by_generator_class"] = by_class
    seen = set()
    for key2, what, line, h in prop_bad:
        if key2 in seen:
            continue
        seen.add(key2)
        ctx.violation(key2, "unscented transform: " + what, rdata(line, h))
    if corr_bad and not prop_bad:
        key2, what, line, h = corr_bad[0]
        ctx.violation("correspondence:" + key2, "model and implementation disagree (%d cases), no property predicate failed: %s" % (len(corr_bad), what),
                      rdata(line, h, {"correspondence": "BFL.unscentedTransform / utWeights / sigmaPoints vs sigma_point.cpp"}), no_input=True)
    branches = stats.pop("_branches", {})

    def hsum(prefix):
        return sum(v for k_, v in hist.items() if k_.startswith(prefix))

    branches.update({
        "unscented_weights:j==0 and j>0 (every weights case)": nw,
        "sigma_point:dim_linear>0": npnt + len(cases) + sum(1 for l in clines if int(l.split()[1]) > 0),
        "sigma_point:dim_linear==0": sum(1 for l in clines if int(l.split()[1]) == 0),
        "sigma_point:dim_circular>0,quaternion": hist.get("circ:in=quaternion", 0),
        "sigma_point:dim_circular>0,euler": hist.get("circ:in=euler", 0),
        "sigma_point:dim_circular==0": npnt + len(cases) + hist.get("circ:in=none", 0),
        "sigma_point:dim_noise>0": npnt - hist.get("points:noise-blocks=0", 0) + len(cases) - hist.get("ut:noise-rows=0", 0) + hsum("circ:noise-rows=") - hist.get("circ:noise-rows=0", 0),
        "sigma_point:dim_noise==0": hist.get("points:noise-blocks=0", 0) + hist.get("ut:noise-rows=0", 0) + hist.get("circ:noise-rows=0", 0),
        "unscented_transform:!valid_fun_data (early return)": hist.get("ut:valid=0", 0) + hist.get("circ:valid=0", 0),
        "unscented_transform:output.dim_circular>0": hsum("circ:out-circular=") - hist.get("circ:out-circular=0", 0),
        "unscented_transform:output.dim_circular==0": len(cases) + hist.get("circ:out-circular=0", 0),
        "overload:StateModel": hist.get("ut:mode=sm", 0), "overload:AdditiveStateModel": hist.get("ut:mode=asm", 0),
        "overload:MeasurementModel": hist.get("ut:mode=mm", 0), "overload:AdditiveMeasurementModel": hist.get("ut:mode=amm", 0),
        "overload:AdditiveMeasurementModel:!valid (return before post-processing)": sum(1 for (l, m_) in cases if m_["mode"] == "amm" and not m_["valid"]),
        "augmentWithNoise:non-square (return false)": hist.get("augmentWithNoise:non-square(refused)", 0),
        "augmentWithNoise:components>1 (blocks moved)": sum(1 for l in plines if int(l.split()[4]) > 1 and int(l.split()[5]) > 0),
        "augmentWithNoise:second augmentation": hist.get("points:noise-blocks=2", 0),
        "dof_size:quaternion": hist.get("weights:dof:quat", 0), "dof_size:else": hist.get("weights:dof:euler", 0),
        "directional_mean:cols==1": 0,
        "special size: one degree of freedom (3 sigma points)": sum(1 for (l, m_) in cases if m_["nx"] + m_["nz"] == 1) + sum(1 for l in clines if int(l.split()[1]) + int(l.split()[2]) * (3 if l.split()[3] == "1" else 1) + int(l.split()[4]) == 1) + sum(1 for l in plines if int(l.split()[1]) == 1 and int(l.split()[5]) == 0),
    })
    all_lines = wlines + plines + tlines + clines
    nontrivial = set()
    for (line, meta) in cases:
        if meta["nx"] + meta["nz"] > 1 or meta["k"] > 1:
            nontrivial.add(line)
    for l in plines + clines:
        nontrivial.add(l)
    ctx.coverage.update({
        "evaluations": nw + npnt + len(cases) + nex + ncirc,
        "distinct_nontrivial": len(nontrivial),
        "rule": "weights: fixed triples + random (n, alpha in [0.1,2], beta >= 0, kappa >= 0) through both UTWeight constructors; "
                "sigma points: random mixtures (linear 1..5, 0..2 appended noise blocks, 1..4 distinct components, PSD incl. singular/zero); "
                "transform: generic overload and the four model overloads with harness-defined affine models (dims 1..5, noise rows 0..3, "
                "components 1..4, non-symmetric / rank-deficient / zero A, failing evaluations); exact instances: model only, dyadic factor; "
                "all sigma-point and transform cases of all layouts run interleaved (shuffled) in one harness process; alpha occasionally 1e-3 / 1e-2; "
                "non-trivial = more than one input dimension or more than one component (weights cases are not counted); distinct = distinct input lines",
        "samples": [l[:400] for l in (wlines[:1] + plines[:1] + tlines[:1] + tlines[-1:] + clines[:1])],
        "branch_histogram": hist, "code_branches_hit": branches,
        "code_branches_note": "directional_mean's single-column branch cannot be reached from the transform (2n+1 >= 3 columns); it is a branch of the model (dirMean) only",
        "numeric_max_error_over_tolerance": stats, "notes_not_alarmed": notes,
        "traces_validated_against_impl": nw + npnt + len(cases) + ncirc,
        "exact_theorem_instances_on_Q": nex,
        "model_vs_impl_disagreements": len(corr_bad), "property_failures_on_impl": len(prop_bad),
        "sanitizer_crashes": w_crash + p_crash + t_crash,
    })
    ctx.assumptions += [
        "square-root routine: contract B B^T = c P checked numerically on every sigma_point() call observed (tolerance 256 n eps c ||P|| + rounding of the columns)",
        "floating point: implementation compared with the exact rational model / closed forms within bounds computed from the actual points "
        "(sum_j |w_j| |offset_j|^2 scaling, weight cancellation for small alpha included)",
        "circular / quaternion layouts: Float execution of the model (Transc instance) compared with the implementation",
    ]
