/-
C13 — model of the skip machinery (core Lean only, executable).

Transcribed, level by level, from

  GaussianFilter::skip / ParticleFilter::skip            (filter level, incl. "all")
  GaussianPrediction::skip / PFPrediction::skip          (prediction level: bookkeeping of `skip_`)
  GaussianCorrection::skip / PFCorrection::skip          (correction level)
  StateModel::skip, StateModel::exogenous_model()        (throws when no exogenous model is attached)
  ExogenousModel::skip
  GaussianPrediction::predict / PFPrediction::predict, GaussianCorrection::correct / PFCorrection::correct
  KFPrediction::predictStep, UKFPrediction::predictStep  (state model skipping ⇒ identity)
  DrawParticles::predictStep, GPFPrediction::predictStep
  LinearStateModel::propagate                            (four-way case split on the two model flags)

The flags are the only state.  A command may throw (`std::runtime_error` from
`StateModel::exogenous_model()`); flags written before the throw stay written, so every level
returns the state *and* the outcome.
-/
namespace BFL.Skip

/-- The names the dispatch chains compare `what_step` with; everything else is `unknown`. -/
inductive StepName
  | prediction | state | exogenous | correction | all | unknown
  deriving DecidableEq, Repr, Inhabited

/-- Exact, case-sensitive string comparison, as `std::string::operator==` in the dispatch chains. -/
def parseName (s : String) : StepName :=
  if s == "prediction" then .prediction
  else if s == "state" then .state
  else if s == "exogenous" then .exogenous
  else if s == "correction" then .correction
  else if s == "all" then .all
  else .unknown

/-- `pred`  : `GaussianPrediction::skip_` / `PFPrediction::skip_`
    `state` : `StateModel::skip_`
    `exo`   : `ExogenousModel::skip_` of the attached exogenous model, `none` when no model is attached
    `corr`  : `GaussianCorrection::skip_` / `PFCorrection::skip_` -/
structure SkipState where
  pred : Bool
  state : Bool
  exo : Option Bool
  corr : Bool
  deriving DecidableEq, Repr, Inhabited

/-- All `skip_` members are initialised to `false`. -/
def SkipState.init (hasExo : Bool) : SkipState :=
  { pred := false, state := false, exo := if hasExo then some false else none, corr := false }

/-- `DrawParticles(std::unique_ptr<StateModel>, std::unique_ptr<ExogenousModel>)`: since fix
    18ea290 the constructor body calls `state_model_->add_exogenous_model(std::move(exogenous_model))`,
    so the configuration the skip machinery (and `LinearStateModel::propagate`) sees has an
    exogenous model exactly when the caller supplied one.  (Before the fix the model was moved
    into a member nothing reads and this was `SkipState.init false`.) -/
def drawTwoArgConfig (suppliedExo : Bool) : SkipState := SkipState.init suppliedExo

/-- What the caller of `skip` sees. -/
inductive Outcome
  | ret (b : Bool)
  | thrown                -- std::runtime_error from StateModel::exogenous_model()
  deriving DecidableEq, Repr, Inhabited

structure Res where
  st : SkipState
  out : Outcome
  deriving DecidableEq, Repr, Inhabited

/-- `StateModel::have_exogenous_model()` -/
def SkipState.hasExo (st : SkipState) : Bool := st.exo.isSome

/-- `ExogenousModel::skip(what_step, status)`: new flag and return value. -/
def exoSkip (e : Bool) (n : StepName) (on : Bool) : Bool × Bool :=
  match n with
  | .exogenous => (on, true)
  | _ => (e, false)

/-- `StateModel::skip(what_step, status)`.  The "exogenous" branch goes through
    `exogenous_model()`, which throws when nothing is attached; the value returned by
    `ExogenousModel::skip` is discarded by the code. -/
def stateModelSkip (st : SkipState) (n : StepName) (on : Bool) : Res :=
  match n with
  | .state => ⟨{ st with state := on }, .ret true⟩
  | .exogenous =>
    match st.exo with
    | none => ⟨st, .thrown⟩
    | some e => ⟨{ st with exo := some (exoSkip e .exogenous on).1 }, .ret true⟩
  | _ => ⟨st, .ret false⟩

/-- `GaussianPrediction::skip` / `PFPrediction::skip` (identical bodies). -/
def predictionSkip (st : SkipState) (n : StepName) (on : Bool) : Res :=
  match n with
  | .prediction =>
    -- skip_ = status;
    let st1 := { st with pred := on }
    -- getStateModel().skip("state", status);
    let r2 := stateModelSkip st1 .state on
    -- if (have_exogenous_model()) getStateModel().skip("exogenous", status);
    if r2.st.hasExo then
      let r3 := stateModelSkip r2.st .exogenous on
      match r3.out with
      | .thrown => ⟨r3.st, .thrown⟩
      | .ret _ => ⟨r3.st, .ret true⟩
    else ⟨r2.st, .ret true⟩
  | .state =>
    -- getStateModel().skip("state", status);
    let r1 := stateModelSkip st .state on
    -- skip_ = sm.is_skipping() && (!sm.have_exogenous_model() || sm.exogenous_model().is_skipping());
    let v := r1.st.state && (match r1.st.exo with
                             | none => true
                             | some e => e)
    ⟨{ r1.st with pred := v }, .ret true⟩
  | .exogenous =>
    -- getStateModel().skip("exogenous", status);          (throws without a model, nothing written yet)
    let r1 := stateModelSkip st .exogenous on
    match r1.out with
    | .thrown => ⟨r1.st, .thrown⟩
    | .ret _ =>
      -- skip_ = sm.is_skipping() & sm.exogenous_model().is_skipping();
      match r1.st.exo with
      | none => ⟨r1.st, .thrown⟩
      | some e => ⟨{ r1.st with pred := r1.st.state && e }, .ret true⟩
  | _ => ⟨st, .ret false⟩

/-- `GaussianCorrection::skip(status)` / `PFCorrection::skip(status)`. -/
def correctionSkip (st : SkipState) (on : Bool) : Res :=
  ⟨{ st with corr := on }, .ret true⟩

/-- `GaussianFilter::skip` / `ParticleFilter::skip` (identical bodies). -/
def filterSkip (st : SkipState) (n : StepName) (on : Bool) : Res :=
  match n with
  | .prediction | .state | .exogenous => predictionSkip st n on
  | .correction => correctionSkip st on
  | .all =>
    -- return_status = true; return_status &= prediction_->skip("prediction", status);
    let r1 := predictionSkip st .prediction on
    match r1.out with
    | .thrown => r1
    | .ret b1 =>
      -- return_status &= correction_->skip(status);
      let r2 := correctionSkip r1.st on
      match r2.out with
      | .thrown => r2
      | .ret b2 => ⟨r2.st, .ret ((true && b1) && b2)⟩
  | .unknown => ⟨st, .ret false⟩

/-- `getStateModel().exogenous_model().skip(what_step, status)` called directly: the accessor
    throws when no model is attached; otherwise `ExogenousModel::skip` (only the name
    "exogenous" is known, every other name — including "state", "prediction", "all" — returns
    `false` and writes nothing). -/
def exoModelSkip (st : SkipState) (n : StepName) (on : Bool) : Res :=
  match st.exo with
  | none => ⟨st, .thrown⟩
  | some e => ⟨{ st with exo := some (exoSkip e n on).1 }, .ret (exoSkip e n on).2⟩

/-- Where a command enters the chain. -/
inductive Level
  | filter          -- GaussianFilter::skip / ParticleFilter::skip
  | prediction      -- prediction().skip(name, on)
  | correction      -- correction().skip(on)            (the name is ignored)
  | stateModel      -- prediction().getStateModel().skip(name, on)   (bypasses the bookkeeping of `pred`)
  | exoModel        -- prediction().getStateModel().exogenous_model().skip(name, on)   (the accessor throws when absent)
  deriving DecidableEq, Repr, Inhabited

structure Cmd where
  level : Level
  name : StepName
  on : Bool
  deriving DecidableEq, Repr, Inhabited

def skipCmd (st : SkipState) (c : Cmd) : Res :=
  match c.level with
  | .filter => filterSkip st c.name c.on
  | .prediction => predictionSkip st c.name c.on
  | .correction => correctionSkip st c.on
  | .stateModel => stateModelSkip st c.name c.on
  | .exoModel => exoModelSkip st c.name c.on

/-- **Hand-over**: the prediction and correction objects are move-constructed into new objects
    held by a new filter.  Every move constructor in the hierarchy moves its base first
    (`GaussianPrediction(std::move(p))`, `PFPrediction(std::move(p))`, `PFCorrection(std::move(c))`
    and — since fix 88cf1f5 — `GaussianCorrection(std::move(c))` in `KFCorrection`,
    `UKFCorrection`, `SUKFCorrection`), which copies `skip_`; the state model travels inside its
    `unique_ptr`, so it and its exogenous model are the very same objects.  Field by field: -/
def handOver (st : SkipState) : SkipState :=
  { pred := st.pred, state := st.state, exo := st.exo, corr := st.corr }

/-- What the hand-over did to a *Gaussian* correction before 88cf1f5: the base class was
    default-constructed, so the correction's skip flag was lost. -/
def handOverBefore88cf1f5 (st : SkipState) : SkipState :=
  { pred := st.pred, state := st.state, exo := st.exo, corr := false }

/-- State after a command list (a thrown command keeps whatever it had written). -/
def run (st : SkipState) : List Cmd → SkipState
  | [] => st
  | c :: cs => run (skipCmd st c).st cs

/-! ### What a step does, as a function of the flags -/

inductive PredKind
  | kf            -- KFPrediction over a LinearStateModel
  | ukfAdd        -- UKFPrediction, additive constructor (AdditiveStateModel::propagate)
  | ukfGen        -- UKFPrediction, generic constructor (StateModel::motion on augmented sigma points)
  | draw          -- DrawParticles (StateModel::motion on the particle positions)
  | gpfKf         -- GPFPrediction wrapping a KFPrediction
  deriving DecidableEq, Repr, Inhabited

/-- Result of `LinearStateModel::propagate(cur, prop)`. -/
inductive Base
  | copy          -- both models skipping:            prop = cur
  | fxExo         -- neither skipping:                prop = F cur + exo(cur)
  | fx            -- state model active, no/skipping exogenous model: prop = F cur
  | exoOnly       -- state model skipping, exogenous model active: prop = exo(cur)
  | untouched     -- state model skipping, no exogenous model: no branch taken, `prop` is not written
  deriving DecidableEq, Repr, Inhabited

/-- `LinearStateModel::propagate`: the four `if / else if` tests in order. -/
def linearPropagate (st : SkipState) : Base :=
  let exoSkipping := match st.exo with   -- have_exogenous_model() && exogenous_model().is_skipping()
    | some e => e
    | none => false
  let exoActive := match st.exo with     -- have_exogenous_model() && !exogenous_model().is_skipping()
    | some e => !e
    | none => false
  if st.state && exoSkipping then .copy
  else if !st.state && exoActive then .fxExo
  else if !st.state then .fx
  else if exoActive then .exoOnly
  else .untouched

/-- Which branch a call of `predict` ends in. -/
inductive PredPath
  | atPredict          -- GaussianPrediction/PFPrediction::predict: `skip_` ⇒ `pred = prev`
  | atPredictStep      -- KFPrediction/UKFPrediction::predictStep: state model skipping ⇒ `pred = prev`
  | ran (b : Base)     -- the state model was asked to propagate / move the states
  deriving DecidableEq, Repr, Inhabited

/-- `predict` → `predictStep` → state model.  For `gpfKf` the inner Gaussian prediction's own
    `skip_` is never written by any command (the wrapper forwards only `getStateModel()`), so
    its `predict` always enters `KFPrediction::predictStep`; the wrapper then copies weights and
    positions, so an identity of the inner step is an identity of the whole particle set. -/
def predPath (k : PredKind) (st : SkipState) : PredPath :=
  if st.pred then .atPredict
  else match k with
    | .draw => .ran (linearPropagate st)
    | .kf | .ukfAdd | .ukfGen | .gpfKf =>
      if st.state then .atPredictStep else .ran (linearPropagate st)

/-- What an observer of the output sees. -/
inductive Obs
  | identity           -- output equals input, every field
  | step (b : Base)    -- the step ran with this state-model behaviour
  deriving DecidableEq, Repr, Inhabited

def PredPath.obs : PredPath → Obs
  | .atPredict => .identity
  | .atPredictStep => .identity
  | .ran b => .step b

def predObs (k : PredKind) (st : SkipState) : Obs := (predPath k st).obs

/-- `GaussianCorrection::correct` / `PFCorrection::correct`: `true` = `correctStep` runs. -/
def corrRuns (st : SkipState) : Bool := !st.corr

/-! ### Specification side: what the commands given so far mean

Independent of the dispatch chains: three basic switches (state model, exogenous model,
correction); 'prediction' sets the first two, 'all' all three; the prediction is skipped exactly
when the state model and (if there is one) the exogenous model are.  Commands that are not
understood (unknown name, 'exogenous' without such a model) change nothing. -/

structure Spec where
  hasExo : Bool
  state : Bool
  exo : Bool        -- meaningful only when `hasExo`
  corr : Bool
  deriving DecidableEq, Repr, Inhabited

def Spec.init (hasExo : Bool) : Spec := ⟨hasExo, false, false, false⟩

def Spec.predSkipped (s : Spec) : Bool := s.state && (!s.hasExo || s.exo)

def Spec.apply (s : Spec) (n : StepName) (on : Bool) : Spec :=
  match n with
  | .prediction => { s with state := on, exo := if s.hasExo then on else s.exo }
  | .state => { s with state := on }
  | .exogenous => if s.hasExo then { s with exo := on } else s
  | .correction => { s with corr := on }
  | .all => { s with state := on, exo := if s.hasExo then on else s.exo, corr := on }
  | .unknown => s

def Spec.run (s : Spec) : List (StepName × Bool) → Spec
  | [] => s
  | (n, on) :: cs => Spec.run (s.apply n on) cs

/-- The flags a filter must report for a specification state. -/
def Spec.flags (s : Spec) : SkipState :=
  { pred := s.predSkipped, state := s.state, exo := if s.hasExo then some s.exo else none, corr := s.corr }

/-- Expected outcome of a filter-level command. -/
def Spec.outcome (s : Spec) (n : StepName) : Outcome :=
  match n with
  | .unknown => .ret false
  | .exogenous => if s.hasExo then .ret true else .thrown
  | _ => .ret true

def filterCmds (cs : List (StepName × Bool)) : List Cmd := cs.map fun c => ⟨.filter, c.1, c.2⟩

/-! ### Configuration changed after construction

`prediction().getStateModel().add_exogenous_model(std::unique_ptr<ExogenousModel>)` may be called
at any time: it replaces `exogenous_model_` by a freshly constructed model (whose `skip_` is
`false`) and touches no other flag — in particular not the aggregate `skip_` of the prediction,
which `skip()` recomputes from the models at its *next* 'state' / 'exogenous' / 'prediction'
command (`have_exogenous_model()` is consulted at every call, nothing is latched). -/
def attachExo (st : SkipState) : SkipState := { st with exo := some false }

/-! ### The filter as a state machine over (flags, belief): commands interleaved with steps

`GaussianFilter` / `ParticleFilter` own the two steps; a history is any list of skip commands
(at any level), `predict` / `correct` calls on the running belief, hand-overs and attachments.
The numeric content of the steps is an arbitrary parameter (`Sem`): what the state model
produces for each branch of `LinearStateModel::propagate` and what `correctStep` does — both
may depend on a clock (time-varying collaborators), which every `predict` / `correct` call
advances whether or not it is skipped. -/

structure Sem (β : Type) where
  prop : Nat → Base → β → β      -- `predictStep` when the state model took this branch, at this time
  corr : Nat → β → β             -- `correctStep` at this time

structure FilterSt (β : Type) where
  flags : SkipState
  belief : β
  clock : Nat
  deriving Repr

inductive Op
  | cmd (c : Cmd)
  | predict
  | correct
  | handOver
  | attach
  deriving DecidableEq, Repr, Inhabited

variable {β : Type}

/-- `predict(prev, pred)` on the running belief: `pred = prev` on the two skip tests, otherwise
    whatever `predictStep` computes with the branch the state model takes. -/
def predictBelief (sem : Sem β) (k : PredKind) (st : SkipState) (t : Nat) (b : β) : β :=
  match predPath k st with
  | .atPredict => b
  | .atPredictStep => b
  | .ran base => sem.prop t base b

/-- `correct(pred, corr)` on the running belief. -/
def correctBelief (sem : Sem β) (st : SkipState) (t : Nat) (b : β) : β :=
  if corrRuns st then sem.corr t b else b

def stepOp (sem : Sem β) (k : PredKind) (s : FilterSt β) : Op → FilterSt β
  | .cmd c => { s with flags := (skipCmd s.flags c).st }
  | .predict => { s with belief := predictBelief sem k s.flags s.clock s.belief, clock := s.clock + 1 }
  | .correct => { s with belief := correctBelief sem s.flags s.clock s.belief, clock := s.clock + 1 }
  | .handOver => { s with flags := handOver s.flags }
  | .attach => { s with flags := attachExo s.flags }

def runOps (sem : Sem β) (k : PredKind) : FilterSt β → List Op → FilterSt β
  | s, [] => s
  | s, o :: os => runOps sem k (stepOp sem k s o) os

/-! #### Specification side of the same machine: a table indexed by the three switches -/

/-- What `predict` does, read off the switches alone (no dispatch chain, no aggregate flag):
    the recorded behaviour in the partial state "state model skipped, exogenous model active"
    is part of the table (`DrawParticles` applies the exogenous part, the others return their input). -/
def Spec.predBehaviour (s : Spec) (k : PredKind) : Obs :=
  let exoActive := s.hasExo && !s.exo
  if s.state then
    (if exoActive then (match k with
                        | .draw => .step .exoOnly
                        | _ => .identity)
     else .identity)
  else if exoActive then .step .fxExo else .step .fx

/-- what an observed behaviour does to the belief -/
def Obs.act (o : Obs) (sem : Sem β) (t : Nat) (b : β) : β :=
  match o with
  | .identity => b
  | .step base => sem.prop t base b

structure SpecSt (β : Type) where
  spec : Spec
  belief : β
  clock : Nat

/-- Operations given through the filter (the property's histories). -/
inductive SOp
  | cmd (n : StepName) (on : Bool)
  | predict
  | correct
  | handOver
  deriving DecidableEq, Repr, Inhabited

def SOp.toOp : SOp → Op
  | .cmd n on => .cmd ⟨.filter, n, on⟩
  | .predict => .predict
  | .correct => .correct
  | .handOver => .handOver

def Spec.stepOp (sem : Sem β) (k : PredKind) (s : SpecSt β) : SOp → SpecSt β
  | .cmd n on => { s with spec := s.spec.apply n on }
  | .predict =>
    { s with belief := (s.spec.predBehaviour k).act sem s.clock s.belief, clock := s.clock + 1 }
  | .correct => { s with belief := if s.spec.corr then s.belief else sem.corr s.clock s.belief, clock := s.clock + 1 }
  | .handOver => s

def Spec.runOps (sem : Sem β) (k : PredKind) : SpecSt β → List SOp → SpecSt β
  | s, [] => s
  | s, o :: os => Spec.runOps sem k (Spec.stepOp sem k s o) os

def SpecSt.toFilter (s : SpecSt β) : FilterSt β := ⟨s.spec.flags, s.belief, s.clock⟩

/-- The free instance used by the driver: a belief is the list of step results applied to it. -/
def traceSem : Sem (List String) :=
  { prop := fun _ b l => l ++ [match b with
                                | .copy => "copy" | .fxExo => "fxexo" | .fx => "fx"
                                | .exoOnly => "exo" | .untouched => "untouched"],
    corr := fun _ l => l ++ ["full"] }

end BFL.Skip
