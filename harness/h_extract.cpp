// Correspondence harness for C17: the real EstimatesExtraction and the real HistoryBuffer.
//
//   hb <dim> <nops> {op}       op := A v×dim | S <unsigned> | D | I | C | G
//      -> per op, separated by `|`:  `<tag> <flag> <window>`;  for G: `G <cols> v…` (column 0 first)
//
//   ee <lin> <circ> <ncalls> {call}
//      call := M <0..11> | W <int> | C | V | K | Q | T   (two objects: K move-constructs the other from the
//              current one, Q move-assigns the current one to the other, T switches to the other)
//            | X <N> particles(cm) weights(N)
//            | Y <N> <K> particles(cm) weights(N) prev_weights(K) likelihoods(N) transition(cm, N×K)
//      -> per call, separated by `|`:  `<tag> <flag> <window> <method> [est…] [b:<base estimate>…]`
//         window is read back through the public getInfo(); the base estimate (`b:` tokens) is what a
//         second, fresh instance with the un-windowed method (mean / mode / map) returns on the same
//         arguments — the check recomputes the windowed estimate from its own record of those.
#include "common.hpp"
#include <BayesFilters/EstimatesExtraction.h>
#include <BayesFilters/HistoryBuffer.h>
#include <memory>

using namespace bfl;
using namespace Eigen;
using vh::Toks; using vh::Out;
typedef EstimatesExtraction::ExtractionMethod EM;

static std::string hb(Toks& t) {
    long dim = t.nat(), nops = t.nat();
    std::unique_ptr<HistoryBuffer> slot[2];
    slot[0].reset(new HistoryBuffer(dim)); slot[1].reset(new HistoryBuffer(dim));
    int cur = 0;
    std::string out;
    for (long k = 0; k < nops; ++k) {
        std::string op = t.tok();
        Out o;
        HistoryBuffer& h = *slot[cur];
        if (op == "A") { VectorXd v = t.vec(dim); h.addElement(v); o.s("A").n(1).n(h.getHistorySize()); }
        else if (op == "S") { long w = t.nat(); bool f = h.setHistorySize(static_cast<unsigned int>(w)); o.s("S").n(f).n(h.getHistorySize()); }
        else if (op == "D") { bool f = h.decreaseHistorySize(); o.s("D").n(f).n(h.getHistorySize()); }
        else if (op == "I") { bool f = h.increaseHistorySize(); o.s("I").n(f).n(h.getHistorySize()); }
        else if (op == "C") { bool f = h.clear(); o.s("C").n(f).n(h.getHistorySize()); }
        else if (op == "G") {
            // queried twice: a getter must not change what it returns
            MatrixXd m = h.getHistoryBuffer(), m2 = h.getHistoryBuffer();
            if (!vh::same_bits(m, m2) || h.getHistorySize() != h.getHistorySize()) throw std::runtime_error("getter not idempotent");
            o.s("G").n(m.cols()); o.m(m);
        }
        else if (op == "T") { cur = 1 - cur; o.s("T").n(1).n(slot[cur]->getHistorySize()); }
        else if (op == "K") { slot[1 - cur].reset(new HistoryBuffer(std::move(h))); o.s("K").n(1).n(slot[cur]->getHistorySize()); }
        else if (op == "Q") { *slot[1 - cur] = std::move(h); o.s("Q").n(1).n(slot[cur]->getHistorySize()); }
        else if (op == "QS") { HistoryBuffer& self = h; h = std::move(self); o.s("QS").n(1).n(slot[cur]->getHistorySize()); }
        else throw vh::BadArgs("op:" + op);
        if (k) out += " | ";
        out += o.str();
    }
    t.done();
    return out;
}

static EM methodOf(long k) {
    static const EM tab[12] = { EM::mean, EM::smean, EM::wmean, EM::emean, EM::mode, EM::smode, EM::wmode, EM::emode,
                                EM::map, EM::smap, EM::wmap, EM::emap };
    if (k < 0 || k > 11) throw vh::BadArgs("method");
    return tab[k];
}

static const char* NAMES[12] = { "mean", "smean", "wmean", "emean", "mode", "smode", "wmode", "emode", "map", "smap", "wmap", "emap" };

// window size and method in use, read back through the public getInfo() (asked twice: the answers must agree)
static void info(const EstimatesExtraction& e, Out& o) {
    std::vector<std::string> a = e.getInfo(), b = e.getInfo();
    if (a != b || a.size() < 2) throw std::runtime_error("getInfo");
    const std::string& s = a[0];
    size_t p = s.find(": ");
    if (p == std::string::npos) throw std::runtime_error("getInfo");
    o.n(std::strtol(s.c_str() + p + 2, nullptr, 10));
    long used = -1, count = 0;
    for (long k = 0; k < 12; ++k) {
        std::string pat = std::to_string(k + 1) + ") " + NAMES[k] + " <-- In use";
        if (a[1].find(pat) != std::string::npos) { used = k; ++count; }
    }
    if (count != 1) throw std::runtime_error("getInfo method");
    o.n(used);
}

static std::unique_ptr<EstimatesExtraction> make(long lin, long circ) {
    if (circ == 0) return std::unique_ptr<EstimatesExtraction>(new EstimatesExtraction(lin));
    return std::unique_ptr<EstimatesExtraction>(new EstimatesExtraction(lin, circ));
}

static std::string ee(Toks& t) {
    long lin = t.nat(), circ = t.nat(), ncalls = t.nat();
    std::unique_ptr<EstimatesExtraction> slot[2];
    slot[0] = make(lin, circ); slot[1] = make(lin, circ);
    long meth[2] = { 7, 7 }; // emode is the default
    int cur = 0;
    std::string out;
    for (long k = 0; k < ncalls; ++k) {
        std::string op = t.tok();
        Out o;
        std::unique_ptr<EstimatesExtraction>& e = slot[cur];
        long& method = meth[cur];
        if (op == "M") { long m = t.nat(); bool f = e->setMethod(methodOf(m)); method = m; o.s("M").n(f); info(*e, o); }
        else if (op == "T") { cur = 1 - cur; o.s("T").n(1); info(*slot[cur], o); }
        else if (op == "K") { slot[1 - cur].reset(new EstimatesExtraction(std::move(*e))); meth[1 - cur] = method; method = 7; o.s("K").n(1); info(*e, o); }
        else if (op == "Q") { *slot[1 - cur] = std::move(*e); meth[1 - cur] = method; method = 7; o.s("Q").n(1); info(*e, o); }
        else if (op == "W") {
            std::string s = t.tok(); long w = std::strtol(s.c_str(), nullptr, 10);
            bool f = e->setMobileAverageWindowSize(static_cast<int>(w)); o.s("W").n(f); info(*e, o);
        }
        else if (op == "C") { bool f = e->clear(); o.s("C").n(f); info(*e, o); }
        else if (op == "V") {
            // move-construct, then move-assign back into a fresh object
            EstimatesExtraction b(std::move(*e));
            e = make(lin, circ);
            *e = std::move(b);
            o.s("V").n(1); info(*e, o);
        }
        else if (op == "X" || op == "Y") {
            bool five = (op == "Y");
            long N = t.nat(), K = five ? t.nat() : 0;
            MatrixXd ps = t.mat(lin + circ, N);
            VectorXd ws = t.vec(N), pw, lik; MatrixXd tp;
            if (five) { pw = t.vec(K); lik = t.vec(N); tp = t.mat(N, K); }
            MatrixXd ps0 = ps; VectorXd ws0 = ws;
            std::pair<bool, VectorXd> r = five ? e->extract(ps, ws, pw, lik, tp) : e->extract(ps, ws);
            if (!vh::same_bits(ps0, ps) || !vh::same_bits(ws0, ws)) throw std::runtime_error("inputs modified");
            o.s(op).n(r.first); info(*e, o);
            if (r.first) {
                if (r.second.size() != lin + circ) throw std::runtime_error("estimate size");
                o.m(r.second);
                // base estimate from a second, fresh instance with the un-windowed method
                long stat = method / 4; // 0 mean, 1 mode, 2 map
                if (stat != 2 || five) {
                    std::unique_ptr<EstimatesExtraction> b = make(lin, circ);
                    b->setMethod(methodOf(4 * stat));
                    std::pair<bool, VectorXd> rb = (stat == 2) ? b->extract(ps, ws, pw, lik, tp) : b->extract(ps, ws);
                    if (rb.first)
                        for (long i = 0; i < rb.second.size(); ++i) o.s("b:" + vh::hx(rb.second(i)));
                }
            }
        }
        else throw vh::BadArgs("op:" + op);
        if (k) out += " | ";
        out += o.str();
    }
    t.done();
    return out;
}

int main() {
    return vh::run([](const std::string& op, Toks& t, std::string& out) {
        if (op == "hb") { out = hb(t); return true; }
        if (op == "ee") { out = ee(t); return true; }
        return false;
    });
}
