import BFL.Model.Bounds.Cases
/-
C14 (deepening round) — transcriptions of the prediction steps and the particle-filter plumbing:
LinearStateModel::propagate (all skip / exogenous branches), KFPrediction, UKFPrediction (generic and additive),
GPFPrediction, DrawParticles, GaussianLikelihood, BootstrapCorrection, GPFCorrection::correctStep, SIS::filtering_step.
-/
namespace BFL.Bounds
open W

/-- `LinearStateModel::propagate(cur, prop)`: every branch.  The exogenous model of the harness computes `0.5 * cur`
    into the `Ref` it is given (same shape required).  Returns whether `prop_states` was written at all. -/
def linPropagateFull (F cur prop : Shape) (skipS hasExo skipE : Bool) : W Bool :=
  if skipS && (hasExo && skipE) then do
    assignFixed "LinearStateModel::propagate: prop_states = cur_states (everything skipped)" prop cur
    pure true
  else if !skipS && (hasExo && !skipE) then do
    let ex : Shape := ⟨cur.r, cur.c⟩                       -- MatrixXd exogenous_state(cur.rows(), cur.cols())
    assignFixed "ExogenousModel::propagate(cur_states, exogenous_state)" ex cur
    let p ← prod "LinearStateModel::propagate: F * cur_states [exogenous]" F cur
    let s ← cwise "LinearStateModel::propagate: F * cur_states + exogenous_state" p ex
    assignFixed "LinearStateModel::propagate: prop_states = F * cur_states + exogenous_state" prop s
    pure true
  else if !skipS then do
    linPropagate F cur prop
    pure true
  else if hasExo && !skipE then do
    assignFixed "ExogenousModel::propagate(cur_states, prop_states)" prop cur
    pure true
  else pure false

/-- how the `skip` command was used on a prediction: nothing, "prediction", "state", "exogenous" -/
inductive SkipMode where | none | prediction | state | exogenous
deriving DecidableEq, Repr

def SkipMode.ofNat? : Nat → Option SkipMode
  | 0 => some .none | 1 => some .prediction | 2 => some .state | 3 => some .exogenous | _ => none

/-- flags after `GaussianPrediction::skip(what, true)` / `PFPrediction::skip`: (prediction skip_, state skipping, exogenous skipping) -/
def skipFlags (m : SkipMode) (hasExo : Bool) : Bool × Bool × Bool :=
  match m with
  | .none => (false, false, false)
  | .prediction => (true, true, hasExo)
  | .state => (!hasExo, true, false)          -- skip_ = state skipping && (!have_exo || exo skipping)
  | .exogenous => (false, false, true)        -- only issued when an exogenous model is attached

/-- `KFPrediction::predict(prev, pred)`; returns the layout / component count of `pred_state` afterwards -/
def kfPredict (I : Layout) (K : Nat) (P : Layout) (pK fn : Nat) (m : SkipMode) (hasExo : Bool) : W (Layout × Nat) :=
  let (skipP, skipS, skipE) := skipFlags m hasExo
  if skipP then pure (I, K)                                  -- GaussianPrediction::predict: pred_state = prev_state
  else if skipS then pure (I, K)                             -- predictStep: getStateModel().is_skipping()
  else do
    let F : Shape := ⟨fn, fn⟩
    let _ ← linPropagateFull F (I.meanS K) (P.meanS pK) skipS hasExo skipE
    forRange K fun i => do
      let d ← gmCov P pK i
      let pc ← gmCov I K i
      let a ← prod "KFPrediction: F * P" F pc
      let b ← prod "KFPrediction: F P * F^T" a F.t
      let c ← cwise "KFPrediction: F P F^T + Q" b F
      assignFixed "KFPrediction: pred_state.covariance(i).noalias() = ..." d c
    pure (P, pK)

/-- `UKFPrediction::predict`, generic variant: the model's `motion` accepts the augmented sigma points and fills the
    `total_size × cols` matrix it is given; `D` its state description, `q` its noise covariance size, `inoise` the noise
    components its input description declares -/
def ukfPredictGeneric (I : Layout) (K : Nat) (D : Layout) (q inoise : Nat) (skip : Bool) : W (Layout × Nat) :=
  if skip then pure (I, K)
  else do
    let ws := utWeightSize (D.withNoise inoise).dcov
    let (aug, _) ← gmAugment ⟨K, I, I.dim, I.dcov, I.meanS K, I.covS K, K⟩ ⟨q, q⟩
    let sig ← sigmaPoint aug.L K
    let tmp : Shape := ⟨D.dim, sig.c⟩                        -- MatrixXd tmp(getStateDescription().total_size(), state.cols())
    let r ← utGeneric aug.L K ws D.noiseless tmp true
    pure (r.O, r.K)                                          -- std::tie(pred_state, std::ignore) = … (resizing assignment)

/-- `UKFPrediction::predict`, additive variant over a linear model `F : n × n`, `Q : qn × qn` -/
def ukfPredictAdditive (I : Layout) (K : Nat) (D : Layout) (n qn : Nat) (skip : Bool) : W (Layout × Nat) :=
  if skip then pure (I, K)
  else do
    let r ← utStateAdditive I K (utWeightSize D.noiseless.dcov) ⟨⟨n, n⟩, qn, D⟩
    pure (r.O, r.K)

/-- `GPFPrediction::predictStep` over a KFPrediction -/
def gpfPredict (I : Layout) (K : Nat) (P : Layout) (pK fn : Nat) : W (Layout × Nat) := do
  let (L, k) ← kfPredict I K P pK fn .none false
  assignFixed "GPFPrediction: pred_particles.weight() = prev_particles.weight()" (vecS k) (vecS K)
  assignFixed "GPFPrediction: pred_particles.state() = prev_particles.state()" ⟨P.dim, pK⟩ ⟨I.dim, K⟩
  pure (L, k)

/-- `DrawParticles::predictStep` over WhiteNoiseAcceleration (optionally with the exogenous model of the two-argument constructor) -/
def drawPredict (d : Dim) (I : Layout) (N : Nat) (P : Layout) (pN : Nat) (hasExo : Bool) : W Unit := do
  let m ← wnaCtor d
  let cur : Shape := ⟨I.dim, N⟩
  let mot : Shape := ⟨P.dim, pN⟩
  let _ ← linPropagateFull m.F cur mot false hasExo false
  let ns ← wnaNoise m mot.c
  let _ ← cwise "AdditiveStateModel::motion: mot_states += getNoiseSample(cols)" mot ns
  assignFixed "DrawParticles: pred_particles.weight() = prev_particles.weight()" (vecS pN) (vecS N)

/-- `GaussianLikelihood::likelihood(model, states)`: `(valid, size of the returned vector)` -/
def gaussianLikelihood (M : MMod) (states : Shape) : W (Bool × Nat) :=
  if !M.mvalid then pure (false, 1)
  else if !M.pvalid then pure (false, 1)
  else if !M.ivalid then pure (false, 1)
  else do
    let inn : Shape := ⟨M.irows, states.c + M.dcols⟩
    let v ← gaussianDensity inn (vecS inn.r) ⟨M.rr, M.rr⟩
    pure (true, v.r)

/-- `BootstrapCorrection::correct(pred, cor)` + `getLikelihood()` -/
def bootstrapCorrect (I : Layout) (N : Nat) (M : MMod) : W (Bool × Nat) := do
  let (valid, n) ← gaussianLikelihood M ⟨I.dim, N⟩
  -- cor_particles = pred_particles (copy assignment)
  if valid then do
    let _ ← cwise "BootstrapCorrection: cor_particles.weight() += log(likelihood)" (vecS N) (vecS n)
  pure (valid, n)

/-- `GPFCorrection::correctStep(pred, corr)` with KFCorrection (`H : hm × 2d`), GaussianLikelihood on the same linear
    measurement model, WhiteNoiseAcceleration(d); `N` predicted particles, `cN` in `corr_particles`.
    Returns the particle count of `corr_particles` afterwards and the likelihood (validity, size). -/
def gpfCorrect (d : Dim) (N cN hm ysize : Nat) (mvalid : Bool) : W (Nat × Bool × Nat) := do
  let n := d.n
  let I : Layout := ⟨n, 0, false, 0⟩
  let r ← kfCorrect I N I cN hm n ysize mvalid
  let cK := r.K
  -- the Gaussian correction sees `corr_particles` through a `GaussianMixture&`: when it copies the predicted belief
  -- (`corr_state = pred_state`) only the mixture part is assigned; `state_` keeps its `cN` columns
  let st : Shape := ⟨n, cN⟩
  forRange N fun i => do
    let dst ← col "GPFCorrection: corr_particles.state(i)" st i
    let mi ← gmMean I cK i
    let ci ← gmCov I cK i
    let s ← gpfSample mi.r ci.r
    assignFixed "GPFCorrection: corr_particles.state(i) = sampleFromProposal(...)" dst (vecS s)
  if !mvalid then pure (N, false, 1)                          -- likelihood unavailable: corr_particles = pred_particles
  else do
    let H : Shape := ⟨hm, n⟩
    let pm ← prod "LinearMeasurementModel::predictedMeasure: H * states" H st
    let y0 ← col "LinearMeasurementModel::innovation: measurements.col(0)" (vecS ysize) 0
    let inn ← colwiseOp "LinearMeasurementModel::innovation: predicted.colwise() - measurement" pm y0
    let lik ← gaussianDensity inn (vecS inn.r) ⟨hm, hm⟩
    let m ← wnaCtor d
    let fp ← prod "WNA::getTransitionProbability: F_ * prev_states" m.F ⟨n, N⟩
    let diff ← cwise "WNA::getTransitionProbability: cur_states - F_ * prev_states" st fp
    let tp ← gaussianDensity diff (vecS n) m.Q
    forRange N fun i => do
      coeff "GPFCorrection: corr_particles.weight(i)" cK i
      coeff "GPFCorrection: likelihood_(i)" lik.r i
      coeff "GPFCorrection: transition_probability(i)" tp.r i
      let si ← col "GPFCorrection: corr_particles.state(i) [proposal]" st i
      let mi ← gmMean I cK i
      let ci ← gmCov I cK i
      let _ ← gaussianDensity si mi ci
    pure (cK, true, lik.r)

/-- `SIS::filtering_step`, `steps` times after `initialization_step`, with InitSurveillanceAreaGrid(nx, ny),
    DrawParticles(WhiteNoiseAcceleration d), BootstrapCorrection(linear model `H : hm × (lin + circ)`, GaussianLikelihood),
    Resampling.  `resampleAt s` says whether `neff < N/3` at step `s` and `gt` are the comparisons of the resampling scan:
    both depend on the data and are arbitrary. -/
def sisRun (N lin circ : Nat) (d : Dim) (nx ny hm steps : Nat) (resampleAt : Nat → Bool) (gt : Nat → Nat → Bool) : W Unit := do
  let I : Layout := ⟨lin, circ, false, 0⟩
  let _ ← gridInit nx ny N I.dim
  let M : MMod := ⟨I, ⟨hm, 0, false, 0⟩, hm, 0, hm, hm, hm, true, true, true⟩
  forRange steps fun s => do
    let _ ← (if s ≠ 0 then drawPredict d I N I N false else pure ())
    -- freeze_measurements() succeeds; BootstrapCorrection with the linear model
    let _ ← prod "LinearMeasurementModel::predictedMeasure: H * states" ⟨hm, I.dim⟩ ⟨I.dim, N⟩
    let _ ← bootstrapCorrect I N M
    nonEmpty "SIS: log_sum_exp(cor_particle_.weight()) -> maxCoeff" (vecS N)
    let _ ← (if resampleAt s then resample I N I N N gt else pure ())
    pure ()

/-- `a += a` BEFORE fix 39621a9: `ParticleSet::operator+=` with the same object on both sides — every right-hand side
    member is read AFTER the left-hand side (the same storage) has been grown -/
def psAddSelfBeforeFix (a : PSStore) : W PSStore := do
  let K := a.g.K                                   -- rhs.components (updated only at the end)
  let newK := a.g.K + K
  let state : Shape := ⟨a.state.r, newK⟩
  let r ← rightCols "ParticleSet::operator+= (a += a): state_.rightCols(rhs.components)" state K
  assignFixed "ParticleSet::operator+= (a += a): state_.rightCols(...) = rhs.state_ (already grown)" r state
  let mean : Shape := ⟨a.g.mean.r, newK⟩
  let r ← rightCols "ParticleSet::operator+= (a += a): mean_.rightCols(rhs.components)" mean K
  assignFixed "ParticleSet::operator+= (a += a): mean_.rightCols(...) = rhs.mean_ (already grown)" r mean
  let cov : Shape := ⟨a.g.cov.r, a.g.dcov * newK⟩
  let r ← rightCols "ParticleSet::operator+= (a += a): covariance_.rightCols(dim_covariance*rhs.components)" cov (a.g.dcov * K)
  assignFixed "ParticleSet::operator+= (a += a): covariance_.rightCols(...) = rhs.covariance_ (already grown)" r cov
  let t ← tail "ParticleSet::operator+= (a += a): weight_.tail(rhs.components)" (vecS newK) K
  assignFixed "ParticleSet::operator+= (a += a): weight_.tail(...) = rhs.weight_ (already grown)" t (vecS newK)
  pure ⟨{ a.g with K := newK, mean := mean, cov := cov, w := newK }, state⟩

/-- after fix 39621a9: `if (this == &rhs) { const ParticleSet copy(rhs); return (*this) += copy; }` -/
def psAddSelf (a : PSStore) : W PSStore := psAdd a a

def psaddselfCase (K : Nat) (L : Layout) : Case := do
  let r ← psAddSelf (psCtor K L.dl L.dc L.quat)
  pure (some r.tokens)

/-- `g.augmentWithNoise(g.covariance(0))`: the argument refers to the storage that is reallocated (legal since af9098e:
    the `Ref` is copied first) -/
def gmaugAliasCase (K : Nat) (L : Layout) : Case := do
  let g0 := gmCtor K L.dl L.dc L.quat
  let c0 ← middleCols "GaussianMixture::covariance(0)" g0.cov (g0.dcov * 0) g0.dcov
  let (g1, a) ← gmAugment g0 c0
  pure (some ([b01 a] ++ g1.tokens))

/-! ### cases (one per harness entry point) and documented preconditions -/

def linpropCase (fn sr num pr pc : Nat) (skipS hasExo skipE : Bool) : Case := do
  let w ← linPropagateFull ⟨fn, fn⟩ ⟨sr, num⟩ ⟨pr, pc⟩ skipS hasExo skipE
  pure (some [(Shape.mk pr pc).str, b01 (w || pr * pc == 0)])
/-- states and output shaped by the model's description -/
def linpropValid (fn sr num pr pc : Nat) : Prop := 1 ≤ fn ∧ sr = fn ∧ pr = fn ∧ pc = num

def kfpCase (I : Layout) (K : Nat) (P : Layout) (pK fn : Nat) (m : SkipMode) (hasExo alias : Bool) : Case := do
  if fn = 0 then pure none                                     -- LTIStateModel's constructor throws
  else do
    let (L, k) ← (if alias then kfPredict I K I K fn m hasExo else kfPredict I K P pK fn m hasExo)
    pure (some (storeOf k L).tokens)
def kfpValid (I : Layout) (K : Nat) (P : Layout) (pK fn : Nat) (m : SkipMode) (hasExo alias : Bool) : Prop :=
  1 ≤ K ∧ 1 ≤ fn ∧ I.dn = 0 ∧ fn = I.dim ∧ fn = I.dcov ∧ (alias = false → P = I ∧ pK = K) ∧ (m = .exogenous → hasExo = true)

def ukfpCase (additive : Bool) (I : Layout) (K n qn : Nat) (D : Layout) (inoise : Nat) (skip : Bool) : Case := do
  mkGM K I
  if additive && !ltiStateOk n qn then pure none
  else do
    let (L, k) ← (if additive then ukfPredictAdditive I K D n qn skip else ukfPredictGeneric I K D qn inoise skip)
    pure (some (storeOf k L).tokens)
def ukfpValid (additive : Bool) (I : Layout) (K n qn : Nat) (D : Layout) (inoise : Nat) : Prop :=
  1 ≤ K ∧ I.dn = 0 ∧ 1 ≤ I.dcov ∧ D = I ∧
  (if additive then 1 ≤ n ∧ qn = n ∧ D.dim = n ∧ D.dcov = n else inoise = qn)

def PSTokens (L : Layout) (K : Nat) : List String := (storeOf K L).tokens ++ [(Shape.mk L.dim K).str]

def gpfpCase (I : Layout) (K : Nat) (P : Layout) (pK fn : Nat) : Case := do
  if fn = 0 then pure none
  else do
    let (L, k) ← gpfPredict I K P pK fn
    pure (some (PSTokens L k))
def gpfpValid (I : Layout) (K : Nat) (P : Layout) (pK fn : Nat) : Prop :=
  1 ≤ K ∧ 1 ≤ fn ∧ I.dn = 0 ∧ fn = I.dim ∧ fn = I.dcov ∧ P = I ∧ pK = K

def drawCase (d : Dim) (I : Layout) (N : Nat) (P : Layout) (pN : Nat) (hasExo : Bool) : Case := do
  drawPredict d I N P pN hasExo
  pure (some (PSTokens P pN))
def drawValid (d : Dim) (I : Layout) (N : Nat) (P : Layout) (pN : Nat) : Prop :=
  I.dn = 0 ∧ I.dim = d.n ∧ P = I ∧ pN = N

def glikCase (N sr : Nat) (M : MMod) : Case := do
  let (v, n) ← gaussianLikelihood M ⟨sr, N⟩
  pure (some [b01 v, toString n])
def glikValid (M : MMod) : Prop := M.irows = M.rr ∧ M.dcols = 0

def bootCase (I : Layout) (N : Nat) (M : MMod) : Case := do
  let (v, n) ← bootstrapCorrect I N M
  pure (some (PSTokens I N ++ [b01 v, toString n, "1"]))
def bootValid (I : Layout) (M : MMod) : Prop := I.dn = 0 ∧ M.irows = M.rr ∧ M.dcols = 0

def gpfcCase (d : Dim) (N cN hm ysize : Nat) (mvalid : Bool) : Case := do
  if hm = 0 then pure none                                     -- LTIMeasurementModel's constructor throws
  else do
    let (k, v, n) ← gpfCorrect d N cN hm ysize mvalid
    pure (some (PSTokens ⟨d.n, 0, false, 0⟩ k ++ [b01 v, toString n]))
def gpfcValid (N cN hm ysize : Nat) : Prop := 1 ≤ N ∧ cN = N ∧ 1 ≤ hm ∧ ysize = hm

def sisCase (N lin circ : Nat) (d : Dim) (nx ny hm steps : Nat) (resampleAt : Nat → Bool) (gt : Nat → Nat → Bool) : Case := do
  if hm = 0 ∨ lin + circ = 0 then pure none
  else do
    sisRun N lin circ d nx ny hm steps resampleAt gt
    let I : Layout := ⟨lin, circ, false, 0⟩
    pure (some ([toString steps] ++ PSTokens I N ++ PSTokens I N))
def sisValid (N lin circ : Nat) (d : Dim) (hm : Nat) : Prop := 1 ≤ N ∧ lin + circ = d.n ∧ 1 ≤ hm

/-! #### "a failed call after a successful one, then every getter" on one object -/

def bootSeqCase (I : Layout) (M : MMod) (steps : List CStep) : Case := do
  let toks ← steps.foldlM (fun (acc : List String) s => do
    let (v, n) ← bootstrapCorrect I s.K (M.withFlags s)
    pure (acc ++ [s!"{s.K}:{b01 v}:{n}"])) []
  pure (some toks)

def gpfcSeqCase (d : Dim) (hm : Nat) (steps : List CStep) : Case := do
  if hm = 0 then pure none
  else do
    let toks ← steps.foldlM (fun (acc : List String) s => do
      let (k, v, n) ← gpfCorrect d s.K s.K hm hm s.mv
      pure (acc ++ [s!"{k}:{b01 v}:{n}"])) []
    pure (some toks)
def gpfcSeqValid (hm : Nat) (steps : List CStep) : Prop := 1 ≤ hm ∧ ∀ s ∈ steps, 1 ≤ s.K

/-- one EstimatesExtraction object, the method changed between extractions (a map-based method asked through the
    two-argument overload is the failing call) -/
def eeSeq : EEState → EEArgs → List (EMethod × Bool) → W (List String)
  | _, _, [] => pure []
  | s, a, (m, full) :: rest => do
    let (s', av, sz) ← eeExtract s m full a
    let r ← eeSeq s' a rest
    pure (s!"{if av then 1 else 0}:{sz}" :: r)

def eeSeqCase (ls cs N : Nat) (steps : List (EMethod × Bool)) : Case := do
  let t ← eeSeq (EEState.new ls cs) ⟨⟨ls + cs, N⟩, N, N, N, ⟨N, N⟩⟩ steps
  pure (some t)

instance (hm : Nat) (st : List CStep) : Decidable (gpfcSeqValid hm st) := by unfold gpfcSeqValid; infer_instance
instance (a b c d e : Nat) : Decidable (linpropValid a b c d e) := by unfold linpropValid; infer_instance
instance (I : Layout) (K : Nat) (P : Layout) (pK fn : Nat) (m : SkipMode) (x y : Bool) : Decidable (kfpValid I K P pK fn m x y) := by unfold kfpValid; infer_instance
instance (a : Bool) (I : Layout) (K n qn : Nat) (D : Layout) (i : Nat) : Decidable (ukfpValid a I K n qn D i) := by unfold ukfpValid; infer_instance
instance (I : Layout) (K : Nat) (P : Layout) (pK fn : Nat) : Decidable (gpfpValid I K P pK fn) := by unfold gpfpValid; infer_instance
instance (d : Dim) (I : Layout) (N : Nat) (P : Layout) (pN : Nat) : Decidable (drawValid d I N P pN) := by unfold drawValid; infer_instance
instance (M : MMod) : Decidable (glikValid M) := by unfold glikValid; infer_instance
instance (I : Layout) (M : MMod) : Decidable (bootValid I M) := by unfold bootValid; infer_instance
instance (a b c d : Nat) : Decidable (gpfcValid a b c d) := by unfold gpfcValid; infer_instance
instance (N l c : Nat) (d : Dim) (hm : Nat) : Decidable (sisValid N l c d hm) := by unfold sisValid; infer_instance

end BFL.Bounds
