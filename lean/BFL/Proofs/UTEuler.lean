import BFL.Model.UT
import BFL.Bridge.Mat
import BFL.Bridge.Transc
import BFL.Proofs.UTAlg
import BFL.Proofs.UT
import BFL.Proofs.UTCirc
/-
Assembly of the scalar circular lemmas into a statement about the layout-general model
(`sigmaPointsLayout`, `utLayoutComponent`) for layouts with linear and Euler-angle rows:
the sigma points reproduce, under the unscented weights, the mean (angles modulo 2π) and the
covariance they were drawn from.  Helper lemmas for `BFL/Props/C03.lean`.
-/
namespace BFL
open Real UTProofs Matrix

set_option linter.unusedSectionVars false

theorem Mat.getN_fin {r c : ℕ} (A : Mat ℝ r c) (i : Fin r) (j : Fin c) : A.getN i.val j.val = A i j := by
  simp [Mat.getN, i.isLt, j.isLt]

theorem Mat.getN_lt {r c : ℕ} (A : Mat ℝ r c) {i j : ℕ} (hi : i < r) (hj : j < c) :
    A.getN i j = A ⟨i, hi⟩ ⟨j, hj⟩ := by
  simp [Mat.getN, hi, hj]

theorem Vec.getN_lt {n : ℕ} (v : Vec ℝ n) {i : ℕ} (hi : i < n) : v.getN i = v ⟨i, hi⟩ := by
  simp [Vec.getN, hi]

/-- the dimension of an Euler layout equals its number of degrees of freedom -/
theorem Layout.dim_eq_dof_of_euler (ly : Layout) (hq : ly.quat = false) : ly.dim = ly.dof := by
  simp [Layout.dim, Layout.dof, Layout.csize, hq]

theorem Layout.dof_euler (ly : Layout) (hq : ly.quat = false) : ly.dof = ly.lin + ly.circ + ly.noise := by
  simp [Layout.dof, hq]

/-- entries of the perturbation matrix lie in `{0, ±B r l}` -/
theorem perturb_cases {n : ℕ} (B : Mat ℝ n n) (r : Fin n) (j : Fin (2 * n + 1)) :
    perturb B r j = 0 ∨ ∃ l, perturb B r j = B r l ∨ perturb B r j = - B r l := by
  simp only [perturb, Mat.of_apply]
  split
  · exact Or.inl rfl
  · split
    · exact Or.inr ⟨_, Or.inl rfl⟩
    · exact Or.inr ⟨_, Or.inr rfl⟩

/-- the circular mean only sees the angles through their sines and cosines -/
theorem dirMean_congr {N : ℕ} (hN : N ≠ 1) (a a' w : Vec ℝ N)
    (hs : ∀ k, Real.sin (a k) = Real.sin (a' k)) (hc : ∀ k, Real.cos (a k) = Real.cos (a' k)) :
    dirMean a w = dirMean a' w := by
  unfold dirMean
  rw [dif_neg hN, dif_neg hN]
  simp only [transc_sin, transc_cos, hs, hc]


section euler
variable (ly : Layout) (hq : ly.quat = false) (hz : ly.noise = 0)
include hq hz

theorem euler_row_lt_dof (r : Fin ly.dim) : r.val < ly.dof := by
  have h1 := r.isLt
  have h2 := Layout.dim_eq_dof_of_euler ly hq
  omega

/-- linear rows of the sigma points: `perturbation + mean` -/
theorem sigmaPointsLayout_lin (m : Vec ℝ ly.dim) (E : Mat ℝ ly.dof (2 * ly.dof + 1))
    (r : Fin ly.dim) (j : Fin (2 * ly.dof + 1)) (hr : r.val < ly.lin) :
    sigmaPointsLayout ly m E r j = E ⟨r.val, euler_row_lt_dof ly hq hz r⟩ j + m r := by
  simp only [sigmaPointsLayout, Mat.eval_eq, Mat.of_apply, if_pos hr]
  rw [Mat.getN_lt E (euler_row_lt_dof ly hq hz r) j.isLt, Vec.getN_lt m r.isLt]

/-- Euler rows of the sigma points: `directional_add(perturbation, mean)` -/
theorem sigmaPointsLayout_circ (m : Vec ℝ ly.dim) (E : Mat ℝ ly.dof (2 * ly.dof + 1))
    (r : Fin ly.dim) (j : Fin (2 * ly.dof + 1)) (hr : ly.lin ≤ r.val) :
    sigmaPointsLayout ly m E r j = dirAdd (E ⟨r.val, euler_row_lt_dof ly hq hz r⟩ j) (m r) := by
  have h1 : ¬ r.val < ly.lin := by omega
  have h2 : r.val < ly.lin + ly.circ * ly.csize := by
    have := r.isLt; simp only [Layout.dim, hz] at this; omega
  simp only [sigmaPointsLayout, Mat.eval_eq, Mat.of_apply, if_neg h1, if_pos h2, hq, Bool.false_eq_true, if_false]
  rw [Mat.getN_lt E (euler_row_lt_dof ly hq hz r) j.isLt, Vec.getN_lt m r.isLt]

/-- offset of a wrapped point from a wrapped mean -/
theorem dirSub_dirAdd_wrapped (p mm : ℝ) (hp : p ∈ Set.Ioc (-π) π) :
    dirSub (dirAdd p mm) (wrapAngle mm) = p := by
  unfold dirSub dirAdd
  rw [wrapAngle_wrap_add, wrapAngle_add_neg_wrap]
  have : p + mm + -mm = p := by ring
  rw [this, wrapAngle_of_mem hp]

/-- a row of perturbations plus a centre is a symmetric set of angles -/
theorem perturb_add_eq_symAngles (B : Mat ℝ ly.dof ly.dof) (r' : Fin ly.dof) (c : ℝ) (k : Fin (2 * ly.dof + 1)) :
    perturb B r' k + c = symAngles c (fun l => B r' l) k := by
  simp only [perturb, symAngles, Mat.of_apply, Vec.of_apply]
  split
  · ring
  · split
    · ring
    · ring

variable (alpha beta kappa : ℝ) (hc : (ly.dof : ℝ) + utLambda ly.dof alpha kappa ≠ 0)
include hc

/-- weighted mean of a linear row of the sigma points -/
theorem utLayoutMean_lin (m : Vec ℝ ly.dim) (B : Mat ℝ ly.dof ly.dof) (qmean : ℕ → Quat ℝ)
    (r : Fin ly.dim) (hr : r.val < ly.lin) :
    utLayoutMean ly (utWeights ly.dof alpha beta kappa).mean (sigmaPointsLayout ly m (perturb B)) qmean r = m r := by
  simp only [utLayoutMean, Vec.eval_eq, Vec.of_apply, if_pos hr]
  rw [fsum_eq_sum]
  have hX : ∀ k : Fin (2 * ly.dof + 1), (sigmaPointsLayout ly m (perturb B)).getN r.val k.val
      = perturb B ⟨r.val, euler_row_lt_dof ly hq hz r⟩ k + m r := by
    intro k
    rw [Mat.getN_fin, sigmaPointsLayout_lin ly hq hz m (perturb B) r k hr]
  have hw := toV_utWeights_mean ly.dof alpha beta kappa
  have hwk : ∀ k, (utWeights ly.dof alpha beta kappa).mean k
      = wv (utLambda ly.dof alpha kappa / ((ly.dof : ℝ) + utLambda ly.dof alpha kappa))
          (1 / (2 * ((ly.dof : ℝ) + utLambda ly.dof alpha kappa))) k := fun k => congrFun hw k
  have hE : ∀ k, perturb B ⟨r.val, euler_row_lt_dof ly hq hz r⟩ k
      = UTProofs.E (toM B) ⟨r.val, euler_row_lt_dof ly hq hz r⟩ k := by
    intro k
    have := congrFun (congrFun (toM_perturb B) ⟨r.val, euler_row_lt_dof ly hq hz r⟩) k
    simpa using this
  simp only [hX, hwk, hE, add_mul]
  rw [Finset.sum_add_distrib, ← Finset.mul_sum, sum_wv, (weights_facts _ hc).1, mul_one]
  have h0 := congrFun (E_mulVec_wv (toM B)
    (utLambda ly.dof alpha kappa / ((ly.dof : ℝ) + utLambda ly.dof alpha kappa))
    (1 / (2 * ((ly.dof : ℝ) + utLambda ly.dof alpha kappa)))) ⟨r.val, euler_row_lt_dof ly hq hz r⟩
  simp only [mulVec, dotProduct, Pi.zero_apply] at h0
  rw [h0, zero_add]

/-- weighted circular mean of an Euler row of the sigma points: the mean angle (wrapped), under a
    positive weighted resultant -/
theorem utLayoutMean_circ (hn : 1 ≤ ly.dof) (m : Vec ℝ ly.dim) (B : Mat ℝ ly.dof ly.dof) (qmean : ℕ → Quat ℝ)
    (r : Fin ly.dim) (hr : ly.lin ≤ r.val)
    (hR : 0 < utLambda ly.dof alpha kappa / ((ly.dof : ℝ) + utLambda ly.dof alpha kappa)
          + 2 * (1 / (2 * ((ly.dof : ℝ) + utLambda ly.dof alpha kappa)))
            * ∑ l, Real.cos (B ⟨r.val, euler_row_lt_dof ly hq hz r⟩ l)) :
    utLayoutMean ly (utWeights ly.dof alpha beta kappa).mean (sigmaPointsLayout ly m (perturb B)) qmean r
      = wrapAngle (m r) := by
  have h1 : ¬ r.val < ly.lin := by omega
  simp only [utLayoutMean, Vec.eval_eq, Vec.of_apply, if_neg h1, hq, Bool.false_eq_true, if_false]
  have hN : 2 * ly.dof + 1 ≠ 1 := by omega
  rw [dirMean_congr hN _ (symAngles (m r) (fun l => B ⟨r.val, euler_row_lt_dof ly hq hz r⟩ l))]
  · exact dirMean_symmetric hn (m r) _ _ _ _ (toV_utWeights_mean ly.dof alpha beta kappa) hR
  · intro k
    simp only [Vec.of_apply]
    rw [Mat.getN_fin, sigmaPointsLayout_circ ly hq hz m (perturb B) r k hr]
    unfold dirAdd
    rw [sin_wrapAngle, perturb_add_eq_symAngles ly hq hz]
  · intro k
    simp only [Vec.of_apply]
    rw [Mat.getN_fin, sigmaPointsLayout_circ ly hq hz m (perturb B) r k hr]
    unfold dirAdd
    rw [cos_wrapAngle, perturb_add_eq_symAngles ly hq hz]

/-- the tangent-space offsets of the sigma points from their weighted mean are the perturbations -/
theorem utLayoutOffsets_eq_perturb (hn : 1 ≤ ly.dof) (m : Vec ℝ ly.dim) (B : Mat ℝ ly.dof ly.dof) (qmean : ℕ → Quat ℝ)
    (hsmall : ∀ (r' l : Fin ly.dof), ly.lin ≤ r'.val → -π < B r' l ∧ B r' l < π)
    (hR : ∀ r' : Fin ly.dof, ly.lin ≤ r'.val →
      0 < utLambda ly.dof alpha kappa / ((ly.dof : ℝ) + utLambda ly.dof alpha kappa)
          + 2 * (1 / (2 * ((ly.dof : ℝ) + utLambda ly.dof alpha kappa))) * ∑ l, Real.cos (B r' l)) :
    utLayoutOffsets ly ly.dof (sigmaPointsLayout ly m (perturb B))
      (utLayoutMean ly (utWeights ly.dof alpha beta kappa).mean (sigmaPointsLayout ly m (perturb B)) qmean)
      = perturb B := by
  apply Mat.ext
  intro r' j
  have hdim : r'.val < ly.dim := by
    have h1 := r'.isLt
    have h2 := Layout.dim_eq_dof_of_euler ly hq
    omega
  simp only [utLayoutOffsets, Mat.eval_eq, Mat.of_apply]
  by_cases hr : r'.val < ly.lin
  · rw [if_pos hr, Mat.getN_lt _ hdim j.isLt, Vec.getN_lt _ hdim,
      sigmaPointsLayout_lin ly hq hz m (perturb B) ⟨r'.val, hdim⟩ j hr,
      utLayoutMean_lin ly hq hz alpha beta kappa hc m B qmean ⟨r'.val, hdim⟩ hr]
    simp
  · have hr' : ly.lin ≤ r'.val := by omega
    rw [if_neg hr]
    simp only [hq, Bool.false_eq_true, if_false]
    rw [Mat.getN_lt _ hdim j.isLt, Vec.getN_lt _ hdim,
      sigmaPointsLayout_circ ly hq hz m (perturb B) ⟨r'.val, hdim⟩ j hr',
      utLayoutMean_circ ly hq hz alpha beta kappa hc hn m B qmean ⟨r'.val, hdim⟩ hr' (hR r' hr')]
    apply dirSub_dirAdd_wrapped ly hq hz
    have hpi := Real.pi_pos
    rcases perturb_cases B r' j with h0 | ⟨l, h1 | h2⟩
    · show perturb B r' j ∈ Set.Ioc (-π) π
      rw [h0]; exact ⟨by linarith, by linarith⟩
    · show perturb B r' j ∈ Set.Ioc (-π) π
      rw [h1]; exact ⟨(hsmall r' l hr').1, (hsmall r' l hr').2.le⟩
    · show perturb B r' j ∈ Set.Ioc (-π) π
      rw [h2]; exact ⟨by linarith [(hsmall r' l hr').2], by linarith [(hsmall r' l hr').1]⟩

/-- covariance of the tangent-space offsets: the covariance the points were drawn from -/
theorem utLayoutComponent_euler_cov (hn : 1 ≤ ly.dof) (m : Vec ℝ ly.dim) (B P : Mat ℝ ly.dof ly.dof) (qmean : ℕ → Quat ℝ)
    (hB : toM B * (toM B)ᵀ = (utWeights ly.dof alpha beta kappa).c • toM P)
    (hsmall : ∀ (r' l : Fin ly.dof), ly.lin ≤ r'.val → -π < B r' l ∧ B r' l < π)
    (hR : ∀ r' : Fin ly.dof, ly.lin ≤ r'.val →
      0 < utLambda ly.dof alpha kappa / ((ly.dof : ℝ) + utLambda ly.dof alpha kappa)
          + 2 * (1 / (2 * ((ly.dof : ℝ) + utLambda ly.dof alpha kappa))) * ∑ l, Real.cos (B r' l)) :
    (utLayoutComponent ly ly (utWeights ly.dof alpha beta kappa) m (sigmaPointsLayout ly m (perturb B))
      (sigmaPointsLayout ly m (perturb B)) qmean).2.1 = P := by
  simp only [utLayoutComponent]
  rw [utLayoutOffsets_eq_perturb ly hq hz alpha beta kappa hc hn m B qmean hsmall hR]
  apply toM_injective
  rw [toM_utCov, toM_perturb, toV_utWeights_cov, E_diag_Et, hB, smul_smul, utWeights_c,
    (weights_facts _ hc).2, one_smul]

end euler
end BFL
