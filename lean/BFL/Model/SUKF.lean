import BFL.Core.Mat
import BFL.Core.Det
import BFL.Core.Transc
import BFL.Model.KF
import BFL.Model.Density
/-
Model of the serial unscented Kalman correction (C05) and of the additive UKF correction it must equal.

  SUKFCorrection::correctStep / getLikelihood / getNoiseCovarianceMatrix(index)   src/SUKFCorrection.cpp
  UKFCorrection::correctStep / getLikelihood (additive variant)                   src/UKFCorrection.cpp
  sigma_point::unscented_transform (linear layout: weighted mean, covariance, cross covariance,
                                    additive noise post-addition)                 src/sigma_point.cpp

Only the *propagated sigma points* enter, never the measurement function `h` itself; so every theorem
holds for any `h`.  What the step consumes is collected in `SukfIn`: the answers of the measurement
model (validity flags, measurement `y`, propagated points `Yp = h(X)`), the input sigma points `X`
(the columns `sigma_point()` returns — square root factor by contract, see C03) and the unscented
weights.  Linear state layout and linear measurement space (Euler/quaternion layouts: C03, C14).
The matrix inverse is the parameter `inv` (contract `InvOK`, as in C15).
-/
namespace BFL

/-- The measurement noise covariance handed to the serial correction: the full `msz × msz` matrix
    (`use_reduced_noise_covariance_matrix = false`) or one `bs × bs` block shared by all
    sub-measurements (`true`). -/
inductive SNoise (α : Type) (msz bs : Nat) where
  | full (R : Mat α msz msz)
  | reduced (R : Mat α bs bs)

/-- What one correction step consumes. `s` is the number of sigma points per component (`2n+1`). -/
structure SukfIn (α : Type) (n msz s k : Nat) where
  /-- `measure()` reported a valid measurement -/
  validMeas : Bool
  /-- `predictedMeasure()` succeeded -/
  validPred : Bool
  /-- `innovation()` succeeded -/
  validInnov : Bool
  y : Vec α msz
  /-- input sigma points of component `i`, one per column -/
  X : Fin k → Mat α n s
  /-- propagated sigma points `h(X)` of component `i` -/
  Yp : Fin k → Mat α msz s
  /-- number of circular (Euler angle) rows at the bottom of the state -/
  nc : Nat
  /-- unscented weights for the mean and for the covariance -/
  wm : Vec α s
  wc : Vec α s

section core
variable {α : Type} [Add α] [Sub α] [Mul α] [Div α] [Neg α] [Zero α] [One α] [Inhabited α] [DecidableEq α] [Transc α]
variable {n nb bs s : Nat}

/-- `M.colwise() -= v` -/
def subCols {r c : Nat} (M : Mat α r c) (v : Vec α r) : Mat α r c := Mat.of (fun i j => M i j - v i)

/-- `M *= diag(w)` (column `j` scaled by `w j`) -/
def sukfScaleCols {r c : Nat} (M : Mat α r c) (w : Vec α c) : Mat α r c := Mat.of (fun i j => M i j * w j)

/-- one entry of `directional_sub(a, b) = arg(exp(i (a − b)))` -/
def sukfDirSub (a b : α) : α := Transc.atan2 (Transc.sin (a - b)) (Transc.cos (a - b))

/-- Offsets of the input sigma points from the mean, for a state whose last `nc` rows are Euler
    angles: `X.topRows(dim_linear).colwise() -= mean.topRows(dim_linear)` and
    `X.bottomRows(dim_circular) = directional_sub(X.bottomRows(dim_circular), mean.bottomRows(dim_circular))`
    (the same offsets `unscented_transform` forms for the cross covariance). -/
def offX {n s : Nat} (nc : Nat) (m : Vec α n) (X : Mat α n s) : Mat α n s :=
  Mat.of (fun i j => if i.val + nc < n then X i j - m i else sukfDirSub (X i j) (m i))

/-- `sqrt_ut_weight`: element-wise square root of the covariance weights -/
def sqrtW (wc : Vec α s) : Vec α s := Vec.eval (Vec.of (fun j => Transc.sqrt (wc j)))

/-- `getNoiseCovarianceMatrix(index)` for a measurement of `nb` sub-vectors of size `bs` -/
def SNoise.blockAt : SNoise α (nb * bs) bs → Fin nb → Mat α bs bs
  | .reduced R, _ => R
  | .full R, j => Mat.blkDiag R j

/-- The full `msz × msz` covariance the encoding stands for (what the standard correction is given). -/
def SNoise.toFull : SNoise α (nb * bs) bs → Mat α (nb * bs) (nb * bs)
  | .full R => R
  | .reduced R => Mat.of (fun p q => if bdiv p = bdiv q then R (bmod p) (bmod q) else 0)

/-- `C_inv = I + Σ_j Y_jᵀ R_j⁻¹ Y_j`, accumulated sub-measurement by sub-measurement (`tmp = Y_jᵀ R_j⁻¹`) -/
def sukfCinv (inv : InvFn α) (R : SNoise α (nb * bs) bs) (Y : Mat α (nb * bs) s) : Mat α s s :=
  Fin.foldl nb (fun acc j =>
    let Yj := Mat.eval (Mat.blkRows Y j)
    let tmp := Mat.mul Yj.transpose (inv bs (Mat.eval (R.blockAt j)))
    Mat.eval (Mat.add acc (Mat.mul tmp Yj))) Mat.one

/-- `d = Σ_j Y_jᵀ R_j⁻¹ ν_j` -/
def sukfD (inv : InvFn α) (R : SNoise α (nb * bs) bs) (Y : Mat α (nb * bs) s) (ν : Vec α (nb * bs)) : Vec α s :=
  Fin.foldl nb (fun acc j =>
    let Yj := Mat.eval (Mat.blkRows Y j)
    let tmp := Mat.mul Yj.transpose (inv bs (Mat.eval (R.blockAt j)))
    Vec.eval (Vec.add acc (tmp.mulVec (Vec.of (fun c => ν (bidx j c)))))) Vec.zero

/-- The per-component quantities of the serial correction. -/
structure SukfComp (α : Type) (n msz s : Nat) where
  /-- predicted measurement mean `Yp · wm` -/
  predMean : Vec α msz
  /-- innovation `y − predMean` -/
  innov : Vec α msz
  /-- mean-shifted, `√wc`-weighted propagated points (what `propagated_sigma_points_` holds afterwards) -/
  Y : Mat α msz s
  /-- mean-shifted, `√wc`-weighted input points -/
  Xw : Mat α n s
  mean : Vec α n
  cov : Mat α n n

/-- One component of `SUKFCorrection::correctStep`, the measurement size being `nb · bs`. -/
def sukfComp (inv : InvFn α) (nc : Nat) (R : SNoise α (nb * bs) bs) (m : Vec α n) (X : Mat α n s)
    (Yp : Mat α (nb * bs) s) (wm wc : Vec α s) (y : Vec α (nb * bs)) : SukfComp α n (nb * bs) s :=
  let predMean := Yp.mulVec wm
  let ν := Vec.eval (Vec.sub y predMean)
  let sq := sqrtW wc
  let Y := Mat.eval (sukfScaleCols (subCols Yp predMean) sq)
  let Cinv := sukfCinv inv R Y
  let d := sukfD inv R Y ν
  let Xw := Mat.eval (sukfScaleCols (offX nc m X) sq)
  let C := Mat.eval (inv s Cinv)
  let XC := Mat.mul Xw C
  { predMean := predMean, innov := ν, Y := Y, Xw := Xw
    mean := Vec.add m (XC.mulVec d)
    cov := Mat.mul XC Xw.transpose }

/-- The `bs × (nb·bs)` row of noise blocks `getLikelihood` assembles. -/
def SNoise.row (R : SNoise α (nb * bs) bs) : Mat α bs (nb * bs) :=
  Mat.eval (Mat.of (fun a p => (R.blockAt (bdiv p)) a (bmod p)))

/-- One entry of `SUKFCorrection::getLikelihood`: the factorised density with `U = Y`, `V = Yᵀ`. -/
def sukfLik (inv : InvFn α) (R : SNoise α (nb * bs) bs) (Y : Mat α (nb * bs) s) (ν : Vec α (nb * bs)) : α :=
  densityUVR inv (Mat.of (fun i (_ : Fin 1) => ν i)) Vec.zero Y Y.transpose (RNoise.perBlock R.row) 0

end core

section ukf
variable {α : Type} [Add α] [Sub α] [Mul α] [Div α] [Neg α] [Zero α] [One α] [Inhabited α] [DecidableEq α] [Transc α]
variable {n msz s : Nat}

/-- `A · diag(w) · Bᵀ` — the weighted (cross-)covariance of two sets of offsets -/
def wOuter {r r' c : Nat} (A : Mat α r c) (w : Vec α c) (B : Mat α r' c) : Mat α r r' :=
  Mat.mul (sukfScaleCols A w) B.transpose

/-- The standard additive unscented correction of one component (`unscented_transform` for an
    additive measurement model, then `UKFCorrection::correctStep`): `Pyy = Yo W Yoᵀ + R`,
    `Pxy = Xo W Yoᵀ`, `K = Pxy Pyy⁻¹`, `m + K ν`, `P − K Pyy Kᵀ`; likelihood `N(ν; 0, Pyy)`. -/
structure UkfComp (α : Type) (n msz : Nat) where
  Pyy : Mat α msz msz
  Pxy : Mat α n msz
  mean : Vec α n
  cov : Mat α n n
  lik : α

def ukfComp (inv : InvFn α) (nc : Nat) (Rfull : Mat α msz msz) (m : Vec α n) (P : Mat α n n) (X : Mat α n s)
    (Yp : Mat α msz s) (wm wc : Vec α s) (y : Vec α msz) : UkfComp α n msz :=
  let predMean := Yp.mulVec wm
  let Yo := Mat.eval (subCols Yp predMean)
  let Xo := Mat.eval (offX nc m X)
  let Pyy := Mat.eval (Mat.add (wOuter Yo wc Yo) Rfull)
  let Pxy := Mat.eval (wOuter Xo wc Yo)
  let ν := Vec.eval (Vec.sub y predMean)
  let K := Mat.mul Pxy (inv msz Pyy)
  { Pyy := Pyy, Pxy := Pxy
    mean := Vec.add m (K.mulVec ν)
    cov := Mat.sub P (Mat.mul (Mat.mul K Pyy) K.transpose)
    lik := density inv (Mat.of (fun i (_ : Fin 1) => ν i)) Vec.zero Pyy 0 }

end ukf

section step
variable {α : Type} [Add α] [Sub α] [Mul α] [Div α] [Neg α] [Zero α] [One α] [Inhabited α] [DecidableEq α] [Transc α]
variable {n msz s k : Nat}

/-- view a matrix with `r` rows as one with `r'` rows, `r' = r` (here `r' = (msz / bs) * bs`) -/
def castRows {r r' c : Nat} (h : r' = r) (A : Mat α r c) : Mat α r' c := Mat.of (fun i j => A (Fin.cast h i) j)
def castVec {r r' : Nat} (h : r' = r) (v : Vec α r) : Vec α r' := Vec.of (fun i => v (Fin.cast h i))

def SNoise.cast {msz' bs : Nat} (h : msz' = msz) : SNoise α msz bs → SNoise α msz' bs
  | .full R => .full (Mat.of (fun i j => R (Fin.cast h i) (Fin.cast h j)))
  | .reduced R => .reduced R

/-- the components of a successful step: the measurement of size `msz` is cut into `msz / bs`
    sub-vectors of size `bs` -/
def sukfComps (inv : InvFn α) (bs : Nat) (hdiv : msz % bs = 0) (R : SNoise α msz bs) (inp : SukfIn α n msz s k)
    (b : GM α n k) (i : Fin k) : SukfComp α n ((msz / bs) * bs) s :=
  have h : (msz / bs) * bs = msz := Nat.div_mul_cancel (Nat.dvd_of_mod_eq_zero hdiv)
  sukfComp inv inp.nc (R.cast h) (b.mean i) (inp.X i) (castRows h (inp.Yp i)) inp.wm inp.wc (castVec h inp.y)

/-- `SUKFCorrection::correctStep`.  `b` is the predicted belief, `out` the caller's output mixture.
    Every early return assigns `corr_state = pred_state`; a successful step writes means and
    covariances only. -/
def sukfCorrect (inv : InvFn α) (bs : Nat) (R : SNoise α msz bs) (inp : SukfIn α n msz s k)
    (b out : GM α n k) : GM α n k :=
  -- valid_measurement &= (meas_size % measurement_sub_size_ == 0)
  if h1 : inp.validMeas = true ∧ msz % bs = 0 then
    if !inp.validPred then b
    else if !inp.validInnov then b
    else
      let comps : Vec (SukfComp α n ((msz / bs) * bs) s) k := Vec.of (fun i => sukfComps inv bs h1.2 R inp b i)
      { mean := fun i => (comps i).mean
        cov := fun i => (comps i).cov
        weight := out.weight }
  else b

/-- `SUKFCorrection::getLikelihood` after a successful step: one value per component. -/
def sukfLikelihoods (inv : InvFn α) (bs : Nat) (hdiv : msz % bs = 0) (R : SNoise α msz bs)
    (inp : SukfIn α n msz s k) (b : GM α n k) : Vec α k :=
  have h : (msz / bs) * bs = msz := Nat.div_mul_cancel (Nat.dvd_of_mod_eq_zero hdiv)
  Vec.of (fun i =>
    let c := sukfComps inv bs hdiv R inp b i
    sukfLik inv (R.cast h) c.Y c.innov)

/-- What `getLikelihood()` answers after the step (code after fix 9d4c3da: `correctStep` forgets the
    stored innovations when it starts): nothing (`(false, _)`) after every early return, the likelihoods of
    this step after a successful one. -/
def sukfStepLikelihood (inv : InvFn α) (bs : Nat) (R : SNoise α msz bs) (inp : SukfIn α n msz s k)
    (b : GM α n k) : Option (Vec α k) :=
  if h1 : inp.validMeas = true ∧ msz % bs = 0 then
    if !inp.validPred then none
    else if !inp.validInnov then none
    else some (sukfLikelihoods inv bs h1.2 R inp b)
  else none

end step

/-! ### The correction *objects* over call histories

What survives between calls on one `SUKFCorrection`: the skip flag of the `GaussianCorrection` base, and the members
`innovations_` / `propagated_sigma_points_` the likelihood query reads.  `correctStep` empties `innovations_` when it
starts (fix 9d4c3da) and fills both members only when the step succeeds; a skipped `correct()` does not enter
`correctStep` at all (members untouched); the move constructor carries the skip flag, the measurement model and the
configuration over but *not* the two members (the new object has no likelihood).  `getLikelihood()` asks the measurement
model for its noise covariance *at query time*.  (After a failed `innovation()` the member
`propagated_sigma_points_` already holds the new, unshifted points; with `innovations_` empty it cannot be observed
before the next successful step overwrites it, so the model does not carry it.) -/

section object
variable {α : Type} [Add α] [Sub α] [Mul α] [Div α] [Neg α] [Zero α] [One α] [Inhabited α] [DecidableEq α] [Transc α]
variable {bs : Nat}

/-- what `propagated_sigma_points_` (shifted, weighted: `Y`) and `innovations_` (`ν`) hold after a successful step on a
    measurement of size `msz` (a multiple of the block size) with `k` components -/
structure SukfStored (α : Type) (bs : Nat) where
  msz : Nat
  s : Nat
  k : Nat
  hdiv : msz % bs = 0
  Y : Fin k → Mat α ((msz / bs) * bs) s
  ν : Fin k → Vec α ((msz / bs) * bs)

/-- the members of a `SUKFCorrection` that survive between calls -/
structure SukfObj (α : Type) (bs : Nat) where
  skip : Bool
  stored : Option (SukfStored α bs)

/-- the noise covariance the measurement model reports, seen by a measurement of size `msz` -/
abbrev NoiseFn (α : Type) (bs : Nat) := (msz : Nat) → SNoise α msz bs

/-- one `correct(pred_state, corr_state)` call: the sizes in force and what the collaborators answer -/
structure SukfCall (α : Type) where
  n : Nat
  msz : Nat
  s : Nat
  k : Nat
  inp : SukfIn α n msz s k
  b : GM α n k
  out : GM α n k

/-- the constructor: nothing skipped, no likelihood -/
def sukfNew : SukfObj α bs := { skip := false, stored := none }

/-- the move constructor: skip flag kept (fix 88cf1f5), members `innovations_` / `propagated_sigma_points_` not moved -/
def sukfMoved (o : SukfObj α bs) : SukfObj α bs := { skip := o.skip, stored := none }

/-- what a non-skipped `correct()` leaves in the members: nothing after every early return, `Y` and `ν` of every
    component after a success (they do not depend on the noise covariance) -/
def sukfStoredOf (bs : Nat) (c : SukfCall α) (hdiv : c.msz % bs = 0) : SukfStored α bs :=
  have h : (c.msz / bs) * bs = c.msz := Nat.div_mul_cancel (Nat.dvd_of_mod_eq_zero hdiv)
  { msz := c.msz, s := c.s, k := c.k, hdiv := hdiv
    Y := fun i =>
      let Yp := castRows h (c.inp.Yp i)
      let predMean := Yp.mulVec c.inp.wm
      Mat.eval (sukfScaleCols (subCols Yp predMean) (sqrtW c.inp.wc))
    ν := fun i =>
      let Yp := castRows h (c.inp.Yp i)
      Vec.eval (Vec.sub (castVec h c.inp.y) (Yp.mulVec c.inp.wm)) }

def sukfStepStored (bs : Nat) (c : SukfCall α) : Option (SukfStored α bs) :=
  if h1 : c.inp.validMeas = true ∧ c.msz % bs = 0 then
    if !c.inp.validPred then none
    else if !c.inp.validInnov then none
    else some (sukfStoredOf bs c h1.2)
  else none

/-- `getLikelihood()` on stored members, with the noise covariance reported at query time -/
def sukfStoredLik (inv : InvFn α) (st : SukfStored α bs) (R : SNoise α st.msz bs) : Vec α st.k :=
  have h : (st.msz / bs) * bs = st.msz := Nat.div_mul_cancel (Nat.dvd_of_mod_eq_zero st.hdiv)
  Vec.of (fun i => sukfLik inv (R.cast h) (st.Y i) (st.ν i))

/-- `SUKFCorrection::getLikelihood()`: `(false, _)` while `innovations_` is empty -/
def sukfObjLik (inv : InvFn α) (Rfn : NoiseFn α bs) (o : SukfObj α bs) : Option ((k : Nat) × Vec α k) :=
  match o.stored with
  | none => none
  | some st => some ⟨st.k, sukfStoredLik inv st (Rfn st.msz)⟩

/-- the object together with the one collaborator state that matters here: the noise covariance in force -/
structure SukfSys (α : Type) (bs : Nat) where
  obj : SukfObj α bs
  Rfn : NoiseFn α bs

inductive SukfOp (α : Type) (bs : Nat) where
  /-- `correct(pred_state, corr_state)` -/
  | correct (c : SukfCall α)
  /-- `skip(status)` -/
  | skip (status : Bool)
  /-- the object is move-constructed into a new one, which is used from then on -/
  | move
  /-- `getLikelihood()` -/
  | query
  /-- the measurement model changes its noise covariance -/
  | setNoise (Rfn : NoiseFn α bs)

/-- what the caller sees -/
inductive SukfObs (α : Type) where
  | belief (n k : Nat) (g : GM α n k)
  | lik (l : Option ((k : Nat) × Vec α k))

/-- one operation on the serial correction object -/
def sukfSysStep (inv : InvFn α) (σ : SukfSys α bs) : SukfOp α bs → SukfSys α bs × Option (SukfObs α)
  | .correct c =>
    -- GaussianCorrection::correct: `if (!skip_) correctStep(...) else corr_state = pred_state`
    if σ.obj.skip then (σ, some (.belief c.n c.k c.b))
    else ({ σ with obj := { skip := σ.obj.skip, stored := sukfStepStored bs c } },
          some (.belief c.n c.k (sukfCorrect inv bs (σ.Rfn c.msz) c.inp c.b c.out)))
  | .skip status => ({ σ with obj := { σ.obj with skip := status } }, none)
  | .move => ({ σ with obj := sukfMoved σ.obj }, none)
  | .query => (σ, some (.lik (sukfObjLik inv σ.Rfn σ.obj)))
  | .setNoise f => ({ σ with Rfn := f }, none)

/-- a history of operations: final state and the observations in order -/
def sukfSysRun (inv : InvFn α) : SukfSys α bs → List (SukfOp α bs) → SukfSys α bs × List (SukfObs α)
  | σ, [] => (σ, [])
  | σ, op :: ops =>
    let r := sukfSysStep inv σ op
    let rest := sukfSysRun inv r.1 ops
    (rest.1, r.2.toList ++ rest.2)

/-! The standard additive correction as an object (`UKFCorrection`: same base class, same move constructor — the members
`innovations_` / `predicted_meas_` are not moved —, `innovations_` emptied when a step starts, fix 5117f2c).  Its
likelihood is a function of members written by the step, so the model keeps the values. -/

structure UkfObj (α : Type) where
  skip : Bool
  stored : Option ((k : Nat) × Vec α k)

/-- `UKFCorrection::correctStep` (additive) on a measurement whose size is a multiple of the block size, given the full
    covariance the serial encoding stands for: output mixture and likelihoods (none after each early return) -/
def ukfStep (inv : InvFn α) (bs : Nat) {n msz s k : Nat} (hdiv : msz % bs = 0) (R : SNoise α msz bs)
    (inp : SukfIn α n msz s k) (b out : GM α n k) : GM α n k × Option ((k : Nat) × Vec α k) :=
  have h : (msz / bs) * bs = msz := Nat.div_mul_cancel (Nat.dvd_of_mod_eq_zero hdiv)
  if !inp.validMeas then (b, none)
  else if !inp.validPred then (b, none)
  else if !inp.validInnov then (b, none)
  else
    let us : Vec (UkfComp α n ((msz / bs) * bs)) k := Vec.of (fun i =>
      ukfComp inv inp.nc (R.cast h).toFull (b.mean i) (b.cov i) (inp.X i) (castRows h (inp.Yp i)) inp.wm inp.wc (castVec h inp.y))
    ({ mean := fun i => (us i).mean, cov := fun i => (us i).cov, weight := out.weight },
     some ⟨k, Vec.of (fun i => (us i).lik)⟩)

structure UkfSys (α : Type) (bs : Nat) where
  obj : UkfObj α
  Rfn : NoiseFn α bs

/-- one operation on the standard correction object.  A measurement whose size is not a multiple of the block size has
    no counterpart here (a shared block does not define a full covariance for it): such a call is left out of the
    comparison (`b`, no likelihood) and excluded by hypothesis in the theorems. -/
def ukfSysStep (inv : InvFn α) (σ : UkfSys α bs) : SukfOp α bs → UkfSys α bs × Option (SukfObs α)
  | .correct c =>
    if σ.obj.skip then (σ, some (.belief c.n c.k c.b))
    else if hdiv : c.msz % bs = 0 then
      let r := ukfStep inv bs hdiv (σ.Rfn c.msz) c.inp c.b c.out
      ({ σ with obj := { skip := σ.obj.skip, stored := r.2 } }, some (.belief c.n c.k r.1))
    else ({ σ with obj := { skip := σ.obj.skip, stored := none } }, some (.belief c.n c.k c.b))
  | .skip status => ({ σ with obj := { σ.obj with skip := status } }, none)
  | .move => ({ σ with obj := { skip := σ.obj.skip, stored := none } }, none)
  | .query => (σ, some (.lik σ.obj.stored))
  | .setNoise f => ({ σ with Rfn := f }, none)

def ukfSysRun (inv : InvFn α) : UkfSys α bs → List (SukfOp α bs) → UkfSys α bs × List (SukfObs α)
  | σ, [] => (σ, [])
  | σ, op :: ops =>
    let r := ukfSysStep inv σ op
    let rest := ukfSysRun inv r.1 ops
    (rest.1, r.2.toList ++ rest.2)

/-- the last operation of a history that touched the members the likelihood is read from: a `correct()` that was not
    skipped, or a move; `sk` is the skip flag at the start -/
def sukfLastTouch : Bool → List (SukfOp α bs) → Option (SukfOp α bs)
  | _, [] => none
  | sk, op :: ops =>
    let sk' := match op with | .skip status => status | _ => sk
    match sukfLastTouch sk' ops with
    | some t => some t
    | none =>
      match op with
      | .correct c => if sk then none else some (.correct c)
      | .move => some .move
      | _ => none

/-- the skip flag after a history: the status of the last `skip()` call, if any -/
def sukfHistorySkip : Bool → List (SukfOp α bs) → Bool
  | sk, [] => sk
  | sk, op :: ops => sukfHistorySkip (match op with | .skip status => status | _ => sk) ops

end object

end BFL