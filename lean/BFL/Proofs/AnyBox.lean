import BFL.Model.AnyBox
/-
Helper lemmas for C20: how the primitive member functions of `any` act on `content`, liveness,
heap and log; the ownership invariant `Own` and its preservation by every primitive.
-/
namespace BFL.AnyBox

/-! ### `upd` -/

@[simp] theorem upd_same {α β : Type} [DecidableEq α] (f : α → β) (a : α) (b : β) : upd f a b a = b := by
  simp [upd]

@[simp] theorem upd_other {α β : Type} [DecidableEq α] (f : α → β) {a x : α} (b : β) (h : x ≠ a) :
    upd f a b x = f x := by
  simp [upd, h]

theorem upd_apply {α β : Type} [DecidableEq α] (f : α → β) (a x : α) (b : β) :
    upd f a b x = if x = a then b else f x := rfl

/-! ### `content`, `isLive` after each primitive -/

theorem content_of_dead {s : St} {o : Obj} (h : s.objs o = .dead) : content s o = none := by
  simp [content, h]

theorem isLive_iff {s : St} {o : Obj} : isLive s o = true ↔ ∃ c, s.objs o = .live c := by
  unfold isLive; cases s.objs o <;> simp

theorem not_isLive_iff {s : St} {o : Obj} : isLive s o = false ↔ s.objs o = .dead := by
  unfold isLive; cases s.objs o <;> simp

theorem content_of_not_live {s : St} {o : Obj} (h : isLive s o = false) : content s o = none :=
  content_of_dead (not_isLive_iff.1 h)

@[simp] theorem content_setContent (s : St) (o x : Obj) (c : Option Id) :
    content (setContent s o c) x = if x = o then c else content s x := by
  unfold content setContent
  by_cases h : x = o <;> simp [h]

@[simp] theorem isLive_setContent (s : St) (o x : Obj) (c : Option Id) :
    isLive (setContent s o c) x = if x = o then true else isLive s x := by
  unfold isLive setContent
  by_cases h : x = o <;> simp [h]

@[simp] theorem heap_setContent (s : St) (o : Obj) (c : Option Id) : (setContent s o c).heap = s.heap := rfl
@[simp] theorem next_setContent (s : St) (o : Obj) (c : Option Id) : (setContent s o c).next = s.next := rfl
@[simp] theorem log_setContent (s : St) (o : Obj) (c : Option Id) : (setContent s o c).log = s.log := rfl

@[simp] theorem content_newHolder (s : St) (v : Val) (e : Ev) (x : Obj) :
    content (newHolder s v e) x = content s x := rfl
@[simp] theorem isLive_newHolder (s : St) (v : Val) (e : Ev) (x : Obj) :
    isLive (newHolder s v e) x = isLive s x := rfl
@[simp] theorem heap_newHolder (s : St) (v : Val) (e : Ev) :
    (newHolder s v e).heap = upd s.heap s.next (some v) := rfl
@[simp] theorem next_newHolder (s : St) (v : Val) (e : Ev) : (newHolder s v e).next = s.next + 1 := rfl
@[simp] theorem log_newHolder (s : St) (v : Val) (e : Ev) :
    (newHolder s v e).log = e :: .alloc s.next :: s.log := rfl

@[simp] theorem content_logEv (s : St) (e : Ev) (x : Obj) : content (logEv s e) x = content s x := rfl
@[simp] theorem isLive_logEv (s : St) (e : Ev) (x : Obj) : isLive (logEv s e) x = isLive s x := rfl
@[simp] theorem heap_logEv (s : St) (e : Ev) : (logEv s e).heap = s.heap := rfl
@[simp] theorem next_logEv (s : St) (e : Ev) : (logEv s e).next = s.next := rfl
@[simp] theorem log_logEv (s : St) (e : Ev) : (logEv s e).log = e :: s.log := rfl

@[simp] theorem content_deletePtr (s : St) (p : Option Id) (x : Obj) :
    content (deletePtr s p) x = content s x := by
  cases p <;> rfl
@[simp] theorem isLive_deletePtr (s : St) (p : Option Id) (x : Obj) :
    isLive (deletePtr s p) x = isLive s x := by
  cases p <;> rfl
@[simp] theorem objs_deletePtr (s : St) (p : Option Id) : (deletePtr s p).objs = s.objs := by
  cases p <;> rfl
@[simp] theorem next_deletePtr (s : St) (p : Option Id) : (deletePtr s p).next = s.next := by
  cases p <;> rfl
theorem heap_deletePtr (s : St) (p : Option Id) (j : Id) :
    (deletePtr s p).heap j = if p = some j then none else s.heap j := by
  cases p with
  | none => simp [deletePtr]
  | some i =>
    by_cases h : j = i
    · subst h; simp [deletePtr]
    · have : ¬ i = j := fun e => h e.symm
      simp [deletePtr, upd_other _ _ h, this]

/-- `dtor` on contents: the destroyed object has no content any more, the others keep theirs. -/
@[simp] theorem content_dtor (s : St) (o x : Obj) :
    content (dtor s o) x = if x = o then none else content s x := by
  unfold dtor
  by_cases h : x = o
  · subst h; simp [content]
  · simp only [h, if_false]
    show content { deletePtr s (content s o) with objs := upd (deletePtr s (content s o)).objs o .dead } x = _
    unfold content
    simp [upd_other _ _ h]

@[simp] theorem isLive_dtor (s : St) (o x : Obj) :
    isLive (dtor s o) x = if x = o then false else isLive s x := by
  unfold dtor
  by_cases h : x = o
  · subst h; simp [isLive]
  · simp only [h, if_false]
    unfold isLive
    simp [upd_other _ _ h]

theorem heap_dtor (s : St) (o : Obj) (j : Id) :
    (dtor s o).heap j = if content s o = some j then none else s.heap j := by
  unfold dtor
  exact heap_deletePtr s (content s o) j

@[simp] theorem next_dtor (s : St) (o : Obj) : (dtor s o).next = s.next := by
  unfold dtor; simp

theorem log_dtor (s : St) (o : Obj) :
    (dtor s o).log = match content s o with | none => s.log | some i => .free i :: s.log := by
  unfold dtor
  cases content s o <;> rfl

@[simp] theorem content_swap (s : St) (a b x : Obj) :
    content (swap s a b) x = if x = b then content s a else if x = a then content s b else content s x := by
  simp [swap]

@[simp] theorem isLive_swap (s : St) (a b x : Obj) :
    isLive (swap s a b) x = if x = b then true else if x = a then true else isLive s x := by
  simp [swap]

@[simp] theorem heap_swap (s : St) (a b : Obj) : (swap s a b).heap = s.heap := rfl
@[simp] theorem next_swap (s : St) (a b : Obj) : (swap s a b).next = s.next := rfl
@[simp] theorem log_swap (s : St) (a b : Obj) : (swap s a b).log = s.log := rfl

/-! ### The ownership invariant is preserved by every primitive -/

theorem own_init : Own init := by
  refine ⟨?_, ?_, ?_, ?_, ?_, ?_⟩ <;> intros <;> simp_all [init, content]

/-- `Own` only depends on contents, heap, counter and log. -/
theorem own_congr {s s' : St} (hc : ∀ x, content s' x = content s x) (hh : s'.heap = s.heap)
    (hn : s'.next = s.next) (hl : s'.log = s.log) (h : Own s) : Own s' := by
  refine ⟨?_, ?_, ?_, ?_, ?_, ?_⟩
  · intro a b i; rw [hc, hc]; exact h.inj a b i
  · intro a i; rw [hc, hh]; exact h.live a i
  · intro i; rw [hh]; intro hi; obtain ⟨a, ha⟩ := h.owned i hi; exact ⟨a, by rw [hc]; exact ha⟩
  · intro i; rw [hh, hn]; exact h.fresh i
  · intro i; rw [hl, hn]; exact h.allocOnce i
  · intro i; rw [hl, hn, hh]; exact h.freeOnce i

theorem own_setContent_same {s : St} {o : Obj} {c : Option Id} (hc : content s o = c) (h : Own s) :
    Own (setContent s o c) := by
  refine own_congr (s := s) (s' := setContent s o c) (fun x => ?_) rfl rfl rfl h
  by_cases hx : x = o
  · subst hx; simp [hc]
  · simp [hx]

theorem own_ctorDefault {s : St} {o : Obj} (hc : content s o = none) (h : Own s) : Own (ctorDefault s o) :=
  own_setContent_same hc h

theorem own_swap {s : St} (a b : Obj) (h : Own s) : Own (swap s a b) := by
  refine ⟨?_, ?_, ?_, h.fresh, h.allocOnce, h.freeOnce⟩
  · intro x y i hx hy
    have := h.inj
    simp only [content_swap] at hx hy
    grind
  · intro x i hx
    have := h.live
    simp only [content_swap] at hx
    show s.heap i ≠ none
    grind
  · intro i hi
    obtain ⟨x, hx⟩ := h.owned i hi
    have := h.inj
    by_cases hxa : x = a
    · exact ⟨b, by simp [content_swap]; grind⟩
    · by_cases hxb : x = b
      · refine ⟨a, ?_⟩; simp only [content_swap]; grind
      · refine ⟨x, ?_⟩; simp only [content_swap]; grind

/-- events that are neither allocations nor frees -/
def Ev.isGhost : Ev → Bool
  | .copy _ => true
  | .move _ => true
  | _ => false

/-- `new holder<T>(v)` stored into an object without content. -/
theorem own_alloc {s : St} {o : Obj} (v : Val) {e : Ev} (he : e.isGhost = true)
    (hc : content s o = none) (h : Own s) :
    Own (setContent (newHolder s v e) o (some s.next)) := by
  have hfn : s.heap s.next = none := h.fresh _ (Nat.le_refl _)
  refine ⟨?_, ?_, ?_, ?_, ?_, ?_⟩
  · intro x y i hx hy
    have := h.inj; have := h.live
    simp only [content_setContent, content_newHolder] at hx hy
    grind
  · intro x i hx
    have := h.live
    simp only [content_setContent, content_newHolder] at hx
    simp only [heap_setContent, heap_newHolder, upd_apply]
    grind
  · intro i hi
    simp only [heap_setContent, heap_newHolder, upd_apply] at hi
    by_cases hin : i = s.next
    · exact ⟨o, by simp [hin]⟩
    · simp only [hin, if_false] at hi
      obtain ⟨a, ha⟩ := h.owned i hi
      refine ⟨a, ?_⟩
      simp only [content_setContent, content_newHolder]
      grind
  · intro i hi
    simp only [next_setContent, next_newHolder] at hi
    simp only [heap_setContent, heap_newHolder, upd_apply]
    have := h.fresh i (Nat.le_of_succ_le hi)
    have : i ≠ s.next := fun e => by rw [e] at hi; exact Nat.not_succ_le_self _ hi
    grind
  · intro i
    have := h.allocOnce i
    simp only [log_setContent, log_newHolder, next_setContent, next_newHolder, List.count_cons]
    cases e <;> simp_all [Ev.isGhost] <;> grind
  · intro i
    have := h.freeOnce i
    simp only [log_setContent, log_newHolder, next_setContent, next_newHolder, List.count_cons,
      heap_setContent, heap_newHolder, upd_apply]
    cases e <;> simp_all [Ev.isGhost] <;> grind

theorem own_ctorValCopy {s : St} {o : Obj} (v : Val) (hc : content s o = none) (h : Own s) :
    Own (ctorValCopy s o v) := own_alloc v rfl hc h

theorem own_ctorValMove {s : St} {o : Obj} (v : Val) (hc : content s o = none) (h : Own s) :
    Own (ctorValMove s o v) := own_alloc v rfl hc h

theorem own_ctorCopy {s : St} {o : Obj} (src : Obj) (hc : content s o = none) (h : Own s) :
    Own (ctorCopy s o src) := by
  unfold ctorCopy
  split
  · exact own_setContent_same hc h
  · split
    · exact own_setContent_same hc h
    · exact own_alloc _ rfl hc h

theorem own_ctorMove {s : St} {o : Obj} (src : Obj) (hc : content s o = none) (h : Own s) :
    Own (ctorMove s o src) := by
  refine ⟨?_, ?_, ?_, h.fresh, h.allocOnce, h.freeOnce⟩
  · intro x y i hx hy
    have := h.inj
    simp only [ctorMove, content_setContent] at hx hy
    grind
  · intro x i hx
    have := h.live
    simp only [ctorMove, content_setContent] at hx
    show s.heap i ≠ none
    grind
  · intro i hi
    obtain ⟨x, hx⟩ := h.owned i hi
    by_cases hxs : x = src
    · refine ⟨o, ?_⟩; simp only [ctorMove, content_setContent]; grind
    · refine ⟨x, ?_⟩; simp only [ctorMove, content_setContent]; grind

theorem own_dtor {s : St} (o : Obj) (h : Own s) : Own (dtor s o) := by
  refine ⟨?_, ?_, ?_, ?_, ?_, ?_⟩
  · intro x y i hx hy
    have := h.inj
    simp only [content_dtor] at hx hy
    grind
  · intro x i hx
    have := h.live; have := h.inj
    simp only [content_dtor] at hx
    rw [heap_dtor]
    grind
  · intro i hi
    rw [heap_dtor] at hi
    have hi' : s.heap i ≠ none := by grind
    obtain ⟨x, hx⟩ := h.owned i hi'
    refine ⟨x, ?_⟩
    simp only [content_dtor]
    grind
  · intro i hi
    rw [heap_dtor]
    have := h.fresh i (by simpa using hi)
    grind
  · intro i
    have := h.allocOnce i
    rw [log_dtor, next_dtor]
    cases content s o <;> simp_all
  · intro i
    have := h.freeOnce i
    have hl := h.live o
    have hf := h.fresh
    rw [log_dtor, next_dtor, heap_dtor]
    cases hco : content s o with
    | none => simp_all
    | some j =>
      have hj : s.heap j ≠ none := hl j hco
      have hjn : j < s.next := by
        by_cases hlt : j < s.next
        · exact hlt
        · exact absurd (hf j (Nat.le_of_not_lt hlt)) hj
      simp only [List.count_cons]
      by_cases hij : i = j
      · subst hij; simp_all
      · have : ¬ j = i := fun e => hij e.symm
        simp_all

/-- overwriting the value stored in an allocated cell (mutation through a cast pointer, move-out) -/
def writeCell (s : St) (i : Id) (v : Val) : St := { s with heap := upd s.heap i (some v) }

@[simp] theorem content_writeCell (s : St) (i : Id) (v : Val) (x : Obj) :
    content (writeCell s i v) x = content s x := rfl
@[simp] theorem isLive_writeCell (s : St) (i : Id) (v : Val) (x : Obj) :
    isLive (writeCell s i v) x = isLive s x := rfl

theorem own_writeCell {s : St} {i : Id} (v : Val) (hi : s.heap i ≠ none) (h : Own s) :
    Own (writeCell s i v) := by
  refine ⟨h.inj, ?_, ?_, ?_, h.allocOnce, ?_⟩
  · intro x j hx
    have := h.live x j hx
    show upd s.heap i (some v) j ≠ none
    rw [upd_apply]; grind
  · intro j hj
    have hj' : s.heap j ≠ none := by
      have : upd s.heap i (some v) j ≠ none := hj
      rw [upd_apply] at this; grind
    exact h.owned j hj'
  · intro j hj
    have := h.fresh j hj
    show upd s.heap i (some v) j = none
    rw [upd_apply]; grind
  · intro j
    have := h.freeOnce j
    show s.log.count (.free j) = if j < s.next ∧ upd s.heap i (some v) j = none then 1 else 0
    rw [upd_apply]
    by_cases hji : j = i
    · subst hji; simp_all
    · simp_all

theorem own_logEv {s : St} {e : Ev} (he : e.isGhost = true) (h : Own s) : Own (logEv s e) := by
  refine ⟨h.inj, h.live, h.owned, h.fresh, ?_, ?_⟩
  · intro i; have := h.allocOnce i
    show (e :: s.log).count (.alloc i) = if i < s.next then 1 else 0
    rw [List.count_cons, this]
    cases e <;> simp_all [Ev.isGhost]
  · intro i; have := h.freeOnce i
    show (e :: s.log).count (.free i) = if i < s.next ∧ s.heap i = none then 1 else 0
    rw [List.count_cons, this]
    cases e <;> simp_all [Ev.isGhost]

theorem own_poke {s : St} (o : Obj) (v : Val) (h : Own s) : Own (poke s o v) := by
  unfold poke
  split
  · exact h
  · next i hi =>
    have hc : content s o = some i := by
      simp only [castPtr] at hi
      split at hi <;> simp_all
    exact own_writeCell v (h.live o i hc) h

/-- the reference form writes exactly what the pointer form writes -/
theorem pokeRef_fst (s : St) (o : Obj) (v : Val) : (pokeRef s o v).1 = poke s o v := by
  simp only [pokeRef, poke, castRef]
  cases castPtr s (some o) v.tag <;> rfl

/-- and it succeeds exactly when `type()` is the type of the value written -/
theorem pokeRef_snd (s : St) (o : Obj) (v : Val) : (pokeRef s o v).2 = true ↔ typeOf s o = some v.tag := by
  simp only [pokeRef, castRef, castPtr]
  by_cases h : typeOf s o = some v.tag
  · simp only [h, if_true]
    cases hc : content s o with
    | none => simp [typeOf, hc] at h
    | some i => simp
  · simp [h]

theorem castRef_content {s : St} {o : Obj} {t : Tag} {i : Id} (h : castRef s o t = some i) :
    content s o = some i := by
  simp only [castRef, castPtr] at h
  split at h <;> simp_all

theorem own_castCopy {s : St} (o : Obj) (t : Tag) (h : Own s) : Own (castCopy s o t).1 := by
  unfold castCopy
  split
  · exact h
  · split
    · exact h
    · exact own_logEv rfl h

theorem own_castMoveOut {s : St} (o : Obj) (t : Tag) (h : Own s) : Own (castMoveOut s o t).1 := by
  unfold castMoveOut
  split
  · exact h
  · next i hi =>
    split
    · exact h
    · next v hv =>
      have hne : s.heap i ≠ none := by simp [hv]
      exact own_logEv (e := .move v.tag) rfl (own_writeCell (movedFrom v) hne h)

theorem own_castValue {s : St} (o : Obj) (t : Tag) (f : VForm) (h : Own s) : Own (castValue s o t f).1 := by
  cases f <;> simp only [castValue]
  · exact own_castCopy o t h
  · exact own_castCopy o t h
  · exact own_castCopy o t h
  · exact own_castMoveOut o t h

/-! ### liveness after the constructors -/

@[simp] theorem isLive_ctorDefault (s : St) (o x : Obj) :
    isLive (ctorDefault s o) x = if x = o then true else isLive s x := by
  simp [ctorDefault]

@[simp] theorem isLive_ctorCopy (s : St) (o src x : Obj) :
    isLive (ctorCopy s o src) x = if x = o then true else isLive s x := by
  unfold ctorCopy
  split
  · simp
  · split <;> simp

@[simp] theorem isLive_ctorMove (s : St) (o src x : Obj) :
    isLive (ctorMove s o src) x = if x = src then true else if x = o then true else isLive s x := by
  simp [ctorMove]

@[simp] theorem isLive_ctorValCopy (s : St) (o x : Obj) (v : Val) :
    isLive (ctorValCopy s o v) x = if x = o then true else isLive s x := by
  simp [ctorValCopy]

@[simp] theorem isLive_ctorValMove (s : St) (o x : Obj) (v : Val) :
    isLive (ctorValMove s o v) x = if x = o then true else isLive s x := by
  simp [ctorValMove]

theorem isLive_ctorFromAny (s : St) (o src x : Obj) (c : Cat) (hs : isLive s src = true) :
    isLive (ctorFromAny s o src c) x = if x = o then true else isLive s x := by
  cases c <;> simp [ctorFromAny] <;> grind

@[simp] theorem isLive_ctorFromVal (s : St) (o x : Obj) (v : Val) (c : Cat) :
    isLive (ctorFromVal s o v c) x = if x = o then true else isLive s x := by
  cases c <;> simp [ctorFromVal]

theorem own_ctorFromAny {s : St} {o : Obj} (src : Obj) (c : Cat) (hc : content s o = none) (h : Own s) :
    Own (ctorFromAny s o src c) := by
  cases c <;> simp only [ctorFromAny]
  · exact own_ctorCopy src hc h
  · exact own_ctorCopy src hc h
  · exact own_ctorMove src hc h
  · exact own_ctorCopy src hc h

theorem own_ctorFromVal {s : St} {o : Obj} (v : Val) (c : Cat) (hc : content s o = none) (h : Own s) :
    Own (ctorFromVal s o v c) := by
  cases c <;> simp only [ctorFromVal]
  · exact own_ctorValCopy v hc h
  · exact own_ctorValCopy v hc h
  · exact own_ctorValMove v hc h
  · exact own_ctorValCopy v hc h

end BFL.AnyBox
