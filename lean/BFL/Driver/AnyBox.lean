import BFL.Driver.Proto
import BFL.Model.AnyBox
import BFL.Model.AnyBoxMem
/-
Driver entries of the `any` container (C20).

  anyseq <n> <F|L> <op> <op> …

runs the operation sequence on the model from the initial state (a pool of n destroyed
containers), printing per operation its result, the probe counters, and — after every operation
(`F`) or after the last one only (`L`) — the view of every slot; then destroys all containers and
prints the final counters and the number of cells still allocated.

Operation tokens (fields separated by `:`; cat = l|c|r|x for T&, const T&, T&&, const T&&;
tag = i|d|s|m|p|t; form = l|c|r|m; a leading `!` runs the operation with the throwing probe `t` armed:
its next copy construction throws; a leading `~` / `~~`: the first / second call of `operator new` inside the
operation throws `std::bad_alloc`):
  df:k  ca:k:src:cat  cv:k:cat:tag:code  aa:a:b:cat  av:a:cat:tag:code  rs:a  sw:a:b:free
  ds:a  pk:a:tag:code  pr:a:tag:code  vc:a:tag:form  pc:a|n:tag:const
-/
namespace BFL.DriverAnyBox
open BFL BFL.Proto BFL.AnyBox

def tagOf? : String → Option Tag
  | "i" => some .int | "d" => some .dbl | "s" => some .str | "m" => some .mat | "p" => some .probe
  | "t" => some .thr
  | _ => none

def tagStr : Tag → String
  | .int => "i" | .dbl => "d" | .str => "s" | .mat => "m" | .probe => "p" | .thr => "t"

def catOf? : String → Option Cat
  | "l" => some .lref | "c" => some .clref | "r" => some .rref | "x" => some .crref
  | _ => none

def formOf? : String → Option VForm
  | "l" => some .lval | "c" => some .clval | "r" => some .rval | "m" => some .rvalMove
  | _ => none

def flagOf? : String → Option Bool
  | "0" => some false | "1" => some true | _ => none

def parseOp (tok : String) : Option Op :=
  match tok.splitOn ":" with
  | ["df", k] => do pure (.dflt (← k.toNat?))
  | ["ca", k, s, c] => do pure (.ctorAny (← k.toNat?) (← s.toNat?) (← catOf? c))
  | ["cv", k, c, t, v] => do pure (.ctorVal (← k.toNat?) (← catOf? c) ⟨← tagOf? t, ← v.toInt?⟩)
  | ["aa", a, b, c] => do pure (.asgnAny (← a.toNat?) (← b.toNat?) (← catOf? c))
  | ["av", a, c, t, v] => do pure (.asgnVal (← a.toNat?) (← catOf? c) ⟨← tagOf? t, ← v.toInt?⟩)
  | ["rs", a] => do pure (.reset (← a.toNat?))
  | ["sw", a, b, f] => do pure (.swap (← a.toNat?) (← b.toNat?) (← flagOf? f))
  | ["ds", a] => do pure (.destroy (← a.toNat?))
  | ["pk", a, t, v] => do pure (.poke (← a.toNat?) ⟨← tagOf? t, ← v.toInt?⟩)
  | ["pr", a, t, v] => do pure (.pokeRef (← a.toNat?) ⟨← tagOf? t, ← v.toInt?⟩)
  | ["vc", a, t, f] => do pure (.castVal (← a.toNat?) (← tagOf? t) (← formOf? f))
  | ["pc", a, t, c] => do
      let t ← tagOf? t
      let c ← flagOf? c
      if a = "n" then pure (.castPtr none t c) else pure (.castPtr (some (← a.toNat?)) t c)
  | _ => none

def ovStr : Option Val → String
  | none => "x"
  | some v => toString v.code

def outStr : Out → String
  | .invalid => "inv"
  | .done => "ok"
  | .src v => "src=" ++ toString v.code
  | .cast r => "r=" ++ ovStr r
  | .threw => "threw"

def isProbeCopy : Ev → Bool
  | .copy .probe => true
  | .copy .thr => true
  | _ => false

def isProbeMove : Ev → Bool
  | .move .probe => true
  | .move .thr => true
  | _ => false

/-- `!op`: the operation is run with the throwing probe armed; `~op` / `~~op`: its first / second call of
    `operator new` throws `std::bad_alloc` -/
def parseXOp (tok : String) : Option (Op × Fault) :=
  if tok.startsWith "!" then (parseOp (tok.drop 1).toString).map (·, .copyThrows)
  else if tok.startsWith "~~" then (parseOp (tok.drop 2).toString).map (·, .newFails 1)
  else if tok.startsWith "~" then (parseOp (tok.drop 1).toString).map (·, .newFails 0)
  else (parseOp tok).map (·, .none)

def countersStr (s : St) : String :=
  "c=" ++ toString (liveOfTag s .probe + liveOfTag s .thr) ++ "/" ++ toString (countEv s isProbeCopy) ++ "/" ++ toString (countEv s isProbeMove)

def slotStr (s : St) (k : Nat) : String :=
  match viewSlot s k with
  | none => "D"
  | some v =>
    (if v.hasValue then "1" else "0") ++ (match v.type with | none => "v" | some t => tagStr t) ++ ":" ++
      ",".intercalate (v.ptr.map ovStr) ++ ":" ++ ",".intercalate (v.cptr.map ovStr) ++ ":" ++
      ",".intercalate (v.ref.map ovStr)

def viewStr (n : Nat) (s : St) : List String := (List.range n).map (slotStr s)

def runSeq (n : Nat) (full : Bool) : St → List (Op × Fault) → List String → List String
  | s, [], acc =>
    let s' := destroyAll n s
    (("leak=" ++ toString (liveCells s').length) :: countersStr s' :: "END" :: acc).reverse
  | s, op :: rest, acc =>
    let r := stepF n s op
    let acc := countersStr r.1 :: outStr r.2 :: acc
    let acc := if full || rest.isEmpty then (viewStr n r.1).reverse ++ acc else acc
    runSeq n full r.1 rest acc

/-- mode token `F` / `L`, optionally followed by `:<member>` naming the probe types the harness uses behind the tags
    p and t (sizes 1..64 bytes, noexcept or potentially throwing move constructor): any.h does not look at the size or
    the exception specification of the held type, so the model is the same for every member. -/
def modeOf (mode : String) : R Bool :=
  if mode == "F" || mode.startsWith "F:" then pure true
  else if mode == "L" || mode.startsWith "L:" then pure false
  else failure

def anyseq : R String := do
  let n ← nat
  let mode ← tok
  let full ← modeOf mode
  let toks ← get
  set ([] : List String)
  let ops ← (toks.mapM parseXOp : Option (List (Op × Fault)))
  pure (join (runSeq n full init ops []))

/-! `anyspec`: the same case line run on the value-semantic specification (`specStepX` on the abstract pool; no heap,
    no pointers).  Same output format; the numbers of copy / move constructions are not part of the specification
    (printed as 0), `leak=` is the number of held objects left after destroying every container. -/

def specCountersStr (n : Nat) (p : APool) : String :=
  "c=" ++ toString (specLiveOfTag n p .probe + specLiveOfTag n p .thr) ++ "/0/0"

def specSlotStr (p : APool) (k : Nat) : String :=
  match specViewSlot p k with
  | none => "D"
  | some v =>
    (if v.hasValue then "1" else "0") ++ (match v.type with | none => "v" | some t => tagStr t) ++ ":" ++
      ",".intercalate (v.ptr.map ovStr) ++ ":" ++ ",".intercalate (v.cptr.map ovStr) ++ ":" ++
      ",".intercalate (v.ref.map ovStr)

def specLeft (n : Nat) (p : APool) : Nat :=
  ((List.range n).filter fun k => (aHeld p k).isSome).length

def runSpecSeq (n : Nat) (full : Bool) : APool → List (Op × Fault) → List String → List String
  | p, [], acc =>
    let p' := specRun n p ((List.range n).map Op.destroy)
    (("leak=" ++ toString (specLeft n p')) :: specCountersStr n p' :: "END" :: acc).reverse
  | p, op :: rest, acc =>
    let r := specStepF n p op
    let acc := specCountersStr n r.1 :: outStr r.2 :: acc
    let acc := if full || rest.isEmpty then ((List.range n).map (specSlotStr r.1)).reverse ++ acc else acc
    runSpecSeq n full r.1 rest acc

def anyspec : R String := do
  let n ← nat
  let mode ← tok
  let full ← modeOf mode
  let toks ← get
  set ([] : List String)
  let ops ← (toks.mapM parseXOp : Option (List (Op × Fault)))
  pure (join (runSpecSeq n full (absPool init) ops []))

def handle (op : String) (args : List String) : Option String :=
  match op with
  | "anyseq" => some ((run anyseq args).getD "bad-args")
  | "anyspec" => some ((run anyspec args).getD "bad-args")
  | _ => none

end BFL.DriverAnyBox
