"""C16 — Shipped models and initialisers match their documented closed form.

Every clause of the property has a predicate evaluated here directly on the implementation's output
(kind "prop": a concrete failing input, reported as VIOLATION with a replay), next to the
model/implementation correspondence (kind "corr").  Only observables the property speaks about are
compared: F, Q, sample dimension, S S^T = Q for the factor S recovered from the samples (never a
particular factor), reproducibility from the seed, motion, transition density, accept/reject of the
constructors (never the exception message or the order of the checks), the 0/1 matrix, served
states, measurements, grid positions/weights/refusal.  What the faithful model fixes beyond that
(which check fired, behaviour of `propagate` with the state model skipped) is recorded as a note.
"""
import itertools
import math
from fractions import Fraction

import vlib
from vlib import hexd, frac, frac_of_hex, unhex

EPS = 2.0 ** -52
TINY = Fraction(1, 2 ** 1070)


def fr(x):
    return Fraction(x)


def hx(vals):
    return [hexd(v) for v in vals]


class Reader:
    """sequential token reader for harness / driver output lines"""

    def __init__(self, s):
        self.t = s.split()
        self.p = 0

    def tok(self):
        v = self.t[self.p]
        self.p += 1
        return v

    def peek(self):
        return self.t[self.p] if self.p < len(self.t) else None

    def nat(self):
        return int(self.tok())

    def expect(self, s):
        v = self.tok()
        if v != s:
            raise ValueError("expected %s got %s" % (s, v))

    def mat(self, r, c, conv=unhex):
        toks = self.t[self.p:self.p + r * c]
        if len(toks) != r * c:
            raise ValueError("short matrix")
        self.p += r * c
        return vlib.mat_from_cm(toks, r, c, conv)

    def shaped(self, conv=unhex):
        r, c = self.nat(), self.nat()
        return r, c, self.mat(r, c, conv)

    def vec(self, n, conv=unhex):
        toks = self.t[self.p:self.p + n]
        if len(toks) != n:
            raise ValueError("short vector")
        self.p += n
        return [conv(x) for x in toks]


def finite(M):
    return all(math.isfinite(x) for row in M for x in row)


def fmat(M):
    return [[Fraction(x) for x in row] for row in M]


def cm(M):
    """column-major hex tokens of a row-list matrix of floats"""
    return vlib.fmt_mat_cm(M)


# ------------------------------------------------------------------ closed forms (specification side)

def spec_F(d, T):
    n = 2 * d
    F = [[Fraction(0)] * n for _ in range(n)]
    for k in range(d):
        F[2 * k][2 * k] = Fraction(1)
        F[2 * k][2 * k + 1] = Fraction(T)
        F[2 * k + 1][2 * k + 1] = Fraction(1)
    return F


def spec_Q(d, T, q):
    n = 2 * d
    T, q = Fraction(T), Fraction(q)
    Q = [[Fraction(0)] * n for _ in range(n)]
    for k in range(d):
        Q[2 * k][2 * k] = q * T ** 3 / 3
        Q[2 * k][2 * k + 1] = q * T ** 2 / 2
        Q[2 * k + 1][2 * k] = q * T ** 2 / 2
        Q[2 * k + 1][2 * k + 1] = q * T
    return Q


# A singular PSD covariance is inside the property's quantifier.  /repo clamps rounding-negative LDL^T pivots since
# cb9beab (the model's ldltSqrt does the same): NaN samples for a singular R are a violation, key linear-sqrt-singular-R.
SINGULAR_R_IS_VIOLATION = True
CANDIDATES = {}


def is_singular(C):
    try:
        return vlib.minv_frac(fmat(C)) is None
    except (ValueError, OverflowError):
        return False


def _solve_factor(Y0, Z0):
    Zi = vlib.minv_frac(Z0)
    if Zi is None:
        return None, float("inf")
    S = vlib.mmul(fmat(Y0), Zi)
    nZ = max(sum(abs(x) for x in row) for row in Z0)
    nZi = max(sum(abs(float(x)) for x in row) for row in Zi)
    return S, max(1.0, nZ * nZi)


def contract_ok(S, cond, C):
    n = len(C)
    SS = vlib.mmul(S, vlib.mT(S))
    return all(abs(float(SS[i][j] - Fraction(C[i][j]))) <= 256 * n * EPS * cond * (math.sqrt(abs(float(C[i][i])) * abs(float(C[j][j]))) + 1e-300)
               for i in range(n) for j in range(n))


def rearr(Z, order):
    """the twin's draws arrive as the matrix a column-major fill produces; `rm` = the matrix a row-major fill of the same draws produces"""
    if order == "cm" or not Z:
        return Z
    n, c = len(Z), len(Z[0])
    d = [Z[i][j] for j in range(c) for i in range(n)]
    return [[d[i * c + j] for j in range(c)] for i in range(n)]


FILL = {"cm": 0, "rm": 0}


def recover_factor(Y0, Z0, C=None):
    """S with Y0 = S Z0 (exact rational solve), a condition estimate of Z0, and the order in which the
    implementation fills its matrix of draws.  The fill order is not promised by the property: when the
    column-major reading violates S S^T = C and the row-major one satisfies it, the latter is used."""
    S, cond = _solve_factor(Y0, Z0)
    order = "cm"
    if C is not None and S is not None and not contract_ok(S, cond, C):
        S2, cond2 = _solve_factor(Y0, rearr(Z0, "rm"))
        if S2 is not None and contract_ok(S2, cond2, C):
            S, cond, order = S2, cond2, "rm"
    FILL[order] += 1
    return S, cond, order


def factor_problems(S, cond, C, what, stats):
    """contract S S^T = C (C: the covariance the implementation reports), scaled entry-wise"""
    n = len(C)
    SS = vlib.mmul(S, vlib.mT(S))
    probs = []
    worst = 0.0
    for i in range(n):
        for j in range(n):
            scale = math.sqrt(abs(C[i][i]) * abs(C[j][j])) + 1e-300
            tol = 256 * n * EPS * cond * scale
            err = abs(float(SS[i][j] - Fraction(C[i][j])))
            worst = max(worst, err / tol)
            if err > tol:
                probs.append(("prop", "sqrt-contract", "%s: S S^T differs from the covariance at (%d,%d): %.3g vs %.3g (tol %.3g)"
                              % (what, i, j, float(SS[i][j]), C[i][j], tol)))
    stats["max_relerr_sqrt_contract"] = max(stats.get("max_relerr_sqrt_contract", 0.0), worst)
    return probs[:1]


def sample_problems(S, cond, Y, Z, what, stats, key="sample-value"):
    """Y = S Z within rounding"""
    n, c = len(Y), (len(Y[0]) if Y else 0)
    worst = 0.0
    for i in range(n):
        for j in range(c):
            ex = sum(S[i][k] * Fraction(Z[k][j]) for k in range(n))
            mag = rowmag(S, i) * colmax(Z, j) + 1e-300
            tol = 256 * n * EPS * cond * mag
            err = abs(float(Fraction(Y[i][j]) - ex))
            worst = max(worst, err / tol)
            if err > tol:
                stats["max_relerr_sample"] = max(stats.get("max_relerr_sample", 0.0), worst)
                return [("prop", key, "%s: sample entry (%d,%d) = %.17g is not (S z) = %.17g (tol %.3g)" % (what, i, j, Y[i][j], float(ex), tol))]
    stats["max_relerr_sample"] = max(stats.get("max_relerr_sample", 0.0), worst)
    return []


def rowmag(S, i):
    """sum of |S_ik| over the row: the recovered factor's error is proportional to it (times cond of the probe draws)"""
    return sum(abs(float(x)) for x in S[i])


def colmax(Z, j):
    return max([abs(row[j]) for row in Z] + [0.0])


def round_mat(S):
    return [[float(x) for x in row] for row in S]


class Case:
    """one harness line with its checks"""

    def __init__(self, op, line, meta=None):
        self.op, self.line, self.meta = op, line, meta or {}
        self.hout = None
        self.dline = None     # driver line (built after the harness ran)
        self.dout = None
        self.st = {}          # state between the stages
        self.probs = []       # (kind, key, what)
        self.notes = []


def crash_problem(c, key, what):
    c.probs.append(("prop", key, "%s: the implementation aborted on a valid input (%s)" % (what, c.hout[:60])))


# ------------------------------------------------------------------ F, Q

def gen_fq(ctx, g):
    r = g.r
    vals = [1.0, 0.5, 0.125, 3.0, 1024.0, 10.0, 0.1, 1e-60, 1e60, 2.0 ** -200, 2.0 ** 150, 1e-3, 7.25]
    pairs = [(1.0, 10.0), (0.5, 0.125), (1e-60, 1e-60), (1e60, 1e60), (1e-60, 1e60), (1e60, 1e-60),
             (2.0 ** -200, 3.0), (2.0 ** 150, 0.1), (1024.0, 7.25), (0.1, 1e-3)]
    for _ in range(ctx.n(100, 1500)):
        pairs.append((10 ** r.uniform(-4, 4), 10 ** r.uniform(-4, 4)))
    for _ in range(ctx.n(10, 200)):
        pairs.append((r.choice(vals), r.choice(vals)))
    out = []
    for d in (1, 2, 3):
        for T, q in pairs:
            if not (1e-280 < q * T ** 3 < 1e280 and 1e-280 < q * T < 1e280):
                continue
            out.append(Case("wna_fq", "wna_fq %d %s %s" % (d, hexd(T), hexd(q)), {"d": d, "T": T, "q": q}))
    return out


def post_fq(c, stats):
    d, T, q = c.meta["d"], c.meta["T"], c.meta["q"]
    n = 2 * d
    if not c.hout.startswith("ok"):
        return crash_problem(c, "wna-fq-crash", "WhiteNoiseAcceleration(F, Q)")
    rd = Reader(c.hout)
    rd.expect("ok")
    fr_, fc_, F = rd.shaped()
    qr_, qc_, Q = rd.shaped()
    sd = (rd.nat(), rd.nat(), rd.nat())
    idd = (rd.nat(), rd.nat(), rd.nat())
    total = rd.nat()
    if (fr_, fc_, qr_, qc_) != (n, n, n, n):
        c.probs.append(("prop", "wna-shape", "Dim %d: F is %dx%d, Q is %dx%d, expected %dx%d" % (d, fr_, fc_, qr_, qc_, n, n)))
        return
    if not (finite(F) and finite(Q)):
        c.probs.append(("prop", "wna-Q", "Dim %d T=%r q=%r: F or Q has non-finite entries" % (d, T, q)))
        return
    if sd != (n, 0, 0) or total != n:
        c.probs.append(("prop", "wna-state-description", "Dim %d: state description %s total %d, expected (%d,0,0)" % (d, sd, total, n)))
    if idd != (n, 0, n):
        c.probs.append(("prop", "wna-input-description", "Dim %d: input description %s, expected (%d,0,%d)" % (d, idd, n, n)))
    sF, sQ = spec_F(d, T), spec_Q(d, T, q)
    for i in range(n):
        for j in range(n):
            if Fraction(F[i][j]) != sF[i][j]:
                c.probs.append(("prop", "wna-F", "Dim %d T=%r: F(%d,%d) = %r, closed form %r" % (d, T, i, j, F[i][j], float(sF[i][j]))))
                break
    worst = 0.0
    for i in range(n):
        for j in range(n):
            tol = 16 * EPS * abs(sQ[i][j]) + TINY
            err = abs(Fraction(Q[i][j]) - sQ[i][j])
            worst = max(worst, float(err / tol))
            if err > tol:
                c.probs.append(("prop", "wna-Q", "Dim %d T=%r q=%r: Q(%d,%d) = %r, closed form %r" % (d, T, q, i, j, Q[i][j], float(sQ[i][j]))))
                break
    stats["max_relerr_Q"] = max(stats.get("max_relerr_Q", 0.0), worst)
    c.st = {"sF": sF, "sQ": sQ, "n": n}
    c.dline = c.line


def cmp_fq(c, stats):
    if not c.st:
        return
    n = c.st["n"]
    rd = Reader(c.dout)
    rd.expect("ok")
    if rd.nat() != n:
        c.probs.append(("corr", "model-shape", "model reports another state dimension"))
        return
    mF = rd.mat(n, n, frac)
    mQ = rd.mat(n, n, frac)
    descr = (rd.nat(), rd.nat(), rd.nat())
    if mF != c.st["sF"] or mQ != c.st["sQ"] or descr != (n, 0, n):
        c.probs.append(("corr", "model-vs-spec", "the model's F/Q/description differ from the closed form evaluated independently"))


# ------------------------------------------------------------------ noise samples (WNA and linear sensor)

COUNT_SEQS = [[0], [1], [2], [3], [4], [0, 1], [1, 0, 2], [2, 3], [4, 4], [3, 1, 0, 2], [1, 1, 1, 1], [16], [17, 2], [33, 1, 16],
              [255], [256, 257], [512, 1, 64], [128, 129]]      # round 4, class p: counts at chunk boundaries


def pick_Tq(r, wide=False):
    if r.random() < 0.3:
        return r.choice([(1.0, 10.0), (0.5, 0.125), (2.0, 3.0), (0.25, 40.0), (8.0, 0.5)])
    if wide and r.random() < 0.3:     # tiny / huge: an absolute threshold on a pivot or a variance is visible
        return r.choice([(1e-8, 1e-10), (1e-10, 1.0), (1e10, 1e-10), (1e-6, 1e10), (1e8, 1e8), (3e-9, 2e-9), (1e-4, 1e-12)])
    e = 4 if wide else 1.5
    return 10 ** r.uniform(-e, e), 10 ** r.uniform(-e, e)


def gen_wsamp(ctx, g):
    r = g.r
    out = []
    for d in (1, 2, 3):
        for k, seq in enumerate(COUNT_SEQS):
            T, q = (1.0, 10.0) if k == 0 else pick_Tq(r, wide=True)
            seed = r.randint(0, 2 ** 31)
            out.append(Case("wna_samp", "wna_samp %d %s %s %d %d %s" % (d, hexd(T), hexd(q), seed, len(seq), " ".join(map(str, seq))),
                            {"d": d, "T": T, "q": q, "seed": seed, "seq": seq}))
    for _ in range(ctx.n(120, 2000)):
        d = r.choice([1, 2, 3])
        T, q = pick_Tq(r, wide=True)
        seq = [r.randint(0, 4) for _ in range(r.randint(1, 4))]
        seed = r.randint(0, 2 ** 31)
        out.append(Case("wna_samp", "wna_samp %d %s %s %d %d %s" % (d, hexd(T), hexd(q), seed, len(seq), " ".join(map(str, seq))),
                        {"d": d, "T": T, "q": q, "seed": seed, "seq": seq}))
    return out


def gen_lsamp(ctx, g):
    r = g.r
    out = []
    cases = []
    for m in (1, 2, 3, 4):
        for seq in ([0], [1], [2, 3], [4, 0, 1]):
            cases.append((m, seq))
    cases += [(2, [255]), (3, [256, 257]), (1, [512, 3]), (4, [128, 129, 64])]      # round 4, class p
    for _ in range(ctx.n(90, 1500)):
        cases.append((r.randint(1, 4), [r.randint(0, 4) for _ in range(r.randint(1, 4))]))
    # round 4, class o: one large variance next to variances 1e-13 times smaller (a position next to biases): the contract
    # S S^T = R is judged entry-wise relative to sqrt(R_ii R_jj), so the small block counts
    structured = {2: [[[1e4, 0.0], [0.0, 1e-9]], [[1e-9, 0.0], [0.0, 1e4]], [[1.0, 0.0], [0.0, 25.0]], [[1.0, 1.5], [1.5, 9.0]], [[25.0, 0.0], [0.0, 1.0]], [[0.25, -0.5], [-0.5, 16.0]]],
                  3: [[[1e4, 0.0, 0.0], [0.0, 1e-9, 5e-10], [0.0, 5e-10, 2e-9]], [[1.0, 0.5, 0.25], [0.5, 4.0, 1.0], [0.25, 1.0, 16.0]], [[1.0, 0.0, 0.0], [0.0, 100.0, 0.0], [0.0, 0.0, 10.0]]],
                  4: [[[1.0, 0.5, 0.0, 0.0], [0.5, 2.0, 0.5, 0.0], [0.0, 0.5, 4.0, 0.5], [0.0, 0.0, 0.5, 8.0]]]}
    fixedR = []
    for m, Rs in structured.items():
        for Rm in Rs:
            fixedR.append((m, [2, 1], Rm))
            fixedR.append((m, [1, 3, 0], Rm))
    for m, seq in cases:
        fixedR.append((m, seq, None))
    for m, seq, Rfix in fixedR:
        n = r.randint(m, 5) if m <= 5 else m
        idx = [r.randrange(n) for _ in range(m)]
        if Rfix is not None:
            Rm = Rfix
        elif r.random() < 0.15:     # singular covariance (rank deficient, exactly representable): still a covariance
            B = [[float(r.randint(-2, 2)) for _ in range(max(m - 1, 1))] for _ in range(m)]
            Rm = vlib.mmul(B, vlib.mT(B)) if m > 1 else [[0.0]]
        elif r.random() < 0.25:     # increasing diagonal: the pivoted LDL^T has a non-trivial permutation
            B = [[r.uniform(-0.3, 0.3) for _ in range(m)] for _ in range(m)]
            Rm = vlib.mmul(B, vlib.mT(B))
            for i in range(m):
                Rm[i][i] += 4.0 ** i
        else:
            Rm = g.spd(m, cond=10 ** r.uniform(0, 3)) if r.random() < 0.7 else g.spd_dyadic(m)
        if Rfix is None and r.random() < 0.3:   # scale 1e-10 .. 1e+10 (power of four: exact)
            sc = 4.0 ** r.randint(-17, 17)
            Rm = [[x * sc for x in row] for row in Rm]
        seed = r.randint(0, 2 ** 31)
        line = "lin_samp %d %d %s %s %d %d %s" % (n, m, " ".join(map(str, idx)), " ".join(cm(Rm)), seed, len(seq), " ".join(map(str, seq)))
        out.append(Case("lin_samp", line, {"n": n, "m": m, "idx": idx, "R": Rm, "seed": seed, "seq": seq}))
    return out


def post_samp(c, stats):
    """shared by wna_samp (covariance Q, dimension 2 Dim) and lin_samp (covariance R, dimension m)"""
    wna = c.op == "wna_samp"
    what = ("WhiteNoiseAcceleration::getNoiseSample Dim %d" % c.meta["d"]) if wna else ("LinearModel::getNoiseSample m=%d" % c.meta["m"])
    want_n = 2 * c.meta["d"] if wna else c.meta["m"]
    key_dim = "wna-sample-dim" if wna else "linear-sample-dim"
    if not c.hout.startswith("ok"):
        c.probs.append(("prop", key_dim, "%s, counts %s: the implementation aborted (%s) — samples do not have the %s dimension %d"
                        % (what, c.meta["seq"], c.hout[:40], "state" if wna else "measurement", want_n)))
        return
    rd = Reader(c.hout)
    rd.expect("ok")
    n = rd.nat()
    if n != want_n:
        c.probs.append(("prop", key_dim, "%s: reported dimension %d, expected %d" % (what, n, want_n)))
        return
    if wna:
        _, _, C = rd.shaped()
    else:
        C = c.meta["R"]
    rd.expect("P")
    pr, pc, Y0 = rd.shaped()
    _, _, Z0 = rd.shaped()
    if (pr, pc) != (n, n):
        c.probs.append(("prop", key_dim, "%s: getNoiseSample(%d) returned %dx%d" % (what, n, pr, pc)))
        return
    if not finite(Y0):
        if not wna and is_singular(C) and not SINGULAR_R_IS_VIOLATION:
            CANDIDATES.setdefault("linear-sqrt-singular-R", {"what": "LinearModel with a singular positive semi-definite R draws NaN noise "
                                  "(LDL^T pivot rounds to a tiny negative number, cwiseSqrt gives NaN); expected samples of covariance R",
                                  "input_line": c.line, "count": 0})["count"] += 1
            return
        c.probs.append(("prop", "sqrt-contract" if not (not wna and is_singular(C)) else "linear-sqrt-singular-R",
                        "%s: samples are not finite (no real square root S with S S^T = covariance)" % what))
        return
    S, cond, order = recover_factor(Y0, Z0, C)
    if S is None:
        c.notes.append("probe draws singular")
        return
    if order != "cm":
        c.notes.append("draws fill the matrix in row-major order (the model fills column-major): not promised by C16")
    stats["max_probe_cond"] = max(stats.get("max_probe_cond", 0.0), cond)
    c.probs += factor_problems(S, cond, C, what, stats)
    k = rd.nat()
    calls = []
    for cnt in c.meta["seq"]:
        yr, yc, Y = rd.shaped()
        zr, zc, Z = rd.shaped()
        if (yr, yc) != (n, cnt):
            c.probs.append(("prop", key_dim, "%s: getNoiseSample(%d) returned %dx%d, expected %dx%d" % (what, cnt, yr, yc, n, cnt)))
            return
        Z = rearr(Z, order)
        c.probs += sample_problems(S, cond, Y, Z, what + " (twin-generator draws)", stats)
        calls.append((cnt, Y, Z))
    repro, differs = rd.tok(), rd.tok()
    if repro != "repro":
        c.probs.append(("prop", "sample-not-reproducible", "%s: two objects with the same seed produced different samples" % what))
    if differs == "same" and any(x != 0 for row in C for x in row):
        c.probs.append(("prop", "sample-seed-ignored", "%s: seeds s and s+1 produced identical samples" % what))
    Sd = round_mat(S)
    draws = [Z[i][j] for (cnt, Y, Z) in calls for j in range(cnt) for i in range(n)]
    c.st = {"n": n, "S": S, "Sd": Sd, "cond": cond, "calls": calls}
    c.dline = "samp %d %d %s %s %d %s" % (n, len(calls), " ".join(cm(Sd)), " ".join(str(cnt) for cnt, _, _ in calls),
                                          len(draws), " ".join(hx(draws)))
    if wna:
        c.st["shape_lines"] = ["wna_shape %d %d" % (c.meta["d"], cnt) for cnt in c.meta["seq"]]


def cmp_samp(c, stats):
    if not c.st:
        return
    n, S, cond = c.st["n"], c.st["S"], c.st["cond"]
    rd = Reader(c.dout)
    rd.expect("ok")
    total = 0
    for cnt, Y, Z in c.st["calls"]:
        r_, c_ = rd.nat(), rd.nat()
        M = rd.mat(r_, c_, frac)
        if (r_, c_) != (n, cnt):
            c.probs.append(("corr", "sample-shape", "model sample shape %dx%d, implementation %dx%d" % (r_, c_, n, cnt)))
            return
        total += n * cnt
        for i in range(n):
            for j in range(cnt):
                mag = rowmag(S, i) * colmax(Z, j) + 1e-300
                tol = 512 * n * EPS * cond * mag
                if abs(float(Fraction(Y[i][j]) - M[i][j])) > tol:
                    c.probs.append(("corr", "sample-value", "model S z and implementation sample differ at (%d,%d)" % (i, j)))
                    return
    if rd.nat() != total:
        c.probs.append(("corr", "sample-draw-count", "model consumed another number of draws"))


# ------------------------------------------------------------------ motion

BRANCHES = [(0, 0, 0), (0, 1, 0), (0, 1, 1), (1, 0, 0), (1, 1, 0), (1, 1, 1)]


def gen_motion(ctx, g):
    r = g.r
    out = []
    # (Dim, branch, batch sizes of the successive calls on one object)
    combos = [(d, br, Ns) for d in (1, 2, 3) for br in BRANCHES for Ns in (([1], [3]) if br[0] == 0 else ([2],))]
    combos += [(d, (0, 0, 0), Ns) for d in (1, 2, 3) for Ns in ([0], [2], [4], [5, 2, 1], [1, 4, 0, 3], [3, 3, 1], [256], [257, 2, 255])]
    for _ in range(ctx.n(120, 2000)):
        combos.append((r.choice([1, 2, 3]), r.choice(BRANCHES[:3]), [r.randint(0, 5) for _ in range(r.choice([1, 1, 2, 3]))]))
    for d, (skip, exo, exoskip), Ns in combos:
        n = 2 * d
        T, q = pick_Tq(r)
        seed = r.randint(0, 2 ** 31)
        toks = ["wna_motion", str(d), hexd(T), hexd(q), str(seed), str(skip), str(exo), str(exoskip)]
        G = gv = None
        if exo:
            G = g.mat(n, n)
            gv = g.vec(n)
            toks += cm(G) + hx(gv)
        toks.append(str(len(Ns)))
        batches = []
        for N in Ns:
            X = g.mat(n, N, -8, 8) if N else []
            out0 = g.mat(n, N, -8, 8) if N else []
            toks += [str(N)] + (cm(X) if N else []) + (cm(out0) if N else [])
            batches.append({"N": N, "X": X, "out0": out0})
        out.append(Case("wna_motion", " ".join(toks), {"d": d, "T": T, "q": q, "seed": seed, "br": (skip, exo, exoskip),
                                                       "batches": batches, "G": G, "g": gv}))
    return out


def post_motion(c, stats):
    m = c.meta
    d, (skip, exo, exoskip) = m["d"], m["br"]
    Ns = [b["N"] for b in m["batches"]]
    n = 2 * d
    what = "AdditiveStateModel::motion (WhiteNoiseAcceleration Dim %d, successive calls with %s states on one object)" % (d, Ns)
    promised = (skip == 0)     # behaviour with the state model skipped belongs to C13
    if not c.hout.startswith("ok"):
        if promised:
            crash_problem(c, "wna-motion-crash", what)
        else:
            c.notes.append("motion with skip aborted: %s" % c.hout[:40])
        return
    rd = Reader(c.hout)
    rd.expect("ok")
    if rd.nat() != len(Ns):
        raise ValueError("batch count")
    res = []
    for b in m["batches"]:
        mr, mc, M = rd.shaped()
        zr, zc, Z = rd.shaped()
        res.append((mr, mc, M, Z, rd.tok()))
    _, _, Yn = rd.shaped()
    _, _, Zn = rd.shaped()
    rd.expect("P")
    _, _, Y0 = rd.shaped()
    _, _, Z0 = rd.shaped()
    if not (finite(Y0) and all(finite(x[2]) for x in res)):
        if promised:
            c.probs.append(("prop", "wna-motion", "%s: non-finite result" % what))
        return
    S, cond, order = recover_factor(Y0, Z0, spec_Q(d, m["T"], m["q"]))
    if S is None:
        return
    F = spec_F(d, m["T"])
    Zs = []
    worst = 0.0
    for bi, (b, (mr, mc, M, Z, same)) in enumerate(zip(m["batches"], res)):
        N = b["N"]
        Z = rearr(Z, order)
        Zs.append(Z)
        if (mr, mc) != (n, N):
            if promised:
                c.probs.append(("prop", "wna-motion-shape", "%s: result of call %d is %dx%d" % (what, bi, mr, mc)))
            return
        if same != "in-same":
            c.probs.append(("prop", "wna-motion-input-modified", "%s: the input states were modified" % what))
        if not promised:
            continue
        X = fmat(b["X"]) if N else []
        # specification: F x (+ u) + S z, column by column
        for j in range(N):
            for i in range(n):
                ex = sum(F[i][k] * X[k][j] for k in range(n)) + sum(S[i][k] * Fraction(Z[k][j]) for k in range(n))
                mag = sum(abs(float(F[i][k] * X[k][j])) for k in range(n)) + rowmag(S, i) * colmax(Z, j)
                if exo and not exoskip:
                    u = sum(Fraction(m["G"][i][k]) * X[k][j] for k in range(n)) + Fraction(m["g"][i])
                    ex += u
                    mag += sum(abs(m["G"][i][k] * float(X[k][j])) for k in range(n)) + abs(m["g"][i])
                tol = 256 * n * EPS * cond * (mag + 1e-300)
                err = abs(float(Fraction(M[i][j]) - ex))
                worst = max(worst, err / tol)
                if err > tol:
                    c.probs.append(("prop", "wna-motion", "%s: call %d state %d component %d is %.17g, F x%s + S z = %.17g (tol %.3g)"
                                    % (what, bi, j, i, M[i][j], " + u" if exo and not exoskip else "", float(ex), tol)))
                    break
            if c.probs:
                break
        if c.probs:
            break
    stats["max_relerr_motion"] = max(stats.get("max_relerr_motion", 0.0), worst)
    if promised and not c.probs:
        c.probs += sample_problems(S, cond, Yn, Zn, what + ": the call after motion must continue the same stream", stats, key="wna-motion-stream")
    Sd = round_mat(S)
    toks = ["wna_motion", str(d), hexd(m["T"]), hexd(m["q"]), str(skip), str(exo), str(exoskip)] + cm(Sd)
    if exo:
        toks += cm(m["G"]) + hx(m["g"])
    toks.append(str(len(Ns)))
    draws = []
    for b, Z in zip(m["batches"], Zs):
        N = b["N"]
        toks += [str(N)] + (cm(b["X"]) if N else []) + (cm(b["out0"]) if N else [])
        draws += [Z[i][j] for j in range(N) for i in range(n)]
    toks += [str(len(draws))] + hx(draws)
    c.dline = " ".join(toks)
    c.st = {"res": res, "S": S, "cond": cond, "Zs": Zs, "promised": promised}


def cmp_motion(c, stats):
    if not c.st:
        return
    m = c.meta
    n = 2 * m["d"]
    rd = Reader(c.dout)
    rd.expect("ok")
    bad = False
    total = 0
    for b, (mr, mc, M, _, _), Z in zip(m["batches"], c.st["res"], c.st["Zs"]):
        N = b["N"]
        Mm = rd.mat(n, N, frac)
        total += n * N
        scaleX = max([abs(x) for row in (b["X"] or [[0.0]]) for x in row] + [abs(x) for row in (b["out0"] or [[0.0]]) for x in row] + [1.0])
        for i in range(n):
            for j in range(N):
                mag = (2 + abs(m["T"])) * scaleX * (3 if m["G"] else 1) * 4 + rowmag(c.st["S"], i) * colmax(Z, j)
                tol = 512 * n * EPS * c.st["cond"] * mag
                if abs(float(Fraction(M[i][j]) - Mm[i][j])) > tol:
                    bad = True
    if rd.nat() != total:
        bad = True
    if bad:
        if c.st["promised"]:
            c.probs.append(("corr", "motion", "model addMotion and implementation motion differ (branch skip=%d exo=%d exoskip=%d)" % m["br"]))
        else:
            c.notes.append("propagate with the state model skipped differs from the model (branch %s): not promised by C16" % (m["br"],))


# ------------------------------------------------------------------ transition density

def chol_float(Q):
    n = len(Q)
    L = [[0.0] * n for _ in range(n)]
    for i in range(n):
        for j in range(i + 1):
            s = Q[i][j] - sum(L[i][k] * L[j][k] for k in range(j))
            L[i][j] = math.sqrt(max(s, 1e-300)) if i == j else s / L[j][j]
    return L


def make_batch(r, d, T, q, N, style):
    n = 2 * d
    F = [[float(x) for x in row] for row in spec_F(d, T)]
    Qf = [[float(x) for x in row] for row in spec_Q(d, T, q)]
    L = chol_float(Qf)
    prev = [[r.uniform(-5, 5) for _ in range(N)] for _ in range(n)]
    if style == "mixup":   # columns far apart from one another: prev_0 in place of prev_i is visible
        prev = [[10.0 * (j + 1) * (1 if (i + j) % 2 else -1) + r.uniform(-1, 1) for j in range(N)] for i in range(n)]
    if style == "neardup":  # consecutive pairs equal, or equal up to 1e-10 / 1e-7 relative: a reused previous result is visible
        base = [r.uniform(-5, 5) for _ in range(n)]
        prev = [[base[i] * (1.0 + (0.0 if j % 3 == 0 else (1e-10 if j % 3 == 1 else 1e-7)) * ((j + i) % 5 - 2)) for j in range(N)] for i in range(n)]
    cur = [[0.0] * N for _ in range(n)]
    zfix = None
    for j in range(N):
        rad = {"rand": r.uniform(0.2, 3.0), "mixup": r.uniform(0.2, 2.0), "peak": 0.0, "far": r.uniform(4.0, 9.0),
               "neardup": 1.0, "underflow": r.uniform(45.0, 60.0)}[style]
        z = [r.gauss(0, 1) for _ in range(n)]
        nz = math.sqrt(sum(x * x for x in z)) or 1.0
        z = [rad * x / nz for x in z]
        if style == "neardup":
            zfix = zfix or z
            z = zfix
        for i in range(n):
            cur[i][j] = sum(F[i][k] * prev[k if style != "neardup" else k][j if style != "neardup" else 0] for k in range(n)) + sum(L[i][k] * z[k] for k in range(n))
    return {"N": N, "prev": prev, "cur": cur, "style": style}


def trans_line(d, T, q, batches):
    toks = ["wna_trans", str(d), hexd(T), hexd(q), str(len(batches))]
    for b in batches:
        toks += [str(b["N"])] + (cm(b["prev"]) if b["N"] else []) + (cm(b["cur"]) if b["N"] else [])
    return " ".join(toks)


def gen_trans(ctx, g):
    """successive calls on ONE object; batch sizes vary non-monotonically (state surviving between calls is visible)"""
    r = g.r
    out = []
    combos = [(d, plan) for d in (1, 2, 3) for plan in ([(0, "rand")], [(1, "rand")], [(3, "rand")], [(4, "mixup")], [(2, "peak")], [(5, "far")],
                                                         [(5, "mixup"), (2, "rand"), (1, "rand")], [(1, "rand"), (4, "mixup"), (0, "rand"), (3, "far")],
                                                         [(3, "rand"), (3, "mixup"), (1, "peak")], [(6, "neardup")], [(4, "neardup"), (4, "neardup")],
                                                         [(16, "rand")], [(17, "mixup"), (2, "rand")], [(32, "rand"), (1, "rand")], [(3, "underflow"), (2, "rand")],
                                                         [(255, "rand")], [(256, "mixup"), (257, "rand")], [(512, "rand"), (2, "rand")])]      # round 4, class p
    # the same batch twice on one object: both answers must be right (and equal)
    combos += [(d, [(4, "rand"), "repeat"]) for d in (1, 2, 3)]
    for _ in range(ctx.n(100, 1500)):
        k = r.choice([1, 1, 2, 3, 4])
        combos.append((r.choice([1, 2, 3]), [(r.randint(0 if k > 1 else 1, 5), r.choice(["rand", "mixup", "rand", "far"])) for _ in range(k)]))
    for ci, (d, plan) in enumerate(combos):
        T, q = pick_Tq(r)
        if ci % 4 == 3:      # scale: q over twenty orders of magnitude, T over six (only conditioning constrains the answer)
            T, q = 10 ** r.uniform(-3, 3), 10 ** r.uniform(-10, 10)
        if plan[-1] == "repeat":
            b0 = make_batch(r, d, T, q, plan[0][0], plan[0][1])
            batches = [b0, dict(b0)]
            out.append(Case("wna_trans", trans_line(d, T, q, batches), {"d": d, "T": T, "q": q, "batches": batches, "style": "repeat"}))
            continue
        batches = [make_batch(r, d, T, q, N, style) for N, style in plan]
        out.append(Case("wna_trans", trans_line(d, T, q, batches), {"d": d, "T": T, "q": q, "batches": batches,
                                                                    "style": "+".join(st for _, st in plan) if len(plan) == 1 else "sequence"}))
    return out


def spec_logdensity(d, T, q, prev, cur, N):
    """log N(cur_i; F prev_i, Q) for every column, F and Q the exact closed forms; only the final log in floating point"""
    n = 2 * d
    F, Q = spec_F(d, T), spec_Q(d, T, q)
    Qi = vlib.minv_frac(Q)
    qT = Fraction(q) * Fraction(T)
    det = (Fraction(q) ** 2 * Fraction(T) ** 4 / 12) ** d
    out = []
    for j in range(N):
        mean = [sum(F[i][k] * Fraction(prev[k][j]) for k in range(n)) for i in range(n)]
        dlt = [Fraction(cur[i][j]) - mean[i] for i in range(n)]
        quad = sum(dlt[i] * Qi[i][k] * dlt[k] for i in range(n) for k in range(n))
        out.append((quad, -0.5 * (n * math.log(2 * math.pi) + math.log(det) + float(quad))))
    return det, out


def trans_tol(T, q, b, j, quad, ld, condQ):
    """tolerance on the log-density of pair j: conditioning of Q, plus the rounding of the residual cur - F prev
    (cancellation when the states are large against the noise: an error eps (|cur| + |F||prev|) in the residual moves
    the quadratic form by 2 sqrt(quad) / sqrt(lambda_min(Q)) times that)"""
    n = len(b["cur"])
    big = max([abs(b["cur"][i][j]) for i in range(n)] + [0.0]) + (1.0 + abs(T)) * max([abs(b["prev"][i][j]) for i in range(n)] + [0.0])
    lam_min = q * T ** 4 / (12.0 * (T ** 3 / 3.0 + T))
    cancel = 16 * n * EPS * big * (math.sqrt(float(quad)) + 1.0) / math.sqrt(lam_min)
    return 1e-12 * condQ * (1.0 + float(quad)) + 1e-11 * (1 + abs(ld)) + cancel


def post_trans(c, stats):
    m = c.meta
    d = m["d"]
    sizes = [b["N"] for b in m["batches"]]
    what = "WhiteNoiseAcceleration::getTransitionProbability Dim %d, successive batches of %s pairs on one object" % (d, sizes)
    if not c.hout.startswith("ok"):
        return crash_problem(c, "wna-transition-crash", what)
    rd = Reader(c.hout)
    rd.expect("ok")
    if rd.nat() != len(sizes):
        raise ValueError("batch count")
    condQ = 40.0 * max(m["T"] ** 2, m["T"] ** -2)
    worst = 0.0
    ps, specs, det = [], [], None
    for bi, b in enumerate(m["batches"]):
        N = b["N"]
        k = rd.nat()
        p = rd.vec(k)
        ps.append(p)
        det, spec = spec_logdensity(d, m["T"], m["q"], b["prev"], b["cur"], N)
        specs.append(spec)
        if c.probs:
            continue
        if k != N:
            c.probs.append(("prop", "wna-transition", "%s: call %d returned %d values for %d pairs" % (what, bi, k, N)))
            continue
        for j in range(N):
            quad, ld = spec[j]
            tol = trans_tol(m["T"], m["q"], b, j, quad, ld, condQ)
            if ld < -700:       # underflow: zero, or the smallest value a clamped vectorised exp returns
                err = 0.0 if (0.0 <= p[j] <= 1e-290) else float("inf")
            elif p[j] > 0 and math.isfinite(p[j]):
                err = abs(math.log(p[j]) - ld)
            else:
                err = float("inf")
            worst = max(worst, err / tol) if err == err else float("inf")
            if not (err <= tol):
                c.probs.append(("prop", "wna-transition", "%s: call %d pair %d has density %.17g, N(cur; F prev, Q) = %.17g (log diff %.3g, tol %.3g)"
                                % (what, bi, j, p[j], math.exp(ld) if ld > -700 else 0.0, err, tol)))
                break
    stats["max_relerr_density"] = max(stats.get("max_relerr_density", 0.0), worst)
    c.st = {"ps": ps, "specs": specs, "det": det, "condQ": condQ}
    c.dline = c.line


def cmp_trans(c, stats):
    if not c.st:
        return
    if not c.dout.startswith("ok"):
        c.probs.append(("corr", "transition-model-undefined", "model density not defined: %s" % c.dout[:40]))
        return
    rd = Reader(c.dout)
    rd.expect("ok")
    det = frac(rd.tok())
    if c.st["det"] is not None and det != c.st["det"]:
        c.probs.append(("corr", "model-vs-spec", "the model's determinant differs from det Q evaluated independently"))
        return
    for b, p, spec in zip(c.meta["batches"], c.st["ps"], c.st["specs"]):
        N = b["N"]
        quads = rd.vec(N, frac)
        dens = rd.vec(N)
        if quads != [s_[0] for s_ in spec]:
            c.probs.append(("corr", "model-vs-spec", "the model's residual quadratic forms differ from N(cur_i; F prev_i, Q) evaluated independently"))
            return
        if len(p) != N:
            c.probs.append(("corr", "transition", "model returns %d values, implementation %d" % (N, len(p))))
            return
        for j in range(N):
            quad, ld = spec[j]
            tol = trans_tol(c.meta["T"], c.meta["q"], b, j, quad, ld, c.st["condQ"])
            a, bb = dens[j], p[j]
            if ld < -700:
                pass
            elif a > 0:
                if abs(math.log(a) - ld) > tol:
                    c.probs.append(("corr", "model-float-density", "the model's Float density differs from the exact evaluation"))
                    return
            elif ld > -700:
                c.probs.append(("corr", "model-float-density", "the model's Float density underflows where the exact one does not"))
                return
            if ld < -700:
                err = 0.0
            elif a > 0 and bb > 0 and math.isfinite(bb):
                err = abs(math.log(a) - math.log(bb))
            else:
                err = 0.0 if a == bb else float("inf")
            if not (err <= 2 * tol):
                c.probs.append(("corr", "transition", "model density and implementation density differ for pair %d" % j))
                return


# ------------------------------------------------------------------ constructors

STATE_TAG = {"F0": 1, "Q0": 2, "Fsq": 3, "Qsq": 4, "mismatch": 5}
MEAS_TAG = {"H0": 1, "Q0": 2, "Qsq": 3, "mismatch": 4, "index": 5}


def shape_class(a, b, c_, d_):
    if a == 0 or b == 0 or c_ == 0 or d_ == 0:
        return "empty"
    if a != b or c_ != d_:
        return "non-square"
    if a != c_:
        return "mismatched"
    return "valid"


BIG_SHAPES = [  # coincidences of element counts / transposed sizes beyond the enumerated bound
    (4, 4, 2, 8), (4, 4, 8, 2), (4, 4, 1, 16), (4, 4, 16, 1), (2, 2, 1, 4), (2, 2, 4, 1), (6, 6, 4, 9), (6, 6, 9, 4), (6, 6, 3, 12),
    (6, 6, 12, 3), (6, 6, 2, 18), (6, 6, 1, 36), (3, 3, 1, 9), (3, 3, 9, 1), (2, 8, 4, 4), (8, 2, 4, 4), (1, 16, 4, 4), (4, 9, 6, 6),
    (2, 8, 2, 8), (2, 8, 8, 2), (8, 8, 8, 8), (8, 8, 4, 16), (7, 7, 7, 7), (9, 9, 9, 9), (9, 9, 3, 27), (4, 2, 2, 4), (2, 4, 4, 2),
    (2, 8, 2, 2), (8, 2, 8, 8), (4, 1, 2, 2), (1, 4, 2, 2), (4, 4, 4, 16), (4, 4, 16, 4), (12, 3, 6, 6), (6, 1, 6, 6), (6, 6, 6, 1),
]
SHAPE_BOUND = 6


def gen_ctor(ctx, g):
    """ALL pairs of shapes (r1 x c1, r2 x c2), r, c in 0..6, for both LTI constructors, plus larger coincidences"""
    out = []
    rng = range(0, SHAPE_BOUND + 1)
    for s4 in itertools.product(rng, rng, rng, rng):
        out.append(Case("lti_state", "lti_state %d %d %d %d" % s4, {"s": s4, "cls": "all-pairs"}))
        out.append(Case("lti_meas", "lti_meas %d %d %d %d" % s4, {"s": s4, "cls": "all-pairs"}))
    for s4 in BIG_SHAPES + [(6, 6, 6, 6), (6, 6, 5, 5), (5, 6, 6, 6), (6, 6, 6, 5), (2, 7, 2, 2), (3, 5, 3, 3)]:
        out.append(Case("lti_state", "lti_state %d %d %d %d" % s4, {"s": s4, "cls": "large"}))
        out.append(Case("lti_meas", "lti_meas %d %d %d %d" % s4, {"s": s4, "cls": "large"}))
    return out


def post_ctor(c, stats):
    a, b, c_, d_ = c.meta["s"]
    state = c.op == "lti_state"
    if state:
        want = a > 0 and a == b and c_ == d_ and a == c_                  # non-empty, square, matching
    else:
        want = a > 0 and b > 0 and c_ == d_ and a == c_                   # H non-empty, R square, rows match
    what = "%s(%dx%d, %dx%d)" % ("LTIStateModel" if state else "LTIMeasurementModel", a, b, c_, d_)
    t = c.hout.split()
    if not t or t[0] not in ("accept", "reject"):
        c.probs.append(("prop", "ctor-crash", "%s: neither constructed nor rejected with std::runtime_error (%s)" % (what, c.hout[:40])))
        return
    got = t[0] == "accept"
    if got != want:
        c.probs.append(("prop", "lti-state-ctor" if state else "lti-meas-ctor",
                        "%s was %s; documented: %s" % (what, "accepted" if got else "rejected", "accept" if want else "reject")))
    if got and t[1] != "stored":
        c.probs.append(("prop", "ctor-stored", "%s: the stored matrices differ from the ones passed in" % what))
    c.st = {"got": got, "tag": t[1] if not got else None}
    c.dline = c.line


def cmp_ctor(c, stats):
    if not c.st:
        return
    t = c.dout.split()
    macc = t[0] == "accept"
    if macc != c.st["got"]:
        c.probs.append(("corr", "ctor", "model %s, implementation %s: %s" % (t[0], "accept" if c.st["got"] else "reject", c.line)))
    elif not macc:
        code = (STATE_TAG if c.op == "lti_state" else MEAS_TAG).get(c.st["tag"])
        if code != int(t[1]):
            c.notes.append("another check fired than in the model (%s vs %s) for %s" % (c.st["tag"], t[1], c.line))
    stats.setdefault("ctor_model_branch", {})
    key = "%s:%s" % (c.op, " ".join(t))
    stats["ctor_model_branch"][key] = stats["ctor_model_branch"].get(key, 0) + 1


# ------------------------------------------------------------------ component-selecting sensor matrix

def gen_linmodel(ctx, g):
    r = g.r
    out = []

    def add(n, idx, rr, rc, cls):
        out.append(Case("linmodel", "linmodel %d %d %s %d %d" % (n, len(idx), " ".join(map(str, idx)), rr, rc),
                        {"n": n, "idx": list(idx), "rr": rr, "rc": rc, "cls": cls}))

    maxlen = ctx.n(3, 5)
    for n in range(0, 6):
        vals = list(range(0, n + 2))          # n and n+1 are out of range
        for ln in range(0, min(maxlen, 5) + 1):
            if ln > 3 and n > ctx.n(3, 5):
                continue
            for idx in itertools.product(vals, repeat=ln):
                add(n, idx, ln, ln, "all-lists")
    # longer lists (orderings / repetitions of every component), sampled
    for _ in range(ctx.n(1000, 10000)):
        n = r.randint(1, 5)
        ln = r.randint(4, 6)
        idx = [r.randrange(n + (1 if r.random() < 0.15 else 0)) for _ in range(ln)]
        add(n, idx, ln, ln, "long")
    # permutations of all components
    for n in range(1, 6):
        for perm in itertools.permutations(range(n)):
            add(n, perm, n, n, "permutation")
    # indices over the whole range of std::size_t: values that are out of range but whose low 31 / 32 bits (or whose
    # value as a signed 32 / 64 bit number) name a valid component, at every position of short lists of valid indices
    for n in range(1, 6):
        for k in range(n):
            huge = [2 ** 31 + k, 2 ** 32 + k, 3 * 2 ** 32 + k, 2 ** 33 + k, 2 ** 48 + k, 2 ** 63 + k, 2 ** 64 - 2 ** 32 + k, 2 ** 64 - 2 ** 31 + k]
            for hv in huge + [2 ** 31 - 1, 2 ** 32 - 1, 2 ** 63 - 1, 2 ** 64 - 1, 2 ** 31 + n, 2 ** 32 + n]:
                for ln in (1, 2, 3):
                    pos = r.randrange(ln)
                    idx = [r.randrange(n) for _ in range(ln)]
                    idx[pos] = hv
                    add(n, idx, ln, ln, "huge-index")
    # ALL pairs of shapes (H = idx.length x n, R = rr x rc) with valid indices, plus larger coincidences
    rng = range(0, SHAPE_BOUND + 1)
    for m, n, rr, rc in list(itertools.product(rng, rng, rng, rng)) + BIG_SHAPES:
        idx = [(3 * i + 1) % n if n else 0 for i in range(m)]
        add(n, idx, rr, rc, "all-shape-pairs")
    # R shape classes
    for n, idx in ((4, (0, 2)), (3, (2,)), (5, (4, 0, 1))):
        m = len(idx)
        for rr, rc in ((0, 0), (0, m), (m, 0), (m, m + 1), (m + 1, m), (m + 1, m + 1), (m - 1, m - 1), (m, m)):
            add(n, idx, rr, rc, "R-shapes")
    return out


def post_linmodel(c, stats):
    m = c.meta
    n, idx, rr, rc = m["n"], m["idx"], m["rr"], m["rc"]
    ln = len(idx)
    want = ln > 0 and n > 0 and rr > 0 and rr == rc and rr == ln and all(i < n for i in idx)
    what = "LinearModel({%d, %s}, R %dx%d)" % (n, idx, rr, rc)
    t = c.hout.split()
    if not t or t[0] not in ("accept", "reject"):
        c.probs.append(("prop", "linear-ctor-crash", "%s: neither constructed nor rejected with std::runtime_error (%s)" % (what, c.hout[:40])))
        return
    got = t[0] == "accept"
    if got != want:
        why = "some index >= n" if (ln > 0 and n > 0 and rr == rc == ln and not all(i < n for i in idx)) else "shapes"
        c.probs.append(("prop", "linear-ctor", "%s was %s; documented: %s (%s)" % (what, "accepted" if got else "rejected", "accept" if want else "reject", why)))
    c.st = {"got": got, "tag": None if got else t[1]}
    if got:
        rd = Reader(c.hout)
        rd.expect("accept")
        hr, hc, H = rd.shaped()
        if (hr, hc) != (ln, n):
            c.probs.append(("prop", "linear-H", "%s: H is %dx%d" % (what, hr, hc)))
        elif want:
            for i in range(ln):
                for j in range(n):
                    exp = 1.0 if idx[i] == j else 0.0
                    if H[i][j] != exp:
                        c.probs.append(("prop", "linear-H", "%s: H(%d,%d) = %r, expected %r (H x must select x[%d])" % (what, i, j, H[i][j], exp, idx[i])))
                        break
        if rd.tok() != "stored":
            c.probs.append(("prop", "ctor-stored", "%s: stored R differs" % what))
        c.st["H"] = H
    c.dline = c.line


def cmp_linmodel(c, stats):
    if not c.st:
        return
    t = c.dout.split()
    macc = t[0] == "accept"
    stats.setdefault("linear_model_branch", {})
    key = "accept" if macc else "reject %s" % t[1]
    stats["linear_model_branch"][key] = stats["linear_model_branch"].get(key, 0) + 1
    if macc != c.st["got"]:
        c.probs.append(("corr", "linear-ctor", "model %s, implementation %s: %s" % (t[0], "accept" if c.st["got"] else "reject", c.line)))
        return
    if macc:
        rd = Reader(c.dout)
        rd.expect("accept")
        hr, hc = rd.nat(), rd.nat()
        Hm = rd.mat(hr, hc, frac)
        H = c.st["H"]
        if [[Fraction(x) for x in row] for row in H] != Hm:
            c.probs.append(("corr", "linear-H", "model H and implementation H differ: %s" % c.line))
    else:
        if MEAS_TAG.get(c.st["tag"]) != int(t[1]):
            c.notes.append("another check fired than in the model (%s vs %s)" % (c.st["tag"], t[1]))


# ------------------------------------------------------------------ simulated trajectory

def dyad(r, lo, hi, bits):
    qn = 1 << bits
    return r.randint(int(lo * qn), int(hi * qn)) / qn


def traj_aff(r, n=None, L=None):
    n = n or r.randint(1, 3)
    L = r.randint(0, 6) if L is None else L
    A = [[dyad(r, -1.5, 1.5, 2) for _ in range(n)] for _ in range(n)]
    b = [dyad(r, -2, 2, 2) for _ in range(n)]
    x0 = [dyad(r, -4, 4, 2) for _ in range(n)]
    return {"kind": "aff", "n": n, "L": L, "A": A, "b": b, "x0": x0}


def traj_wna(r, L=None):
    d = r.choice([1, 2, 3])
    T, q = pick_Tq(r)
    L = r.randint(1, 6) if L is None else L
    return {"kind": "wna", "d": d, "n": 2 * d, "T": T, "q": q, "seed": r.randint(0, 2 ** 31), "L": L,
            "x0": [r.uniform(-5, 5) for _ in range(2 * d)]}


def traj_htoks(tr, lin=None, circ=0, quat=0):
    if tr["kind"] == "aff":
        lin = tr["n"] - circ * (4 if quat else 1) if lin is None else lin
        return ["aff", str(tr["n"]), str(tr["L"]), str(lin), str(circ), str(quat)] + cm(tr["A"]) + hx(tr["b"]) + hx(tr["x0"])
    return ["wna", str(tr["d"]), hexd(tr["T"]), hexd(tr["q"]), str(tr["seed"]), str(tr["L"])] + hx(tr["x0"])


def traj_exact(tr, S=None, Z=None):
    """the trajectory x_{k+1} = motion(x_k) in exact arithmetic"""
    n, L = tr["n"], tr["L"]
    xs = []
    x = [Fraction(v) for v in tr["x0"]]
    if tr["kind"] == "aff":
        A, b = fmat(tr["A"]), [Fraction(v) for v in tr["b"]]
        for k in range(L):
            xs.append(x)
            x = [sum(A[i][j] * x[j] for j in range(n)) + b[i] for i in range(n)]
    else:
        F = spec_F(tr["d"], tr["T"])
        for k in range(L):
            xs.append(x)
            if k + 1 < L:
                x = [sum(F[i][j] * x[j] for j in range(n)) + sum(S[i][j] * Fraction(Z[j][k]) for j in range(n)) for i in range(n)]
    return xs


def read_traj_extras(rd, tr):
    """after the '|' of a sim / sensor line: the WNA draws and the square-root probe"""
    if tr["kind"] != "wna":
        return None, None, 1.0
    rd.expect("Z")
    _, _, Z = rd.shaped()
    rd.expect("P")
    _, _, Y0 = rd.shaped()
    _, _, Z0 = rd.shaped()
    S, cond, _ = recover_factor(Y0, Z0, spec_Q(tr["d"], tr["T"], tr["q"]))
    return S, Z, cond


def traj_dtoks(tr, S, Z):
    if tr["kind"] == "aff":
        return ["aff", str(tr["n"]), str(tr["L"])] + cm(tr["A"]) + hx(tr["b"]) + hx(tr["x0"])
    n = tr["n"]
    steps = max(tr["L"] - 1, 0)
    draws = [Z[i][k] for k in range(steps) for i in range(n)]
    return ["wna", str(tr["d"]), hexd(tr["T"]), hexd(tr["q"]), str(tr["L"])] + hx(tr["x0"]) + cm(round_mat(S)) + [str(len(draws))] + hx(draws)


def state_tol(tr, xs, k, cond):
    if tr["kind"] == "aff":
        return 0.0
    mag = max([abs(float(v)) for x in xs[:k + 1] for v in x] + [1.0])
    return 1024 * tr["n"] * EPS * cond * (k + 1) * mag * (2 + abs(tr["T"]))


def gen_sim(ctx, g):
    r = g.r
    out = []

    def add(tr, ops, cls):
        out.append(Case("sim", " ".join(["sim"] + traj_htoks(tr) + [str(len(ops))] + list(ops)), {"tr": tr, "ops": list(ops), "cls": cls}))

    tr2 = traj_aff(r, n=2, L=2)
    for ln in range(0, ctx.n(5, 7) + 1):
        for ops in itertools.product("bgru", repeat=ln):
            add(tr2, ops, "exhaustive-L2")
    for L in range(0, 7):
        add(traj_aff(r, L=L), list("bg" * (L + 2)) + ["r"] + list("bg" * (L + 1)), "serve-all")
        if L >= 1:
            add(traj_wna(r, L=L), list("bg" * (L + 2)) + ["r", "g"] + list("bg" * (L + 1)), "serve-all")
    for _ in range(ctx.n(400, 6000)):
        tr = traj_aff(r) if r.random() < 0.5 else traj_wna(r)
        ops = [r.choice("bbbbggru") for _ in range(r.randint(3, 20))]
        add(tr, ops, "random")
    return out


def sim_oracle(xs, ops):
    """what the property promises for a call sequence: served in order, reset restarts, false when exhausted"""
    cur, data, out = 0, None, []
    for op in ops:
        if op == "b":
            if cur >= len(xs):
                out.append(("flag", False))
            else:
                data = cur
                cur += 1
                out.append(("flag", True))
        elif op == "g":
            out.append(("data", data))
        elif op == "r":
            cur = 0
            out.append(("flag", True))
        else:
            out.append(("flag", False))
    return out


def post_sim(c, stats):
    tr, ops = c.meta["tr"], c.meta["ops"]
    what = "SimulatedStateModel(%s, L=%d) calls %s" % (tr["kind"], tr["L"], "".join(ops))
    if not c.hout.startswith("ok"):
        return crash_problem(c, "sim-crash", what)
    rd = Reader(c.hout)
    rd.expect("ok")
    got = []
    for op in ops:
        t = rd.tok()
        if t in ("T", "F"):
            got.append(("flag", t == "T"))
        elif t == "g":
            k = rd.nat()
            got.append(("data", rd.vec(k) if k else None))
        else:
            c.probs.append(("prop", "sim-data-shape", "%s: getData returned a matrix that is not one column" % what))
            return
    rd.expect("|")
    S, Z, cond = read_traj_extras(rd, tr)
    if tr["kind"] == "wna" and S is None:
        return
    xs = traj_exact(tr, S, Z)
    exp = sim_oracle(xs, ops)
    hist = stats.setdefault("sim_branch", {})
    kctor = "ctor L=0 (nothing stored)" if tr["L"] == 0 else "ctor L>0"
    hist[kctor] = hist.get(kctor, 0) + 1
    for k, (op, e, o) in enumerate(zip(ops, exp, got)):
        name = {"b": "buffer-true" if e[1] else "buffer-exhausted", "g": "get-empty" if e[1] is None else "get", "r": "reset", "u": "other-property"}[op]
        hist[name] = hist.get(name, 0) + 1
        if e[0] == "flag":
            if o != e:
                key = {"b": "sim-exhausted" if not e[1] else "sim-served", "r": "sim-reset", "u": "sim-unknown-property"}[op]
                c.probs.append(("prop", key, "%s: call %d (%s) returned %s, expected %s" % (what, k, op, o[1], e[1])))
                break
        else:
            if e[1] is None:
                if o[1] is not None:
                    c.probs.append(("prop", "sim-served", "%s: getData before any bufferData returned data" % what))
                    break
                continue
            x = xs[e[1]]
            if o[1] is None or len(o[1]) != len(x):
                c.probs.append(("prop", "sim-served", "%s: call %d getData returned %s, expected state %d" % (what, k, o[1], e[1])))
                break
            tol = state_tol(tr, xs, e[1], cond)
            err = max(abs(float(Fraction(a) - b)) for a, b in zip(o[1], x))
            if err > tol:
                key = "sim-recurrence" if "r" not in ops[:k] else "sim-reset"
                c.probs.append(("prop", key, "%s: call %d getData = %s, expected state %d of x_{k+1} = motion(x_k): %s (err %.3g tol %.3g)"
                                % (what, k, o[1], e[1], [float(v) for v in x], err, tol)))
                break
    c.st = {"got": got, "xs": xs, "cond": cond}
    c.dline = " ".join(["sim"] + traj_dtoks(tr, S, Z) + [str(len(ops))] + list(ops))


def cmp_sim(c, stats):
    if not c.st:
        return
    tr, ops = c.meta["tr"], c.meta["ops"]
    rd = Reader(c.dout)
    rd.expect("ok")
    for k, (op, o) in enumerate(zip(ops, c.st["got"])):
        t = rd.tok()
        if t in ("T", "F"):
            m = ("flag", t == "T")
            bad = m != o
        else:
            kk = rd.nat()
            v = rd.vec(kk, frac) if kk else None
            if (v is None) != (o[1] is None):
                bad = True
            elif v is None:
                bad = False
            else:
                idx = next((i for i, x in enumerate(c.st["xs"]) if x == v), 0)
                tol = state_tol(tr, c.st["xs"], idx, c.st["cond"])
                bad = len(v) != len(o[1]) or max(abs(float(Fraction(a) - b)) for a, b in zip(o[1], v)) > tol
        if bad:
            c.probs.append(("corr", "sim", "model and implementation differ at call %d (%s) of %s" % (k, op, "".join(ops))))
            return
    rd.expect("cursor")
    a, b = rd.nat(), rd.nat()
    if a != b:
        c.probs.append(("corr", "model-vs-spec", "model cursor %d differs from min(L, calls since reset) = %d" % (a, b)))
    # the counting specification SimSpec.run (theorem sim_refines_spec) against the check's own statement of the promise
    rd.expect("spec")
    served = rd.nat()
    want = sim_oracle(c.st["xs"], ops)
    got = []
    for _ in ops:
        t = rd.tok()
        got.append(("flag", t == "T") if t in ("T", "F") else ("data", None if t == "g-" else int(t[1:])))
    if got != want or served != a:
        c.probs.append(("corr", "spec-vs-oracle", "the Lean specification SimSpec.run and the check's oracle differ on %s: %r vs %r" % ("".join(ops), got[:8], want[:8])))
    stats["sim_spec_runs_compared"] = stats.get("sim_spec_runs_compared", 0) + 1


# ------------------------------------------------------------------ simulated linear sensor

def gen_sensor(ctx, g):
    r = g.r
    out = []

    def add(tr, circ, idx, ops, cls, quat=0):
        m = len(idx)
        Rm = g.spd(m, cond=10 ** r.uniform(0, 3)) if r.random() < 0.6 else g.spd_dyadic(m)
        if m > 1 and r.random() < 0.3:     # largest variance last: the pivoted LDL^T permutes
            Rm = [[(4.0 ** i if i == j else 0.25 * (1 + min(i, j))) for j in range(m)] for i in range(m)]
        sseed = r.randint(0, 2 ** 31)
        toks = ["sensor"] + traj_htoks(tr, circ=circ, quat=quat) + [str(tr["n"]), str(m)] + [str(i) for i in idx] + cm(Rm) + [str(sseed), str(len(ops))] + list(ops)
        out.append(Case("sensor", " ".join(toks), {"tr": tr, "circ": circ, "quat": quat, "idx": list(idx), "R": Rm, "sseed": sseed, "ops": list(ops), "cls": cls}))

    for L in range(0, 6):
        tr = traj_aff(r, n=3, L=L)
        add(tr, 0, [0, 2], list("mfm" * (L + 2)) + ["r"] + list("fm" * 2), "serve-all")
    for L in range(1, 5):
        tr = traj_wna(r, L=L)
        add(tr, 0, [0, tr["n"] - 1], list("fm" * (L + 2)), "serve-all")
    # the test-suite configuration: 2-D model, components {0, 2}
    tr = {"kind": "wna", "d": 2, "n": 4, "T": 1.0, "q": 10.0, "seed": 1, "L": 5, "x0": [10.0, 0.0, 10.0, 0.0]}
    add(tr, 0, [0, 2], list("fm" * 6), "shipped-config")
    # every layout (linear, circular[, quaternion]) of states of size <= 5 x every index list of length <= 2:
    # same total dimension with another layout must give another measurement description
    for n in range(1, 6):
        layouts = [(circ, 0) for circ in range(0, n + 1)] + [(1, 1)] * (n >= 4)
        for circ, quat in layouts:
            for ln in (1, 2):
                for idx in itertools.product(range(n), repeat=ln):
                    if ln == 2 and n > 3 and (idx[0] + 2 * idx[1] + circ) % 3:
                        continue
                    add(traj_aff(r, n=n, L=1), circ, idx, "fm", "layouts", quat)
    for _ in range(ctx.n(400, 5000)):
        tr = traj_aff(r, n=r.randint(1, 4)) if r.random() < 0.6 else traj_wna(r)
        n = tr["n"]
        circ = r.randint(0, n - 1) if tr["kind"] == "aff" and r.random() < 0.4 else 0
        idx = [r.randrange(n) for _ in range(r.randint(1, 3))]
        ops = [r.choice("ffffmmmrb") for _ in range(r.randint(2, 16))]
        add(tr, circ, idx, ops, "random")
    return out


def post_sensor(c, stats):
    m = c.meta
    tr, idx, ops, circ = m["tr"], m["idx"], m["ops"], m["circ"]
    n, mm = tr["n"], len(idx)
    quat = m.get("quat", 0)
    lin = n - circ * (4 if quat else 1)
    what = "SimulatedLinearSensor(%s L=%d, state layout lin=%d circ=%d%s, components %s) calls %s" % (tr["kind"], tr["L"], lin, circ, " quaternion" if quat else "", idx, "".join(ops))
    if not c.hout.startswith("ok"):
        return crash_problem(c, "sensor-crash", what)
    rd = Reader(c.hout)
    rd.expect("ok")
    idd = (rd.nat(), rd.nat(), rd.nat(), rd.nat(), rd.nat(), rd.nat())
    mdd = (rd.nat(), rd.nat(), rd.nat(), rd.nat(), rd.nat())
    qsame = rd.tok()
    hr, hc, H = rd.shaped()
    csize = circ * (4 if quat else 1)
    wantid = (lin, circ, mm, quat, lin + csize + mm, (lin + 3 * circ + mm) if quat else (lin + csize + mm))
    if idd != wantid:
        c.probs.append(("prop", "sensor-description", "%s: input description (lin, circ, noise, quaternion, total, dof) = %s, expected %s" % (what, idd, wantid)))
    nl = sum(1 for i in idx if i < lin)
    wantmd = (nl, mm - nl, 0, 0, mm)
    if mdd != wantmd:
        c.probs.append(("prop", "sensor-description", "%s: measurement description (lin, circ, noise, quaternion, total) = %s, expected %s" % (what, mdd, wantmd)))
    if qsame != "q-same":
        c.probs.append(("prop", "sensor-getter-not-idempotent", "%s: a second query of the descriptions / H differs" % what))
    hd = stats.setdefault("sensor_branch", {})
    hd["row selects linear component"] = hd.get("row selects linear component", 0) + wantmd[0]
    hd["row selects circular component"] = hd.get("row selects circular component", 0) + wantmd[1]
    c.st["descr"] = (idd, mdd)
    c.st["descr_line"] = "sensor_descr %d %d 0 %d %d %d %s %d" % (lin, circ, quat, n, mm, " ".join(map(str, idx)), mm)
    got = []
    for op in ops:
        t = rd.tok()
        if t in ("T", "F"):
            got.append(("flag", t == "T"))
        elif t in ("m", "mF"):
            k = rd.nat() if rd.peek() != "bad" else -1
            if k < 0:
                c.probs.append(("prop", "sensor-measure-shape", "%s: measurement is not one column" % what))
                return
            got.append(("meas", t == "m", rd.vec(k) if k else None))
    rd.expect("|")
    rd.expect("D")
    nd = rd.nat()
    D = rd.vec(nd)
    rd.expect("PR")
    _, _, Y0 = rd.shaped()
    _, _, Z0 = rd.shaped()
    SR, condR, _ = recover_factor(Y0, Z0, m["R"])
    S, Z, cond = read_traj_extras(rd, tr)
    if SR is None or (tr["kind"] == "wna" and S is None):
        return
    c.probs += factor_problems(SR, condR, m["R"], "SimulatedLinearSensor noise factor", stats)
    xs = traj_exact(tr, S, Z)
    # oracle: freeze serves the next state (false when exhausted), measurement = x_k[idx] + S_R z.
    # Whether a refused freeze consumes draws is not promised: hypothesis "A" = it does not (as coded),
    # hypothesis "B" = every freeze call consumes one window.
    hist = stats.setdefault("sensor_branch", {})

    def oracle(hyp, count):
        probs, windows = [], []
        cur, meas, used, calls = 0, None, 0, 0
        for k, (op, o) in enumerate(zip(ops, got)):
            if op == "f":
                if cur >= len(xs):
                    if count:
                        hist["freeze-exhausted"] = hist.get("freeze-exhausted", 0) + 1
                    exp = False
                    if hyp == "B":
                        used += mm
                else:
                    if count:
                        hist["freeze-true"] = hist.get("freeze-true", 0) + 1
                    exp = True
                    z = D[used:used + mm]
                    if len(z) < mm:
                        probs.append(("prop", "sensor-freeze", "%s: call %d: more freezes than recorded draws" % (what, k)))
                        break
                    windows += z
                    used += mm
                    meas = ([xs[cur][idx[i]] + sum(SR[i][j] * Fraction(z[j]) for j in range(mm)) for i in range(mm)],
                            cur, [abs(float(xs[cur][idx[i]])) + rowmag(SR, i) * max(abs(v) for v in z) for i in range(mm)])
                    cur += 1
                if o != ("flag", exp):
                    probs.append(("prop", "sensor-freeze", "%s: call %d: freeze returned %s, expected %s" % (what, k, o[1], exp)))
                    break
            elif op == "m":
                if count:
                    hist["measure-empty" if meas is None else "measure"] = hist.get("measure-empty" if meas is None else "measure", 0) + 1
                if not o[1]:
                    probs.append(("prop", "sensor-measure", "%s: call %d: measure reported invalid" % (what, k)))
                    break
                if meas is None:
                    if o[2] is not None:
                        probs.append(("prop", "sensor-measure", "%s: call %d: a measurement exists before any freeze" % (what, k)))
                        break
                    continue
                y, kx, mag = meas
                if o[2] is None or len(o[2]) != mm:
                    probs.append(("prop", "sensor-measure", "%s: call %d: measurement %s, expected %d values" % (what, k, o[2], mm)))
                    break
                tolx = state_tol(tr, xs, kx, cond)
                for i in range(mm):
                    tol = tolx + 256 * mm * EPS * condR * (mag[i] + 1e-300)
                    if abs(float(Fraction(o[2][i]) - y[i])) > tol:
                        probs.append(("prop", "sensor-measure", "%s: call %d: measurement component %d = %.17g, H x_%d + S_R z = %.17g (tol %.3g)"
                                        % (what, k, i, o[2][i], kx, float(y[i]), tol)))
                        break
                if probs:
                    break
            elif op == "r":
                cur = 0
                if o != ("flag", True):
                    probs.append(("prop", "sim-reset", "%s: call %d: reset reported false" % (what, k)))
                    break
            elif op == "b":
                exp = cur < len(xs)
                if exp:
                    cur += 1
                if o != ("flag", exp):
                    probs.append(("prop", "sim-exhausted" if not exp else "sim-served", "%s: call %d: bufferData returned %s" % (what, k, o[1])))
                    break
        return probs, windows

    pa, wa = oracle("A", True)
    if pa:
        pb, wb = oracle("B", False)
        if not pb:
            pa, wa = pb, wb
            c.notes.append("a refused freeze consumes draws (the model draws nothing on a refusal): not promised by C16")
    c.probs += pa
    D = wa
    c.st = dict(c.st, got=got, xs=xs, cond=cond, condR=condR, SR=SR)
    toks = ["sensor"] + traj_dtoks(tr, S, Z) + [str(mm)] + [str(i) for i in idx] + cm(round_mat(SR)) + [str(len(D))] + hx(D) + [str(len(ops))] + list(ops)
    c.dline = " ".join(toks)


def cmp_sensor(c, stats):
    if not c.st or "got" not in c.st:
        return
    m = c.meta
    tr, ops, mm = m["tr"], m["ops"], len(m["idx"])
    if not c.dout.startswith("ok"):
        c.probs.append(("corr", "sensor-model-undefined", c.dout[:40]))
        return
    rd = Reader(c.dout)
    rd.expect("ok")
    big = max([abs(float(v)) for x in c.st["xs"] for v in x] + [1.0])
    for k, (op, o) in enumerate(zip(ops, c.st["got"])):
        t = rd.tok()
        bad = False
        if t in ("T", "F"):
            bad = o != ("flag", t == "T")
        elif t in ("m", "mF"):
            kk = rd.nat()
            v = rd.vec(kk, frac) if kk else None
            if o[0] != "meas" or (v is None) != (o[2] is None) or (t == "m") != o[1]:
                bad = True
            elif v is not None:
                tol = state_tol(tr, c.st["xs"], len(c.st["xs"]) - 1, c.st["cond"]) + 1024 * mm * EPS * c.st["condR"] * (big + 10 * max(abs(float(x)) for row in c.st["SR"] for x in row))
                bad = len(v) != len(o[2]) or max(abs(float(Fraction(a) - b)) for a, b in zip(o[2], v)) > tol
        elif t == "g":
            kk = rd.nat()
            if kk:
                rd.vec(kk, frac)
            bad = o[0] != "flag"
        if bad:
            c.probs.append(("corr", "sensor", "model and implementation differ at call %d (%s) of %s" % (k, op, "".join(ops))))
            return
    # the counting specification SensorSpec.run (theorem sensor_refines_spec) against the check's own statement of the promise
    rd.expect("pos")
    pos = rd.nat()
    rd.expect("spec")
    served, draws = rd.nat(), rd.nat()
    L = len(c.st["xs"])
    cur, dr, meas, want = 0, 0, None, []
    for op in ops:
        if op == "f":
            if cur < L:
                meas = (cur, dr); cur += 1; dr += 1; want.append("T")
            else:
                want.append("F")
        elif op == "m":
            want.append("m-" if meas is None else "m%d:%d" % meas)
        elif op == "r":
            cur = 0; want.append("T")
        else:
            if cur < L:
                cur += 1; want.append("T")
            else:
                want.append("F")
    got = [rd.tok() for _ in ops]
    if got != want or served != cur or draws != dr or pos != dr * mm:
        c.probs.append(("corr", "spec-vs-oracle", "the Lean specification SensorSpec.run and the check's oracle differ on %s: %r vs %r" % ("".join(ops), got[:8], want[:8])))
    stats["sensor_spec_runs_compared"] = stats.get("sensor_spec_runs_compared", 0) + 1


# ------------------------------------------------------------------ grid initialiser

def gen_grid(ctx, g):
    r = g.r
    out = []
    areas = [(0.0, 10.0, 0.0, 20.0, 0), (0.0, 1000.0, 0.0, 1000.0, 1), (-5.0, 5.0, -7.5, -2.5, 0), (100.25, 103.0, -1e3, 1e3, 0),
             (-1e-3, 1e-3, 1e6, 1e6 + 1, 0), (3.0, -3.0, 0.1, 0.7, 0)]

    def add(area, nx, ny, R, N, cls):
        xinf, xsup, yinf, ysup, ctor2 = area
        if ctor2:
            xinf = yinf = 0.0
        st = [[r.uniform(-99, 99) for _ in range(N)] for _ in range(R)]
        w = [r.uniform(-9, 0) for _ in range(N)]
        toks = ["grid", str(ctor2), hexd(xinf), hexd(xsup), hexd(yinf), hexd(ysup), str(nx), str(ny), str(R), str(N)] + (cm(st) if N and R else []) + hx(w)
        out.append(Case("grid", " ".join(toks), {"area": (xinf, xsup, yinf, ysup), "ctor2": ctor2, "nx": nx, "ny": ny, "R": R, "N": N, "st": st, "w": w, "cls": cls}))

    for nx in range(2, 7):
        for ny in range(2, 7):
            add(areas[(nx * 5 + ny) % len(areas)], nx, ny, 4, nx * ny, "valid")
            add((r.uniform(-50, 0), r.uniform(1, 50), r.uniform(-50, 0), r.uniform(1, 50), 0), nx, ny, 4, nx * ny, "valid")
    for k, area in enumerate([(1e-10, 3e-10, -2e-10, 7e-10, 0), (-1e10, 3e10, 5e9, 6e9, 0), (0.0, 1e10, 0.0, 1e-10, 1), (2.5, 2.5, -1.0, -1.0, 0), (1e10, 1e10 + 64, -1e-10, 1e-10, 0)]):
        add(area, 2 + k % 4, 2 + (k * 3) % 5, 4, (2 + k % 4) * (2 + (k * 3) % 5), "scale")
    for nx, ny in ((2, 3), (3, 2), (5, 3), (3, 5), (4, 9), (9, 4), (2, 7), (7, 2), (8, 3)):
        add(areas[(nx + ny) % len(areas)], nx, ny, 4, nx * ny, "non-square")
    for nx, ny in ((2, 2), (2, 5), (3, 4), (6, 2), (4, 4)):
        for N in (nx * ny - 1, nx * ny + 1, nx * ny + ny, nx + ny, 1):
            if N != nx * ny:
                add(areas[0], nx, ny, 4, N, "count-mismatch")
        for R in (2, 3, 5, 6):
            add(areas[2], nx, ny, R, nx * ny, "rows-not-4")
    for _ in range(ctx.n(60, 1000)):
        nx, ny = r.randint(2, 6), r.randint(2, 6)
        add((r.uniform(-50, 0), r.uniform(1, 50), r.uniform(-50, 0), r.uniform(1, 50), r.choice([0, 0, 1])), nx, ny, 4, nx * ny, "valid")
    return out


def post_grid(c, stats):
    m = c.meta
    xinf, xsup, yinf, ysup = m["area"]
    nx, ny, R, N = m["nx"], m["ny"], m["R"], m["N"]
    what = "InitSurveillanceAreaGrid([%r,%r]x[%r,%r], %dx%d) on %d particles of %d rows" % (xinf, xsup, yinf, ysup, nx, ny, N, R)
    want = (N == nx * ny and R == 4)
    hist = stats.setdefault("grid_branch", {})
    br = "accept" if want else ("refuse-count" if N != nx * ny else "refuse-rows")
    hist[br] = hist.get(br, 0) + 1
    if not c.hout.startswith("ok"):
        c.probs.append(("prop", "grid-refuses" if not want else "grid-crash", "%s: the implementation aborted (%s); expected %s"
                        % (what, c.hout[:40], "a regular grid" if want else "a refusal that leaves the set untouched")))
        return
    rd = Reader(c.hout)
    rd.expect("ok")
    ok = rd.tok() == "T"
    sr, sc, st = rd.shaped()
    wn = rd.nat()
    w = rd.vec(wn)
    if rd.tok() != "again-same":
        c.probs.append(("prop", "grid-stateful", "%s: a second call of the same initialiser on an identical particle set gave another result" % what))
    if rd.tok() != "copy-same":
        c.probs.append(("prop", "grid-copy", "%s: a copy of the initialiser (original destroyed) gave another result" % what))
    c.st = {"ok": ok, "st": st, "w": w}
    c.dline = " ".join(["grid"] + c.line.split()[2:])
    if ok != want:
        c.probs.append(("prop", "grid-refuses", "%s: initialize returned %s; expected %s" % (what, ok, want)))
        return
    if not want:
        if st != m["st"] or w != m["w"]:
            c.probs.append(("prop", "grid-refuses", "%s: refused but modified the particle set" % what))
        return
    dx, dy = Fraction(xsup) - Fraction(xinf), Fraction(ysup) - Fraction(yinf)
    tolx = 16 * EPS * (abs(xinf) + abs(xsup))
    toly = 16 * EPS * (abs(yinf) + abs(ysup))
    worst = 0.0
    for i in range(nx):
        for j in range(ny):
            col = i * ny + j
            ex = Fraction(xinf) + i * dx / (nx - 1)
            ey = Fraction(yinf) + j * dy / (ny - 1)
            errx, erry = abs(float(Fraction(st[0][col]) - ex)), abs(float(Fraction(st[2][col]) - ey))
            worst = max(worst, errx / tolx, erry / toly)
            if errx > tolx or erry > toly or st[1][col] != 0.0 or st[3][col] != 0.0:
                c.probs.append(("prop", "grid-positions", "%s: particle %d = (%r, %r, %r, %r), expected grid point (%d,%d) = (%r, 0, %r, 0)"
                                % (what, col, st[0][col], st[1][col], st[2][col], st[3][col], i, j, float(ex), float(ey))))
                break
        if c.probs:
            break
    stats["max_relerr_grid"] = max(stats.get("max_relerr_grid", 0.0), worst)
    lw = -math.log(N)
    if any(abs(x - lw) > 4 * EPS * abs(lw) for x in w):
        c.probs.append(("prop", "grid-uniform", "%s: log-weights %s..., expected -log %d = %r" % (what, w[:3], N, lw)))
    elif abs(sum(math.exp(x) for x in w) - 1.0) > 1e-12:
        c.probs.append(("prop", "grid-uniform", "%s: weights do not sum to one" % what))


def cmp_grid(c, stats):
    if not c.st:
        return
    m = c.meta
    R, N = m["R"], m["N"]
    rd = Reader(c.dout)
    rd.expect("ok")
    ok = rd.tok() == "T"
    if ok != c.st["ok"]:
        c.probs.append(("corr", "grid", "model %s, implementation %s" % (ok, c.st["ok"])))
        return
    stm = rd.mat(R, N, frac)
    xinf, xsup, yinf, ysup = m["area"]
    tol = [16 * EPS * (abs(xinf) + abs(xsup)), 0.0, 16 * EPS * (abs(yinf) + abs(ysup)), 0.0]
    if ok:
        wm = rd.vec(N)
        bad = any(abs(float(Fraction(c.st["st"][i][j]) - stm[i][j])) > tol[i] for i in range(R) for j in range(N))
        bad = bad or any(abs(a - b) > 4 * EPS * abs(b) for a, b in zip(c.st["w"], wm))
    else:
        wm = rd.vec(N, frac)
        bad = any(Fraction(c.st["st"][i][j]) != stm[i][j] for i in range(R) for j in range(N)) or [Fraction(x) for x in c.st["w"]] != wm
    if bad:
        c.probs.append(("corr", "grid", "model and implementation particle sets differ"))


# ------------------------------------------------------------------ plumbing, hand-over, aliasing, histories that net to nothing

def gen_plumb(ctx, g):
    r = g.r
    out = []
    for d in (1, 2, 3):
        for T, q, T2 in ((1.0, 10.0, 2.0), (0.5, 0.125, 0.5), (1e-8, 1e-10, 1e3)) + tuple((10 ** r.uniform(-3, 3), 10 ** r.uniform(-3, 3), 10 ** r.uniform(-3, 3)) for _ in range(ctx.n(2, 40))):
            out.append(Case("wna_plumb", "wna_plumb %d %s %s %s" % (d, hexd(T), hexd(q), hexd(T2)), {"d": d, "T": T, "q": q, "T2": T2}))
    return out


def fq_matches(d, T, q, F, Q):
    sF, sQ = spec_F(d, T), spec_Q(d, T, q)
    n = 2 * d
    if len(F) != n or len(Q) != n or not (finite(F) and finite(Q)):
        return False
    return all(Fraction(F[i][j]) == sF[i][j] and abs(Fraction(Q[i][j]) - sQ[i][j]) <= 16 * EPS * abs(sQ[i][j]) + TINY for i in range(n) for j in range(n))


def post_plumb(c, stats):
    m = c.meta
    d, T, q, T2 = m["d"], m["T"], m["q"], m["T2"]
    what = "WhiteNoiseAcceleration(Dim %d, T=%r, q=%r)" % (d, T, q)
    if not c.hout.startswith("ok"):
        return crash_problem(c, "wna-plumbing-crash", what)
    rd = Reader(c.hout)
    rd.expect("ok")
    mats = [rd.shaped()[2] for _ in range(4)]
    sp1, sp2, sst = rd.nat(), rd.nat(), rd.nat()
    F3, Q3 = rd.shaped()[2], rd.shaped()[2]
    agent, ltisp, ltisst, ltisame = rd.nat(), rd.nat(), rd.nat(), rd.tok()
    if not fq_matches(d, T, q, mats[0], mats[1]):
        c.probs.append(("prop", "wna-Q", "%s: F/Q differ from the closed form" % what))
    if mats[0] != mats[2] or mats[1] != mats[3]:
        c.probs.append(("prop", "wna-getter-not-idempotent", "%s: the second query of F/Q differs from the first" % what))
    # after setSamplingTime(T2): F and Q must be the closed forms of ONE sampling interval (the old or the new one)
    okold, oknew = fq_matches(d, T, q, F3, Q3), fq_matches(d, T2, q, F3, Q3)
    if not (okold or oknew):
        c.probs.append(("prop", "wna-sampling-time-inconsistent", "%s: after setSamplingTime(%r) F and Q are not the closed forms of one sampling interval" % (what, T2)))
    c.st = {"flags": (sp1, sp2, sst), "unchanged": okold}
    if agent != 0:
        c.notes.append("Agent::setProperty default accepts a property (model: refuses every string)")
    if ltisame != "lti-same":
        c.notes.append("LTIStateModel::setSamplingTime changes the matrices (model: nothing changes)")
    c.dline = c.line


def cmp_plumb(c, stats):
    if not c.st:
        return
    t = c.dout.split()
    mflags = (int(t[1]), int(t[2]), int(t[3]))
    if mflags != c.st["flags"] or (t[4] == "unchanged") != c.st["unchanged"]:
        # what setProperty / setSamplingTime report and whether the latter re-derives F, Q is not in the property text
        c.notes.append("setProperty/setSamplingTime plumbing differs from the model (impl flags %s, unchanged=%s; model %s %s): not promised by C16"
                       % (c.st["flags"], c.st["unchanged"], mflags, t[4]))


def gen_move(ctx, g):
    r = g.r
    out = []
    combos = [(d, mode, c1, c2) for d in (1, 2, 3) for mode in (0, 1) for c1, c2 in ((0, 2), (3, 1))]
    for _ in range(ctx.n(6, 200)):
        combos.append((r.choice([1, 2, 3]), r.choice([0, 1]), r.randint(0, 4), r.randint(1, 4)))
    for d, mode, c1, c2 in combos:
        T, q = pick_Tq(r)
        d2 = r.choice([1, 2, 3])
        T2, q2 = pick_Tq(r)
        seed = r.randint(0, 2 ** 31)
        out.append(Case("wna_move", "wna_move %d %s %s %d %s %s %d %d %d %d" % (d, hexd(T), hexd(q), d2, hexd(T2), hexd(q2), seed, mode, c1, c2),
                        {"d": d, "T": T, "q": q, "d2": d2, "T2": T2, "q2": q2, "seed": seed, "mode": mode, "c1": c1, "c2": c2}))
    return out


def post_move(c, stats):
    m = c.meta
    d, n = m["d"], 2 * m["d"]
    what = "WhiteNoiseAcceleration Dim %d %s (source destroyed), used through StateModel*" % (d, "move-constructed" if m["mode"] == 0 else "move-assigned over a Dim %d object" % m["d2"])
    if not c.hout.startswith("ok"):
        return crash_problem(c, "wna-move", what)
    rd = Reader(c.hout)
    rd.expect("ok")
    tot = rd.nat()
    F, Q = rd.shaped()[2], rd.shaped()[2]
    Y1, Z1 = rd.shaped()[2], rd.shaped()[2]
    y2r, y2c, Y2 = rd.shaped()
    Z2 = rd.shaped()[2]
    rd.expect("P")
    Y0, Z0 = rd.shaped()[2], rd.shaped()[2]
    if tot != n or not fq_matches(d, m["T"], m["q"], F, Q):
        c.probs.append(("prop", "wna-move", "%s: the moved object does not expose the source's F/Q/state size" % what))
        return
    S, cond, order = recover_factor(Y0, Z0, spec_Q(d, m["T"], m["q"]))
    if S is None:
        return
    if (y2r, y2c) != (n, m["c2"]):
        c.probs.append(("prop", "wna-move", "%s: sample of the moved object is %dx%d" % (what, y2r, y2c)))
        return
    Z1, Z2 = rearr(Z1, order), rearr(Z2, order)
    pr = sample_problems(S, cond, Y2, Z2, what + ": samples must continue the source's stream", stats, key="wna-move")
    c.probs += pr
    draws = [Z1[i][j] for j in range(m["c1"]) for i in range(n)] + [Z2[i][j] for j in range(m["c2"]) for i in range(n)]
    c.st = {"S": S, "cond": cond, "Y2": Y2, "Z2": Z2, "F": F, "Q": Q}
    c.dline = " ".join(["wna_move", str(d), hexd(m["T"]), hexd(m["q"]), str(m["d2"]), hexd(m["T2"]), hexd(m["q2"]), str(m["mode"]), str(m["c1"]), str(m["c2"])]
                       + cm(round_mat(S)) + [str(len(draws))] + hx(draws))


def cmp_move(c, stats):
    if not c.st:
        return
    m = c.meta
    n = 2 * m["d"]
    if not c.dout.startswith("ok"):
        c.probs.append(("corr", "wna-move", "model: %s" % c.dout[:40]))
        return
    rd = Reader(c.dout)
    rd.expect("ok")
    if rd.nat() != n:
        c.probs.append(("corr", "wna-move", "model state size differs"))
        return
    mF, mQ = rd.mat(n, n, frac), rd.mat(n, n, frac)
    Y = rd.mat(n, m["c2"], frac)
    if mF != spec_F(m["d"], m["T"]) or mQ != spec_Q(m["d"], m["T"], m["q"]):
        c.probs.append(("corr", "model-vs-spec", "moved model object has another F/Q"))
    S, Z = c.st["S"], c.st["Z2"]
    for i in range(n):
        for j in range(m["c2"]):
            tol = 512 * n * EPS * c.st["cond"] * (rowmag(S, i) * colmax(Z, j) + 1e-300)
            if abs(float(Fraction(c.st["Y2"][i][j]) - Y[i][j])) > tol:
                c.probs.append(("corr", "wna-move", "model and implementation samples of the moved object differ"))
                return


def gen_ltimove(ctx, g):
    return [Case("lti_move", "lti_move %d %d" % (n, mode), {"n": n, "mode": mode}) for n in (1, 2, 4) for mode in (0, 1)]


def post_ltimove(c, stats):
    what = "LTIStateModel %dx%d with an exogenous model attached and skip(\"state\") on, %s" % (c.meta["n"], c.meta["n"], "move-constructed" if c.meta["mode"] == 0 else "move-assigned")
    t = c.hout.split()
    if not t or t[0] != "ok":
        return crash_problem(c, "lti-move", what)
    if t[1] != "stored":
        c.probs.append(("prop", "lti-move", "%s: the target does not hold the source's F and Q" % what))
    if t[2] != "1" or t[3] != "1":
        c.probs.append(("prop", "lti-move", "%s: the target has have_exogenous_model()=%s is_skipping()=%s; the source had both "
                                            "(the handed-over object does not move states as the configured original)" % (what, t[2], t[3])))
    c.st = {"flags": (t[2], t[3])}
    c.dline = c.line


def cmp_ltimove(c, stats):
    if not c.st:
        return
    t = c.dout.split()
    if t[0] != "ok" or int(t[1]) != c.meta["n"] or (t[2], t[3]) != c.st["flags"]:
        c.probs.append(("corr", "lti-move", "model %s, implementation flags %s" % (c.dout, c.st["flags"])))


def cmp_none(c, stats):
    return


def gen_motion_x(ctx, g):
    r = g.r
    out = []
    combos = [(d, mode, exo, N) for d in (1, 2, 3) for mode in ("alias", "toggle") for exo in (0, 1) for N in (1, 3)]
    for _ in range(ctx.n(10, 300)):
        combos.append((r.choice([1, 2, 3]), r.choice(["alias", "toggle"]), r.choice([0, 1]), r.choice([1, 2, 5, 16, 17])))
    for d, mode, exo, N in combos:
        n = 2 * d
        T, q = pick_Tq(r)
        seed = r.randint(0, 2 ** 31)
        X = g.mat(n, N, -8, 8)
        toks = ["wna_motion_x", str(d), hexd(T), hexd(q), str(seed), mode, str(exo), str(N)] + cm(X)
        G = gv = None
        if exo:
            G, gv = g.mat(n, n), g.vec(n)
            toks += cm(G) + hx(gv)
        out.append(Case("wna_motion_x", " ".join(toks), {"d": d, "T": T, "q": q, "seed": seed, "mode": mode, "exo": exo, "N": N, "X": X, "G": G, "g": gv}))
    return out


def post_motion_x(c, stats):
    m = c.meta
    d, N, n = m["d"], m["N"], 2 * m["d"]
    what = ("motion(X, X) with the same matrix as input and output" if m["mode"] == "alias"
            else "motion after skip on/off, an unknown property and setSamplingTime(T) (a history that nets to nothing)") + " (Dim %d, %d states)" % (d, N)
    if not c.hout.startswith("ok"):
        return crash_problem(c, "wna-motion-crash", what)
    rd = Reader(c.hout)
    rd.expect("ok")
    mr, mc, M = rd.shaped()
    Z = rd.shaped()[2]
    rd.expect("P")
    Y0, Z0 = rd.shaped()[2], rd.shaped()[2]
    if (mr, mc) != (n, N) or not (finite(M) and finite(Y0)):
        c.probs.append(("prop", "wna-motion", "%s: result %dx%d / not finite" % (what, mr, mc)))
        return
    S, cond, order = recover_factor(Y0, Z0, spec_Q(d, m["T"], m["q"]))
    if S is None:
        return
    Z = rearr(Z, order)
    F, X = spec_F(d, m["T"]), fmat(m["X"])
    for j in range(N):
        for i in range(n):
            ex = sum(F[i][k] * X[k][j] for k in range(n)) + sum(S[i][k] * Fraction(Z[k][j]) for k in range(n))
            mag = sum(abs(float(F[i][k] * X[k][j])) for k in range(n)) + rowmag(S, i) * colmax(Z, j)
            if m["exo"]:
                ex += sum(Fraction(m["G"][i][k]) * X[k][j] for k in range(n)) + Fraction(m["g"][i])
                mag += sum(abs(m["G"][i][k] * float(X[k][j])) for k in range(n)) + abs(m["g"][i])
            tol = 256 * n * EPS * cond * (mag + 1e-300)
            if abs(float(Fraction(M[i][j]) - ex)) > tol:
                c.probs.append(("prop", "wna-motion", "%s: state %d component %d is %.17g, F x%s + S z = %.17g" % (what, j, i, M[i][j], " + u" if m["exo"] else "", float(ex))))
                return
    # the model is a function of its inputs: the plain branch of addMotion on the same inputs
    toks = ["wna_motion", str(d), hexd(m["T"]), hexd(m["q"]), "0", str(m["exo"]), "0"] + cm(round_mat(S))
    if m["exo"]:
        toks += cm(m["G"]) + hx(m["g"])
    draws = [Z[i][j] for j in range(N) for i in range(n)]
    toks += ["1", str(N)] + cm(m["X"]) + cm(m["X"]) + [str(len(draws))] + hx(draws)
    c.dline = " ".join(toks)
    c.st = {"M": M, "S": S, "cond": cond, "Z": Z}


def cmp_motion_x(c, stats):
    if not c.st:
        return
    m = c.meta
    n, N = 2 * m["d"], m["N"]
    rd = Reader(c.dout)
    rd.expect("ok")
    Mm = rd.mat(n, N, frac)
    scaleX = max([abs(x) for row in m["X"] for x in row] + [1.0])
    for i in range(n):
        for j in range(N):
            mag = (2 + abs(m["T"])) * scaleX * (3 if m["G"] else 1) * 4 + rowmag(c.st["S"], i) * colmax(c.st["Z"], j)
            if abs(float(Fraction(c.st["M"][i][j]) - Mm[i][j])) > 512 * n * EPS * c.st["cond"] * mag:
                c.probs.append(("corr", "motion", "model addMotion and implementation differ (%s)" % m["mode"]))
                return


# ------------------------------------------------------------------ orchestration

SECTIONS = [
    # name, generator, post-harness (property predicates + driver line), driver comparison, ops
    ("fq", gen_fq, post_fq, cmp_fq, ("wna_fq",)),
    ("wna_samp", gen_wsamp, post_samp, cmp_samp, ("wna_samp",)),
    ("lin_samp", gen_lsamp, post_samp, cmp_samp, ("lin_samp",)),
    ("motion", gen_motion, post_motion, cmp_motion, ("wna_motion",)),
    ("trans", gen_trans, post_trans, cmp_trans, ("wna_trans",)),
    ("ctor", gen_ctor, post_ctor, cmp_ctor, ("lti_state", "lti_meas")),
    ("linmodel", gen_linmodel, post_linmodel, cmp_linmodel, ("linmodel",)),
    ("sim", gen_sim, post_sim, cmp_sim, ("sim",)),
    ("sensor", gen_sensor, post_sensor, cmp_sensor, ("sensor",)),
    ("grid", gen_grid, post_grid, cmp_grid, ("grid",)),
    ("plumb", gen_plumb, post_plumb, cmp_plumb, ("wna_plumb",)),
    ("move", gen_move, post_move, cmp_move, ("wna_move",)),
    ("lti_move", gen_ltimove, post_ltimove, cmp_ltimove, ("lti_move",)),
    ("motion_x", gen_motion_x, post_motion_x, cmp_motion_x, ("wna_motion_x",)),
]
BY_OP = {op: s for s in SECTIONS for op in s[4]}


def corpus_cases():
    """minimised past failures / boundary cases: raw harness lines of the ops whose checks need no extra context"""
    p = vlib.VERIF / "corpus" / "C16" / "cases.txt"
    out = []
    if not p.exists():
        return out
    for ln in p.read_text().split("\n"):
        ln = ln.strip()
        if not ln or ln.startswith("#"):
            continue
        t = ln.split()
        op = t[0]
        if op == "wna_fq":
            out.append(Case(op, ln, {"d": int(t[1]), "T": unhex(t[2]), "q": unhex(t[3]), "cls": "corpus"}))
        elif op == "wna_samp":
            k = int(t[5])
            out.append(Case(op, ln, {"d": int(t[1]), "T": unhex(t[2]), "q": unhex(t[3]), "seed": int(t[4]), "seq": [int(x) for x in t[6:6 + k]], "cls": "corpus"}))
        elif op in ("lti_state", "lti_meas"):
            out.append(Case(op, ln, {"s": tuple(int(x) for x in t[1:5]), "cls": "corpus"}))
        elif op == "linmodel":
            n, m = int(t[1]), int(t[2])
            out.append(Case(op, ln, {"n": n, "idx": [int(x) for x in t[3:3 + m]], "rr": int(t[3 + m]), "rc": int(t[4 + m]), "cls": "corpus"}))
        elif op == "wna_trans":
            d, k = int(t[1]), int(t[4])
            n = 2 * d
            pos, batches = 5, []
            for _ in range(k):
                N = int(t[pos]); pos += 1
                prev = vlib.mat_from_cm(t[pos:pos + n * N], n, N, unhex) if N else []; pos += n * N
                cur = vlib.mat_from_cm(t[pos:pos + n * N], n, N, unhex) if N else []; pos += n * N
                batches.append({"N": N, "prev": prev, "cur": cur, "style": "corpus"})
            out.append(Case(op, ln, {"d": d, "T": unhex(t[2]), "q": unhex(t[3]), "batches": batches, "style": "corpus", "cls": "corpus"}))
    return out


def build_opt_harness():
    """plain optimised build (no sanitizer, NDEBUG) of the library and of harness/h_models.cpp under $BFL_BUILD_DIR/opt;
    call this from tools/setup.sh to prebuild:  python3 -c "import checks.c16 as c; c.build_opt_harness()"  (cwd = verif tree)"""
    vlib.LIB_FLAGS.setdefault("opt", "-O2 -g0 -DNDEBUG -DBFL_VERIF")
    return vlib.build_harness("h_models", kind="opt")


def replay_case(path):
    """re-run the input recorded in a replay file"""
    import json
    rep = json.load(open(path))["replay"]
    meta = rep.get("meta") or {}
    for k in ("br", "s", "area"):
        if k in meta:
            meta[k] = tuple(meta[k])
    line = rep["input_line"]
    return Case(line.split()[0], line, meta)


def run(ctx):
    FILL["cm"] = FILL["rm"] = 0
    CANDIDATES.clear()
    ctx.proof_stage()
    binary = vlib.build_harness("h_models")
    stats = {}
    per_section = {}
    if ctx.replay:
        cases = [replay_case(ctx.replay)]
    else:
        cases = corpus_cases()
        for name, gen, post, cmp_, ops in SECTIONS:
            cs = gen(ctx, ctx.gen(name))
            per_section[name] = len(cs)
            cases += cs
    # stage 2a: the implementation
    hout, logs = vlib.run_harness(binary, [c.line for c in cases])
    for c, h in zip(cases, hout):
        c.hout = h
        try:
            BY_OP[c.op][2](c, stats)
        except (ValueError, IndexError, OverflowError) as e:
            c.probs.append(("prop", "impl-output-not-finite", "%s: the implementation's output is not finite / not of the promised form (%s): %s" % (c.op, e, h[:80])))
    # stage 2b: the model, on the same inputs plus the draws / square-root factor the implementation used
    todo = [c for c in cases if c.dline]
    shape_lines = sorted({ln for c in cases for ln in c.st.get("shape_lines", [])}) if cases else []
    dcases = [c for c in cases if c.st.get("descr_line")]
    dout = vlib.run_driver([c.dline for c in todo] + shape_lines + [c.st["descr_line"] for c in dcases])
    for c, d in zip(dcases, dout[len(todo) + len(shape_lines):]):
        t = d.split()
        idd, mdd = c.st["descr"]
        if not (t and t[0] == "ok" and tuple(int(x) for x in t[1:7]) == idd and tuple(int(x) for x in t[7:11]) == (mdd[0], mdd[1], mdd[2], mdd[4])):
            c.probs.append(("corr", "sensor-description", "model descriptions %s, implementation %s %s" % (d, idd, mdd)))
        elif t[11] != "same":
            c.probs.append(("corr", "model-vs-spec", "the model's arg-max description differs from its index-list form: %s" % c.st["descr_line"]))
    for c, d in zip(todo, dout):
        c.dout = d
        try:
            if d in ("bad-args", "bad-op"):
                raise ValueError("driver rejected the line")
            BY_OP[c.op][3](c, stats)
        except (ValueError, IndexError) as e:
            c.probs.append(("corr", "driver-output-malformed", "%s: unreadable model output (%s): %s" % (c.op, e, d[:80])))
    # the model's sample-shape function (the bookkeeping that was defective) against the implementation's dimensions
    shape_bad = []
    for ln, d in zip(shape_lines, dout[len(todo):len(todo) + len(shape_lines)]):
        t, o = ln.split(), d.split()
        if not (o and o[0] == "ok" and int(o[1]) == 2 * int(t[1]) and int(o[2]) == int(t[2]) and int(o[3]) == 2 * int(t[1]) * int(t[2])):
            shape_bad.append((ln, d))
    # stage 2c: the same inputs through a plain optimised build (no sanitizer, NDEBUG): address reuse and
    # optimisation-dependent paths the instrumented build hides.  Only inputs on which the instrumented run was
    # clean are replayed (with NDEBUG an out-of-range access would be silent undefined behaviour).
    opt_n = 0
    if not ctx.replay:
        import copy
        obin = build_opt_harness()
        sub = [c for c in cases if not c.probs and c.op not in ("lti_state", "lti_meas", "linmodel") and not (c.hout or "").startswith("crash")]
        if ctx.quick():
            sub = sub[::2]
        oout, ologs = vlib.run_harness(obin, [c.line for c in sub], env={"ASAN_OPTIONS": ""})
        opt_n = len(sub)
        for c, h in zip(sub, oout):
            c2 = Case(c.op, c.line, copy.deepcopy(c.meta))
            c2.hout = h
            try:
                BY_OP[c.op][2](c2, {})
            except (ValueError, IndexError, OverflowError) as e:
                c2.probs.append(("prop", "impl-output-not-finite", "%s: unreadable output of the optimised build (%s): %s" % (c.op, e, h[:80])))
            for kind, k, w in c2.probs:
                if kind == "prop":
                    c.probs.append(("prop", k, "[plain -O2 build, no sanitizer] " + w))
    # decision
    prop_bad = [(c, k, w) for c in cases for (kind, k, w) in c.probs if kind == "prop"]
    corr_bad = [(c, k, w) for c in cases for (kind, k, w) in c.probs if kind == "corr"]
    seen = set()
    for c, key, what in prop_bad:
        if key in seen:
            continue
        seen.add(key)
        ctx.violation(key, what, {"harness": "h_models", "input_line": c.line, "meta": c.meta, "observed": (c.hout or "")[:3000],
                                  "crash_log": logs.get(cases.index(c), "")[-1500:] if (c.hout or "").startswith("crash") else ""})
    if (corr_bad or shape_bad) and not prop_bad:
        if corr_bad:
            c, key, what = corr_bad[0]
            ctx.violation("correspondence:" + key, "model and implementation disagree (%d cases), no property predicate failed: %s" % (len(corr_bad), what),
                          {"harness": "h_models", "correspondence": c.op, "input_line": c.line, "meta": c.meta, "driver_line": (c.dline or "")[:3000],
                           "observed": (c.hout or "")[:2000], "model": (c.dout or "")[:2000]}, no_input=True)
        else:
            ctx.violation("correspondence:sample-shape", "the model's sample-shape function disagrees: %s" % (shape_bad[0],), {"lines": shape_bad[:5]}, no_input=True)
    # coverage
    hist = {}
    for c in cases:
        k = c.op + (":" + str(c.meta.get("cls") or c.meta.get("style") or "")).rstrip(":")
        hist[k] = hist.get(k, 0) + 1
    br = {}
    for c in cases:
        if c.op == "wna_motion":
            k = "propagate skip=%d exo=%d exoskip=%d" % c.meta["br"]
            br[k] = br.get(k, 0) + 1
        if c.op in ("wna_fq", "wna_samp", "wna_motion", "wna_trans"):
            k = "Dim %d" % c.meta["d"]
            br[k] = br.get(k, 0) + 1
    notes = {}
    for c in cases:
        for nt in c.notes:
            k = nt.split(" for ")[0][:90]
            notes[k] = notes.get(k, 0) + 1
    def trivial(c):
        return c.op in ("lti_state", "lti_meas") or (c.op == "linmodel" and len(c.meta["idx"]) == 0)
    distinct_nontrivial = len({c.line for c in cases if not trivial(c)})
    ctx.coverage.update({
        "evaluations": len(cases), "distinct_nontrivial": distinct_nontrivial,
        "rule": "one case = one call sequence on one object of the shipped models (constructed from generated parameters); distinct = distinct input lines; "
                "trivial = pure shape queries of the two LTI constructors and empty index lists; "
                "sections: F/Q over Dim x (T,q) adversarial+random; noise samples (counts 0..4, twin generators, factor recovered from a probe call); "
                "motion over the branches of propagate; transition density on batches with distinct columns; constructors over ALL pairs of shapes with rows, columns in 0..6 plus larger element-count coincidences (4x4 vs 2x8, 1x16; 6x6 vs 4x9, ...); "
                "LinearModel over all index lists (length <= %d, values 0..n+1, n <= 5) + permutations + R shapes; SimulatedStateModel over all call sequences "
                "of length <= %d on a 2-state trajectory + random longer ones (lengths 0..6); SimulatedLinearSensor call sequences; grid over nx,ny in 2..6"
                % (ctx.n(3, 5), ctx.n(5, 7)),
        "samples": [cases[0].line[:300], cases[len(cases) // 2].line[:300], cases[-1].line[:300]],
        "section_sizes": per_section, "case_histogram": hist, "model_branches_hit": dict(br, **{k: v for k, v in stats.items() if isinstance(v, dict)}),
        "numeric": {k: v for k, v in stats.items() if not isinstance(v, dict)},
        "traces_validated_against_impl": len(todo), "cases_repeated_on_plain_optimised_build": opt_n,
        "exhaustive": not ctx.replay,
        "exhaustive_bound": "every pair of shapes (r1 x c1, r2 x c2) with r, c in 0..%d for LTIStateModel, LTIMeasurementModel and LinearModel "
                            "(accept/reject compared with lti_ctor_iff / linear_H_selects for each), every Dim, and the finite sub-spaces listed under "
                            "exhaustive_subspaces; T, q, states, seeds and long call sequences are sampled" % SHAPE_BOUND,
        "exhaustive_subspaces": {"Dim": [1, 2, 3], "lti_state_shapes": "all (fr, fc, qr, qc) in 0..6 ^ 4 + %d larger coincidences" % len(BIG_SHAPES),
                       "lti_meas_shapes": "all (hr, hc, rr, rc) in 0..6 ^ 4 + larger", "linear_model_shapes": "all (m, n, rr, rc) in 0..6 ^ 4 + larger",
                       "linear_index_lists": "n 0..5, length 0..%d, values 0..n+1" % ctx.n(3, 5),
                       "sim_call_sequences": "alphabet {bufferData,getData,reset,other}, length 0..%d, L = 2" % ctx.n(5, 7),
                       "grid_sizes": "nx, ny in 2..6", "sample_counts": "0..4 for every Dim"},
        "model_vs_impl_disagreements": len(corr_bad) + len(shape_bad), "property_failures_on_impl": len(prop_bad),
        "sanitizer_crashes": len(logs), "unpromised_differences_noted": notes,
        "draw_fill_order_observed": dict(FILL), "candidate_findings": dict(CANDIDATES),
    })
    ctx.notes += ["%s (x%d)" % (k, v) for k, v in sorted(notes.items())][:10]
    ctx.notes += ["candidate finding %s: %s (x%d)" % (k, v["what"], v["count"]) for k, v in CANDIDATES.items()]
    ctx.assumptions += [
        "floating point: F compared exactly, Q within 16 eps relative, samples/motion within 256 n eps cond(probe draws) scaled entry-wise, "
        "log-density within 1e-12 cond(Q) (1 + quad) + 1e-11 (1 + |log p|), grid positions within 16 eps (|inf| + |sup|)",
        "std::mt19937_64 + std::normal_distribution produce i.i.d. standard normal draws determined by the seed (twin generator in lock-step observes the values)",
        "Eigen LDL^T returns some S with S S^T = Q (checked numerically on the factor recovered from every probe call)",
        "grid sizes >= 2 per axis (the code divides by nx - 1, ny - 1); state dimension 4 for the grid (other sizes are refused)",
    ]
