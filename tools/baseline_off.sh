#!/bin/sh
# Pinned test suite with the BFL_VERIF guard OFF, in its own build directory.
set -e
B="$(cd "$(dirname "$0")/.." && pwd)/build/baseline"
mkdir -p "$B"
cmake -S /repo -B "$B" -G Ninja -DCMAKE_BUILD_TYPE=RelWithDebInfo -DBUILD_TESTING=ON -DCMAKE_CXX_FLAGS=-Wno-error > "$B/configure.log" 2>&1
ninja -C "$B" > "$B/build.log" 2>&1 || { tail -50 "$B/build.log"; exit 1; }
ctest --test-dir "$B" -j8 --timeout 900 --output-junit "$B/junit.xml"
