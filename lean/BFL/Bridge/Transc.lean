import BFL.Core.Transc
import Mathlib.Analysis.SpecialFunctions.Trigonometric.Inverse
import Mathlib.Analysis.SpecialFunctions.Log.Basic
import Mathlib.Analysis.SpecialFunctions.Complex.Arg
import Mathlib.Analysis.SpecialFunctions.Sqrt
/-
The real-number reading of `Transc`.
-/
namespace BFL

noncomputable instance : Transc ℝ where
  exp := Real.exp
  log := Real.log
  sqrt := Real.sqrt
  sin := Real.sin
  cos := Real.cos
  acos := Real.arccos
  atan2 := fun y x => Complex.arg ⟨x, y⟩
  pi := Real.pi

@[simp] theorem transc_exp (x : ℝ) : Transc.exp x = Real.exp x := rfl
@[simp] theorem transc_log (x : ℝ) : Transc.log x = Real.log x := rfl
@[simp] theorem transc_sqrt (x : ℝ) : Transc.sqrt x = Real.sqrt x := rfl
@[simp] theorem transc_sin (x : ℝ) : Transc.sin x = Real.sin x := rfl
@[simp] theorem transc_cos (x : ℝ) : Transc.cos x = Real.cos x := rfl
@[simp] theorem transc_acos (x : ℝ) : Transc.acos x = Real.arccos x := rfl
@[simp] theorem transc_atan2 (y x : ℝ) : Transc.atan2 y x = Complex.arg ⟨x, y⟩ := rfl
@[simp] theorem transc_pi : (Transc.pi : ℝ) = Real.pi := rfl

end BFL
