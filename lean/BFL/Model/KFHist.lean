import BFL.Model.KF
import BFL.Model.KFLik
/-
Model of a Kalman filter *history*: the composition a `GaussianFilter` runs in its
`filtering_step` (test/test_KF/main.cpp and every Gaussian filter shipped with the library):

    prediction().predict(corrected_state_, predicted_state_);
    correction().freeze_measurements();
    correction().correct(predicted_state_, corrected_state_);

with `KFPrediction` + `KFCorrection`, including the dispatch in front of the steps

  GaussianPrediction::predict    (skip_  ⇒  pred_state = prev_state)
  KFPrediction::predictStep      (state model skipping ⇒ pred_state = prev_state)
  LinearStateModel::propagate    (exogenous model absent / skipping ⇒ F x, else F x + exogenous(x))
  GaussianCorrection::correct    (skip_  ⇒  corr_state = pred_state)
  KFCorrection::correctStep      (measure() reports no measurement ⇒ corr_state = pred_state)
  KFCorrection::getLikelihood    (members innovations_, meas_covariances_: written only by a
                                  correctStep that went through; empty before the first one)

and the measurement-model plumbing the correction goes through

  LinearMeasurementModel::predictedMeasure / innovation   (batch of columns)
  LTIMeasurementModel::LTIMeasurementModel                (the four constructor checks, in order)

(`MeasurementModelDecorator` is not part of the library build — absent from CMakeLists, its header
does not compile — so it cannot be tied and is not modelled.)
-/
namespace BFL

/-- What the (possibly time-varying) linear measurement model answers during one filtering step. -/
structure KFMeas (α : Type) (n : Nat) where
  m : Nat
  H : Mat α m n
  R : Mat α m m
  y : Vec α m

/-- One filtering step as the filter sees it: the content of the state model, the three skip flags
    in front of the prediction, what the measurement model delivers (`none`: `measure()` returns
    `false`), the skip flag of the correction. -/
structure KFHStep (α : Type) (n : Nat) where
  F : Mat α n n
  Q : Mat α n n
  exo : Option (Vec α n → Vec α n)
  skipPred : Bool
  skipState : Bool
  skipExo : Bool
  meas : Option (KFMeas α n)
  skipCorr : Bool

/-- The state a Kalman `GaussianFilter` carries between steps: `predicted_state_`,
    `corrected_state_`, and what `KFCorrection` keeps for `getLikelihood()` (the measurement model
    answers and the predicted belief of the last `correctStep` that went through). -/
structure KFFilter (α : Type) (n k : Nat) where
  pred : GM α n k
  corr : GM α n k
  last : Option (KFMeas α n × GM α n k)

section
variable {α : Type} [Add α] [Sub α] [Mul α] [Zero α] [Inhabited α] {n k : Nat}

/-- the exogenous contribution `LinearStateModel::propagate` adds when the state model is not skipping -/
def KFHStep.effExo (s : KFHStep α n) : Option (Vec α n → Vec α n) :=
  if s.skipExo then none else s.exo

/-- `GaussianPrediction::predict` → `KFPrediction::predictStep`. -/
def kfGaussPredict (s : KFHStep α n) (prev out : GM α n k) : GM α n k :=
  if s.skipPred then prev
  else if s.skipState then prev
  else kfPredict s.F s.Q s.effExo prev out

/-- `GaussianCorrection::correct` → `KFCorrection::correctStep`. -/
def kfGaussCorrect (inv : (m : Nat) → Mat α m m → Mat α m m) (s : KFHStep α n) (pred out : GM α n k) : GM α n k :=
  if s.skipCorr then pred
  else match s.meas with
    | none => pred
    | some z => kfCorrect (inv z.m) z.H z.R z.y pred out

/-- what `KFCorrection` remembers after the step -/
def kfLastAfter (s : KFHStep α n) (p : GM α n k) (old : Option (KFMeas α n × GM α n k)) :
    Option (KFMeas α n × GM α n k) :=
  if s.skipCorr then old
  else match s.meas with
    | none => old
    | some z => some (z, p)

/-- One `filtering_step`. -/
def kfFilterStep (inv : (m : Nat) → Mat α m m → Mat α m m) (st : KFFilter α n k) (s : KFHStep α n) : KFFilter α n k :=
  let p := kfGaussPredict s st.corr st.pred
  { pred := p
    corr := kfGaussCorrect inv s p st.corr
    last := kfLastAfter s p st.last }

/-- A whole history. -/
def kfFilterRun (inv : (m : Nat) → Mat α m m → Mat α m m) (st : KFFilter α n k) (steps : List (KFHStep α n)) : KFFilter α n k :=
  steps.foldl (kfFilterStep inv) st

/-- Every state the filter goes through (after step 1, 2, …). -/
def kfFilterTrace (inv : (m : Nat) → Mat α m m → Mat α m m) (st : KFFilter α n k) : List (KFHStep α n) → List (KFFilter α n k)
  | [] => []
  | s :: rest => kfFilterStep inv st s :: kfFilterTrace inv (kfFilterStep inv st s) rest

/-- Materialise a belief (what assigning into the `GaussianMixture` members does); `b.eval = b`. -/
def GM.eval (b : GM α n k) : GM α n k :=
  let ms : Vec (Vec α n) k := @Vec.eval _ _ ⟨Vec.of fun _ => default⟩ (Vec.of fun i => Vec.eval (b.mean i))
  let cs : Vec (Mat α n n) k := @Vec.eval _ _ ⟨Mat.of fun _ _ => default⟩ (Vec.of fun i => Mat.eval (b.cov i))
  { mean := fun i => ms i, cov := fun i => cs i, weight := Vec.eval b.weight }

omit [Add α] [Sub α] [Mul α] [Zero α] in
theorem GM.eval_eq (b : GM α n k) : b.eval = b := by
  simp [GM.eval]

/-- One `filtering_step` with the resulting beliefs materialised (the executable form). -/
def kfFilterStepE (inv : (m : Nat) → Mat α m m → Mat α m m) (st : KFFilter α n k) (s : KFHStep α n) : KFFilter α n k :=
  let r := kfFilterStep inv st s
  let p := r.pred.eval
  { pred := p, corr := r.corr.eval, last := kfLastAfter s p st.last }

theorem kfFilterStepE_eq (inv : (m : Nat) → Mat α m m → Mat α m m) (st : KFFilter α n k) (s : KFHStep α n) :
    kfFilterStepE inv st s = kfFilterStep inv st s := by
  simp [kfFilterStepE, kfFilterStep, GM.eval_eq]

/-- The filter as constructed: nothing remembered for the likelihood. -/
def kfFilterInit (pred0 corr0 : GM α n k) : KFFilter α n k := { pred := pred0, corr := corr0, last := none }

end

section
variable {α : Type} [Add α] [Sub α] [Mul α] [Div α] [Neg α] [Zero α] [One α] [Inhabited α] [DecidableEq α]
  [Transc α] {n k : Nat}

/-- `KFCorrection::getLikelihood()`: not available (`(false, _)`) while no `correctStep` went
    through; afterwards one density per component from the remembered innovations and covariances. -/
def kfGetLikelihood (invD : InvFn α) (st : KFFilter α n k) : Option (Fin k → α) :=
  st.last.map fun zb => fun i => kfLikelihood invD zb.1.H zb.1.R zb.1.y zb.2 i

end

section
variable {α : Type} [Add α] [Sub α] [Mul α] [Neg α] [Zero α] [Inhabited α] {n m k c : Nat}

/-- `LinearMeasurementModel::predictedMeasure`: `H * cur_states`, always valid. -/
def linPredictedMeasure (H : Mat α m n) (X : Mat α n k) : Mat α m k := H.mul X

/-- `LinearMeasurementModel::innovation`: `-(predicted.colwise() - measurements.col(0))`. -/
def linInnovation (pred : Mat α m k) (meas : Mat α m (c + 1)) : Mat α m k :=
  Mat.of fun i j => -(pred i j - meas i 0)

/-- the means of a mixture as the batch of columns `pred_state.mean()` -/
def GM.meanBatch (b : GM α n k) : Mat α n k := Mat.of fun r i => b.mean i r

end

/-- Outcome of `LTIMeasurementModel(measurement_matrix, noise_covariance_matrix)`; the constructor
    tests the shapes in this order and throws at the first failing test. -/
inductive LTICtor
  | ok | measEmpty | noiseEmpty | noiseNotSquare | rowsMismatch
  deriving DecidableEq, Repr

def ltiMeasCtor (hr hc rr rc : Nat) : LTICtor :=
  if hr == 0 || hc == 0 then .measEmpty
  else if rr == 0 || rc == 0 then .noiseEmpty
  else if rr != rc then .noiseNotSquare
  else if hr != rr then .rowsMismatch
  else .ok

end BFL
