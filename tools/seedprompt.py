#!/usr/bin/env python3
"""Print the prompt handed to an independent seeding sub-agent.

    python3 tools/seedprompt.py <Cxx> <seed name, e.g. C07-r4-1> <scratch dir, e.g. /tmp/seed4/C07-r4-1>

The seeder gets only the text of the property, a scratch worktree of /repo, and one line per change
already seeded against the property in earlier rounds (so that it proposes a different mechanism).  It
gets nothing about how /verif checks the property."""
import json, os, sys, glob
V = os.path.dirname(os.path.dirname(os.path.abspath(__file__)))

T = """You are a careful C++ engineer helping to evaluate a verification effort by *seeding a realistic defect*. You work ONLY inside your own scratch git worktree of the library robotology/bayes-filters-lib (C++11/Eigen, recursive Bayesian filters) at

    {wt}/repo        (create it first:  mkdir -p {wt} && git -C /repo worktree add --detach {wt}/repo HEAD)

Never edit, commit or apply anything in /repo itself, and do not read or touch /verif (you must work independently of it). No network. Eigen headers: /usr/include/eigen3.

THE PROPERTY (this text is all you are given about what must hold):

{prop}

YOUR TASK: produce ONE change to the library source (src/BayesFilters/...) that BREAKS this property, while
  (a) the library and its tests still compile,
  (b) the 13 shipped tests still pass (build: `cd {wt}/repo && cmake -S . -B _b -G Ninja -DBUILD_TESTING=ON -DCMAKE_BUILD_TYPE=RelWithDebInfo -DCMAKE_CXX_FLAGS=-Wno-error >/dev/null && ninja -C _b`; run: `ctest --test-dir _b -j8 --timeout 900`),
  (c) the change looks like something a maintainer could plausibly commit (an "optimisation", a refactoring, a fast path, a cached value, a tidied-up special member function, a new guard, a tolerance, reordered statements, a changed container, …) — not sabotage, no dead giveaways, no comments pointing at it,
  (d) it needs something SPECIFIC to manifest: a particular interleaving, a fault at a particular point, a multi-step sequence of operations on one object, an unusual-but-legal input (size, scale, degenerate value, boundary), or two cooperating sites that each look fine alone. A change that ordinary use exposes at once is not wanted.
Stay inside what the property quantifies over: the failing situation must be one the property's statement and quantifier really cover (read them closely), so that the property as written is unambiguously violated by your change and unambiguously satisfied without it.

Changes ALREADY used against this property in earlier rounds — propose a DIFFERENT mechanism and a different triggering situation from all of these:
{prev}

DELIVERABLES, all in {wt}/out/ :
  patch.diff      `git -C {wt}/repo diff` of your change (source files only; must apply with `git apply` to a clean checkout of HEAD)
  demo.cpp        a small self-contained program using the library's public API that exits 0 when the property holds on the situation it exercises and exits non-zero (printing what went wrong) when it does not. It must exit non-zero WITH your change and 0 WITHOUT it — deterministically (fix seeds; if threads are involved make the interleaving deterministic, e.g. through overridden virtual hooks, not sleeps alone).
  build_demo.sh   exactly this form (edit only if you need extra flags such as -fsanitize=thread):
      #!/bin/sh
      # usage: build_demo.sh <library build dir>
      set -e
      here="$(cd "$(dirname "$0")" && pwd)"
      b="$(cd "$1" && pwd)"
      g++ -std=c++11 -O1 -g -Wno-deprecated-declarations -I{wt}/repo/src/BayesFilters/include -I"$b/src/BayesFilters/include" -I"$b/src/BayesFilters" -I/usr/include/eigen3 "$here/demo.cpp" -o "$here/demo" -L"$b/lib" -lBayesFilters -Wl,-rpath,"$b/lib" -pthread
  meta.json       {{"property": "{pid}", "description": "<what you changed and why it breaks the property>", "needs_to_manifest": "<the specific situation needed>", "files_touched": [...]}}

CONFIRM IT YOURSELF before reporting: with the change applied — build, all 13 tests pass, demo exits non-zero; with the change reverted (`git -C {wt}/repo checkout -- .`, rebuild) — demo exits 0. Leave the worktree with the change REVERTED and remove the build directory `{wt}/repo/_b` when you are done (keep {wt}/out). Do not remove the worktree itself.

Your final message: three or four lines — the mechanism, what it needs to manifest, and the confirmed exit codes (with / without). If after a serious effort you cannot find a change that satisfies (a)–(d) for this property, say so plainly rather than delivering a weak one."""


def main():
    pid, name, wt = sys.argv[1:4]
    prop = None
    for l in open(os.path.join(V, "properties.jsonl")):
        p = json.loads(l)
        if p["id"] == pid:
            prop = p
    txt = "  id: %s\n  title: %s\n  statement: %s\n  quantifier: %s (over: %s)\n  why the shipped tests cannot settle it: %s\n  code it is anchored in: %s\n  mechanisms: %s\n  observable at: %s" % (
        prop["id"], prop["title"], prop["statement"], prop["quantifier"]["text"], ", ".join(prop["quantifier"]["over"]), prop["why_tests_cant"],
        ", ".join(prop["anchors"]["files"]), "; ".join("%s (%s)" % (m["name"], m["where"]) for m in prop["anchors"].get("mechanism", [])),
        "; ".join(prop["anchors"].get("observe_at", [])))
    prev = []
    for d in sorted(glob.glob(os.path.join(V, "seeded", pid + "-*"))):
        m = json.load(open(os.path.join(d, "meta.json")))
        if m.get("kind") == "harmless":
            continue
        desc = " ".join((m.get("description") or "").split())
        prev.append("  - " + desc[:420])
    print(T.format(wt=wt, prop=txt, prev="\n".join(prev) or "  (none)", pid=pid))


if __name__ == "__main__":
    main()
