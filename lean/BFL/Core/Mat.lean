/-
Core matrix vocabulary of the model.  No Mathlib: this file is linked into the
`bfl_driver` executable.  Everything is polymorphic in the scalar type `α`; the
same text is read over `Rat` (exact execution), `Float` (transcendental kernels)
and `ℝ` (theorems, through `BFL.Bridge`).

`Mat α r c` wraps a function `Fin r → Fin c → α` (Mathlib's `Matrix (Fin r) (Fin c) α`) in a
structure.  The wrapper matters only for execution: a structure value is built once,
whereas a bare function-typed definition is re-run on every entry access by compiled code.
-/
namespace BFL

/-- Sum of `f 0 + … + f (k-1)` written as the left fold the C++ loops perform. -/
@[inline] def fsum {α : Type} [Add α] [Zero α] (k : Nat) (f : Fin k → α) : α :=
  Fin.foldl k (fun acc l => acc + f l) 0

/- The `tag` field keeps the structure from being a "trivial structure" for the compiler
   (a one-field structure is erased to its field, i.e. to a bare function, and is then re-run
   on every entry access).  It carries no information: `Unit` has one element. -/
structure Mat (α : Type) (r c : Nat) where
  get : Fin r → Fin c → α
  tag : Unit

structure Vec (α : Type) (n : Nat) where
  get : Fin n → α
  tag : Unit

def Mat.of {α : Type} {r c : Nat} (f : Fin r → Fin c → α) : Mat α r c := ⟨f, ()⟩
def Vec.of {α : Type} {n : Nat} (f : Fin n → α) : Vec α n := ⟨f, ()⟩

instance {α : Type} {r c : Nat} : CoeFun (Mat α r c) (fun _ => Fin r → Fin c → α) := ⟨Mat.get⟩
instance {α : Type} {n : Nat} : CoeFun (Vec α n) (fun _ => Fin n → α) := ⟨Vec.get⟩

namespace Mat
variable {α : Type} {r c k : Nat}

@[ext] theorem ext {A B : Mat α r c} (h : ∀ i j, A i j = B i j) : A = B := by
  cases A; cases B; congr; funext i j; exact h i j

@[simp] theorem of_apply (f : Fin r → Fin c → α) (i : Fin r) (j : Fin c) : (Mat.of f) i j = f i j := rfl

def zero [Zero α] : Mat α r c := .of (fun _ _ => 0)
def one [Zero α] [One α] : Mat α r r := .of (fun i j => if i = j then 1 else 0)
def add [Add α] (A B : Mat α r c) : Mat α r c := .of (fun i j => A i j + B i j)
def sub [Sub α] (A B : Mat α r c) : Mat α r c := .of (fun i j => A i j - B i j)
def neg [Neg α] (A : Mat α r c) : Mat α r c := .of (fun i j => - A i j)
def smul [Mul α] (s : α) (A : Mat α r c) : Mat α r c := .of (fun i j => s * A i j)
def transpose (A : Mat α r c) : Mat α c r := .of (fun i j => A j i)

/-- Memoise: the entries are computed once into an array (what the C++ does when it assigns
    an expression to a `MatrixXd`).  `eval A = A`. -/
def eval [Inhabited α] (A : Mat α r c) : Mat α r c :=
  let arr : Array (Array α) := Array.ofFn (fun i : Fin r => Array.ofFn (fun j : Fin c => A i j))
  .of (fun i j => (arr[i.val]!)[j.val]!)

@[simp] theorem eval_eq [Inhabited α] (A : Mat α r c) : eval A = A := by
  ext i j
  simp [eval]

/-- Matrix product; the result is materialised (see `eval`). -/
def mul [Add α] [Mul α] [Zero α] [Inhabited α] (A : Mat α r k) (B : Mat α k c) : Mat α r c :=
  eval (.of (fun i j => fsum k (fun l => A i l * B l j)))

theorem mul_apply [Add α] [Mul α] [Zero α] [Inhabited α] (A : Mat α r k) (B : Mat α k c) (i : Fin r) (j : Fin c) :
    mul A B i j = fsum k (fun l => A i l * B l j) := by
  simp [mul]

@[simp] theorem zero_apply [Zero α] (i : Fin r) (j : Fin c) : (zero : Mat α r c) i j = 0 := rfl
@[simp] theorem one_apply [Zero α] [One α] (i j : Fin r) : (one : Mat α r r) i j = if i = j then 1 else 0 := rfl
@[simp] theorem add_apply [Add α] (A B : Mat α r c) (i : Fin r) (j : Fin c) : add A B i j = A i j + B i j := rfl
@[simp] theorem sub_apply [Sub α] (A B : Mat α r c) (i : Fin r) (j : Fin c) : sub A B i j = A i j - B i j := rfl
@[simp] theorem neg_apply [Neg α] (A : Mat α r c) (i : Fin r) (j : Fin c) : neg A i j = - A i j := rfl
@[simp] theorem smul_apply [Mul α] (s : α) (A : Mat α r c) (i : Fin r) (j : Fin c) : smul s A i j = s * A i j := rfl
@[simp] theorem transpose_apply (A : Mat α r c) (i : Fin c) (j : Fin r) : transpose A i j = A j i := rfl

def toList (A : Mat α r c) : List α :=
  (List.finRange r).flatMap fun i => (List.finRange c).map fun j => A i j

end Mat

namespace Vec
variable {α : Type} {n : Nat}

@[ext] theorem ext {u v : Vec α n} (h : ∀ i, u i = v i) : u = v := by
  cases u; cases v; congr; funext i; exact h i

@[simp] theorem of_apply (f : Fin n → α) (i : Fin n) : (Vec.of f) i = f i := rfl

def zero [Zero α] : Vec α n := .of (fun _ => 0)
def add [Add α] (u v : Vec α n) : Vec α n := .of (fun i => u i + v i)
def sub [Sub α] (u v : Vec α n) : Vec α n := .of (fun i => u i - v i)
def neg [Neg α] (u : Vec α n) : Vec α n := .of (fun i => - u i)
def smul [Mul α] (s : α) (u : Vec α n) : Vec α n := .of (fun i => s * u i)
def dot [Add α] [Mul α] [Zero α] (u v : Vec α n) : α := fsum n (fun i => u i * v i)

@[simp] theorem zero_apply [Zero α] (i : Fin n) : (zero : Vec α n) i = 0 := rfl
@[simp] theorem add_apply [Add α] (u v : Vec α n) (i : Fin n) : add u v i = u i + v i := rfl
@[simp] theorem sub_apply [Sub α] (u v : Vec α n) (i : Fin n) : sub u v i = u i - v i := rfl
@[simp] theorem neg_apply [Neg α] (u : Vec α n) (i : Fin n) : neg u i = - u i := rfl
@[simp] theorem smul_apply [Mul α] (s : α) (u : Vec α n) (i : Fin n) : smul s u i = s * u i := rfl

def eval [Inhabited α] (v : Vec α n) : Vec α n :=
  let arr : Array α := Array.ofFn (fun i : Fin n => v i)
  .of (fun i => arr[i.val]!)

@[simp] theorem eval_eq [Inhabited α] (v : Vec α n) : eval v = v := by
  ext i
  simp [eval]

def toList (v : Vec α n) : List α := (List.finRange n).map v.get
end Vec

namespace Mat
variable {α : Type} {r c : Nat}
/-- Matrix–vector product; the result is materialised. -/
def mulVec [Add α] [Mul α] [Zero α] [Inhabited α] (A : Mat α r c) (v : Vec α c) : Vec α r :=
  Vec.eval (.of (fun i => fsum c (fun l => A i l * v l)))

theorem mulVec_apply [Add α] [Mul α] [Zero α] [Inhabited α] (A : Mat α r c) (v : Vec α c) (i : Fin r) :
    mulVec A v i = fsum c (fun l => A i l * v l) := by
  simp [mulVec]

def col (A : Mat α r c) (j : Fin c) : Vec α r := .of (fun i => A i j)
def row (A : Mat α r c) (i : Fin r) : Vec α c := .of (fun j => A i j)
end Mat

end BFL
